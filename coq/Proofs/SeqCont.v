(* Proofs/SeqCont.v — gradient continuity (C05) of the block table built by add_block / set_block
   (Model/Seq.v), for the repaired alignment comparison (abs_fix = true).

   A. check_channel_iff / check_channel_first_iff : the per-channel check accepts exactly when
      channel_rules holds; align_rule_sign_symmetric; align_refuted_without_fix.
   B. table_inv, table_inv_init, step_table_inv.
   C. step_cont_partial, cont_reachable_partial : Cont is an invariant of every history of
      block_op_ok operations PROVIDED stand-alone RegGrad calls do not pass a one-element shape-id
      list ([reg_ok]) and the gradient library is well formed ([gwf], which holds initially and is
      preserved).  Without [reg_ok] both statements are false: cont_reachable_refuted,
      step_cont_refuted (a 'g' row whose key has the length of a trapezoid key is found by a later
      by-value trapezoid registration; its stored "last" is then an IndexError).
   D. cont_example. *)
From Coq Require Import List Bool ZArith QArith Qcanon Lia Lqa.
From RecordUpdate Require Import RecordSet.
From PV Require Import Base.AList Base.QUtil Model.EventLib Model.Seq Proofs.SeqSpec.
Import ListNotations RecordSetNotations.
Open Scope Z_scope.

(* ==== rational helpers ==== *)
(* ---- rational helpers ---- *)
Lemma qc0_zero : qc0 = 0%Qc.
Proof. reflexivity. Qed.

Lemma Qcabs'_opp (x : Qc) : Qcabs' (- x)%Qc = Qcabs' x.
Proof.
  unfold Qcabs', Qcleb.
  destruct (Qle_bool (this qc0) (this x)) eqn:E1;
  destruct (Qle_bool (this qc0) (this (- x)%Qc)) eqn:E2.
  - apply Qle_bool_iff in E1. apply Qle_bool_iff in E2.
    apply Qc_is_canon. cbn [this Qcopp Q2Qc] in *. rewrite Qred_correct in *.
    change (this qc0) with 0%Q in *. lra.
  - apply Qcopp_involutive.
  - reflexivity.
  - exfalso.
    assert (A1 : ~ (this qc0 <= this x)%Q) by (intro H; apply Qle_bool_iff in H; congruence).
    assert (A2 : ~ (this qc0 <= this (- x)%Qc)%Q) by (intro H; apply Qle_bool_iff in H; congruence).
    cbn [this Qcopp Q2Qc] in *. rewrite Qred_correct in *.
    change (this qc0) with 0%Q in *. lra.
Qed.

Lemma Qcabs'_minus_sym (a b : Qc) : Qcabs' (a - b)%Qc = Qcabs' (b - a)%Qc.
Proof. replace (a - b)%Qc with (- (b - a))%Qc by ring. apply Qcabs'_opp. Qed.

Lemma Qcabs'_zero_minus (x : Qc) : Qcabs' (qc0 - x)%Qc = Qcabs' x.
Proof. rewrite qc0_zero. replace (0 - x)%Qc with (- x)%Qc by ring. apply Qcabs'_opp. Qed.

Lemma within_step_sym c a b : within_step c (a - b)%Qc <-> within_step c (b - a)%Qc.
Proof. unfold within_step. rewrite Qcabs'_minus_sym. tauto. Qed.

Lemma within_step_zero_minus c x : within_step c (qc0 - x)%Qc <-> within_step c x.
Proof. unfold within_step. rewrite Qcabs'_zero_minus. tauto. Qed.

Lemma within_step_opp c x : within_step c (- x)%Qc <-> within_step c x.
Proof. unfold within_step. rewrite Qcabs'_opp. tauto. Qed.

(* ==== A. the per-channel check: soundness and completeness of acceptance ==== *)
Theorem check_channel_iff : forall c i dur ch k prev next,
  1 < next_block c -> neighbours c i = Some (prev, next) ->
  (check_channel true c i dur ch k = None <-> channel_rules c i dur ch k prev next).
Proof.
  intros c i dur ch k prev next Hnb Hn.
  unfold check_channel, channel_rules, within_step, edge, step_of.
  assert (Hlt : (1 <? next_block c) = true) by (apply Z.ltb_lt; exact Hnb).
  rewrite Hlt, Hn.
  set (stp := (max_slew c * sys_raster c)%Qc).
  set (lastv := match prev with Some p => edge_value c (blk_field c p (2 + ch)) 5 | None => Some qc0 end).
  destruct (Qcltb stp (Qcabs' (ck_first k))) eqn:E1;
  destruct (Qcltb (eps_ c) (ck_start_t k)) eqn:E2; cbn [andb].
  1: { split; [discriminate|]. intros [[H|H] _]; discriminate. }
  all: destruct lastv as [lv|] eqn:Elv;
    [| split; [discriminate| intros [_ [[lv' [H _]] _]]; discriminate] ].
  all: destruct (Qcltb stp (Qcabs' (lv - ck_first k))) eqn:E3;
    [ split; [discriminate| intros [_ [[lv' [H H']] _]]; injection H as <-; congruence] |].
  all: destruct next as [n|].
  all: try (destruct (edge_value c (blk_field c n (2 + ch)) 4) as [fv|] eqn:Efv;
    [| split; [discriminate| intros [_ [_ [[fv' [H _]] _]]]; discriminate] ];
    destruct (Qcltb stp (Qcabs' (fv - ck_last k))) eqn:E4;
    [ split; [discriminate| intros [_ [_ [[fv' [H H']] _]]]; injection H as <-; congruence] |]).
  all: destruct (Qcltb stp (Qcabs' (ck_last k))) eqn:E5;
       destruct (Qcltb (Q2Qc (1 # 10000000)) (Qcabs' (ck_stop_t k - dur))) eqn:E6; cbn [andb].
  all: split; [ try discriminate; intros _ | try reflexivity; intros [_ [_ [_ [H|H]]]]; discriminate ].
  all: repeat split; eauto.
Qed.
Print Assumptions check_channel_iff.

(* ==== A. first block, sign symmetry of the alignment rule, the repaired defect ==== *)
Theorem check_channel_first_iff : forall c i dur ch k,
  next_block c <= 1 ->
  (check_channel true c i dur ch k = None <->
   (within_step c (ck_first k) /\
    (within_step c (ck_last k) \/
     Qcltb (Q2Qc (1 # 10000000)) (Qcabs' (ck_stop_t k - dur)%Qc) = false))).
Proof.
  intros c i dur ch k Hnb.
  unfold check_channel, within_step, step_of.
  assert (Hlt : (1 <? next_block c) = false) by (apply Z.ltb_ge; exact Hnb).
  rewrite Hlt.
  set (stp := (max_slew c * sys_raster c)%Qc).
  destruct (Qcltb stp (Qcabs' (ck_first k))) eqn:E1; cbn [andb].
  - destruct (Qcltb (eps_ c) (ck_start_t k)); split; try discriminate; intros [H _]; discriminate.
  - destruct (Qcltb stp (Qcabs' (ck_last k))) eqn:E5;
    destruct (Qcltb (Q2Qc (1 # 10000000)) (Qcabs' (ck_stop_t k - dur))) eqn:E6; cbn [andb];
    (split; [ try discriminate; intros _; split; auto | try reflexivity; intros [_ [H|H]]; discriminate ]).
Qed.
Print Assumptions check_channel_first_iff.

(* the alignment rule sees the end amplitude only through its magnitude: when no following block is
   inspected, flipping the sign of [ck_last] does not change the verdict *)
Theorem align_rule_sign_symmetric : forall c i dur ch s f t l,
  (next_block c <= 1 \/ exists prev, neighbours c i = Some (prev, None)) ->
  check_channel true c i dur ch (mkChk s f t (- l)%Qc) = check_channel true c i dur ch (mkChk s f t l).
Proof.
  intros c i dur ch s f t l H.
  unfold check_channel. cbn [ck_first ck_last ck_start_t ck_stop_t].
  rewrite Qcabs'_opp.
  destruct H as [H|[prev H]].
  - assert (Hlt : (1 <? next_block c) = false) by (apply Z.ltb_ge; exact H).
    rewrite Hlt. reflexivity.
  - rewrite H. reflexivity.
Qed.
Print Assumptions align_rule_sign_symmetric.

Definition ex_core : core := core_init (Q2Qc (1 # 100)) (Q2Qc (1 # 100)) (Q2Qc 100) (Q2Qc (1 # 1000000)).
(* step = 1; a first block whose gradient ends at -5, 1 time unit before the block end *)
Example align_refuted_without_fix :
  exists c i dur ch k,
    check_channel false c i dur ch k = None /\ check_channel true c i dur ch k = Some EAlign.
Proof.
  exists ex_core, 1, (Q2Qc 2), 0%nat, (mkChk qc0 qc0 (Q2Qc 1) (Q2Qc (-5))).
  split; vm_compute; reflexivity.
Qed.
Print Assumptions align_refuted_without_fix.

(* ==== library facts: keys, the gradient-library invariant, fresh insertion ==== *)
(* ---- keys ---- *)
Lemma qc_eqb_spec (a b : Qc) : qc_eqb a b = true <-> a = b.
Proof.
  unfold qc_eqb. split.
  - intro H. apply andb_true_iff in H. destruct H as [H1 H2].
    apply Z.eqb_eq in H1. apply Pos.eqb_eq in H2.
    apply Qc_is_canon. unfold Qeq. rewrite H1, H2. reflexivity.
  - intros ->. rewrite Z.eqb_refl, Pos.eqb_refl. reflexivity.
Qed.

Lemma key_eqb_spec (a b : key) : key_eqb a b = true <-> a = b.
Proof.
  revert b. induction a as [|x r IH]; intros [|y s]; cbn; try (split; [discriminate|congruence]).
  - tauto.
  - rewrite andb_true_iff, qc_eqb_spec, IH. split; [intros [-> ->]; reflexivity|].
    intro H. injection H as -> ->. auto.
Qed.

Lemma In_aset {V} (l : list (Z * V)) k v a b :
  In (a, b) (aset Z.eqb l k v) -> (a = k /\ b = v) \/ In (a, b) l.
Proof.
  induction l as [|[k' v'] r IH]; cbn.
  - intros [H|[]]. injection H as <- <-. auto.
  - destruct (k' =? k) eqn:E; cbn.
    + apply Z.eqb_eq in E. subst k'. intros [H|H]; [injection H as <- <-; auto|auto].
    + intros [H|H]; [auto|]. destruct (IH H); auto.
Qed.

(* ---- the gradient library invariant ---- *)
Definition ty_of (k : key) : Z := if (length k =? 5)%nat then tag_t else tag_g.

Definition glib_wf (l : klib) : Prop :=
  lib_inv l /\ 1 <= lnext l /\
  (forall id k, In (id, k) (ldata l) -> 1 <= id) /\
  (forall k id, aget key_eqb (lkeymap l) k = Some id ->
                lib_get l id = Some k /\ lib_type l id = Some (ty_of k)).

Definition lib_ext (l l' : klib) : Prop :=
  forall id d t, lib_get l id = Some d -> lib_type l id = Some t ->
                 lib_get l' id = Some d /\ lib_type l' id = Some t.

Lemma lib_ext_refl l : lib_ext l l.
Proof. intros id d t H1 H2. auto. Qed.

Lemma glib_wf_empty : glib_wf lib_empty.
Proof.
  unfold glib_wf, lib_inv. cbn. repeat split; intros; try contradiction; try lia; discriminate.
Qed.

Definition fresh_insert (l : klib) (k : key) (ty : Z) : klib :=
  mkLib (aset Z.eqb (ldata l) (lnext l) k) (set_type (ltype l) (lnext l) ty)
        (aset key_eqb (lkeymap l) k (lnext l)) (lnext l + 1).

Lemma ty_of_nonzero k : (ty_of k =? 0) = false.
Proof. unfold ty_of. destruct (length k =? 5)%nat; reflexivity. Qed.

Lemma fresh_insert_ok l k :
  glib_wf l ->
  glib_wf (fresh_insert l k (ty_of k)) /\ lib_ext l (fresh_insert l k (ty_of k)) /\
  lib_get (fresh_insert l k (ty_of k)) (lnext l) = Some k /\
  lib_type (fresh_insert l k (ty_of k)) (lnext l) = Some (ty_of k).
Proof.
  intros [[Hd Ht] [Hn [Hpos Hkm]]].
  assert (Hget : forall id d, lib_get l id = Some d -> id <> lnext l).
  { intros id d H. apply (aget_In Z.eqb Z.eqb_eq) in H. apply Hd in H. lia. }
  assert (Htyp : forall id t, lib_type l id = Some t -> id <> lnext l).
  { intros id t H. apply (aget_In Z.eqb Z.eqb_eq) in H. apply Ht in H. lia. }
  assert (Hext : lib_ext l (fresh_insert l k (ty_of k))).
  { intros id d t H1 H2. unfold lib_get, lib_type, fresh_insert, set_type. cbn [ldata ltype].
    rewrite ty_of_nonzero.
    rewrite !(aget_aset_other Z.eqb Z.eqb_eq) by eauto. auto. }
  assert (Hg : lib_get (fresh_insert l k (ty_of k)) (lnext l) = Some k).
  { unfold lib_get, fresh_insert. cbn [ldata]. apply (aget_aset_same Z.eqb Z.eqb_eq). }
  assert (Hty : lib_type (fresh_insert l k (ty_of k)) (lnext l) = Some (ty_of k)).
  { unfold lib_type, fresh_insert, set_type. cbn [ltype]. rewrite ty_of_nonzero.
    apply (aget_aset_same Z.eqb Z.eqb_eq). }
  split; [|auto].
  unfold glib_wf, lib_inv. repeat split.
  - intros id k' H. unfold fresh_insert in *. cbn [ldata lnext] in *.
    apply In_aset in H. destruct H as [[-> _]|H]; [lia|]. apply Hd in H. lia.
  - intros id t H. unfold fresh_insert, set_type in *. cbn [ltype lnext] in *.
    rewrite ty_of_nonzero in H.
    apply In_aset in H. destruct H as [[-> _]|H]; [lia|]. apply Ht in H. lia.
  - unfold fresh_insert. cbn [lnext]. lia.
  - intros id k' H. unfold fresh_insert in *. cbn [ldata] in *.
    apply In_aset in H. destruct H as [[-> _]|H]; [lia|]. eapply Hpos; eauto.
  - destruct (key_eqb k k0) eqn:E.
    + apply key_eqb_spec in E. subst k0.
      unfold fresh_insert in H at 1. cbn [lkeymap] in H.
      rewrite (aget_aset_same key_eqb key_eqb_spec) in H. injection H as <-. exact Hg.
    + assert (N : k0 <> k) by (intro; subst; rewrite (proj2 (key_eqb_spec k k)) in E; congruence).
      unfold fresh_insert in H at 1. cbn [lkeymap] in H.
      rewrite (aget_aset_other key_eqb key_eqb_spec) in H by exact N.
      apply Hkm in H. destruct H as [H1 H2]. apply (Hext _ _ _ H1 H2).
  - destruct (key_eqb k k0) eqn:E.
    + apply key_eqb_spec in E. subst k0.
      unfold fresh_insert in H at 1. cbn [lkeymap] in H.
      rewrite (aget_aset_same key_eqb key_eqb_spec) in H. injection H as <-. exact Hty.
    + assert (N : k0 <> k) by (intro; subst; rewrite (proj2 (key_eqb_spec k k)) in E; congruence).
      unfold fresh_insert in H at 1. cbn [lkeymap] in H.
      rewrite (aget_aset_other key_eqb key_eqb_spec) in H by exact N.
      apply Hkm in H. destruct H as [H1 H2]. apply (Hext _ _ _ H1 H2).
Qed.

Lemma kfoi_ok l k l' id found :
  glib_wf l -> kfoi l k (ty_of k) = (l', id, found) ->
  glib_wf l' /\ lib_ext l l' /\ lib_get l' id = Some k /\ lib_type l' id = Some (ty_of k) /\ 1 <= id.
Proof.
  intros W H. unfold kfoi, lib_find_or_insert in H.
  destruct (aget key_eqb (lkeymap l) k) as [id0|] eqn:E.
  - injection H as <- <- <-. pose proof W as W0. destruct W as [Hi [Hn [Hpos Hkm]]].
    destruct (Hkm _ _ E) as [H1 H2].
    split; [exact W0|]. split; [apply lib_ext_refl|]. split; [exact H1|]. split; [exact H2|].
    apply (aget_In Z.eqb Z.eqb_eq) in H1. eapply Hpos; eauto.
  - injection H as <- <- <-. fold (fresh_insert l k (ty_of k)).
    destruct (fresh_insert_ok l k W) as [A [B [C D]]].
    split; [exact A|]. split; [exact B|]. split; [exact C|]. split; [exact D|]. apply W.
Qed.

Lemma kins_ok l k l' id :
  glib_wf l -> kins l 0 k (ty_of k) = (l', id) ->
  glib_wf l' /\ lib_ext l l' /\ lib_get l' id = Some k /\ lib_type l' id = Some (ty_of k) /\ 1 <= id.
Proof.
  intros W H. unfold kins, lib_insert in H. cbn [Z.eqb] in H. rewrite Z.leb_refl in H.
  injection H as <- <-. fold (fresh_insert l k (ty_of k)).
  destruct (fresh_insert_ok l k W) as [A [B [C D]]].
  split; [exact A|]. split; [exact B|]. split; [exact C|]. split; [exact D|]. apply W.
Qed.

(* ==== registration: what each register_* does to the part of the state the checks read ==== *)
Definition gwf (c : core) : Prop := glib_wf (grad_l c).

(* c' is c with possibly more library rows: same block table and limits, stored edges kept *)
Definition core_ext (c c' : core) : Prop :=
  blocks c' = blocks c /\ next_block c' = next_block c /\ max_slew c' = max_slew c /\
  sys_raster c' = sys_raster c /\
  (forall gid fld v, edge_value c gid fld = Some v -> edge_value c' gid fld = Some v).

(* c' differs from c outside the gradient library / block table / limits only *)
Definition frame (c c' : core) : Prop :=
  grad_l c' = grad_l c /\ blocks c' = blocks c /\ next_block c' = next_block c /\
  max_slew c' = max_slew c /\ sys_raster c' = sys_raster c.

Lemma core_ext_refl c : core_ext c c.
Proof. unfold core_ext. repeat split; auto. Qed.

Lemma core_ext_trans c1 c2 c3 : core_ext c1 c2 -> core_ext c2 c3 -> core_ext c1 c3.
Proof.
  intros [A1 [A2 [A3 [A4 A5]]]] [B1 [B2 [B3 [B4 B5]]]].
  unfold core_ext. repeat split; try congruence. intros; auto.
Qed.

Lemma frame_refl c : frame c c.
Proof. unfold frame. repeat split; auto. Qed.

Lemma frame_trans c1 c2 c3 : frame c1 c2 -> frame c2 c3 -> frame c1 c3.
Proof.
  intros [A1 [A2 [A3 [A4 A5]]]] [B1 [B2 [B3 [B4 B5]]]].
  unfold frame. repeat split; congruence.
Qed.

Lemma frame_core_ext c c' : frame c c' -> core_ext c c'.
Proof.
  intros [A1 [A2 [A3 [A4 A5]]]]. unfold core_ext. repeat split; auto.
  intros gid fld v. unfold edge_value. rewrite A1. auto.
Qed.

Lemma frame_gwf c c' : frame c c' -> gwf c -> gwf c'.
Proof. intros [A1 _]. unfold gwf. rewrite A1. auto. Qed.

Lemma lib_ext_core_ext c c' :
  blocks c' = blocks c -> next_block c' = next_block c -> max_slew c' = max_slew c ->
  sys_raster c' = sys_raster c -> lib_ext (grad_l c) (grad_l c') -> core_ext c c'.
Proof.
  intros A1 A2 A3 A4 E. unfold core_ext. repeat split; auto.
  intros gid fld v. unfold edge_value.
  destruct (gid =? 0); [auto|].
  destruct (lib_get (grad_l c) gid) as [d|] eqn:G; [|discriminate].
  destruct (lib_type (grad_l c) gid) as [t|] eqn:T; [|discriminate].
  destruct (E _ _ _ G T) as [G' T']. rewrite G', T'. auto.
Qed.

(* ---- registrations that leave the gradient library alone ---- *)
Lemma register_adc_frame c n dw de fr ph dd c' id f :
  register_adc c n dw de fr ph dd = (c', id, f) -> frame c c'.
Proof.
  unfold register_adc. destruct (kfoi _ _ _) as [[l i] fo]. intro H. injection H as <- _ _.
  unfold frame. cbn. repeat split; reflexivity.
Qed.

Lemma register_ctl_frame c ty ch de du c' id f :
  register_ctl c ty ch de du = (c', id, f) -> frame c c'.
Proof.
  unfold register_ctl. destruct (kfoi _ _ _) as [[l i] fo]. intro H. injection H as <- _ _.
  unfold frame. cbn. repeat split; reflexivity.
Qed.

Lemma register_label_frame c s v lb c' id f :
  register_label c s v lb = (c', id, f) -> frame c c'.
Proof.
  unfold register_label. destruct s; destruct (kfoi _ _ _) as [[l i] fo]; intro H;
    injection H as <- _ _; unfold frame; cbn; repeat split; reflexivity.
Qed.

Lemma ext_type_id_frame c s c' id : ext_type_id c s = (c', id) -> frame c c'.
Proof.
  unfold ext_type_id. destruct (index_of s (ext_str c)).
  - intro H. injection H as <- _. apply frame_refl.
  - intro H. injection H as <- _. unfold frame. cbn. repeat split; reflexivity.
Qed.

Lemma register_rf_frame c sids amp mag ph ts de fr po use c' id ids f :
  register_rf c sids amp mag ph ts de fr po use = (c', id, ids, f) -> frame c c'.
Proof.
  unfold register_rf.
  destruct (match sids with Some ids0 => _ | None => _ end) as [[sl ids0] me].
  cbv zeta. destruct me.
  - destruct (kfoi _ _ _) as [[l i] fo]. intro H. injection H as <- _ _ _.
    unfold frame. cbn. repeat split; reflexivity.
  - destruct (kins _ _ _ _) as [l i]. intro H. injection H as <- _ _ _.
    unfold frame. cbn. repeat split; reflexivity.
Qed.

(* ---- registrations in the gradient library ---- *)
Lemma edge_value_row c gid d fld :
  1 <= gid -> lib_get (grad_l c) gid = Some d -> lib_type (grad_l c) gid = Some (ty_of d) ->
  edge_value c gid fld = if (length d =? 5)%nat then Some qc0 else nth_error d fld.
Proof.
  intros P G T. unfold edge_value. rewrite G, T.
  assert (E : (gid =? 0) = false) by (apply Z.eqb_neq; lia). rewrite E.
  unfold ty_of. destruct (length d =? 5)%nat; reflexivity.
Qed.

Lemma register_trap_ok c amp rise flat fall delay c' id f :
  gwf c -> register_trap c amp rise flat fall delay = (c', id, f) ->
  gwf c' /\ core_ext c c' /\ edge_value c' id 4 = Some qc0 /\ edge_value c' id 5 = Some qc0.
Proof.
  intros W. unfold register_trap.
  destruct (kfoi (grad_l c) [amp; rise; flat; fall; delay] tag_t) as [[l i] fo] eqn:K.
  intro H. injection H as <- <- _.
  change tag_t with (ty_of [amp; rise; flat; fall; delay]) in K.
  destruct (kfoi_ok _ _ _ _ _ W K) as [W' [E [G [T P]]]].
  split; [exact W'|]. split.
  - apply lib_ext_core_ext; try reflexivity. exact E.
  - assert (G' : lib_get (grad_l (c <| grad_l := l |>)) i = Some [amp; rise; flat; fall; delay]) by exact G.
    assert (T' : lib_type (grad_l (c <| grad_l := l |>)) i = Some (ty_of [amp; rise; flat; fall; delay])) by exact T.
    split; rewrite (edge_value_row _ _ _ _ P G' T'); reflexivity.
Qed.

Lemma ty_of_grad_row amp (ids : list Z) delay first last :
  length ids <> 1%nat -> ty_of ([amp] ++ map zq ids ++ [delay; first; last]) = tag_g.
Proof.
  intro H. unfold ty_of. rewrite !app_length, map_length. cbn [length].
  destruct (Nat.eqb_spec (1 + (length ids + 3)) 5); [lia|reflexivity].
Qed.

Definition sids_ok (sids : option (list Z)) : Prop :=
  match sids with Some l => length l <> 1%nat | None => True end.
Definition sids_two (sids : option (list Z)) : Prop :=
  match sids with Some l => length l = 2%nat | None => True end.

Lemma register_grad_ok c sids amp w ts delay first last c' id ids clr :
  gwf c -> sids_ok sids ->
  register_grad c sids amp w ts delay first last = (c', id, ids, clr) ->
  gwf c' /\ core_ext c c' /\
  (sids_two sids -> edge_value c' id 4 = Some first /\ edge_value c' id 5 = Some last).
Proof.
  intros W S. unfold register_grad.
  destruct (match sids with Some ids0 => _ | None => _ end) as [[[sl ids0] me] ac] eqn:E0.
  assert (L1 : length ids0 <> 1%nat).
  { destruct sids as [l|].
    - injection E0 as _ <- _ _. exact S.
    - destruct (kfoi (shape_l c) w 0) as [[sl1 id1] f1].
      destruct ts as [t|].
      + destruct (kfoi sl1 t 0) as [[sl2 id2] f2]. injection E0 as _ <- _ _. cbn. lia.
      + injection E0 as _ <- _ _. cbn. lia. }
  assert (L2 : sids_two sids -> length ids0 = 2%nat).
  { destruct sids as [l|].
    - injection E0 as _ <- _ _. auto.
    - intros _. destruct (kfoi (shape_l c) w 0) as [[sl1 id1] f1].
      destruct ts as [t|].
      + destruct (kfoi sl1 t 0) as [[sl2 id2] f2]. injection E0 as _ <- _ _. reflexivity.
      + injection E0 as _ <- _ _. reflexivity. }
  clear E0. cbv zeta.
  set (data := [amp] ++ map zq ids0 ++ [delay; first; last]).
  assert (TY : tag_g = ty_of data) by (symmetry; apply ty_of_grad_row; exact L1).
  assert (FIN : forall gl gid, glib_wf gl -> lib_ext (grad_l c) gl -> lib_get gl gid = Some data ->
             lib_type gl gid = Some (ty_of data) -> 1 <= gid ->
             gwf (c <| shape_l := sl |> <| grad_l := gl |>) /\
             core_ext c (c <| shape_l := sl |> <| grad_l := gl |>) /\
             (sids_two sids ->
              edge_value (c <| shape_l := sl |> <| grad_l := gl |>) gid 4 = Some first /\
              edge_value (c <| shape_l := sl |> <| grad_l := gl |>) gid 5 = Some last)).
  { intros gl gid W' E G T P. split; [exact W'|]. split.
    - apply lib_ext_core_ext; try reflexivity. exact E.
    - intro S2. apply L2 in S2.
      assert (G' : lib_get (grad_l (c <| shape_l := sl |> <| grad_l := gl |>)) gid = Some data) by exact G.
      assert (T' : lib_type (grad_l (c <| shape_l := sl |> <| grad_l := gl |>)) gid = Some (ty_of data)) by exact T.
      rewrite !(edge_value_row _ _ _ _ P G' T').
      destruct ids0 as [|x [|y [|z r]]]; try discriminate. split; reflexivity. }
  destruct me.
  - destruct (kfoi (grad_l c) data tag_g) as [[gl gid] fo] eqn:K. rewrite TY in K.
    intro H. injection H as <- <- _ _.
    destruct (kfoi_ok _ _ _ _ _ W K) as [W' [E [G [T P]]]]. apply FIN; auto.
  - destruct (kins (grad_l c) 0 data tag_g) as [gl gid] eqn:K. rewrite TY in K.
    intro H. injection H as <- <- _ _.
    destruct (kins_ok _ _ _ _ W K) as [W' [E [G [T P]]]]. apply FIN; auto.
Qed.

(* ==== the event loop: new_block / check_g entries agree with the library (acc_consistent) ==== *)
Lemma set_nth_length {A} n (x : A) l : length (set_nth n x l) = length l.
Proof. revert n. induction l as [|y r IH]; intros [|n]; cbn; auto. Qed.

Lemma nth_set_nth_same {A} n (x d : A) l : (n < length l)%nat -> nth n (set_nth n x l) d = x.
Proof.
  revert n. induction l as [|y r IH]; intros [|n]; cbn; intro H; try lia; auto.
  apply IH. lia.
Qed.

Lemma nth_set_nth_other {A} n m (x d : A) l : m <> n -> nth m (set_nth n x l) d = nth m l d.
Proof.
  revert n m. induction l as [|y r IH]; intros [|n] [|m]; cbn; intro H; try lia; auto.
Qed.

Definition acc_cons (a : acc) : Prop :=
  forall ch, (ch < 3)%nat ->
    edge_value (a_core a) (nth (2 + ch) (a_blk a) 0) 4 = Some (ck_first (nth ch (a_chk a) chk0)) /\
    edge_value (a_core a) (nth (2 + ch) (a_blk a) 0) 5 = Some (ck_last (nth ch (a_chk a) chk0)).

Definition acc_inv (c0 : core) (a : acc) : Prop :=
  core_ext c0 (a_core a) /\ gwf (a_core a) /\ acc_cons a /\
  length (a_blk a) = 7%nat /\ length (a_chk a) = 3%nat.

(* an update that does not touch the gradient slots *)
Lemma acc_inv_other c0 a a' :
  acc_inv c0 a -> core_ext (a_core a) (a_core a') -> gwf (a_core a') ->
  length (a_blk a') = 7%nat ->
  (forall ch, (ch < 3)%nat -> nth (2 + ch) (a_blk a') 0 = nth (2 + ch) (a_blk a) 0) ->
  a_chk a' = a_chk a -> acc_inv c0 a'.
Proof.
  intros [X [W [C [L1 L2]]]] X' W' L1' Hb Hc.
  unfold acc_inv. split; [eapply core_ext_trans; eauto|]. split; [exact W'|].
  split; [|split; [exact L1'|congruence]].
  intros ch Hch. rewrite Hb, Hc by exact Hch. destruct (C ch Hch) as [C4 C5].
  destruct X' as [_ [_ [_ [_ M]]]]. split; apply M; assumption.
Qed.

(* an update of gradient slot ch0 *)
Lemma acc_inv_grad c0 a a' ch0 :
  acc_inv c0 a -> core_ext (a_core a) (a_core a') -> gwf (a_core a') ->
  length (a_blk a') = 7%nat -> length (a_chk a') = 3%nat ->
  (forall ch, (ch < 3)%nat -> ch <> ch0 ->
     nth (2 + ch) (a_blk a') 0 = nth (2 + ch) (a_blk a) 0 /\
     nth ch (a_chk a') chk0 = nth ch (a_chk a) chk0) ->
  edge_value (a_core a') (nth (2 + ch0) (a_blk a') 0) 4 = Some (ck_first (nth ch0 (a_chk a') chk0)) ->
  edge_value (a_core a') (nth (2 + ch0) (a_blk a') 0) 5 = Some (ck_last (nth ch0 (a_chk a') chk0)) ->
  acc_inv c0 a'.
Proof.
  intros [X [W [C [L1 L2]]]] X' W' L1' L2' Hb H4 H5.
  unfold acc_inv. split; [eapply core_ext_trans; eauto|]. split; [exact W'|].
  split; [|split; assumption].
  intros ch Hch. destruct (Nat.eq_dec ch ch0) as [->|N]; [split; assumption|].
  destruct (Hb ch Hch N) as [B1 B2]. rewrite B1, B2. destruct (C ch Hch) as [C4 C5].
  destruct X' as [_ [_ [_ [_ M]]]]. split; apply M; assumption.
Qed.

Lemma acc_inv_init c : gwf c -> acc_inv c (mkAcc c false [0; 0; 0; 0; 0; 0; 0] qc0 [chk0; chk0; chk0] []).
Proof.
  intro W. unfold acc_inv. cbn [a_core a_blk a_chk].
  split; [apply core_ext_refl|]. split; [exact W|]. split; [|split; reflexivity].
  intros ch Hch. cbn [a_core a_blk a_chk].
  destruct ch as [|[|[|ch]]]; try lia; split; reflexivity.
Qed.

Lemma inl_inj {A B} (x y : A) : @inl A B x = inl y -> x = y.
Proof. congruence. Qed.

Lemma ev_step_inv c0 a e a' :
  acc_inv c0 a -> ev_ok e -> ev_step a e = inl a' -> acc_inv c0 a'.
Proof.
  intros I OK H. pose proof I as [X [W [C [L1 L2]]]].
  destruct e; unfold ev_step in H.
  - (* MRf *)
    destruct (negb (nth 1 (a_blk a) 0 =? 0)); [discriminate|].
    destruct id as [i|].
    + apply inl_inj in H; subst a'. apply (acc_inv_other c0 a);
      cbn -[set_nth nth Nat.add]; auto using core_ext_refl.
      * rewrite set_nth_length. exact L1.
      * intros ch Hch. apply nth_set_nth_other. lia.
    + destruct (register_rf _ _ _ _ _ _ _ _ _ _) as [[[c1 i] ids] clr] eqn:R.
      apply inl_inj in H; subst a'. apply register_rf_frame in R.
      apply (acc_inv_other c0 a);
      cbn -[set_nth nth Nat.add]; auto using frame_core_ext.
      * eapply frame_gwf; eauto.
      * rewrite set_nth_length. exact L1.
      * intros ch Hch. apply nth_set_nth_other. lia.
  - (* MGrad *)
    destruct OK as [Hch [-> S2]].
    destruct (negb (nth (2 + ch) (a_blk a) 0 =? 0)); [discriminate|].
    destruct (register_grad _ _ _ _ _ _ _ _) as [[[c1 i] ids] clr] eqn:R.
    apply inl_inj in H; subst a'.
    assert (S1 : sids_ok sids) by (destruct sids as [l|]; cbn in *; [lia|exact Logic.I]).
    destruct (register_grad_ok _ _ _ _ _ _ _ _ _ _ _ _ W S1 R) as [W' [X' ED]].
    destruct (ED S2) as [E4 E5].
    apply (acc_inv_grad c0 a _ ch);
      cbn -[set_nth nth Nat.add]; auto.
    + rewrite set_nth_length. exact L1.
    + rewrite set_nth_length. exact L2.
    + intros ch' Hch' N. split; apply nth_set_nth_other; lia.
    + rewrite !nth_set_nth_same by lia. exact E4.
    + rewrite !nth_set_nth_same by lia. exact E5.
  - (* MTrap *)
    destruct OK as [Hch ->].
    destruct (nth (2 + ch) (a_blk a) 0 =? 0) eqn:Z0; [|discriminate]. cbn [negb] in H.
    apply Z.eqb_eq in Z0.
    destruct (register_trap _ _ _ _ _ _) as [[c1 i] clr] eqn:R.
    apply inl_inj in H; subst a'.
    destruct (register_trap_ok _ _ _ _ _ _ _ _ _ W R) as [W' [X' [E4 E5]]].
    destruct (C ch Hch) as [C4 C5]. rewrite Z0 in C4, C5.
    change (edge_value (a_core a) 0 4) with (Some qc0) in C4.
    change (edge_value (a_core a) 0 5) with (Some qc0) in C5.
    injection C4 as C4. injection C5 as C5.
    apply (acc_inv_grad c0 a _ ch);
      cbn -[set_nth nth Nat.add]; auto.
    + rewrite set_nth_length. exact L1.
    + intros ch' Hch' N. split; [apply nth_set_nth_other; lia|reflexivity].
    + rewrite nth_set_nth_same by lia. rewrite <- C4. exact E4.
    + rewrite nth_set_nth_same by lia. rewrite <- C5. exact E5.
  - (* MAdc *)
    destruct (negb (nth 5 (a_blk a) 0 =? 0)); [discriminate|].
    destruct id as [i|].
    + apply inl_inj in H; subst a'. apply (acc_inv_other c0 a);
      cbn -[set_nth nth Nat.add]; auto using core_ext_refl.
      * rewrite set_nth_length. exact L1.
      * intros ch Hch. apply nth_set_nth_other. lia.
    + destruct (register_adc _ _ _ _ _ _ _) as [[c1 i] clr] eqn:R.
      apply inl_inj in H; subst a'. apply register_adc_frame in R.
      apply (acc_inv_other c0 a);
      cbn -[set_nth nth Nat.add]; auto using frame_core_ext.
      * eapply frame_gwf; eauto.
      * rewrite set_nth_length. exact L1.
      * intros ch Hch. apply nth_set_nth_other. lia.
  - (* MDelay *)
    apply inl_inj in H; subst a'. apply (acc_inv_other c0 a);
      cbn -[set_nth nth Nat.add]; auto using core_ext_refl.
  - (* MCtl *)
    destruct id as [i|].
    + destruct (ext_type_id (a_core a) XS_TRIGGERS) as [c2 tid] eqn:T.
      apply inl_inj in H; subst a'. apply ext_type_id_frame in T.
      apply (acc_inv_other c0 a);
      cbn -[set_nth nth Nat.add]; auto using frame_core_ext.
      eapply frame_gwf; eauto.
    + destruct (register_ctl _ _ _ _ _) as [[c1 i] clr] eqn:R.
      destruct (ext_type_id c1 XS_TRIGGERS) as [c2 tid] eqn:T.
      apply inl_inj in H; subst a'. apply ext_type_id_frame in T. apply register_ctl_frame in R.
      pose proof (frame_trans _ _ _ R T) as F.
      apply (acc_inv_other c0 a);
      cbn -[set_nth nth Nat.add]; auto using frame_core_ext.
      eapply frame_gwf; eauto.
  - (* MLabel *)
    destruct id as [i|].
    + destruct (ext_type_id (a_core a) _) as [c2 tid] eqn:T.
      apply inl_inj in H; subst a'. apply ext_type_id_frame in T.
      apply (acc_inv_other c0 a);
      cbn -[set_nth nth Nat.add]; auto using frame_core_ext.
      eapply frame_gwf; eauto.
    + destruct (register_label _ _ _ _) as [[c1 i] clr] eqn:R.
      destruct (ext_type_id c1 _) as [c2 tid] eqn:T.
      apply inl_inj in H; subst a'. apply ext_type_id_frame in T. apply register_label_frame in R.
      pose proof (frame_trans _ _ _ R T) as F.
      apply (acc_inv_other c0 a);
      cbn -[set_nth nth Nat.add]; auto using frame_core_ext.
      eapply frame_gwf; eauto.
  - (* MDur *)
    apply inl_inj in H; subst a'. apply (acc_inv_other c0 a);
      cbn -[set_nth nth Nat.add]; auto using core_ext_refl.
Qed.

Lemma ev_loop_inv c0 evs : forall a a' e,
  acc_inv c0 a -> Forall ev_ok evs -> ev_loop a evs = (a', e) -> acc_inv c0 a'.
Proof.
  induction evs as [|ev r IH]; intros a a' e I F H; cbn in H.
  - injection H as <- _. exact I.
  - inversion F as [|? ? F1 F2]; subst.
    destruct (ev_step a ev) as [a1|x] eqn:S.
    + apply (IH a1 a' e); auto. apply (ev_step_inv c0 a ev a1); auto.
    + injection H as <- _. exact I.
Qed.

(* ==== chains along the block order; neighbours as a list decomposition ==== *)
(* ---- chains ---- *)
Fixpoint chain_to (c : core) (ch : nat) (p : Qc) (ks : list Z) (q : Qc) : Prop :=
  match ks with
  | [] => p = q
  | b :: r => exists f l, edge c b ch 4 = Some f /\ edge c b ch 5 = Some l /\
                          within_step c (p - f)%Qc /\ chain_to c ch l r q
  end.

Lemma chain_ok_app c ch l1 l2 : forall p,
  chain_ok c ch p (l1 ++ l2) <-> exists q, chain_to c ch p l1 q /\ chain_ok c ch q l2.
Proof.
  induction l1 as [|b r IH]; intros p; cbn [app chain_ok chain_to].
  - split.
    + intro H. exists p. auto.
    + intros [q [-> H]]. exact H.
  - split.
    + intros [f [l [H4 [H5 [Hw Hr]]]]]. apply IH in Hr. destruct Hr as [q [Hq1 Hq2]].
      exists q. split; [|exact Hq2]. exists f, l. auto.
    + intros [q [[f [l [H4 [H5 [Hw Hr]]]]] Hq]]. exists f, l.
      split; [exact H4|]. split; [exact H5|]. split; [exact Hw|]. apply IH. exists q. auto.
Qed.

Lemma chain_to_last c ch b : forall l p q, chain_to c ch p (l ++ [b]) q -> edge c b ch 5 = Some q.
Proof.
  induction l as [|x r IH]; intros p q; cbn [app chain_to].
  - intros [f [l [H4 [H5 [Hw ->]]]]]. exact H5.
  - intros [f [l [_ [_ [_ H]]]]]. eapply IH. exact H.
Qed.

Lemma within_step_eq c c' x : step_of c' = step_of c -> within_step c x -> within_step c' x.
Proof. unfold within_step. intros ->. auto. Qed.

Lemma chain_ok_mono c c' ch ks :
  step_of c' = step_of c ->
  (forall b fld v, In b ks -> edge c b ch fld = Some v -> edge c' b ch fld = Some v) ->
  forall p, chain_ok c ch p ks -> chain_ok c' ch p ks.
Proof.
  intros S. induction ks as [|b r IH]; intros M p; cbn [chain_ok]; [auto|].
  intros [f [l [H4 [H5 [Hw Hr]]]]]. exists f, l.
  split; [apply M; [left; reflexivity|exact H4]|].
  split; [apply M; [left; reflexivity|exact H5]|].
  split; [apply (within_step_eq c c' _ S Hw)|].
  apply IH; [|exact Hr]. intros b' fld v Hin. apply M. right. exact Hin.
Qed.

Lemma chain_to_mono c c' ch ks :
  step_of c' = step_of c ->
  (forall b fld v, In b ks -> edge c b ch fld = Some v -> edge c' b ch fld = Some v) ->
  forall p q, chain_to c ch p ks q -> chain_to c' ch p ks q.
Proof.
  intros S. induction ks as [|b r IH]; intros M p q; cbn [chain_to]; [auto|].
  intros [f [l [H4 [H5 [Hw Hr]]]]]. exists f, l.
  split; [apply M; [left; reflexivity|exact H4]|].
  split; [apply M; [left; reflexivity|exact H5]|].
  split; [apply (within_step_eq c c' _ S Hw)|].
  apply IH; [|exact Hr]. intros b' fld v Hin. apply M. right. exact Hin.
Qed.

Lemma chain_ok_head c ch b r p p' :
  chain_ok c ch p (b :: r) ->
  (forall f, edge c b ch 4 = Some f -> within_step c (p' - f)%Qc) ->
  chain_ok c ch p' (b :: r).
Proof.
  cbn [chain_ok]. intros [f [l [H4 [H5 [Hw Hr]]]]] H. exists f, l. auto.
Qed.

(* replacing (or appending) block i, given the three local facts *)
Lemma chain_replace c c' ch i l1 l2 f l p0 q :
  step_of c' = step_of c ->
  (forall b fld, b <> i -> edge c' b ch fld = edge c b ch fld) ->
  ~ In i l1 -> ~ In i l2 ->
  edge c' i ch 4 = Some f -> edge c' i ch 5 = Some l ->
  chain_to c ch p0 l1 q -> within_step c (q - f)%Qc -> chain_ok c ch l l2 ->
  chain_ok c' ch p0 (l1 ++ i :: l2).
Proof.
  intros S Ho N1 N2 H4 H5 Hpre Hw Hsuf. apply chain_ok_app. exists q. split.
  - apply (chain_to_mono c c' ch l1 S); [|exact Hpre].
    intros b fld v Hin Hb. rewrite Ho; [exact Hb|]. intros ->. contradiction.
  - cbn [chain_ok]. exists f, l. split; [exact H4|]. split; [exact H5|].
    split; [apply (within_step_eq c c' _ S Hw)|].
    apply (chain_ok_mono c c' ch l2 S); [|exact Hsuf].
    intros b fld v Hin Hb. rewrite Ho; [exact Hb|]. intros ->. contradiction.
Qed.

(* ---- neighbours ---- *)
Fixpoint last_opt (l : list Z) : option Z :=
  match l with
  | [] => None
  | [k] => Some k
  | _ :: r => last_opt r
  end.

Lemma last_key_akeys {V} (l : list (Z * V)) : last_key l = last_opt (akeys l).
Proof.
  induction l as [|[k v] r IH]; [reflexivity|].
  destruct r as [|[k2 v2] r2]; [reflexivity|].
  change (last_key ((k, v) :: (k2, v2) :: r2)) with (last_key ((k2, v2) :: r2)).
  rewrite IH. reflexivity.
Qed.

Lemma last_opt_snoc l p : last_opt (l ++ [p]) = Some p.
Proof.
  induction l as [|a r IH]; [reflexivity|].
  cbn [app]. destruct (r ++ [p]) as [|x s] eqn:E.
  - destruct r; discriminate.
  - change (last_opt (a :: x :: s)) with (last_opt (x :: s)). exact IH.
Qed.

Lemma last_opt_cases (l : list Z) : l = [] \/ exists l' p, l = l' ++ [p].
Proof. induction l as [|x r _] using rev_ind; [left; reflexivity|right; exists r, x; reflexivity]. Qed.

Lemma pos_of_split i : forall ks n0 n, pos_of i ks n0 = Some n ->
  exists l1 l2, ks = l1 ++ i :: l2 /\ ~ In i l1 /\ n = (n0 + length l1)%nat.
Proof.
  induction ks as [|y r IH]; intros n0 n; cbn [pos_of]; [discriminate|].
  destruct (i =? y) eqn:E.
  - apply Z.eqb_eq in E. subst y. intro H. injection H as <-.
    exists [], r. cbn. split; [reflexivity|]. split; [tauto|lia].
  - apply Z.eqb_neq in E. intro H. apply IH in H. destruct H as [l1 [l2 [-> [N ->]]]].
    exists (y :: l1), l2. cbn. split; [reflexivity|]. split; [|lia].
    intros [H|H]; [congruence|contradiction].
Qed.

Lemma pos_of_none i : forall ks n0, pos_of i ks n0 = None -> ~ In i ks.
Proof.
  induction ks as [|y r IH]; intros n0; cbn [pos_of]; [tauto|].
  destruct (i =? y) eqn:E; [discriminate|]. apply Z.eqb_neq in E.
  intros H [H1|H1]; [congruence|]. exact (IH _ H H1).
Qed.

Lemma notin_aget_none {V} (l : list (Z * V)) k : ~ In k (akeys l) -> aget Z.eqb l k = None.
Proof.
  intro N. destruct (aget Z.eqb l k) eqn:E; [|reflexivity].
  apply (aget_Some_in Z.eqb Z.eqb_eq) in E. contradiction.
Qed.

Lemma in_aget_some {V} (l : list (Z * V)) k : In k (akeys l) -> aget Z.eqb l k <> None.
Proof. intros H E. apply (aget_None_notin Z.eqb Z.eqb_eq) in E. contradiction. Qed.

Lemma neighbours_spec c i prev next blk :
  NoDup (akeys (blocks c)) -> (forall k, In k (akeys (blocks c)) -> k < next_block c) ->
  neighbours c i = Some (prev, next) ->
  exists l1 l2, akeys (aset Z.eqb (blocks c) i blk) = l1 ++ i :: l2 /\ ~ In i l1 /\ ~ In i l2 /\
     prev = last_opt l1 /\ next = hd_error l2 /\
     (akeys (blocks c) = l1 ++ i :: l2 \/ (akeys (blocks c) = l1 /\ l2 = [])).
Proof.
  intros ND Hlt. unfold neighbours.
  assert (APP : ~ In i (akeys (blocks c)) ->
          match last_key (blocks c) with Some p => Some (Some p, @None Z) | None => None end
          = Some (prev, next) ->
          exists l1 l2, akeys (aset Z.eqb (blocks c) i blk) = l1 ++ i :: l2 /\ ~ In i l1 /\ ~ In i l2 /\
            prev = last_opt l1 /\ next = hd_error l2 /\
            (akeys (blocks c) = l1 ++ i :: l2 \/ (akeys (blocks c) = l1 /\ l2 = []))).
  { intros N H. rewrite last_key_akeys in H.
    destruct (last_opt (akeys (blocks c))) as [p|] eqn:E; [|discriminate].
    injection H as <- <-. exists (akeys (blocks c)), [].
    split; [apply akeys_aset_new, notin_aget_none, N|].
    split; [exact N|]. split; [cbn; tauto|]. split; [symmetry; exact E|].
    split; [reflexivity|]. right. auto. }
  destruct (i =? next_block c) eqn:E.
  - apply Z.eqb_eq in E. apply APP. intro H. apply Hlt in H. lia.
  - destruct (pos_of i (akeys (blocks c)) 0) as [n|] eqn:P.
    + apply pos_of_split in P. destruct P as [l1 [l2 [K [N1 ->]]]]. cbn [Nat.add].
      assert (N2 : ~ In i l2).
      { rewrite K in ND. apply NoDup_remove_2 in ND. intro H. apply ND. apply in_or_app. auto. }
      intro H. injection H as <- <-. exists l1, l2.
      split. { rewrite akeys_aset_in; [exact K|]. apply in_aget_some. rewrite K.
               apply in_or_app. right. left. reflexivity. }
      split; [exact N1|]. split; [exact N2|]. rewrite K.
      split; [|split; [|left; reflexivity]].
      * destruct (last_opt_cases l1) as [->|[l' [p ->]]]; [reflexivity|].
        rewrite last_opt_snoc. rewrite app_length. cbn [length]. rewrite Nat.add_1_r.
        rewrite <- app_assoc. rewrite nth_error_app2 by lia. rewrite Nat.sub_diag. reflexivity.
      * rewrite app_length. cbn [length]. destruct l2 as [|x r].
        -- assert (F : (S (length l1) <? length l1 + 1)%nat = false) by (apply Nat.ltb_ge; lia).
           cbn [length]. rewrite F. reflexivity.
        -- assert (F : (S (length l1) <? length l1 + S (length (x :: r)))%nat = true)
             by (apply Nat.ltb_lt; cbn [length]; lia).
           rewrite F.
           change (nth_error (l1 ++ i :: x :: r) (S (length l1)) = hd_error (x :: r)).
           rewrite nth_error_app2 by lia.
           replace (S (length l1) - length l1)%nat with 1%nat by lia. reflexivity.
    + apply APP. eapply pos_of_none. exact P.
Qed.

(* ==== B/C. table invariant; storing an accepted block keeps the chain ==== *)
Definition table_inv (c : core) : Prop :=
  (forall k, In k (akeys (blocks c)) -> 1 <= k < next_block c) /\
  NoDup (akeys (blocks c)) /\
  (blocks c = [] <-> next_block c <= 1) /\
  1 <= next_block c.

Lemma table_inv_init g sr sl e : table_inv (core_init g sr sl e).
Proof.
  unfold table_inv, core_init. cbn. split; [tauto|]. split; [constructor|].
  split; [|lia]. split; [lia|reflexivity].
Qed.

Lemma Cont_ext c c' : core_ext c c' -> Cont c -> Cont c'.
Proof.
  intros [B [N [MS [SR M]]]] H ch Hch. rewrite B. specialize (H ch Hch).
  apply (chain_ok_mono c c'); [unfold step_of; rewrite MS, SR; reflexivity| |exact H].
  intros b fld v _. unfold edge, blk_field. rewrite B. apply M.
Qed.

Lemma table_inv_ext c c' : core_ext c c' -> table_inv c -> table_inv c'.
Proof. intros [B [N _]]. unfold table_inv. rewrite B, N. auto. Qed.

Lemma check_channels_all c i dur : forall ks ch0,
  check_channels true c i dur ch0 ks = None ->
  forall n, (n < length ks)%nat -> check_channel true c i dur (ch0 + n) (nth n ks chk0) = None.
Proof.
  induction ks as [|k r IH]; intros ch0 H n Hn; cbn [length] in Hn; [lia|].
  cbn [check_channels] in H.
  destruct (check_channel true c i dur ch0 k) eqn:E; [discriminate|].
  destruct n as [|n].
  - rewrite Nat.add_0_r. exact E.
  - cbn [nth]. replace (ch0 + S n)%nat with (S ch0 + n)%nat by lia. apply IH; [exact H|lia].
Qed.

Lemma check_channel_no_neighbours c i dur ch k :
  1 < next_block c -> neighbours c i = None -> check_channel true c i dur ch k <> None.
Proof.
  intros Hnb N. unfold check_channel.
  assert (Hlt : (1 <? next_block c) = true) by (apply Z.ltb_lt; exact Hnb).
  rewrite Hlt, N. destruct (_ && _); discriminate.
Qed.

Lemma chain_to_prev c ch l1 q lv :
  chain_to c ch qc0 l1 q ->
  match last_opt l1 with Some p => edge c p ch 5 | None => Some qc0 end = Some lv -> q = lv.
Proof.
  intros H. destruct (last_opt_cases l1) as [->|[l' [p ->]]].
  - cbn in *. congruence.
  - rewrite last_opt_snoc. apply chain_to_last in H. congruence.
Qed.

Lemma set_block_cont c2 i blk dur chks :
  table_inv c2 -> Cont c2 -> length chks = 3%nat ->
  (forall ch, (ch < 3)%nat ->
     edge_value c2 (nth (2 + ch) blk 0) 4 = Some (ck_first (nth ch chks chk0)) /\
     edge_value c2 (nth (2 + ch) blk 0) 5 = Some (ck_last (nth ch chks chk0))) ->
  check_channels true c2 i dur 0 chks = None ->
  Cont (c2 <| blocks := aset Z.eqb (blocks c2) i blk |> <| durs := aset Z.eqb (durs c2) i dur |>).
Proof.
  intros [Tk [Tn [Te T1]]] HC L3 HE HK ch Hch.
  set (c3 := c2 <| blocks := aset Z.eqb (blocks c2) i blk |> <| durs := aset Z.eqb (durs c2) i dur |>).
  assert (S3 : step_of c3 = step_of c2) by reflexivity.
  change (akeys (blocks c3)) with (akeys (aset Z.eqb (blocks c2) i blk)).
  assert (Ho : forall b fld, b <> i -> edge c3 b ch fld = edge c2 b ch fld).
  { intros b fld Hb. unfold edge, blk_field.
    change (blocks c3) with (aset Z.eqb (blocks c2) i blk).
    rewrite (aget_aset_other Z.eqb Z.eqb_eq) by exact Hb. reflexivity. }
  assert (Hi : forall fld, edge c3 i ch fld = edge_value c2 (nth (2 + ch) blk 0) fld).
  { intros fld. unfold edge, blk_field.
    change (blocks c3) with (aset Z.eqb (blocks c2) i blk).
    rewrite (aget_aset_same Z.eqb Z.eqb_eq). reflexivity. }
  destruct (HE ch Hch) as [E4 E5].
  pose proof (check_channels_all _ _ _ _ _ HK ch ltac:(lia)) as K. cbn [Nat.add] in K.
  set (k := nth ch chks chk0) in *.
  destruct (Z_lt_le_dec 1 (next_block c2)) as [Hnb|Hnb].
  - destruct (neighbours c2 i) as [[prev next]|] eqn:N;
      [|exfalso; exact (check_channel_no_neighbours _ _ _ _ _ Hnb N K)].
    apply (check_channel_iff _ _ _ _ _ _ _ Hnb N) in K.
    destruct K as [_ [[lv [Hlv Wlv]] [Rn _]]].
    destruct (neighbours_spec c2 i prev next blk Tn (fun k H => proj2 (Tk k H)) N)
      as [l1 [l2 [K' [N1 [N2 [Hp [Hx Hcase]]]]]]].
    rewrite K'. subst prev next.
    specialize (HC ch Hch).
    assert (PRE : chain_to c2 ch qc0 l1 lv /\ chain_ok c2 ch (ck_last k) l2).
    { destruct Hcase as [Hk|[Hk ->]].
      - rewrite Hk in HC. apply chain_ok_app in HC. destruct HC as [q [Hq Hs]].
        rewrite (chain_to_prev _ _ _ _ _ Hq Hlv) in Hq. split; [exact Hq|].
        destruct Hs as [fi [li [_ [_ [_ Hs]]]]].
        destruct l2 as [|n r]; [exact I|].
        cbn [hd_error] in Rn. destruct Rn as [fv [Hfv Wfv]].
        apply (chain_ok_head _ _ _ _ _ _ Hs). intros f Hf.
        rewrite Hfv in Hf. injection Hf as <-. apply within_step_sym. exact Wfv.
      - rewrite Hk in HC. rewrite <- (app_nil_r l1) in HC. apply chain_ok_app in HC.
        destruct HC as [q [Hq _]].
        rewrite (chain_to_prev _ _ _ _ _ Hq Hlv) in Hq. split; [exact Hq|exact I]. }
    destruct PRE as [PRE SUF].
    apply (chain_replace c2 c3 ch i l1 l2 (ck_first k) (ck_last k) qc0 lv); auto.
    + rewrite Hi. exact E4.
    + rewrite Hi. exact E5.
  - apply (check_channel_first_iff _ _ _ _ _ Hnb) in K. destruct K as [W1 _].
    apply Te in Hnb. rewrite Hnb. cbn [aset akeys map fst chain_ok].
    exists (ck_first k), (ck_last k).
    split; [rewrite Hi; exact E4|]. split; [rewrite Hi; exact E5|].
    split; [|exact I]. apply (within_step_eq c2 c3 _ S3). apply within_step_zero_minus. exact W1.
Qed.

(* ==== set_block_core and step ==== *)
Lemma set_block_core_props c i evs hint c' clr e :
  gwf c -> table_inv c -> Cont c -> Forall ev_ok evs ->
  set_block_core true c i evs hint = (c', clr, e) ->
  gwf c' /\ next_block c' = next_block c /\ Cont c' /\
  match e with
  | Some _ => blocks c' = blocks c
  | None => exists blk, blocks c' = aset Z.eqb (blocks c) i blk
  end.
Proof.
  intros W T HC F. unfold set_block_core.
  destruct (ev_loop _ evs) as [a e0] eqn:L.
  pose proof (ev_loop_inv c evs _ _ _ (acc_inv_init c W) F L) as [X [Wa [AC [L7 L3]]]].
  destruct e0 as [x|].
  - intro H. injection H as <- _ <-.
    split; [exact Wa|]. split; [apply X|]. split; [exact (Cont_ext _ _ X HC)|apply X].
  - destruct (match a_exts a with [] => _ | _ :: _ => _ end) as [c2 blk] eqn:EX.
    assert (P : frame (a_core a) c2 /\
                forall ch, (ch < 3)%nat -> nth (2 + ch) blk 0 = nth (2 + ch) (a_blk a) 0).
    { destruct (a_exts a) as [|x0 r0].
      - injection EX as <- <-. split; [apply frame_refl|auto].
      - destruct (ext_register hint (ext_l (a_core a)) (x0 :: r0)) as [el eid].
        apply pair_equal_spec in EX. destruct EX as [<- <-]. split.
        + unfold frame. cbn. repeat split; reflexivity.
        + intros ch Hch. apply nth_set_nth_other. lia. }
    destruct P as [Fr Hb]. clear EX.
    pose proof (core_ext_trans _ _ _ X (frame_core_ext _ _ Fr)) as X2.
    pose proof (frame_gwf _ _ Fr Wa) as W2.
    pose proof (Cont_ext _ _ X2 HC) as HC2.
    pose proof (table_inv_ext _ _ X2 T) as T2.
    destruct (check_channels true c2 i (a_dur a) 0 (a_chk a)) as [x|] eqn:K.
    + intro H. injection H as <- _ <-.
      split; [exact W2|]. split; [apply X2|]. split; [exact HC2|apply X2].
    + intro H. injection H as <- _ <-.
      split; [exact W2|]. split; [apply X2|]. split.
      * apply (set_block_cont c2 i blk (a_dur a) (a_chk a)); auto.
        intros ch Hch. rewrite (Hb ch Hch). destruct (AC ch Hch) as [A4 A5].
        destruct (frame_core_ext _ _ Fr) as [_ [_ [_ [_ Mo]]]]. split; apply Mo; assumption.
      * exists blk. cbn. destruct X2 as [-> _]. reflexivity.
Qed.

Lemma aset_not_nil {V} (l : list (Z * V)) k v : aset Z.eqb l k v <> [].
Proof. destruct l as [|[k' v'] r]; cbn; [discriminate|]. destruct (k' =? k); discriminate. Qed.

Lemma NoDup_snoc (l : list Z) x : NoDup l -> ~ In x l -> NoDup (l ++ [x]).
Proof.
  induction l as [|y r IH]; intros ND N; cbn.
  - constructor; [tauto|constructor].
  - inversion ND as [|? ? Hy Hr]; subst. constructor.
    + intro H. apply in_app_or in H. destruct H as [H|[H|[]]]; [contradiction|].
      subst. apply N. left. reflexivity.
    + apply IH; [exact Hr|]. intro H. apply N. right. exact H.
Qed.

Lemma table_inv_set c c' i blk :
  table_inv c -> 1 <= i -> blocks c' = aset Z.eqb (blocks c) i blk ->
  next_block c' = (if next_block c <=? i then i + 1 else next_block c) -> table_inv c'.
Proof.
  intros [Tk [Tn [Te T1]]] Hi B N. unfold table_inv. rewrite B, N.
  assert (NB : next_block c <= (if next_block c <=? i then i + 1 else next_block c) /\
               i < (if next_block c <=? i then i + 1 else next_block c)).
  { destruct (Z.leb_spec (next_block c) i); lia. }
  destruct NB as [NB1 NB2].
  assert (KS : forall k, In k (akeys (aset Z.eqb (blocks c) i blk)) -> In k (akeys (blocks c)) \/ k = i).
  { intros k H. destruct (in_dec Z.eq_dec i (akeys (blocks c))) as [Hin|Hnin].
    - rewrite akeys_aset_in in H by (apply in_aget_some; exact Hin). auto.
    - rewrite akeys_aset_new in H by (apply notin_aget_none; exact Hnin).
      apply in_app_or in H. destruct H as [H|[H|[]]]; auto. }
  split; [|split; [|split]].
  - intros k H. apply KS in H. destruct H as [H|H]; [apply Tk in H; lia|subst k; lia].
  - destruct (in_dec Z.eq_dec i (akeys (blocks c))) as [Hin|Hnin].
    + rewrite akeys_aset_in by (apply in_aget_some; exact Hin). exact Tn.
    + rewrite akeys_aset_new by (apply notin_aget_none; exact Hnin). apply NoDup_snoc; assumption.
  - split; [intro H; exfalso; exact (aset_not_nil _ _ _ H)|lia].
  - lia.
Qed.

Lemma Cont_set_next c n : Cont c -> Cont (c <| next_block := n |>).
Proof.
  intros H ch Hch. specialize (H ch Hch).
  change (akeys (blocks (c <| next_block := n |>))) with (akeys (blocks c)).
  apply (chain_ok_mono c); [reflexivity| |exact H]. intros b fld v _ Hb. exact Hb.
Qed.

Lemma do_get_core co s i : st_core (fst (do_get co s i)) = st_core s.
Proof.
  unfold do_get. destruct (if co then aget Z.eqb (st_cache s) i else None); [reflexivity|].
  destruct (decode (st_core s) i); [|reflexivity]. destruct co; reflexivity.
Qed.

Lemma touch_core co ks : forall s,
  st_core (fold_left (fun st i => fst (do_get co st i)) ks s) = st_core s.
Proof.
  induction ks as [|k r IH]; intro s; cbn [fold_left]; [reflexivity|].
  rewrite IH. apply do_get_core.
Qed.

(* the one restriction on stand-alone registrations: no one-element shape id list (its library key
   would have the length of a trapezoid key) *)
Definition reg_ok (o : op) : Prop :=
  match o with RegGrad sids _ _ _ _ _ _ => sids_ok sids | _ => True end.

Definition cont_inv (c : core) : Prop := gwf c /\ table_inv c /\ Cont c.

Lemma cont_inv_ext c c' : gwf c' -> core_ext c c' -> cont_inv c -> cont_inv c'.
Proof.
  intros W X [_ [T H]]. split; [exact W|]. split; [exact (table_inv_ext _ _ X T)|exact (Cont_ext _ _ X H)].
Qed.

Lemma cont_inv_frame c c' : frame c c' -> cont_inv c -> cont_inv c'.
Proof.
  intros F I. apply (cont_inv_ext c); [apply (frame_gwf _ _ F), I|apply frame_core_ext, F|exact I].
Qed.

Lemma step_cont_inv cache_on r1 r2 r3 r4 s o :
  block_op_ok o -> reg_ok o -> cont_inv (st_core s) ->
  cont_inv (st_core (fst (step cache_on true r1 r2 r3 r4 s o))).
Proof.
  intros OK RO I. pose proof I as [W [T HC]].
  destruct o; cbn [block_op_ok reg_ok] in OK, RO; unfold step.
  - (* AddBlock *)
    destruct (set_block_core true (st_core s) (next_block (st_core s)) evs hint) as [[c' clr] e] eqn:S.
    destruct (set_block_core_props _ _ _ _ _ _ _ W T HC OK S) as [W' [N' [HC' B']]].
    destruct e as [x|]; cbn [fst st_core].
    + split; [exact W'|]. split; [|exact HC'].
      unfold table_inv. rewrite B', N'. exact T.
    + destruct B' as [blk B']. split; [exact W'|]. split; [|apply Cont_set_next; exact HC'].
      apply (table_inv_set (st_core s) _ (next_block (st_core s)) blk T); [apply T|exact B'|].
      cbn. rewrite Z.leb_refl. lia.
  - (* SetBlock *)
    destruct OK as [Hi OK].
    destruct (set_block_core true (st_core s) i evs hint) as [[c' clr] e] eqn:S.
    destruct (set_block_core_props _ _ _ _ _ _ _ W T HC OK S) as [W' [N' [HC' B']]].
    destruct e as [x|]; cbn [fst st_core].
    + split; [exact W'|]. split; [|exact HC'].
      unfold table_inv. rewrite B', N'. exact T.
    + destruct B' as [blk B']. split; [exact W'|]. split; [|apply Cont_set_next; exact HC'].
      apply (table_inv_set (st_core s) _ i blk T); [exact Hi|exact B'|].
      cbn. rewrite N'. reflexivity.
  - (* GetBlock *)
    destruct (do_get cache_on s i) as [s' b] eqn:G. cbn [fst].
    pose proof (do_get_core cache_on s i) as D. rewrite G in D. cbn [fst] in D. rewrite D. exact I.
  - (* RegRf *)
    destruct (register_rf _ _ _ _ _ _ _ _ _ _) as [[[c' id] ids] clr] eqn:R. cbn [fst st_core].
    apply register_rf_frame in R. exact (cont_inv_frame _ _ R I).
  - (* RegGrad *)
    destruct (register_grad _ _ _ _ _ _ _ _) as [[[c' id] ids] clr] eqn:R. cbn [fst st_core].
    destruct (register_grad_ok _ _ _ _ _ _ _ _ _ _ _ _ W RO R) as [W' [X' _]].
    exact (cont_inv_ext _ _ W' X' I).
  - (* RegTrap *)
    destruct (register_trap _ _ _ _ _ _) as [[c' id] clr] eqn:R. cbn [fst st_core].
    destruct (register_trap_ok _ _ _ _ _ _ _ _ _ W R) as [W' [X' _]].
    exact (cont_inv_ext _ _ W' X' I).
  - (* RegAdc *)
    destruct (register_adc _ _ _ _ _ _ _) as [[c' id] clr] eqn:R. cbn [fst st_core].
    apply register_adc_frame in R. exact (cont_inv_frame _ _ R I).
  - (* RegLabel *)
    destruct (register_label _ _ _ _) as [[c' id] clr] eqn:R. cbn [fst st_core].
    apply register_label_frame in R. exact (cont_inv_frame _ _ R I).
  - contradiction.
  - exact I.
  - cbn [fst]. rewrite touch_core. exact I.
  - contradiction.
Qed.

(* ==== B. table invariant on its own; C. the theorems ==== *)
(* ---- B: the block table invariant on its own (any abs_fix, any events) ---- *)
Definition tframe (c c' : core) : Prop := blocks c' = blocks c /\ next_block c' = next_block c.

Lemma tframe_refl c : tframe c c.
Proof. split; reflexivity. Qed.
Lemma tframe_trans c1 c2 c3 : tframe c1 c2 -> tframe c2 c3 -> tframe c1 c3.
Proof. intros [A1 A2] [B1 B2]. split; congruence. Qed.
Lemma frame_tframe c c' : frame c c' -> tframe c c'.
Proof. intros [_ [B [N _]]]. split; assumption. Qed.

Lemma register_trap_tframe c amp rise flat fall delay c' id f :
  register_trap c amp rise flat fall delay = (c', id, f) -> tframe c c'.
Proof.
  unfold register_trap. destruct (kfoi _ _ _) as [[l i] fo]. intro H.
  apply pair_equal_spec in H. destruct H as [H _]. apply pair_equal_spec in H. destruct H as [<- _].
  split; reflexivity.
Qed.

Lemma register_grad_tframe c sids amp w ts delay first last c' id ids clr :
  register_grad c sids amp w ts delay first last = (c', id, ids, clr) -> tframe c c'.
Proof.
  unfold register_grad.
  destruct (match sids with Some ids0 => _ | None => _ end) as [[[sl ids0] me] ac].
  cbv zeta. destruct me.
  - destruct (kfoi _ _ _) as [[gl gid] fo]. intro H. injection H as <- _ _ _. split; reflexivity.
  - destruct (kins _ _ _ _) as [gl gid]. intro H. injection H as <- _ _ _. split; reflexivity.
Qed.

Lemma ev_step_tframe a e a' : ev_step a e = inl a' -> tframe (a_core a) (a_core a').
Proof.
  intro H. destruct e; unfold ev_step in H.
  - destruct (negb _); [discriminate|]. destruct id as [i|].
    + apply inl_inj in H. subst a'. apply tframe_refl.
    + destruct (register_rf _ _ _ _ _ _ _ _ _ _) as [[[c1 i] ids] clr] eqn:R.
      apply inl_inj in H. subst a'. apply register_rf_frame in R. apply frame_tframe. exact R.
  - destruct (negb _); [discriminate|]. destruct id as [i|].
    + apply inl_inj in H. subst a'. apply tframe_refl.
    + destruct (register_grad _ _ _ _ _ _ _ _) as [[[c1 i] ids] clr] eqn:R.
      apply inl_inj in H. subst a'. apply register_grad_tframe in R. exact R.
  - destruct (negb _); [discriminate|]. destruct id as [i|].
    + apply inl_inj in H. subst a'. apply tframe_refl.
    + destruct (register_trap _ _ _ _ _ _) as [[c1 i] clr] eqn:R.
      apply inl_inj in H. subst a'. apply register_trap_tframe in R. exact R.
  - destruct (negb _); [discriminate|]. destruct id as [i|].
    + apply inl_inj in H. subst a'. apply tframe_refl.
    + destruct (register_adc _ _ _ _ _ _ _) as [[c1 i] clr] eqn:R.
      apply inl_inj in H. subst a'. apply register_adc_frame in R. apply frame_tframe. exact R.
  - apply inl_inj in H. subst a'. apply tframe_refl.
  - destruct id as [i|].
    + destruct (ext_type_id (a_core a) XS_TRIGGERS) as [c2 tid] eqn:T.
      apply inl_inj in H. subst a'. apply ext_type_id_frame in T. apply frame_tframe. exact T.
    + destruct (register_ctl _ _ _ _ _) as [[c1 i] clr] eqn:R.
      destruct (ext_type_id c1 XS_TRIGGERS) as [c2 tid] eqn:T.
      apply inl_inj in H. subst a'. apply ext_type_id_frame in T. apply register_ctl_frame in R.
      apply frame_tframe. exact (frame_trans _ _ _ R T).
  - destruct id as [i|].
    + destruct (ext_type_id (a_core a) _) as [c2 tid] eqn:T.
      apply inl_inj in H. subst a'. apply ext_type_id_frame in T. apply frame_tframe. exact T.
    + destruct (register_label _ _ _ _) as [[c1 i] clr] eqn:R.
      destruct (ext_type_id c1 _) as [c2 tid] eqn:T.
      apply inl_inj in H. subst a'. apply ext_type_id_frame in T. apply register_label_frame in R.
      apply frame_tframe. exact (frame_trans _ _ _ R T).
  - apply inl_inj in H. subst a'. apply tframe_refl.
Qed.

Lemma ev_loop_tframe evs : forall a a' e, ev_loop a evs = (a', e) -> tframe (a_core a) (a_core a').
Proof.
  induction evs as [|ev r IH]; intros a a' e H; cbn [ev_loop] in H.
  - injection H as <- _. apply tframe_refl.
  - destruct (ev_step a ev) as [a1|x] eqn:S.
    + apply (tframe_trans _ (a_core a1)); [exact (ev_step_tframe _ _ _ S)|exact (IH _ _ _ H)].
    + injection H as <- _. apply tframe_refl.
Qed.

Lemma set_block_core_table abs_fix c i evs hint c' clr e :
  set_block_core abs_fix c i evs hint = (c', clr, e) ->
  next_block c' = next_block c /\
  match e with
  | Some _ => blocks c' = blocks c
  | None => exists blk, blocks c' = aset Z.eqb (blocks c) i blk
  end.
Proof.
  unfold set_block_core. destruct (ev_loop _ evs) as [a e0] eqn:L.
  apply ev_loop_tframe in L. cbn [a_core] in L. destruct L as [LB LN].
  destruct e0 as [x|].
  - intro H. injection H as <- _ <-. auto.
  - destruct (match a_exts a with [] => _ | _ :: _ => _ end) as [c2 blk] eqn:EX.
    assert (P : tframe (a_core a) c2).
    { destruct (a_exts a) as [|x0 r0].
      - injection EX as <- _. apply tframe_refl.
      - destruct (ext_register hint (ext_l (a_core a)) (x0 :: r0)) as [el eid].
        apply pair_equal_spec in EX. destruct EX as [<- _]. split; reflexivity. }
    destruct P as [PB PN]. clear EX.
    destruct (check_channels abs_fix c2 i (a_dur a) 0 (a_chk a)) as [x|].
    + intro H. injection H as <- _ <-. split; congruence.
    + intro H. injection H as <- _ <-. split; [cbn; congruence|].
      exists blk. cbn. rewrite PB, LB. reflexivity.
Qed.

Theorem step_table_inv : forall cache_on abs_fix r1 r2 r3 r4 s o,
  block_op_ok o -> table_inv (st_core s) ->
  table_inv (st_core (fst (step cache_on abs_fix r1 r2 r3 r4 s o))).
Proof.
  intros cache_on abs_fix r1 r2 r3 r4 s o OK T.
  assert (TF : forall c', tframe (st_core s) c' -> table_inv c').
  { intros c' [B N]. unfold table_inv. rewrite B, N. exact T. }
  destruct o; cbn [block_op_ok] in OK; unfold step.
  - destruct (set_block_core abs_fix (st_core s) (next_block (st_core s)) evs hint) as [[c' clr] e] eqn:S.
    destruct (set_block_core_table _ _ _ _ _ _ _ _ S) as [N' B'].
    destruct e as [x|]; cbn [fst st_core].
    + apply TF. split; assumption.
    + destruct B' as [blk B'].
      apply (table_inv_set (st_core s) _ (next_block (st_core s)) blk T); [apply T|exact B'|].
      cbn. rewrite Z.leb_refl. lia.
  - destruct OK as [Hi OK].
    destruct (set_block_core abs_fix (st_core s) i evs hint) as [[c' clr] e] eqn:S.
    destruct (set_block_core_table _ _ _ _ _ _ _ _ S) as [N' B'].
    destruct e as [x|]; cbn [fst st_core].
    + apply TF. split; assumption.
    + destruct B' as [blk B'].
      apply (table_inv_set (st_core s) _ i blk T); [exact Hi|exact B'|].
      cbn. rewrite N'. reflexivity.
  - destruct (do_get cache_on s i) as [s' b] eqn:G. cbn [fst].
    pose proof (do_get_core cache_on s i) as D. rewrite G in D. cbn [fst] in D. rewrite D. exact T.
  - destruct (register_rf _ _ _ _ _ _ _ _ _ _) as [[[c' id] ids] clr] eqn:R. cbn [fst st_core].
    apply TF, frame_tframe. exact (register_rf_frame _ _ _ _ _ _ _ _ _ _ _ _ _ _ R).
  - destruct (register_grad _ _ _ _ _ _ _ _) as [[[c' id] ids] clr] eqn:R. cbn [fst st_core].
    apply TF. exact (register_grad_tframe _ _ _ _ _ _ _ _ _ _ _ _ R).
  - destruct (register_trap _ _ _ _ _ _) as [[c' id] clr] eqn:R. cbn [fst st_core].
    apply TF. exact (register_trap_tframe _ _ _ _ _ _ _ _ _ R).
  - destruct (register_adc _ _ _ _ _ _ _) as [[c' id] clr] eqn:R. cbn [fst st_core].
    apply TF, frame_tframe. exact (register_adc_frame _ _ _ _ _ _ _ _ _ _ R).
  - destruct (register_label _ _ _ _) as [[c' id] clr] eqn:R. cbn [fst st_core].
    apply TF, frame_tframe. exact (register_label_frame _ _ _ _ _ _ _ R).
  - contradiction.
  - exact T.
  - cbn [fst]. rewrite touch_core. exact T.
  - contradiction.
Qed.
Print Assumptions step_table_inv.

(* ---- C: the theorems ---- *)
Lemma run_fst_gen cache_on abs_fix r1 r2 r3 r4 ops : forall acc : state * list out,
  fst (fold_left (fun (acc : state * list out) o =>
                    let '(s', x) := step cache_on abs_fix r1 r2 r3 r4 (fst acc) o in
                    (s', snd acc ++ [x])) ops acc) =
  fold_left (fun s o => fst (step cache_on abs_fix r1 r2 r3 r4 s o)) ops (fst acc).
Proof.
  induction ops as [|o r IH]; intros acc; cbn [fold_left]; [reflexivity|].
  rewrite IH. destruct (step cache_on abs_fix r1 r2 r3 r4 (fst acc) o) as [s' x]. reflexivity.
Qed.

Lemma run_fst cache_on abs_fix r1 r2 r3 r4 ops s0 :
  fst (run cache_on abs_fix r1 r2 r3 r4 s0 ops) =
  fold_left (fun s o => fst (step cache_on abs_fix r1 r2 r3 r4 s o)) ops s0.
Proof. unfold run. rewrite run_fst_gen. reflexivity. Qed.

Lemma Cont_init g sr sl e : Cont (core_init g sr sl e).
Proof. intros ch _. exact I. Qed.

Lemma gwf_init g sr sl e : gwf (core_init g sr sl e).
Proof. exact glib_wf_empty. Qed.

Theorem step_gwf : forall cache_on r1 r2 r3 r4 s o,
  block_op_ok o -> reg_ok o -> gwf (st_core s) -> table_inv (st_core s) -> Cont (st_core s) ->
  gwf (st_core (fst (step cache_on true r1 r2 r3 r4 s o))).
Proof. intros. apply step_cont_inv; auto. split; auto. Qed.

Theorem step_cont_partial : forall cache_on r1 r2 r3 r4 s o,
  block_op_ok o -> reg_ok o -> gwf (st_core s) -> table_inv (st_core s) -> Cont (st_core s) ->
  Cont (st_core (fst (step cache_on true r1 r2 r3 r4 s o))).
Proof. intros. apply step_cont_inv; auto. split; auto. Qed.
Print Assumptions step_cont_partial.

Theorem cont_reachable_partial : forall cache_on r1 r2 r3 r4 ops g sr sl e,
  Forall block_op_ok ops -> Forall reg_ok ops ->
  Cont (st_core (fst (run cache_on true r1 r2 r3 r4 (mkState (core_init g sr sl e) []) ops))).
Proof.
  intros cache_on r1 r2 r3 r4 ops g sr sl e F1 F2. rewrite run_fst.
  assert (I0 : cont_inv (st_core (mkState (core_init g sr sl e) []))).
  { split; [apply gwf_init|]. split; [apply table_inv_init|apply Cont_init]. }
  revert I0. generalize (mkState (core_init g sr sl e) []).
  induction ops as [|o r IH]; intros s I0; cbn [fold_left]; [apply I0|].
  inversion F1; inversion F2; subst. apply IH; auto. apply step_cont_inv; auto.
Qed.
Print Assumptions cont_reachable_partial.

(* ==== D. non-vacuity, and refutation of the statements without [reg_ok] ==== *)
(* raster 1, max_slew 1 (one slew step = 1), eps 1e-6 *)
Definition d_core : core := core_init (Q2Qc 1) (Q2Qc 1) (Q2Qc 1) (Q2Qc (1 # 1000000)).
Definition idk (k : key) : key := k.
Definition qA : Qc := Q2Qc 5.
(* an arbitrary gradient on channel 0 lasting 2 raster steps, from [f] to [l] *)
Definition g_ev (f l : Qc) : mevent :=
  MGrad 0 None None qA [f; l] None qc0 f l qc0 (Q2Qc 2).
Definition d_ops3 : list op :=
  [AddBlock [g_ev qc0 qA] []; AddBlock [g_ev qA qA] []; AddBlock [g_ev qA qc0] []].
Definition d_ops2 : list op :=
  [AddBlock [g_ev qc0 qA] []; AddBlock [g_ev qc0 qc0] []].
Definition d_run (ops : list op) := run false true idk idk idk idk (mkState d_core []) ops.

Example cont_example :
  Forall block_op_ok d_ops3 /\ Forall reg_ok d_ops3 /\
  snd (d_run d_ops3) = [ONone; ONone; ONone] /\
  akeys (blocks (st_core (fst (d_run d_ops3)))) = [1; 2; 3] /\
  map (fun b => (option_map this (edge (st_core (fst (d_run d_ops3))) b 0 4),
                 option_map this (edge (st_core (fst (d_run d_ops3))) b 0 5))) [1; 2; 3]
  = [(Some (0 # 1), Some (5 # 1)); (Some (5 # 1), Some (5 # 1)); (Some (5 # 1), Some (0 # 1))]%Q /\
  (* the rule is not vacuous for these numbers: a jump of A exceeds one step *)
  ~ within_step (st_core (fst (d_run d_ops3))) qA /\
  Cont (st_core (fst (d_run d_ops3))) /\
  (* a block starting at 0 after a block ending at A is refused *)
  snd (d_run d_ops2) = [ONone; OErr EConnect].
Proof.
  assert (B3 : Forall block_op_ok d_ops3).
  { unfold d_ops3, g_ev. repeat constructor; cbn; lia. }
  assert (R3 : Forall reg_ok d_ops3) by (repeat constructor).
  split; [exact B3|]. split; [exact R3|].
  split; [vm_compute; reflexivity|]. split; [vm_compute; reflexivity|].
  split; [vm_compute; reflexivity|].
  split; [vm_compute; discriminate|].
  split; [apply cont_reachable_partial; assumption|].
  vm_compute; reflexivity.
Qed.
Print Assumptions cont_example.

(* ---- why [reg_ok] is needed: the statements without it are refuted ---- *)
Definition bad_ops : list op :=
  [ RegGrad (Some [7]) (Q2Qc 3) [] None (Q2Qc 1) (Q2Qc 2) (Q2Qc 9);
    AddBlock [MTrap 0 None (Q2Qc 3) (zq 7) (Q2Qc 1) (Q2Qc 2) (Q2Qc 9)] [] ].

Example cont_reachable_refuted :
  Forall block_op_ok bad_ops /\
  snd (d_run bad_ops) = [OId 1 [7]; ONone] /\
  ~ Cont (st_core (fst (d_run bad_ops))).
Proof.
  split; [unfold bad_ops; repeat constructor; cbn; lia|].
  split; [vm_compute; reflexivity|].
  intro H. specialize (H 0%nat ltac:(lia)).
  change (akeys (blocks (st_core (fst (d_run bad_ops))))) with [1] in H.
  destruct H as [f [l [_ [H5 _]]]]. vm_compute in H5. discriminate.
Qed.
Print Assumptions cont_reachable_refuted.

Example step_cont_refuted :
  exists s o, block_op_ok o /\ core_inv (st_core s) /\ table_inv (st_core s) /\ Cont (st_core s) /\
              ~ Cont (st_core (fst (step false true idk idk idk idk s o))).
Proof.
  exists (fst (step false true idk idk idk idk (mkState d_core [])
                    (RegGrad (Some [7]) (Q2Qc 3) [] None (Q2Qc 1) (Q2Qc 2) (Q2Qc 9)))),
         (AddBlock [MTrap 0 None (Q2Qc 3) (zq 7) (Q2Qc 1) (Q2Qc 2) (Q2Qc 9)] []).
  split; [repeat constructor; cbn; lia|].
  split.
  { unfold core_inv, lib_inv. cbn -[Q2Qc zq].
    repeat split; intros id k H; try contradiction; destruct H as [H|[]]; injection H as <- _; lia. }
  split.
  { apply step_table_inv; [exact I|apply table_inv_init]. }
  split.
  { intros ch _. exact I. }
  intro H. specialize (H 0%nat ltac:(lia)).
  match type of H with chain_ok ?c _ _ (akeys (blocks _)) =>
    change (akeys (blocks c)) with [1] in H end.
  destruct H as [f [l [_ [H5 _]]]]. vm_compute in H5. discriminate.
Qed.
Print Assumptions step_cont_refuted.
