(* Proofs/FileProofs.v — lemmas about Model/File.v: decimal exponent, significant-digit rounding
   (error, idempotence, exactness), per-column round trip and print idempotence, rows, libraries. *)
From Coq Require Import List Bool ZArith QArith Qpower Qround Qabs Qreduction Lia Lqa.
From Coq Require Qcanon.
From PV Require Import Base.QUtil Gen.GenFile Model.File.
Import ListNotations.
Open Scope Q_scope.

(* ================================================================================================ *)
(* A. powers of ten                                                                                  *)
Lemma ten_nz : ~ ten == 0.
Proof. unfold ten. intro H. discriminate H. Qed.
Lemma ten_gt1 : 1 < ten.
Proof. unfold ten. reflexivity. Qed.

Lemma p10_pos z : 0 < p10 z.
Proof. apply Qpower_0_lt. reflexivity. Qed.
Lemma p10_nz z : ~ p10 z == 0.
Proof. pose proof (p10_pos z). lra. Qed.
Lemma p10_add a b : p10 (a + b) == p10 a * p10 b.
Proof. apply Qpower_plus. exact ten_nz. Qed.
Lemma p10_0 : p10 0 == 1.
Proof. reflexivity. Qed.
Lemma p10_1 : p10 1 == 10 # 1.
Proof. reflexivity. Qed.
Lemma p10_inv a : p10 a * p10 (- a) == 1.
Proof. rewrite <- p10_add. replace (a + - a)%Z with 0%Z by lia. reflexivity. Qed.
Lemma p10_le a b : (a <= b)%Z -> p10 a <= p10 b.
Proof. intro H. apply Qpower_le_compat_l; [exact H|]. unfold ten. discriminate. Qed.
Lemma p10_lt a b : (a < b)%Z -> p10 a < p10 b.
Proof. intro H. apply Qpower_lt_compat_l; [exact H|exact ten_gt1]. Qed.
Lemma p10_Z n : (0 <= n)%Z -> p10 n == inject_Z (10 ^ n).
Proof. intro H. unfold p10, ten. rewrite Zpower_Qpower by exact H. reflexivity. Qed.
Lemma p10_succ a : p10 (a + 1) == (10 # 1) * p10 a.
Proof. rewrite p10_add, p10_1. ring. Qed.

(* a decade determines its exponent *)
Lemma decade_unique x e e' :
  p10 e <= x -> x < p10 (e + 1) -> p10 e' <= x -> x < p10 (e' + 1) -> e = e'.
Proof.
  intros A B C D.
  destruct (Z_lt_le_dec e e') as [L|L].
  - assert (p10 (e + 1) <= p10 e') by (apply p10_le; lia). lra.
  - destruct (Z_lt_le_dec e' e) as [L2|L2]; [|lia].
    assert (p10 (e' + 1) <= p10 e) by (apply p10_le; lia). lra.
Qed.

(* ================================================================================================ *)
(* B. flog10                                                                                         *)
Lemma flog_search_spec x fuel : forall e,
  p10 e <= x -> x < p10 (e + Z.of_nat fuel) ->
  p10 (flog_search x e fuel) <= x /\ x < p10 (flog_search x e fuel + 1).
Proof.
  induction fuel as [|f IH]; intros e A B.
  - cbn [flog_search]. replace (e + Z.of_nat 0)%Z with e in B by lia. lra.
  - cbn [flog_search]. destruct (Qle_bool (p10 (e + 1)) x) eqn:E.
    + apply Qle_bool_iff in E. apply IH; [exact E|].
      replace (e + 1 + Z.of_nat f)%Z with (e + Z.of_nat (S f))%Z by lia. exact B.
    + split; [exact A|]. apply Qnot_le_lt. intro H. apply Qle_bool_iff in H. congruence.
Qed.

Lemma two_le_ten_pow n : (0 <= n)%Z -> (2 ^ n <= 10 ^ n)%Z.
Proof. intro H. apply Z.pow_le_mono_l. lia. Qed.

(* x = p/q < 10^(size p) *)
Lemma upper_bound (p q : positive) : Z.pos p # q < p10 (Z.pos (Pos.size p)).
Proof.
  rewrite p10_Z by lia.
  pose proof (Pos.size_gt p) as G.
  assert (G' : (Z.pos p < 2 ^ Z.pos (Pos.size p))%Z).
  { rewrite <- Pos2Z.inj_pow. apply Pos2Z.pos_lt_pos. exact G. }
  pose proof (two_le_ten_pow (Z.pos (Pos.size p)) ltac:(lia)) as T.
  unfold Qlt, inject_Z. cbn [Qnum Qden].
  assert (1 <= Z.pos q)%Z by lia. nia.
Qed.

(* 10^-(size q) <= p/q *)
Lemma lower_bound (p q : positive) : p10 (- Z.pos (Pos.size q)) <= Z.pos p # q.
Proof.
  set (s := Z.pos (Pos.size q)).
  assert (I : p10 (- s) * p10 s == 1) by (rewrite Qmult_comm; apply p10_inv).
  pose proof (p10_pos s) as P. pose proof (p10_pos (- s)) as P'.
  pose proof (Pos.size_gt q) as G.
  assert (G' : (Z.pos q < 2 ^ s)%Z).
  { unfold s. rewrite <- Pos2Z.inj_pow. apply Pos2Z.pos_lt_pos. exact G. }
  pose proof (two_le_ten_pow s ltac:(unfold s; lia)) as T.
  assert (Q1 : inject_Z (Z.pos q) <= p10 s).
  { rewrite p10_Z by (unfold s; lia). rewrite <- Zle_Qle. lia. }
  (* p/q >= 1/q >= 1/10^s *)
  assert (E : (Z.pos p # q) * inject_Z (Z.pos q) == inject_Z (Z.pos p)).
  { unfold Qeq, Qmult, inject_Z. cbn [Qnum Qden]. rewrite Pos.mul_1_r. ring. }
  assert (O : 1 <= inject_Z (Z.pos p)) by (change 1 with (inject_Z 1); rewrite <- Zle_Qle; lia).
  assert (X : 0 < Z.pos p # q) by reflexivity.
  (* (p/q) * 10^s >= (p/q) * q = p >= 1 = 10^-s * 10^s *)
  assert (H1 : (Z.pos p # q) * inject_Z (Z.pos q) <= (Z.pos p # q) * p10 s).
  { apply Qmult_le_l; [exact X|exact Q1]. }
  assert (H2 : p10 (- s) * p10 s <= (Z.pos p # q) * p10 s) by lra.
  apply Qmult_le_r in H2; [exact H2|exact P].
Qed.

Lemma flog10_spec x : 0 < x -> p10 (flog10 x) <= x /\ x < p10 (flog10 x + 1).
Proof.
  intro Hx. destruct x as [n q]. unfold flog10. cbn [Qnum Qden].
  destruct n as [|p|p]; [discriminate Hx| |discriminate Hx].
  set (r := flog_search _ _ 4).
  destruct (in_decade (Z.pos p # q) r) eqn:D.
  - unfold in_decade in D. apply andb_true_iff in D. destruct D as [D1 D2].
    apply Qle_bool_iff in D1. apply negb_true_iff in D2.
    split; [exact D1|]. apply Qnot_le_lt. intro H. apply Qle_bool_iff in H. congruence.
  - apply flog_search_spec.
    + apply lower_bound.
    + rewrite Z2Nat.id by lia.
      replace (- Z.pos (Pos.size q) + (Z.pos (Pos.size p) + Z.pos (Pos.size q)))%Z with (Z.pos (Pos.size p)) by lia.
      apply upper_bound.
Qed.

Lemma flog10_unique x e : p10 e <= x -> x < p10 (e + 1) -> flog10 x = e.
Proof.
  intros A B. assert (Hx : 0 < x) by (pose proof (p10_pos e); lra).
  destruct (flog10_spec x Hx) as [C D]. eapply decade_unique; eauto.
Qed.

Lemma flog10_Proper x y : x == y -> 0 < x -> flog10 x = flog10 y.
Proof.
  intros E Hx. destruct (flog10_spec x Hx) as [A B].
  symmetry. apply flog10_unique; rewrite <- E; assumption.
Qed.

(* ================================================================================================ *)
(* C. rounding helpers                                                                               *)
Lemma rnd_he_lower (a : Z) (x : Q) : inject_Z a <= x -> (a <= rnd_he x)%Z.
Proof.
  intro H. pose proof (rnd_he_err x) as E. apply Qabs_Qle_condition in E. unfold Qhalf in E.
  destruct E as [_ E2].
  assert (L : inject_Z a - 1 < inject_Z (rnd_he x)) by lra.
  change 1 with (inject_Z 1) in L. unfold Qminus in L. rewrite <- inject_Z_opp, <- inject_Z_plus in L.
  rewrite <- Zlt_Qlt in L. lia.
Qed.
Lemma rnd_he_upper (b : Z) (x : Q) : x <= inject_Z b -> (rnd_he x <= b)%Z.
Proof.
  intro H. pose proof (rnd_he_err x) as E. apply Qabs_Qle_condition in E. unfold Qhalf in E.
  destruct E as [E1 _].
  assert (L : inject_Z (rnd_he x) < inject_Z b + 1) by lra.
  change 1 with (inject_Z 1) in L. rewrite <- inject_Z_plus in L.
  rewrite <- Zlt_Qlt in L. lia.
Qed.

Definition is_int (x : Q) : Prop := exists z : Z, x == inject_Z z.

Lemma rnd_he_int x : is_int x -> inject_Z (rnd_he x) == x.
Proof. intros [z E]. rewrite (rnd_he_Proper _ _ E), rnd_he_inject. symmetry. exact E. Qed.

Lemma is_int_mult_p10 x j : is_int x -> (0 <= j)%Z -> is_int (x * p10 j).
Proof.
  intros [z E] H. exists (z * 10 ^ j)%Z. rewrite E, p10_Z by exact H. rewrite inject_Z_mult. reflexivity.
Qed.

(* ================================================================================================ *)
(* D. fmt_sig: the value printed by '{:g}' / '{:.9g}'                                               *)
Lemma Qeq_bool_false x y : Qeq_bool x y = false -> ~ x == y.
Proof. intros H E. apply Qeq_bool_iff in E. congruence. Qed.

(* unfolding for a non-zero argument with known decade *)
Lemma fmt_sig_unfold n x e :
  ~ x == 0 -> p10 e <= Qabs x -> Qabs x < p10 (e + 1) ->
  fmt_sig n x == inject_Z (rnd_he (x * p10 (n - 1 - e))) * p10 (- (n - 1 - e)).
Proof.
  intros Hx A B. unfold fmt_sig.
  destruct (Qeq_bool x 0) eqn:Z0; [apply Qeq_bool_iff in Z0; contradiction|].
  rewrite (flog10_unique (Qabs x) e A B). apply Qred_correct.
Qed.

Lemma fmt_sig_zero n x : x == 0 -> fmt_sig n x = 0.
Proof. intro H. unfold fmt_sig. apply Qeq_bool_iff in H. rewrite H. reflexivity. Qed.

Lemma Qabs_pos_nz x : ~ x == 0 -> 0 < Qabs x.
Proof.
  intro H. destruct (Qlt_le_dec x 0) as [N|P].
  - rewrite Qabs_neg by lra. lra.
  - rewrite Qabs_pos by lra. destruct (Qeq_dec x 0); [contradiction|lra].
Qed.

Global Instance fmt_sig_Proper n : Proper (Qeq ==> eq) (fmt_sig n).
Proof.
  intros x y E. change (x == y) in E. unfold fmt_sig.
  assert (Z0 : Qeq_bool x 0 = Qeq_bool y 0).
  { destruct (Qeq_bool x 0) eqn:A; destruct (Qeq_bool y 0) eqn:B; try reflexivity.
    - apply Qeq_bool_iff in A. apply Qeq_bool_false in B. exfalso. apply B. rewrite <- E. exact A.
    - apply Qeq_bool_iff in B. apply Qeq_bool_false in A. exfalso. apply A. rewrite E. exact B. }
  rewrite <- Z0. destruct (Qeq_bool x 0) eqn:A; [reflexivity|].
  apply Qeq_bool_false in A.
  assert (F : flog10 (Qabs x) = flog10 (Qabs y)).
  { apply flog10_Proper; [apply Qabs_wd; exact E|apply Qabs_pos_nz; exact A]. }
  rewrite <- F. apply Qred_complete.
  assert (R : rnd_he (x * p10 (n - 1 - flog10 (Qabs x))) = rnd_he (y * p10 (n - 1 - flog10 (Qabs x)))).
  { apply rnd_he_Proper. apply Qmult_comp; [exact E|reflexivity]. }
  rewrite R. reflexivity.
Qed.

(* decade of a non-zero number *)
Lemma decade_of x : ~ x == 0 -> let e := flog10 (Qabs x) in p10 e <= Qabs x /\ Qabs x < p10 (e + 1).
Proof. intro H. apply flog10_spec. apply Qabs_pos_nz. exact H. Qed.

(* error: half a unit of the n-th significant digit *)
Lemma fmt_sig_err n x : Qabs (fmt_sig n x - x) <= (1 # 2) * p10 (1 - n) * Qabs x.
Proof.
  destruct (Qeq_dec x 0) as [Z0|NZ].
  - rewrite (fmt_sig_zero n x Z0). assert (A0 : Qabs (0 - x) == 0) by (rewrite Z0; reflexivity).
    rewrite A0. pose proof (p10_pos (1 - n)). pose proof (Qabs_nonneg x). nra.
  - destruct (decade_of x NZ) as [A B]. set (e := flog10 (Qabs x)) in *.
    rewrite (fmt_sig_unfold n x e NZ A B).
    set (k := (n - 1 - e)%Z). set (m := rnd_he (x * p10 k)).
    pose proof (rnd_he_err (x * p10 k)) as E. fold m in E. unfold Qhalf in E.
    pose proof (p10_pos k) as Pk. pose proof (p10_pos (- k)) as Pk'. pose proof (p10_inv k) as I.
    assert (R : inject_Z m * p10 (- k) - x == - (x * p10 k - inject_Z m) * p10 (- k)).
    { setoid_replace x with (x * (p10 k * p10 (- k))) at 1 by (rewrite I; ring). ring. }
    rewrite R, Qabs_Qmult, Qabs_opp, (Qabs_pos (p10 (- k))) by lra.
    assert (S1 : Qabs (x * p10 k - inject_Z m) * p10 (- k) <= (1 # 2) * p10 (- k)).
    { apply Qmult_le_compat_r; [exact E|lra]. }
    (* p10 (-k) = p10 (1-n) * p10 e <= p10 (1-n) * |x| *)
    assert (S2 : p10 (- k) == p10 (1 - n) * p10 e).
    { rewrite <- p10_add. replace (1 - n + e)%Z with (- k)%Z by (unfold k; lia). reflexivity. }
    pose proof (p10_pos (1 - n)) as P1.
    assert (S3 : p10 (1 - n) * p10 e <= p10 (1 - n) * Qabs x) by (apply Qmult_le_l; assumption).
    rewrite S2 in S1. nra.
Qed.

(* the rounded mantissa stays within [10^(n-1), 10^n] in magnitude *)
Lemma mantissa_range n x e :
  (1 <= n)%Z -> ~ x == 0 -> p10 e <= Qabs x -> Qabs x < p10 (e + 1) ->
  let m := rnd_he (x * p10 (n - 1 - e)) in
  (10 ^ (n - 1) <= Z.abs m <= 10 ^ n)%Z /\ (0 < x -> (0 < m)%Z) /\ (x < 0 -> (m < 0)%Z).
Proof.
  intros Hn NZ A B m. set (k := (n - 1 - e)%Z) in *.
  pose proof (p10_pos k) as Pk.
  assert (L : p10 (n - 1) <= Qabs x * p10 k).
  { replace (n - 1)%Z with (e + k)%Z by (unfold k; lia). rewrite (p10_add e k). apply Qmult_le_compat_r; lra. }
  assert (U : Qabs x * p10 k < p10 n).
  { assert (PN : p10 n == p10 (e + 1) * p10 k).
    { rewrite <- (p10_add (e + 1) k). replace (e + 1 + k)%Z with n by (unfold k; lia). reflexivity. }
    rewrite PN. apply Qmult_lt_compat_r; lra. }
  rewrite (p10_Z (n - 1)) in L by lia. rewrite (p10_Z n) in U by lia.
  assert (P : (0 < 10 ^ (n - 1))%Z) by (apply Z.pow_pos_nonneg; lia).
  destruct (Qlt_le_dec x 0) as [Neg|Pos].
  - rewrite (Qabs_neg x) in L, U by lra.
    assert (U1 : x * p10 k <= inject_Z (- 10 ^ (n - 1))) by (rewrite inject_Z_opp; lra).
    assert (L1 : inject_Z (- 10 ^ n) <= x * p10 k) by (rewrite inject_Z_opp; lra).
    apply rnd_he_upper in U1. apply rnd_he_lower in L1. fold m in U1, L1.
    repeat split; try lia. intro; lra.
  - rewrite (Qabs_pos x) in L, U by lra.
    assert (L1 : inject_Z (10 ^ (n - 1)) <= x * p10 k) by lra.
    assert (U1 : x * p10 k <= inject_Z (10 ^ n)) by lra.
    apply rnd_he_upper in U1. apply rnd_he_lower in L1. fold m in U1, L1.
    repeat split; try lia. intro; lra.
Qed.

(* a value that already is an integer multiple of 10^-(n-1-e) in its decade is printed exactly *)
Lemma fmt_sig_exact n x e :
  ~ x == 0 -> p10 e <= Qabs x -> Qabs x < p10 (e + 1) -> is_int (x * p10 (n - 1 - e)) ->
  fmt_sig n x == x.
Proof.
  intros NZ A B I. rewrite (fmt_sig_unfold n x e NZ A B).
  rewrite (rnd_he_int _ I). rewrite <- Qmult_assoc, p10_inv. ring.
Qed.

Lemma Qabs_mult_p10 m j : Qabs (inject_Z m * p10 j) == inject_Z (Z.abs m) * p10 j.
Proof. rewrite Qabs_Qmult, (Qabs_pos (p10 j)) by (pose proof (p10_pos j); lra). reflexivity. Qed.


Lemma fmt_sig_canon n x : Qred (fmt_sig n x) = fmt_sig n x.
Proof.
  unfold fmt_sig. destruct (Qeq_bool x 0); [reflexivity|]. apply Qcanon.Qred_involutive.
Qed.

Lemma Qeq_canon_eq a b : Qred a = a -> Qred b = b -> a == b -> a = b.
Proof. intros A B E. rewrite <- A, <- B. apply Qred_complete. exact E. Qed.

Lemma fmt_sig_fix_eq n y x : y = fmt_sig n x -> fmt_sig n y == y -> fmt_sig n y = y.
Proof.
  intros Hy E. apply Qeq_canon_eq; [apply fmt_sig_canon|subst y; apply fmt_sig_canon|exact E].
Qed.

Theorem fmt_sig_idem n x : (1 <= n)%Z -> fmt_sig n (fmt_sig n x) = fmt_sig n x.
Proof.
  intro Hn. destruct (Qeq_dec x 0) as [Z0|NZ].
  - rewrite (fmt_sig_zero n x Z0). reflexivity.
  - apply (fmt_sig_fix_eq n _ x eq_refl).
    destruct (decade_of x NZ) as [A B]. set (e := flog10 (Qabs x)) in *.
    pose proof (fmt_sig_unfold n x e NZ A B) as U.
    destruct (mantissa_range n x e Hn NZ A B) as [[M1 M2] _].
    set (k := (n - 1 - e)%Z) in *. set (m := rnd_he (x * p10 k)) in *.
    set (y := fmt_sig n x) in *.
    assert (P : (0 < 10 ^ (n - 1))%Z) by (apply Z.pow_pos_nonneg; lia).
    pose proof (p10_pos (- k)) as Pk'.
    assert (YA : Qabs y == inject_Z (Z.abs m) * p10 (- k)).
    { rewrite U. apply Qabs_mult_p10. }
    assert (MP : 0 < inject_Z (Z.abs m)) by (change 0 with (inject_Z 0); rewrite <- Zlt_Qlt; lia).
    assert (YP : 0 < Qabs y) by (rewrite YA; apply Qmult_lt_0_compat; assumption).
    assert (YNZ : ~ y == 0).
    { intro H. assert (Qabs y == 0) by (rewrite H; reflexivity). lra. }
    assert (E10 : (10 ^ n = 10 * 10 ^ (n - 1))%Z).
    { replace n with (Z.succ (n - 1)) at 1 by lia. apply Z.pow_succ_r. lia. }
    destruct (Z.eq_dec (Z.abs m) (10 ^ n)) as [Top|NotTop].
    + (* the rounding carried into the next decade: |y| = 10^(e+1) *)
      assert (YV : Qabs y == p10 (e + 1)).
      { rewrite YA, Top, <- (p10_Z n) by lia. rewrite <- (p10_add n (- k)).
        replace (n + - k)%Z with (e + 1)%Z by (unfold k; lia). reflexivity. }
      apply (fmt_sig_exact n y (e + 1) YNZ).
      * rewrite YV. apply Qle_refl.
      * rewrite YV. apply p10_lt. lia.
      * replace (n - 1 - (e + 1))%Z with (k + -1)%Z by (unfold k; lia).
        assert (S : y * p10 (k + -1) == inject_Z m * p10 (-1)).
        { rewrite U, (p10_add k (-1)). setoid_replace (inject_Z m * p10 (- k) * (p10 k * p10 (-1)))
            with (inject_Z m * (p10 k * p10 (- k)) * p10 (-1)) by ring. rewrite p10_inv. ring. }
        assert (C : m = (10 * 10 ^ (n - 1))%Z \/ m = (- (10 * 10 ^ (n - 1)))%Z) by lia.
        destruct C as [C|C].
        -- exists (10 ^ (n - 1))%Z. rewrite S, C, inject_Z_mult. change (p10 (-1)) with (1 # 10).
           change (inject_Z 10) with (10 # 1). field.
        -- exists (- 10 ^ (n - 1))%Z. rewrite S, C, !inject_Z_opp, inject_Z_mult. change (p10 (-1)) with (1 # 10).
           change (inject_Z 10) with (10 # 1). field.
    + (* same decade *)
      assert (ML : (Z.abs m < 10 ^ n)%Z) by lia.
      apply (fmt_sig_exact n y e YNZ).
      * rewrite YA. setoid_replace (p10 e) with (p10 (n - 1) * p10 (- k)).
        -- apply Qmult_le_compat_r; [|lra]. rewrite (p10_Z (n - 1)) by lia. rewrite <- Zle_Qle. lia.
        -- rewrite <- (p10_add (n - 1) (- k)). replace (n - 1 + - k)%Z with e by (unfold k; lia). reflexivity.
      * rewrite YA. setoid_replace (p10 (e + 1)) with (p10 n * p10 (- k)).
        -- apply Qmult_lt_compat_r; [lra|]. rewrite (p10_Z n) by lia. rewrite <- Zlt_Qlt. lia.
        -- rewrite <- (p10_add n (- k)). replace (n + - k)%Z with (e + 1)%Z by (unfold k; lia). reflexivity.
      * exists m. fold k. rewrite U.
        setoid_replace (inject_Z m * p10 (- k) * p10 k) with (inject_Z m * (p10 k * p10 (- k))) by ring.
        rewrite p10_inv. ring.
Qed.

(* any decimal m * 10^-j whose mantissa has at most n digits is printed exactly *)
Theorem fmt_sig_exact_decimal n m j :
  (1 <= n)%Z -> (Z.abs m < 10 ^ n)%Z -> fmt_sig n (inject_Z m * p10 (- j)) == inject_Z m * p10 (- j).
Proof.
  intros Hn Hm. set (x := inject_Z m * p10 (- j)).
  destruct (Z.eq_dec m 0) as [M0|MNZ].
  - assert (X0 : x == 0) by (unfold x; rewrite M0; ring). rewrite (fmt_sig_zero n x X0). symmetry. exact X0.
  - pose proof (p10_pos (- j)) as Pj.
    assert (XA : Qabs x == inject_Z (Z.abs m) * p10 (- j)) by apply Qabs_mult_p10.
    assert (MP : 0 < inject_Z (Z.abs m)) by (change 0 with (inject_Z 0); rewrite <- Zlt_Qlt; lia).
    assert (XP : 0 < Qabs x) by (rewrite XA; apply Qmult_lt_0_compat; assumption).
    assert (NZ : ~ x == 0).
    { intro H. assert (Qabs x == 0) by (rewrite H; reflexivity). lra. }
    destruct (decade_of x NZ) as [A B]. set (e := flog10 (Qabs x)) in *.
    assert (XU : Qabs x < p10 (n - j)).
    { rewrite XA. setoid_replace (p10 (n - j)) with (p10 n * p10 (- j)).
      - apply Qmult_lt_compat_r; [lra|]. rewrite (p10_Z n) by lia. rewrite <- Zlt_Qlt. lia.
      - rewrite <- (p10_add n (- j)). replace (n + - j)%Z with (n - j)%Z by lia. reflexivity. }
    assert (EL : (e < n - j)%Z).
    { destruct (Z_lt_le_dec e (n - j)) as [L|L]; [exact L|]. pose proof (p10_le (n - j) e L). lra. }
    apply (fmt_sig_exact n x e NZ A B).
    exists (m * 10 ^ (n - 1 - e - j))%Z. unfold x.
    setoid_replace (inject_Z m * p10 (- j) * p10 (n - 1 - e)) with (inject_Z m * (p10 (- j) * p10 (n - 1 - e))) by ring.
    rewrite <- (p10_add (- j) (n - 1 - e)). replace (- j + (n - 1 - e))%Z with (n - 1 - e - j)%Z by lia.
    rewrite p10_Z by lia. rewrite inject_Z_mult. reflexivity.
Qed.

(* ================================================================================================ *)
(* E. fmt_int                                                                                        *)
Lemma fmt_int_err x : Qabs (fmt_int x - x) <= 1 # 2.
Proof.
  unfold fmt_int. pose proof (rnd_he_err x) as E. unfold Qhalf in E.
  apply Qabs_Qle_condition in E. apply Qabs_Qle_condition. lra.
Qed.
Lemma fmt_int_exact x : is_int x -> fmt_int x == x.
Proof. apply rnd_he_int. Qed.
Lemma fmt_int_inject z : fmt_int (inject_Z z) = inject_Z z.
Proof. unfold fmt_int. rewrite rnd_he_inject. reflexivity. Qed.
Lemma fmt_int_idem x : fmt_int (fmt_int x) = fmt_int x.
Proof. unfold fmt_int at 2. apply fmt_int_inject. Qed.
Global Instance fmt_int_Proper : Proper (Qeq ==> eq) fmt_int.
Proof. intros x y E. unfold fmt_int. rewrite (rnd_he_Proper _ _ E). reflexivity. Qed.

(* ================================================================================================ *)
(* F. columns                                                                                        *)
Definition scale_ok (c : col) : bool := Qeq_bool (c_mult c * c_scale c) 1 && Qltb 0 (c_mult c).
Definition is_int_col (c : col) : bool := (c_fmt c <=? 0)%Z && negb (c_pre c =? 2)%Z && scale_ok c.
Definition is_sig_col (c : col) : bool :=
  (0 <? c_fmt c)%Z && negb (c_pre c =? 2)%Z && negb (c_pre c =? 1)%Z && scale_ok c.
Definition is_raster_col (c : col) : bool := (0 <? c_fmt c)%Z && (c_pre c =? 2)%Z && scale_ok c.
Definition col_ok (c : col) : bool := is_int_col c || is_sig_col c || is_raster_col c.
Definition cols_ok (cs : list col) : bool := forallb col_ok cs.
Definition tables_ok : bool := forallb cols_ok all_sections.

Lemma scale_ok_spec c : scale_ok c = true -> c_mult c * c_scale c == 1 /\ 0 < c_mult c /\ 0 < c_scale c.
Proof.
  unfold scale_ok. intro H. apply andb_true_iff in H. destruct H as [H1 H2].
  apply Qeq_bool_iff in H1. apply Qltb_lt in H2. repeat split; try assumption.
  destruct (Qlt_le_dec 0 (c_scale c)) as [P|N]; [exact P|]. exfalso. nra.
Qed.

(* the value the column is meant to carry: the raster-rounded delay for the RF-delay column *)
Definition col_target (rfr : Q) (c : col) (x : Q) : Q :=
  if (c_pre c =? 2)%Z then inject_Z (rnd_he (x / rfr)) * rfr else x.

Definition col_sim (rfr : Q) (c : col) (x' x : Q) : Prop :=
  let xt := col_target rfr c x in
  if (0 <? c_fmt c)%Z
  then Qabs (x' - xt) <= (1 # 2) * p10 (1 - c_fmt c) * Qabs xt
       /\ (fmt_sig (c_fmt c) (xt * c_mult c) == xt * c_mult c -> x' == xt)
  else Qabs (x' - xt) <= (1 # 2) * c_scale c /\ (is_int (xt * c_mult c) -> x' == xt).

Lemma wcol_int rfr c x : is_int_col c = true -> wcol rfr c x = inject_Z (rnd_he (x * c_mult c)).
Proof.
  unfold is_int_col. intro H. apply andb_true_iff in H. destruct H as [H _].
  apply andb_true_iff in H. destruct H as [F P]. apply negb_true_iff in P.
  unfold wcol, fmt_apply, pre_apply. rewrite P.
  assert (F' : (0 <? c_fmt c)%Z = false) by (apply Z.ltb_ge; apply Z.leb_le; exact F). rewrite F'.
  destruct (c_pre c =? 1)%Z; [apply fmt_int_inject|reflexivity].
Qed.

Lemma wcol_sig rfr c x : (0 <? c_fmt c)%Z = true ->
  wcol rfr c x = fmt_sig (c_fmt c) (if (c_pre c =? 2)%Z then inject_Z (rnd_he (x / rfr)) * rfr * c_mult c
                                    else if (c_pre c =? 1)%Z then inject_Z (rnd_he (x * c_mult c)) else x * c_mult c).
Proof. intro F. unfold wcol, fmt_apply, pre_apply. rewrite F. reflexivity. Qed.

Theorem col_roundtrip rfr c x : col_ok c = true -> col_sim rfr c (rcol c (wcol rfr c x)) x.
Proof.
  unfold col_ok. intro H. apply orb_true_iff in H. destruct H as [H|R]; [apply orb_true_iff in H; destruct H as [I|S]|].
  - (* integer column *)
    pose proof I as I0. unfold is_int_col in I. apply andb_true_iff in I. destruct I as [I SK].
    apply andb_true_iff in I. destruct I as [F P]. apply negb_true_iff in P.
    destruct (scale_ok_spec c SK) as [MS [MP SP]].
    unfold col_sim, col_target. rewrite P.
    assert (F' : (0 <? c_fmt c)%Z = false) by (apply Z.ltb_ge; apply Z.leb_le; exact F). rewrite F'.
    unfold rcol. rewrite (wcol_int rfr c x I0).
    set (t := inject_Z (rnd_he (x * c_mult c))).
    assert (D : t * c_scale c - x == (t - x * c_mult c) * c_scale c).
    { setoid_replace x with (x * (c_mult c * c_scale c)) at 1 by (rewrite MS; ring). ring. }
    split.
    + rewrite D, Qabs_Qmult, (Qabs_pos (c_scale c)) by lra.
      pose proof (fmt_int_err (x * c_mult c)) as E. unfold fmt_int in E. fold t in E.
      apply Qmult_le_compat_r; [exact E|lra].
    + intro HI. apply rnd_he_int in HI. fold t in HI. rewrite HI.
      setoid_replace (x * c_mult c * c_scale c) with (x * (c_mult c * c_scale c)) by ring. rewrite MS. ring.
  - (* significant-digit column, value printed as it is *)
    unfold is_sig_col in S. apply andb_true_iff in S. destruct S as [S SK].
    apply andb_true_iff in S. destruct S as [S P1]. apply andb_true_iff in S. destruct S as [F P2].
    apply negb_true_iff in P1. apply negb_true_iff in P2.
    destruct (scale_ok_spec c SK) as [MS [MP SP]].
    unfold col_sim, col_target. rewrite P2, F. unfold rcol. rewrite (wcol_sig rfr c x F), P2, P1.
    set (n := c_fmt c). set (y := x * c_mult c).
    assert (XY : x == y * c_scale c).
    { unfold y. setoid_replace (x * c_mult c * c_scale c) with (x * (c_mult c * c_scale c)) by ring. rewrite MS. ring. }
    split.
    + setoid_replace (fmt_sig n y * c_scale c - x) with ((fmt_sig n y - y) * c_scale c) by (rewrite XY at 1; ring).
      rewrite Qabs_Qmult, (Qabs_pos (c_scale c)) by lra.
      setoid_replace (Qabs x) with (Qabs y * c_scale c).
      * pose proof (fmt_sig_err n y) as E.
        setoid_replace ((1 # 2) * p10 (1 - n) * (Qabs y * c_scale c)) with ((1 # 2) * p10 (1 - n) * Qabs y * c_scale c) by ring.
        apply Qmult_le_compat_r; [exact E|lra].
      * rewrite XY at 1. rewrite Qabs_Qmult, (Qabs_pos (c_scale c)) by lra. reflexivity.
    + intro HE. rewrite HE. symmetry. exact XY.
  - (* RF delay: rounded to the RF raster, then printed with n significant digits *)
    unfold is_raster_col in R. apply andb_true_iff in R. destruct R as [R SK].
    apply andb_true_iff in R. destruct R as [F P2]. 
    destruct (scale_ok_spec c SK) as [MS [MP SP]].
    unfold col_sim, col_target. rewrite P2, F. unfold rcol. rewrite (wcol_sig rfr c x F), P2.
    set (n := c_fmt c). set (xt := inject_Z (rnd_he (x / rfr)) * rfr). set (y := xt * c_mult c).
    assert (XY : xt == y * c_scale c).
    { unfold y. setoid_replace (xt * c_mult c * c_scale c) with (xt * (c_mult c * c_scale c)) by ring. rewrite MS. ring. }
    split.
    + setoid_replace (fmt_sig n y * c_scale c - xt) with ((fmt_sig n y - y) * c_scale c) by (rewrite XY at 1; ring).
      rewrite Qabs_Qmult, (Qabs_pos (c_scale c)) by lra.
      setoid_replace (Qabs xt) with (Qabs y * c_scale c).
      * pose proof (fmt_sig_err n y) as E.
        setoid_replace ((1 # 2) * p10 (1 - n) * (Qabs y * c_scale c)) with ((1 # 2) * p10 (1 - n) * Qabs y * c_scale c) by ring.
        apply Qmult_le_compat_r; [exact E|lra].
      * rewrite XY at 1. rewrite Qabs_Qmult, (Qabs_pos (c_scale c)) by lra. reflexivity.
    + intro HE. rewrite HE. symmetry. exact XY.
Qed.

(* ---- print idempotence through the reader ------------------------------------------------------- *)
(* hypothesis for the RF-delay column: the re-read delay is on the RF raster *)
Definition on_raster (rfr : Q) (c : col) (t : Q) : Prop :=
  if (c_pre c =? 2)%Z then inject_Z (rnd_he (t * c_scale c / rfr)) * rfr == t * c_scale c else True.

Theorem col_print_idem rfr c x :
  col_ok c = true -> on_raster rfr c (wcol rfr c x) ->
  wcol rfr c (rcol c (wcol rfr c x)) = wcol rfr c x.
Proof.
  unfold col_ok. intros H OR. apply orb_true_iff in H. destruct H as [H|R]; [apply orb_true_iff in H; destruct H as [I|S]|].
  - pose proof I as I0. unfold is_int_col in I. apply andb_true_iff in I. destruct I as [_ SK].
    destruct (scale_ok_spec c SK) as [MS _].
    rewrite (wcol_int rfr c _ I0). rewrite (wcol_int rfr c x I0). unfold rcol.
    set (z := rnd_he (x * c_mult c)).
    assert (E : inject_Z z * c_scale c * c_mult c == inject_Z z).
    { setoid_replace (inject_Z z * c_scale c * c_mult c) with (inject_Z z * (c_mult c * c_scale c)) by ring. rewrite MS. ring. }
    rewrite (rnd_he_Proper _ _ E), rnd_he_inject. reflexivity.
  - unfold is_sig_col in S. apply andb_true_iff in S. destruct S as [S SK].
    apply andb_true_iff in S. destruct S as [S P1]. apply andb_true_iff in S. destruct S as [F P2].
    apply negb_true_iff in P1. apply negb_true_iff in P2.
    destruct (scale_ok_spec c SK) as [MS _].
    rewrite (wcol_sig rfr c _ F), (wcol_sig rfr c x F), P2, P1. unfold rcol.
    set (n := c_fmt c). set (t := fmt_sig n (x * c_mult c)).
    assert (E : t * c_scale c * c_mult c == t).
    { setoid_replace (t * c_scale c * c_mult c) with (t * (c_mult c * c_scale c)) by ring. rewrite MS. ring. }
    rewrite (fmt_sig_Proper n _ _ E). apply fmt_sig_idem. apply Z.ltb_lt in F. unfold n. lia.
  - unfold is_raster_col in R. apply andb_true_iff in R. destruct R as [R SK].
    apply andb_true_iff in R. destruct R as [F P2].
    destruct (scale_ok_spec c SK) as [MS _].
    unfold on_raster in OR. rewrite P2 in OR.
    rewrite (wcol_sig rfr c x F), P2 in OR |- *. rewrite (wcol_sig rfr c _ F), P2. unfold rcol in *.
    set (n := c_fmt c) in *. set (t := fmt_sig n (inject_Z (rnd_he (x / rfr)) * rfr * c_mult c)) in *.
    assert (E : inject_Z (rnd_he (t * c_scale c / rfr)) * rfr * c_mult c == t).
    { rewrite OR. setoid_replace (t * c_scale c * c_mult c) with (t * (c_mult c * c_scale c)) by ring. rewrite MS. ring. }
    rewrite (fmt_sig_Proper n _ _ E). apply fmt_sig_idem. apply Z.ltb_lt in F. unfold n. lia.
Qed.

(* a delay below 10^n raster-units... : when the raster-rounded value prints exactly, the token is on the raster *)
Lemma on_raster_exact rfr c x :
  is_raster_col c = true -> ~ rfr == 0 ->
  fmt_sig (c_fmt c) (inject_Z (rnd_he (x / rfr)) * rfr * c_mult c) == inject_Z (rnd_he (x / rfr)) * rfr * c_mult c ->
  on_raster rfr c (wcol rfr c x).
Proof.
  intros R NZ HE. unfold is_raster_col in R. apply andb_true_iff in R. destruct R as [R SK].
  apply andb_true_iff in R. destruct R as [F P2]. destruct (scale_ok_spec c SK) as [MS _].
  unfold on_raster. rewrite P2, (wcol_sig rfr c x F), P2.
  set (N := rnd_he (x / rfr)) in *. set (t := fmt_sig (c_fmt c) (inject_Z N * rfr * c_mult c)) in *.
  assert (E1 : t * c_scale c == inject_Z N * rfr).
  { rewrite HE. setoid_replace (inject_Z N * rfr * c_mult c * c_scale c) with (inject_Z N * rfr * (c_mult c * c_scale c)) by ring.
    rewrite MS. ring. }
  assert (E2 : t * c_scale c / rfr == inject_Z N).
  { rewrite E1. field. exact NZ. }
  rewrite (rnd_he_Proper _ _ E2), rnd_he_inject. symmetry. exact E1.
Qed.

(* ================================================================================================ *)
(* G. rows and libraries                                                                             *)
Fixpoint row_sim (rfr : Q) (cs : list col) (r' r : list Q) : Prop :=
  match cs, r with
  | c :: cs', x :: r0 =>
    match r' with
    | x' :: r'' => col_sim rfr c x' x /\ row_sim rfr cs' r'' r0
    | [] => False
    end
  | _, _ => r' = []
  end.

Theorem roundtrip_row rfr cs : cols_ok cs = true -> forall r,
  row_sim rfr cs (read_row cs (write_row rfr cs r)) r.
Proof.
  induction cs as [|c cs IH]; intros OK r.
  - reflexivity.
  - cbn [cols_ok forallb] in OK. apply andb_true_iff in OK. destruct OK as [OC OR].
    destruct r as [|x r].
    + reflexivity.
    + cbn [write_row read_row row_sim]. split; [apply col_roundtrip; exact OC|apply IH; exact OR].
Qed.

Theorem roundtrip_lib rfr cs : cols_ok cs = true -> forall l,
  Forall2 (row_sim rfr cs) (map (read_row cs) (map (write_row rfr cs) l)) l.
Proof.
  intros OK l. induction l as [|r l IH]; cbn [map]; constructor; [apply roundtrip_row; exact OK|exact IH].
Qed.

Fixpoint row_on_raster (rfr : Q) (cs : list col) (t : list Q) : Prop :=
  match cs, t with
  | c :: cs', x :: t' => on_raster rfr c x /\ row_on_raster rfr cs' t'
  | _, _ => True
  end.

Theorem rewrite_row rfr cs : cols_ok cs = true -> forall r,
  row_on_raster rfr cs (write_row rfr cs r) ->
  write_row rfr cs (read_row cs (write_row rfr cs r)) = write_row rfr cs r.
Proof.
  induction cs as [|c cs IH]; intros OK r H.
  - reflexivity.
  - cbn [cols_ok forallb] in OK. apply andb_true_iff in OK. destruct OK as [OC OR].
    destruct r as [|x r]; [reflexivity|].
    cbn [write_row read_row row_on_raster] in *. destruct H as [H1 H2].
    rewrite (col_print_idem rfr c x OC H1), (IH OR r H2). reflexivity.
Qed.

Theorem rewrite_lib rfr cs : cols_ok cs = true -> forall l,
  Forall (row_on_raster rfr cs) (map (write_row rfr cs) l) ->
  map (write_row rfr cs) (map (read_row cs) (map (write_row rfr cs) l)) = map (write_row rfr cs) l.
Proof.
  intros OK l. induction l as [|r l IH]; intro H; [reflexivity|].
  cbn [map] in *. inversion H as [|? ? H1 H2]; subst.
  rewrite (rewrite_row rfr cs OK r H1), (IH H2). reflexivity.
Qed.

(* sections without a raster-rounded column need no hypothesis *)
Definition no_raster (cs : list col) : bool := forallb (fun c => negb (c_pre c =? 2)%Z) cs.
Lemma no_raster_on_raster rfr cs : no_raster cs = true -> forall t, row_on_raster rfr cs t.
Proof.
  induction cs as [|c cs IH]; intros H t; [exact I|].
  cbn [no_raster forallb] in H. apply andb_true_iff in H. destruct H as [H1 H2]. apply negb_true_iff in H1.
  destruct t as [|x t]; [exact I|]. cbn [row_on_raster]. split; [unfold on_raster; rewrite H1; exact I|apply IH; exact H2].
Qed.

Theorem rewrite_lib_plain rfr cs : cols_ok cs = true -> no_raster cs = true -> forall l,
  map (write_row rfr cs) (map (read_row cs) (map (write_row rfr cs) l)) = map (write_row rfr cs) l.
Proof.
  intros OK NR l. apply rewrite_lib; [exact OK|]. apply Forall_forall. intros t _. apply no_raster_on_raster. exact NR.
Qed.

(* ---- [BLOCKS] --------------------------------------------------------------------------------------- *)
Lemma map_fmt_int_idem l : map fmt_int (map fmt_int l) = map fmt_int l.
Proof. induction l as [|x l IH]; [reflexivity|]. cbn [map]. rewrite fmt_int_idem, IH. reflexivity. Qed.

Theorem rewrite_block br b : ~ br == 0 ->
  write_block br (read_block br (write_block br b)) = write_block br b.
Proof.
  intro NZ. destruct b as [|id [|dur evs]]; try reflexivity.
  cbn [write_block read_block]. rewrite fmt_int_idem, map_fmt_int_idem.
  assert (E : fmt_int (dur / br) * br / br == fmt_int (dur / br)) by (field; exact NZ).
  rewrite (fmt_int_Proper _ _ E), fmt_int_idem. reflexivity.
Qed.

Theorem roundtrip_block br id dur evs : 0 < br ->
  match read_block br (write_block br (id :: dur :: evs)) with
  | id' :: dur' :: evs' =>
      (is_int id -> id' == id) /\ Qabs (dur' - dur) <= (1 # 2) * br /\ (is_int (dur / br) -> dur' == dur)
      /\ evs' = map fmt_int evs
  | _ => False
  end.
Proof.
  intro P. cbn [write_block read_block]. repeat split.
  - intro H. apply fmt_int_exact. exact H.
  - setoid_replace (fmt_int (dur / br) * br - dur) with ((fmt_int (dur / br) - dur / br) * br) by (field; lra).
    rewrite Qabs_Qmult, (Qabs_pos br) by lra. apply Qmult_le_compat_r; [apply fmt_int_err|lra].
  - intro H. rewrite (fmt_int_exact _ H). field. lra.
Qed.

(* ---- [SHAPES] ---------------------------------------------------------------------------------------- *)
Lemma map_fmt_sig_idem n l : (1 <= n)%Z -> map (fmt_sig n) (map (fmt_sig n) l) = map (fmt_sig n) l.
Proof. intro H. induction l as [|x l IH]; [reflexivity|]. cbn [map]. rewrite fmt_sig_idem by exact H. rewrite IH. reflexivity. Qed.

Theorem rewrite_shape s : (1 <= shape_sample_fmt)%Z ->
  write_shape (read_shape (write_shape s)) = write_shape s.
Proof.
  intro H. destruct s as [|id [|num data]]; try reflexivity.
  unfold read_shape. cbn [write_shape]. rewrite !fmt_int_idem, map_fmt_sig_idem by exact H. reflexivity.
Qed.

(* ---- [DEFINITIONS] ------------------------------------------------------------------------------------ *)
Lemma key_leb_total a : forall b, key_leb a b = false -> key_leb b a = true.
Proof.
  induction a as [|x a IH]; intros [|y b] H; cbn in *; try congruence.
  destruct (x <? y)%Z eqn:E1; [discriminate|]. destruct (y <? x)%Z eqn:E2; [reflexivity|]. apply IH. exact H.
Qed.

Fixpoint dsorted {V} (l : list (list Z * V)) : Prop :=
  match l with
  | x :: ((y :: _) as r) => key_leb (fst x) (fst y) = true /\ dsorted r
  | _ => True
  end.

Lemma ins_def_sorted {V} (x : list Z * V) l : dsorted l -> dsorted (ins_def x l).
Proof.
  induction l as [|y r IH]; intro S; [exact I|].
  cbn [ins_def]. destruct (key_leb (fst x) (fst y)) eqn:E.
  - cbn [dsorted]. split; [exact E|exact S].
  - apply key_leb_total in E. destruct r as [|z r'].
    + cbn. split; [exact E|exact I].
    + cbn [dsorted] in S. destruct S as [S1 S2]. specialize (IH S2).
      cbn [ins_def] in *. destruct (key_leb (fst x) (fst z)); cbn [dsorted] in *; tauto.
Qed.

Lemma sort_defs_sorted {V} (l : list (list Z * V)) : dsorted (sort_defs l).
Proof. induction l as [|x l IH]; [exact I|]. cbn [sort_defs fold_right]. apply ins_def_sorted. exact IH. Qed.

Lemma sort_defs_id {V} (l : list (list Z * V)) : dsorted l -> sort_defs l = l.
Proof.
  induction l as [|x l IH]; intro S; [reflexivity|].
  cbn [sort_defs fold_right]. fold (sort_defs l).
  destruct l as [|y r]; [reflexivity|]. cbn [dsorted] in S. destruct S as [S1 S2].
  rewrite (IH S2). cbn [ins_def]. rewrite S1. reflexivity.
Qed.

Lemma dsorted_map {V W} (f : V -> W) (l : list (list Z * V)) :
  dsorted l -> dsorted (map (fun kv => (fst kv, f (snd kv))) l).
Proof.
  induction l as [|x l IH]; intro S; [exact I|].
  destruct l as [|y r]; [exact I|]. cbn [dsorted] in S. destruct S as [S1 S2].
  cbn [map dsorted fst]. split; [exact S1|apply IH; exact S2].
Qed.

Theorem rewrite_defs d : (1 <= def_fmt)%Z -> write_defs (write_defs d) = write_defs d.
Proof.
  intro H. unfold write_defs at 1.
  rewrite sort_defs_id by (unfold write_defs; apply dsorted_map; apply sort_defs_sorted).
  unfold write_defs. rewrite map_map. apply map_ext. intros [k v]. cbn [fst snd].
  rewrite map_fmt_sig_idem by exact H. reflexivity.
Qed.

(* ================================================================================================ *)
(* H. the generated tables                                                                           *)
Lemma tables_ok_true : tables_ok = true.
Proof. vm_compute. reflexivity. Qed.

Lemma section_cols_ok sec : In sec all_sections -> cols_ok sec = true.
Proof. intro H. pose proof tables_ok_true as T. unfold tables_ok in T. rewrite forallb_forall in T. apply T. exact H. Qed.

Theorem scale_inverse sec c : In sec all_sections -> In c sec -> c_mult c * c_scale c == 1.
Proof.
  intros HS HC. pose proof (section_cols_ok sec HS) as OK. unfold cols_ok in OK. rewrite forallb_forall in OK.
  specialize (OK c HC). unfold col_ok, is_int_col, is_sig_col, is_raster_col in OK.
  assert (SK : scale_ok c = true).
  { destruct (scale_ok c); [reflexivity|]. rewrite !andb_false_r in OK. discriminate OK. }
  apply scale_ok_spec in SK. tauto.
Qed.

(* ================================================================================================ *)
(* I. whole state                                                                                    *)
Lemma grads_of_app_g {A B} (f : A -> list Q) (g : B -> list Q) (la : list A) (lb : list B) :
  grads_of tag_g (map (fun t => (tag_g, f t)) la ++ map (fun t => (tag_t, g t)) lb) = map f la.
Proof.
  unfold grads_of. induction la as [|a la IH]; cbn [map app filter fst snd].
  - induction lb as [|b lb IHb]; [reflexivity|]. cbn [map filter fst]. change (tag_t =? tag_g)%Z with false. exact IHb.
  - change (tag_g =? tag_g)%Z with true. cbn [map snd]. f_equal. exact IH.
Qed.
Lemma grads_of_app_t {A B} (f : A -> list Q) (g : B -> list Q) (la : list A) (lb : list B) :
  grads_of tag_t (map (fun t => (tag_g, f t)) la ++ map (fun t => (tag_t, g t)) lb) = map g lb.
Proof.
  unfold grads_of. induction la as [|a la IH]; cbn [map app filter fst snd].
  - induction lb as [|b lb IHb]; [reflexivity|]. cbn [map filter fst snd]. change (tag_t =? tag_t)%Z with true.
    cbn [map snd]. f_equal. exact IHb.
  - change (tag_g =? tag_t)%Z with false. exact IH.
Qed.

Lemma in_sections :
  In sec_rf all_sections /\ In sec_grad all_sections /\ In sec_trap all_sections /\ In sec_adc all_sections /\
  In sec_ext all_sections /\ In sec_trig all_sections /\ In sec_lset all_sections /\ In sec_linc all_sections.
Proof. unfold all_sections. cbn [In]. tauto. Qed.

(* the rasters of a file that carries the four raster definitions do not depend on the reading system *)
Definition has_rasters (f : frows) : Prop :=
  def_lookup (r_defs f) key_block_raster <> None /\ def_lookup (r_defs f) key_rf_raster <> None /\
  def_lookup (r_defs f) key_grad_raster <> None /\ def_lookup (r_defs f) key_adc_raster <> None.

Theorem raster_from_file sy1 sy2 f : has_rasters f ->
  f_braster (read_rows sy1 f) = f_braster (read_rows sy2 f) /\
  f_rfraster (read_rows sy1 f) = f_rfraster (read_rows sy2 f) /\
  f_gradraster (read_rows sy1 f) = f_gradraster (read_rows sy2 f) /\
  f_adcraster (read_rows sy1 f) = f_adcraster (read_rows sy2 f).
Proof.
  intros [H1 [H2 [H3 H4]]]. unfold read_rows. cbn [f_braster f_rfraster f_gradraster f_adcraster].
  unfold raster_from.
  (* the generated flags: every raster key is assigned to the attribute the decoder uses *)
  change def_sets_block_raster with true. change def_sets_rf_raster with true.
  change def_sets_grad_raster with true. change def_sets_adc_raster with true.
  destruct (def_lookup (r_defs f) key_block_raster); [|contradiction].
  destruct (def_lookup (r_defs f) key_rf_raster); [|contradiction].
  destruct (def_lookup (r_defs f) key_grad_raster); [|contradiction].
  destruct (def_lookup (r_defs f) key_adc_raster); [|contradiction].
  repeat split.
Qed.

(* C01 at the level of the whole library state *)
Theorem roundtrip_state sy s :
  let s' := read_rows sy (write_rows s) in
  let rfr := f_rfraster s in
  Forall2 (row_sim rfr sec_rf) (f_rf s') (f_rf s) /\
  Forall2 (row_sim rfr sec_grad) (grads_of tag_g (f_grad s')) (grads_of tag_g (f_grad s)) /\
  Forall2 (row_sim rfr sec_trap) (grads_of tag_t (f_grad s')) (grads_of tag_t (f_grad s)) /\
  Forall2 (fun r' r => exists body, r' = body ++ [s_adc_dead sy] /\ row_sim rfr sec_adc body r) (f_adc s') (f_adc s) /\
  Forall2 (row_sim rfr sec_ext) (f_ext s') (f_ext s) /\
  Forall2 (row_sim rfr sec_trig) (f_trig s') (f_trig s) /\
  Forall2 (row_sim rfr sec_lset) (f_lset s') (f_lset s) /\
  Forall2 (row_sim rfr sec_linc) (f_linc s') (f_linc s).
Proof.
  destruct in_sections as [I1 [I2 [I3 [I4 [I5 [I6 [I7 I8]]]]]]].
  cbn zeta. unfold read_rows, write_rows.
  cbn [f_rf f_grad f_adc f_ext f_trig f_lset f_linc r_rf r_grad r_trap r_adc r_ext r_trig r_lset r_linc].
  rewrite grads_of_app_g, grads_of_app_t.
  repeat split; try (apply roundtrip_lib; apply section_cols_ok; assumption).
  induction (f_adc s) as [|r l IH]; cbn [map]; constructor; [|exact IH].
  eexists. split; [reflexivity|]. apply roundtrip_row. apply section_cols_ok. exact I4.
Qed.

(* ---- C02 at the level of the whole library state -------------------------------------------------- *)
Lemma wcol_rfr_eq rfr rfr' c x : rfr == rfr' -> wcol rfr c x = wcol rfr' c x.
Proof.
  intro E. unfold wcol, fmt_apply.
  assert (P : pre_apply rfr (c_pre c) (c_mult c) x == pre_apply rfr' (c_pre c) (c_mult c) x).
  { unfold pre_apply. destruct (c_pre c =? 2)%Z; [|reflexivity].
    assert (R : rnd_he (x / rfr) = rnd_he (x / rfr')) by (apply rnd_he_Proper; rewrite E; reflexivity).
    rewrite R, E. reflexivity. }
  destruct (0 <? c_fmt c)%Z; [apply fmt_sig_Proper; exact P|apply fmt_int_Proper; exact P].
Qed.
Lemma write_row_rfr_eq rfr rfr' cs : rfr == rfr' -> forall r, write_row rfr cs r = write_row rfr' cs r.
Proof.
  intro E. induction cs as [|c cs IH]; intros [|x r]; try reflexivity.
  cbn [write_row]. rewrite (wcol_rfr_eq rfr rfr' c x E), IH. reflexivity.
Qed.
Lemma write_block_br_eq br br' b : br == br' -> write_block br b = write_block br' b.
Proof.
  intro E. destruct b as [|id [|dur evs]]; try reflexivity. cbn [write_block].
  assert (P : dur / br == dur / br') by (rewrite E; reflexivity). rewrite (fmt_int_Proper _ _ P). reflexivity.
Qed.

Lemma rewrite_blocks br br' l : br' == br -> ~ br == 0 ->
  map (write_block br') (map (read_block br') (map (write_block br) l)) = map (write_block br) l.
Proof.
  intros E NZ. induction l as [|b l IH]; [reflexivity|]. cbn [map]. rewrite IH. f_equal.
  rewrite (write_block_br_eq br br' b) by (symmetry; exact E).
  rewrite rewrite_block; [reflexivity|]. intro H. apply NZ. rewrite <- E. exact H.
Qed.

Lemma rewrite_shapes l : (1 <= shape_sample_fmt)%Z ->
  map write_shape (map read_shape (map write_shape l)) = map write_shape l.
Proof.
  intro H. induction l as [|x l IH]; [reflexivity|]. cbn [map]. rewrite IH, rewrite_shape by exact H. reflexivity.
Qed.

Lemma rewrite_sec rfr rfr' cs l : cols_ok cs = true -> rfr' == rfr ->
  Forall (row_on_raster rfr cs) (map (write_row rfr cs) l) ->
  map (write_row rfr' cs) (map (read_row cs) (map (write_row rfr cs) l)) = map (write_row rfr cs) l.
Proof.
  intros OK E H. rewrite <- (rewrite_lib rfr cs OK l H) at 2.
  apply map_ext. intro r. apply write_row_rfr_eq. exact E.
Qed.

Lemma sig_fmts_ok : (1 <= shape_sample_fmt)%Z /\ (1 <= def_fmt)%Z.
Proof. split; vm_compute; discriminate. Qed.

Lemma no_raster_sections :
  no_raster sec_grad = true /\ no_raster sec_trap = true /\ no_raster sec_adc = true /\ no_raster sec_ext = true /\
  no_raster sec_trig = true /\ no_raster sec_lset = true /\ no_raster sec_linc = true.
Proof. repeat split; vm_compute; reflexivity. Qed.

(* zip() drops what lies beyond the format: appending to a row that already fills every column changes nothing *)
Lemma write_row_app rfr cs : forall t extra, (length cs <= length t)%nat -> write_row rfr cs (t ++ extra) = write_row rfr cs t.
Proof.
  induction cs as [|c cs IH]; intros t extra L.
  - destruct (t ++ extra); destruct t; reflexivity.
  - destruct t as [|x t]; [cbn in L; lia|]. cbn [app write_row]. rewrite IH by (cbn in L; lia). reflexivity.
Qed.
Lemma read_row_length cs : forall t, (length cs <= length t)%nat -> length (read_row cs t) = length cs.
Proof.
  induction cs as [|c cs IH]; intros t L; [destruct t; reflexivity|].
  destruct t as [|x t]; [cbn in L; lia|]. cbn [read_row length]. rewrite IH by (cbn in L; lia). reflexivity.
Qed.
Lemma write_row_length rfr cs : forall t, (length cs <= length t)%nat -> length (write_row rfr cs t) = length cs.
Proof.
  induction cs as [|c cs IH]; intros t L; [destruct t; reflexivity|].
  destruct t as [|x t]; [cbn in L; lia|]. cbn [write_row length]. rewrite IH by (cbn in L; lia). reflexivity.
Qed.

(* every ADC row of the state fills the ADC format (the writer indexes data[0:5]: shorter rows are an IndexError) *)
Definition adc_rows_full (s : fstate) : Prop := Forall (fun r => (length sec_adc <= length r)%nat) (f_adc s).

Theorem write_read_write_partial sy s :
  let s' := read_rows sy (write_rows s) in
  f_braster s' == f_braster s -> ~ f_braster s == 0 -> f_rfraster s' == f_rfraster s ->
  Forall (row_on_raster (f_rfraster s) sec_rf) (map (write_row (f_rfraster s) sec_rf) (f_rf s)) ->
  adc_rows_full s ->
  write_rows s' = write_rows s.
Proof.
  intros s' EB NZ ER OR AF.
  destruct in_sections as [I1 [I2 [I3 [I4 [I5 [I6 [I7 I8]]]]]]].
  destruct no_raster_sections as [N2 [N3 [N4 [N5 [N6 [N7 N8]]]]]].
  destruct sig_fmts_ok as [SF DF].
  set (rfr := f_rfraster s) in *. set (rfr' := f_rfraster s') in *.
  assert (plain : forall cs l, In cs all_sections -> no_raster cs = true ->
            map (write_row rfr' cs) (map (read_row cs) (map (write_row rfr cs) l)) = map (write_row rfr cs) l).
  { intros cs l HI HN. apply rewrite_sec; [apply section_cols_ok; exact HI|exact ER|].
    apply Forall_forall. intros t _. apply no_raster_on_raster. exact HN. }
  unfold write_rows. fold rfr rfr'.
  assert (D : write_defs (f_defs s') = write_defs (f_defs s)).
  { unfold s', read_rows, write_rows. cbn [f_defs r_defs]. apply rewrite_defs. exact DF. }
  assert (B : map (write_block (f_braster s')) (f_blocks s') = map (write_block (f_braster s)) (f_blocks s)).
  { unfold s' at 2. unfold read_rows, write_rows. cbn [f_blocks r_blocks r_defs].
    change (raster_from def_sets_block_raster (write_defs (f_defs s)) key_block_raster (s_braster sy))
      with (f_braster s'). apply rewrite_blocks; assumption. }
  assert (RF : map (write_row rfr' sec_rf) (f_rf s') = map (write_row rfr sec_rf) (f_rf s)).
  { unfold s' at 1. unfold read_rows, write_rows. cbn [f_rf r_rf]. fold rfr.
    apply rewrite_sec; [apply section_cols_ok; exact I1|exact ER|exact OR]. }
  assert (G : map (write_row rfr' sec_grad) (grads_of tag_g (f_grad s')) = map (write_row rfr sec_grad) (grads_of tag_g (f_grad s))).
  { unfold s' at 1. unfold read_rows, write_rows. cbn [f_grad r_grad r_trap]. rewrite grads_of_app_g. fold rfr. apply plain; assumption. }
  assert (T : map (write_row rfr' sec_trap) (grads_of tag_t (f_grad s')) = map (write_row rfr sec_trap) (grads_of tag_t (f_grad s))).
  { unfold s' at 1. unfold read_rows, write_rows. cbn [f_grad r_grad r_trap]. rewrite grads_of_app_t. fold rfr. apply plain; assumption. }
  assert (A : map (write_row rfr' sec_adc) (f_adc s') = map (write_row rfr sec_adc) (f_adc s)).
  { unfold s' at 1. unfold read_rows, write_rows. cbn [f_adc r_adc]. fold rfr.
    transitivity (map (write_row rfr' sec_adc) (map (read_row sec_adc) (map (write_row rfr sec_adc) (f_adc s))));
      [|apply plain; assumption].
    rewrite !map_map. apply map_ext_in. intros r HR.
    apply write_row_app. unfold adc_rows_full in AF. rewrite Forall_forall in AF. specialize (AF r HR).
    rewrite read_row_length; [lia|]. rewrite write_row_length; [lia|exact AF]. }
  assert (X : map (write_row rfr' sec_ext) (f_ext s') = map (write_row rfr sec_ext) (f_ext s)).
  { unfold s' at 1. unfold read_rows, write_rows. cbn [f_ext r_ext]. fold rfr. apply plain; assumption. }
  assert (TR : map (write_row rfr' sec_trig) (f_trig s') = map (write_row rfr sec_trig) (f_trig s)).
  { unfold s' at 1. unfold read_rows, write_rows. cbn [f_trig r_trig]. fold rfr. apply plain; assumption. }
  assert (LS : map (write_row rfr' sec_lset) (f_lset s') = map (write_row rfr sec_lset) (f_lset s)).
  { unfold s' at 1. unfold read_rows, write_rows. cbn [f_lset r_lset]. fold rfr. apply plain; assumption. }
  assert (LI : map (write_row rfr' sec_linc) (f_linc s') = map (write_row rfr sec_linc) (f_linc s)).
  { unfold s' at 1. unfold read_rows, write_rows. cbn [f_linc r_linc]. fold rfr. apply plain; assumption. }
  assert (SH : map write_shape (f_shape s') = map write_shape (f_shape s)).
  { unfold s'. unfold read_rows, write_rows. cbn [f_shape r_shape]. apply rewrite_shapes. exact SF. }
  rewrite D, B, RF, G, T, A, X, TR, LS, LI, SH. reflexivity.
Qed.

(* ================================================================================================ *)
(* J. the rasters survive through [DEFINITIONS]: structural hypotheses instead of hypotheses on s'   *)
Lemma key_leb_refl a : key_leb a a = true.
Proof. induction a as [|x a IH]; [reflexivity|]. cbn. rewrite Z.ltb_irrefl. exact IH. Qed.

Lemma key_leb_antisym a : forall b, key_leb a b = true -> key_leb b a = true -> a = b.
Proof.
  induction a as [|x a IH]; intros [|y b] H1 H2; cbn in *; try congruence.
  destruct (x <? y)%Z eqn:E1; destruct (y <? x)%Z eqn:E2; try discriminate.
  - apply Z.ltb_lt in E1. apply Z.ltb_lt in E2. lia.
  - apply Z.ltb_ge in E1. apply Z.ltb_ge in E2. assert (x = y) by lia. subst. f_equal. apply IH; assumption.
Qed.

Lemma keyZ_eqb_eq a b : keyZ_eqb a b = true <-> a = b.
Proof.
  unfold keyZ_eqb. split.
  - intro H. apply andb_true_iff in H. destruct H. apply key_leb_antisym; assumption.
  - intros ->. rewrite key_leb_refl. reflexivity.
Qed.

Definition dkeys {V} (l : list (list Z * V)) : list (list Z) := map fst l.
Definition single (v : list Q) : option Q := match v with [x] => Some x | _ => None end.

Lemma def_lookup_cons k' v r k :
  def_lookup ((k', v) :: r) k = if keyZ_eqb k' k then single v else def_lookup r k.
Proof. reflexivity. Qed.

Lemma in_dkeys_ins {V} (x : list Z * V) l k : In k (dkeys (ins_def x l)) <-> k = fst x \/ In k (dkeys l).
Proof.
  induction l as [|y r IH]; cbn [ins_def dkeys map In].
  - intuition.
  - destruct (key_leb (fst x) (fst y)); cbn [map In].
    + intuition.
    + fold (dkeys (ins_def x r)). rewrite IH. fold (dkeys r). intuition.
Qed.

Lemma def_lookup_ins x l k : ~ In (fst x) (dkeys l) ->
  def_lookup (ins_def x l) k = if keyZ_eqb (fst x) k then single (snd x) else def_lookup l k.
Proof.
  induction l as [|[ky vy] r IH]; intro NI; destruct x as [kx vx]; cbn [ins_def fst snd] in *.
  - reflexivity.
  - destruct (key_leb kx ky); [reflexivity|].
    rewrite def_lookup_cons, IH by (intro H; apply NI; right; exact H). rewrite def_lookup_cons. cbn [fst snd].
    destruct (keyZ_eqb ky k) eqn:E1; destruct (keyZ_eqb kx k) eqn:E2; try reflexivity.
    apply keyZ_eqb_eq in E1. apply keyZ_eqb_eq in E2. subst. exfalso. apply NI. left. reflexivity.
Qed.

Lemma in_dkeys_sort {V} (l : list (list Z * V)) k : In k (dkeys (sort_defs l)) <-> In k (dkeys l).
Proof.
  induction l as [|x l IH]; [reflexivity|]. cbn [sort_defs fold_right]. fold (sort_defs l).
  rewrite in_dkeys_ins, IH. cbn [dkeys map In]. split; intros [H|H]; auto.
Qed.

Lemma def_lookup_sort l k : NoDup (dkeys l) -> def_lookup (sort_defs l) k = def_lookup l k.
Proof.
  induction l as [|[kx vx] l IH]; intro ND; [reflexivity|].
  cbn [dkeys map] in ND. inversion ND as [|? ? NI ND']; subst.
  cbn [sort_defs fold_right]. fold (sort_defs l).
  rewrite def_lookup_ins by (cbn [fst]; rewrite in_dkeys_sort; exact NI).
  rewrite def_lookup_cons. cbn [fst snd]. rewrite IH by exact ND'. reflexivity.
Qed.

Lemma def_lookup_map f l k :
  def_lookup (map (fun kv => (fst kv, map f (snd kv))) l) k = option_map f (def_lookup l k).
Proof.
  induction l as [|[kx vx] l IH]; [reflexivity|]. cbn [map fst snd]. rewrite !def_lookup_cons, IH.
  destruct (keyZ_eqb kx k); [|reflexivity]. destruct vx as [|a [|b r]]; reflexivity.
Qed.

Lemma def_lookup_write_defs d k : NoDup (dkeys d) ->
  def_lookup (write_defs d) k = option_map (fmt_sig def_fmt) (def_lookup d k).
Proof. intro ND. unfold write_defs. rewrite def_lookup_map, def_lookup_sort by exact ND. reflexivity. Qed.

(* a sequence whose raster attributes are the values of its raster definitions (Sequence.__init__ sets both from
   the system) and print exactly with 9 digits *)
Record rasters_in_defs (s : fstate) : Prop := mkRID {
  rid_nodup : NoDup (dkeys (f_defs s));
  rid_block : exists r, def_lookup (f_defs s) key_block_raster = Some r /\ r == f_braster s /\ fmt_sig def_fmt r == r;
  rid_rf : exists r, def_lookup (f_defs s) key_rf_raster = Some r /\ r == f_rfraster s /\ fmt_sig def_fmt r == r
}.

Lemma rasters_kept sy s : rasters_in_defs s ->
  f_braster (read_rows sy (write_rows s)) == f_braster s /\ f_rfraster (read_rows sy (write_rows s)) == f_rfraster s.
Proof.
  intros [ND [rb [LB [EB PB]]] [rr [LR [ER PR]]]].
  unfold read_rows, write_rows. cbn [f_braster f_rfraster r_defs]. unfold raster_from.
  change def_sets_block_raster with true. change def_sets_rf_raster with true.
  rewrite !def_lookup_write_defs by exact ND. rewrite LB, LR. cbn [option_map].
  split; [rewrite PB; exact EB|rewrite PR; exact ER].
Qed.

(* RF delays that print exactly (below 1 s on a 1 us raster): the printed rows are on the RF raster *)
Fixpoint row_exact (rfr : Q) (cs : list col) (r : list Q) : Prop :=
  match cs, r with
  | c :: cs', x :: r' =>
    (is_raster_col c = true ->
       fmt_sig (c_fmt c) (inject_Z (rnd_he (x / rfr)) * rfr * c_mult c) == inject_Z (rnd_he (x / rfr)) * rfr * c_mult c)
    /\ row_exact rfr cs' r'
  | _, _ => True
  end.

Lemma row_exact_on_raster rfr cs : cols_ok cs = true -> ~ rfr == 0 -> forall r,
  row_exact rfr cs r -> row_on_raster rfr cs (write_row rfr cs r).
Proof.
  induction cs as [|c cs IH]; intros OK NZ r H; [exact I|].
  cbn [cols_ok forallb] in OK. apply andb_true_iff in OK. destruct OK as [OC OR].
  destruct r as [|x r]; [exact I|]. cbn [write_row row_on_raster row_exact] in *. destruct H as [H1 H2].
  split; [|apply IH; assumption].
  destruct (c_pre c =? 2)%Z eqn:P2; [|unfold on_raster; rewrite P2; exact I].
  assert (R : is_raster_col c = true).
  { unfold col_ok, is_int_col, is_sig_col in OC. rewrite P2 in OC. cbn [negb] in OC.
    rewrite !andb_false_r in OC. cbn [orb andb] in OC. exact OC. }
  apply on_raster_exact; [exact R|exact NZ|apply H1; exact R].
Qed.

Definition rf_delays_exact (s : fstate) : Prop := Forall (row_exact (f_rfraster s) sec_rf) (f_rf s).

Lemma rf_rows_on_raster s : ~ f_rfraster s == 0 -> rf_delays_exact s ->
  Forall (row_on_raster (f_rfraster s) sec_rf) (map (write_row (f_rfraster s) sec_rf) (f_rf s)).
Proof.
  intros NZ H. unfold rf_delays_exact in H. induction H as [|r l Hr _ IH]; cbn [map]; constructor; [|exact IH].
  apply row_exact_on_raster; [apply section_cols_ok; unfold all_sections; cbn [In]; tauto|exact NZ|exact Hr].
Qed.

(* C02, whole file, hypotheses on the INPUT state only *)
Theorem write_read_write sy s :
  rasters_in_defs s -> ~ f_braster s == 0 -> ~ f_rfraster s == 0 -> rf_delays_exact s -> adc_rows_full s ->
  write_rows (read_rows sy (write_rows s)) = write_rows s.
Proof.
  intros RID NB NR RD AF. destruct (rasters_kept sy s RID) as [EB ER].
  apply write_read_write_partial; try assumption. apply rf_rows_on_raster; assumption.
Qed.
