(* Proofs/FileDedup.v — duplicate removal's rounding (Base/Round.v, digit tuples of Gen/GenDedup.v)
   against the print classes of the column tables (Gen/GenFile.v). *)
From Coq Require Import List Bool ZArith QArith Qpower Qround Qabs Qreduction Lia Lqa.
From PV Require Import Base.QUtil Base.Round Gen.GenFile Gen.GenDedup Model.File Proofs.FileProofs.
Import ListNotations.
Open Scope Q_scope.

Lemma pow10_pos n : 0 < pow10 n.
Proof.
  unfold pow10. destruct (0 <=? n)%Z eqn:E.
  - apply Z.leb_le in E. change 0 with (inject_Z 0). rewrite <- Zlt_Qlt. apply Z.pow_pos_nonneg; lia.
  - reflexivity.
Qed.

Lemma round_dec_eq_rnd k x y : round_dec k x = round_dec k y -> rnd_he (x * pow10 k) = rnd_he (y * pow10 k).
Proof.
  unfold round_dec. intro H. apply Qred_eq_iff in H.
  pose proof (pow10_pos (- k)) as P.
  apply Qmult_inj_r in H; [|lra]. unfold Qeq, inject_Z in H. cbn [Qnum Qden] in H. lia.
Qed.

Lemma wcol_x_eq rfr c x y : x == y -> wcol rfr c x = wcol rfr c y.
Proof.
  intro E. unfold wcol, fmt_apply.
  assert (P : pre_apply rfr (c_pre c) (c_mult c) x == pre_apply rfr (c_pre c) (c_mult c) y).
  { unfold pre_apply. destruct (c_pre c =? 2)%Z.
    - assert (R : rnd_he (x / rfr) = rnd_he (y / rfr)) by (apply rnd_he_Proper; rewrite E; reflexivity).
      rewrite R. reflexivity.
    - destruct (c_pre c =? 1)%Z.
      + assert (R : rnd_he (x * c_mult c) = rnd_he (y * c_mult c)) by (apply rnd_he_Proper; rewrite E; reflexivity).
        rewrite R. reflexivity.
      + rewrite E. reflexivity. }
  destruct (0 <? c_fmt c)%Z; [apply fmt_sig_Proper; exact P|apply fmt_int_Proper; exact P].
Qed.

(* how a (dedup digit, column) pair is related:
   1 = integer column printed on exactly the grid duplicate removal rounds to (10^-dig = multiplier)
   2 = integer column holding ids (multiplier 1) rounded to -dig >= 0 decimals
   3 = dig significant digits on both sides, value printed as it is
   4 = dig significant digits after raster rounding and scaling (RF delay)
   0 = anything else *)
Definition refine_kind (dig : Z) (c : col) : Z :=
  if (dig <=? 0)%Z && is_int_col c && Qeq_bool (pow10 (- dig)) (c_mult c) then 1
  else if (dig <=? 0)%Z && is_int_col c && Qeq_bool (c_mult c) 1 then 2
  else if (0 <? dig)%Z && is_sig_col c && (c_fmt c =? dig)%Z && Qeq_bool (c_mult c) 1 then 3
  else if (0 <? dig)%Z && is_raster_col c && (c_fmt c =? dig)%Z then 4
  else 0.
Fixpoint refine_kinds (digs : list Z) (cs : list col) : list Z :=
  match digs, cs with
  | d :: ds, c :: cs' => refine_kind d c :: refine_kinds ds cs'
  | _, _ => []
  end.

Lemma round_spec_nonpos dig d : (dig <= 0)%Z -> ~ d == neg_zero -> round_spec dig d = round_dec (- dig) d.
Proof.
  intros H N. unfold round_spec.
  destruct (Qeq_bool d neg_zero) eqn:E; [apply Qeq_bool_iff in E; contradiction|].
  assert (L : (0 <? dig)%Z = false) by (apply Z.ltb_ge; lia). rewrite L. reflexivity.
Qed.

(* kind 1: for ALL rationals, values identified by duplicate removal print identically *)
Theorem dedup_refines_print_grid rfr dig c x y :
  refine_kind dig c = 1%Z -> ~ x == neg_zero -> ~ y == neg_zero ->
  round_spec dig x = round_spec dig y -> wcol rfr c x = wcol rfr c y.
Proof.
  unfold refine_kind. intros K NX NY H.
  destruct ((dig <=? 0)%Z && is_int_col c && Qeq_bool (pow10 (- dig)) (c_mult c)) eqn:E; [|
    destruct ((dig <=? 0)%Z && is_int_col c && Qeq_bool (c_mult c) 1);
    [discriminate|destruct ((0 <? dig)%Z && is_sig_col c && (c_fmt c =? dig)%Z && Qeq_bool (c_mult c) 1);
    [discriminate|destruct ((0 <? dig)%Z && is_raster_col c && (c_fmt c =? dig)%Z); discriminate]]].
  apply andb_true_iff in E. destruct E as [E M]. apply andb_true_iff in E. destruct E as [D I].
  apply Z.leb_le in D. apply Qeq_bool_iff in M.
  rewrite (round_spec_nonpos dig x D NX), (round_spec_nonpos dig y D NY) in H.
  apply round_dec_eq_rnd in H.
  rewrite (wcol_int rfr c x I), (wcol_int rfr c y I).
  assert (EX : x * c_mult c == x * pow10 (- dig)) by (rewrite M; reflexivity).
  assert (EY : y * c_mult c == y * pow10 (- dig)) by (rewrite M; reflexivity).
  rewrite (rnd_he_Proper _ _ EX), (rnd_he_Proper _ _ EY), H. reflexivity.
Qed.

(* kind 2: id columns — integers are fixed points of the decimal rounding *)
Lemma round_dec_int k x : (0 <= k)%Z -> is_int x -> round_dec k x == x.
Proof.
  intros K [z E]. unfold round_dec. rewrite Qred_correct.
  assert (P : pow10 k = inject_Z (10 ^ k)).
  { unfold pow10. assert (L : (0 <=? k)%Z = true) by (apply Z.leb_le; exact K). rewrite L. reflexivity. }
  assert (I : x * pow10 k == inject_Z (z * 10 ^ k)) by (rewrite P, E, inject_Z_mult; reflexivity).
  rewrite (rnd_he_Proper _ _ I), rnd_he_inject, inject_Z_mult, <- E.
  assert (PP : pow10 k * pow10 (- k) == 1).
  { rewrite P. unfold pow10. destruct (0 <=? - k)%Z eqn:L.
    - apply Z.leb_le in L. assert (k = 0%Z) by lia. subst k. reflexivity.
    - apply Z.leb_gt in L. replace (- - k)%Z with k by lia.
      assert (T : (0 < 10 ^ k)%Z) by (apply Z.pow_pos_nonneg; lia).
      unfold Qeq, Qmult, inject_Z. cbn [Qnum Qden]. rewrite Pos.mul_1_l, Z2Pos.id by exact T. ring. }
  rewrite <- P. setoid_replace (x * pow10 k * pow10 (- k)) with (x * (pow10 k * pow10 (- k))) by ring.
  rewrite PP. ring.
Qed.

Theorem dedup_refines_print_ids rfr dig c x y :
  refine_kind dig c = 2%Z -> is_int x -> is_int y -> ~ x == neg_zero -> ~ y == neg_zero ->
  round_spec dig x = round_spec dig y -> wcol rfr c x = wcol rfr c y.
Proof.
  unfold refine_kind. intros K IX IY NX NY H.
  destruct ((dig <=? 0)%Z && is_int_col c && Qeq_bool (pow10 (- dig)) (c_mult c)); [discriminate|].
  destruct ((dig <=? 0)%Z && is_int_col c && Qeq_bool (c_mult c) 1) eqn:E; [|
    destruct ((0 <? dig)%Z && is_sig_col c && (c_fmt c =? dig)%Z && Qeq_bool (c_mult c) 1);
    [discriminate|destruct ((0 <? dig)%Z && is_raster_col c && (c_fmt c =? dig)%Z); discriminate]].
  apply andb_true_iff in E. destruct E as [E _]. apply andb_true_iff in E. destruct E as [D _].
  apply Z.leb_le in D.
  rewrite (round_spec_nonpos dig x D NX), (round_spec_nonpos dig y D NY) in H.
  apply wcol_x_eq.
  rewrite <- (round_dec_int (- dig) x) by (try lia; assumption).
  rewrite <- (round_dec_int (- dig) y) by (try lia; assumption).
  rewrite H. reflexivity.
Qed.
