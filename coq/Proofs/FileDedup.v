(* Proofs/FileDedup.v — duplicate removal's rounding (Base/Round.v, digit tuples of Gen/GenDedup.v)
   against the print classes of the column tables (Gen/GenFile.v). *)
From Coq Require Import List Bool ZArith QArith Qpower Qround Qabs Qreduction Lia Lqa.
From PV Require Import Base.QUtil Base.Round Gen.GenFile Gen.GenDedup Model.File Proofs.FileProofs Proofs.RoundProofs Proofs.RoundVsPrint.
Import ListNotations.
Open Scope Q_scope.

Lemma pow10_pos n : 0 < pow10 n.
Proof.
  unfold pow10. destruct (0 <=? n)%Z eqn:E.
  - apply Z.leb_le in E. change 0 with (inject_Z 0). rewrite <- Zlt_Qlt. apply Z.pow_pos_nonneg; lia.
  - reflexivity.
Qed.

Lemma round_dec_eq_rnd k x y : round_dec k x = round_dec k y -> rnd_he (x * pow10 k) = rnd_he (y * pow10 k).
Proof.
  unfold round_dec. intro H. apply Qred_eq_iff in H.
  pose proof (pow10_pos (- k)) as P.
  apply Qmult_inj_r in H; [|lra]. unfold Qeq, inject_Z in H. cbn [Qnum Qden] in H. lia.
Qed.

Lemma wcol_x_eq rfr c x y : x == y -> wcol rfr c x = wcol rfr c y.
Proof.
  intro E. unfold wcol, fmt_apply.
  assert (P : pre_apply rfr (c_pre c) (c_mult c) x == pre_apply rfr (c_pre c) (c_mult c) y).
  { unfold pre_apply. destruct (c_pre c =? 2)%Z.
    - assert (R : rnd_he (x / rfr) = rnd_he (y / rfr)) by (apply rnd_he_Proper; rewrite E; reflexivity).
      rewrite R. reflexivity.
    - destruct (c_pre c =? 1)%Z.
      + assert (R : rnd_he (x * c_mult c) = rnd_he (y * c_mult c)) by (apply rnd_he_Proper; rewrite E; reflexivity).
        rewrite R. reflexivity.
      + rewrite E. reflexivity. }
  destruct (0 <? c_fmt c)%Z; [apply fmt_sig_Proper; exact P|apply fmt_int_Proper; exact P].
Qed.

(* how a (dedup digit, column) pair is related:
   1 = integer column printed on exactly the grid duplicate removal rounds to (10^-dig = multiplier)
   2 = integer column holding ids (multiplier 1) rounded to -dig >= 0 decimals
   3 = dig significant digits on both sides, value printed as it is
   4 = dig significant digits after raster rounding and scaling (RF delay)
   0 = anything else *)
Definition refine_kind (dig : Z) (c : col) : Z :=
  if (dig <=? 0)%Z && is_int_col c && Qeq_bool (pow10 (- dig)) (c_mult c) then 1
  else if (dig <=? 0)%Z && is_int_col c && Qeq_bool (c_mult c) 1 then 2
  else if (0 <? dig)%Z && is_sig_col c && (c_fmt c =? dig)%Z && Qeq_bool (c_mult c) 1 then 3
  else if (0 <? dig)%Z && is_raster_col c && (c_fmt c =? dig)%Z then 4
  else 0.
Fixpoint refine_kinds (digs : list Z) (cs : list col) : list Z :=
  match digs, cs with
  | d :: ds, c :: cs' => refine_kind d c :: refine_kinds ds cs'
  | _, _ => []
  end.

Lemma round_spec_nonpos dig d : (dig <= 0)%Z -> ~ d == neg_zero -> round_spec dig d = round_dec (- dig) d.
Proof.
  intros H N. unfold round_spec.
  destruct (Qeq_bool d neg_zero) eqn:E; [apply Qeq_bool_iff in E; contradiction|].
  assert (L : (0 <? dig)%Z = false) by (apply Z.ltb_ge; lia). rewrite L. reflexivity.
Qed.

(* kind 1: for ALL rationals, values identified by duplicate removal print identically *)
Theorem dedup_refines_print_grid rfr dig c x y :
  refine_kind dig c = 1%Z -> ~ x == neg_zero -> ~ y == neg_zero ->
  round_spec dig x = round_spec dig y -> wcol rfr c x = wcol rfr c y.
Proof.
  unfold refine_kind. intros K NX NY H.
  destruct ((dig <=? 0)%Z && is_int_col c && Qeq_bool (pow10 (- dig)) (c_mult c)) eqn:E; [|
    destruct ((dig <=? 0)%Z && is_int_col c && Qeq_bool (c_mult c) 1);
    [discriminate|destruct ((0 <? dig)%Z && is_sig_col c && (c_fmt c =? dig)%Z && Qeq_bool (c_mult c) 1);
    [discriminate|destruct ((0 <? dig)%Z && is_raster_col c && (c_fmt c =? dig)%Z); discriminate]]].
  apply andb_true_iff in E. destruct E as [E M]. apply andb_true_iff in E. destruct E as [D I].
  apply Z.leb_le in D. apply Qeq_bool_iff in M.
  rewrite (round_spec_nonpos dig x D NX), (round_spec_nonpos dig y D NY) in H.
  apply round_dec_eq_rnd in H.
  rewrite (wcol_int rfr c x I), (wcol_int rfr c y I).
  assert (EX : x * c_mult c == x * pow10 (- dig)) by (rewrite M; reflexivity).
  assert (EY : y * c_mult c == y * pow10 (- dig)) by (rewrite M; reflexivity).
  rewrite (rnd_he_Proper _ _ EX), (rnd_he_Proper _ _ EY), H. reflexivity.
Qed.

(* kind 2: id columns — integers are fixed points of the decimal rounding *)
Lemma round_dec_int k x : (0 <= k)%Z -> is_int x -> round_dec k x == x.
Proof.
  intros K [z E]. unfold round_dec. rewrite Qred_correct.
  assert (P : pow10 k = inject_Z (10 ^ k)).
  { unfold pow10. assert (L : (0 <=? k)%Z = true) by (apply Z.leb_le; exact K). rewrite L. reflexivity. }
  assert (I : x * pow10 k == inject_Z (z * 10 ^ k)) by (rewrite P, E, inject_Z_mult; reflexivity).
  rewrite (rnd_he_Proper _ _ I), rnd_he_inject, inject_Z_mult, <- E.
  assert (PP : pow10 k * pow10 (- k) == 1).
  { rewrite P. unfold pow10. destruct (0 <=? - k)%Z eqn:L.
    - apply Z.leb_le in L. assert (k = 0%Z) by lia. subst k. reflexivity.
    - apply Z.leb_gt in L. replace (- - k)%Z with k by lia.
      assert (T : (0 < 10 ^ k)%Z) by (apply Z.pow_pos_nonneg; lia).
      unfold Qeq, Qmult, inject_Z. cbn [Qnum Qden]. rewrite Pos.mul_1_l, Z2Pos.id by exact T. ring. }
  rewrite <- P. setoid_replace (x * pow10 k * pow10 (- k)) with (x * (pow10 k * pow10 (- k))) by ring.
  rewrite PP. ring.
Qed.

Theorem dedup_refines_print_ids rfr dig c x y :
  refine_kind dig c = 2%Z -> is_int x -> is_int y -> ~ x == neg_zero -> ~ y == neg_zero ->
  round_spec dig x = round_spec dig y -> wcol rfr c x = wcol rfr c y.
Proof.
  unfold refine_kind. intros K IX IY NX NY H.
  destruct ((dig <=? 0)%Z && is_int_col c && Qeq_bool (pow10 (- dig)) (c_mult c)); [discriminate|].
  destruct ((dig <=? 0)%Z && is_int_col c && Qeq_bool (c_mult c) 1) eqn:E; [|
    destruct ((0 <? dig)%Z && is_sig_col c && (c_fmt c =? dig)%Z && Qeq_bool (c_mult c) 1);
    [discriminate|destruct ((0 <? dig)%Z && is_raster_col c && (c_fmt c =? dig)%Z); discriminate]].
  apply andb_true_iff in E. destruct E as [E _]. apply andb_true_iff in E. destruct E as [D _].
  apply Z.leb_le in D.
  rewrite (round_spec_nonpos dig x D NX), (round_spec_nonpos dig y D NY) in H.
  apply wcol_x_eq.
  rewrite <- (round_dec_int (- dig) x) by (try lia; assumption).
  rewrite <- (round_dec_int (- dig) y) by (try lia; assumption).
  rewrite H. reflexivity.
Qed.

(* ---- kinds 3 and 4: significant-digit columns, with round_spec = fmt_sig on the common range (RoundVsPrint.v) ---- *)
Lemma kind_cases dig c k : refine_kind dig c = k -> (k = 3)%Z ->
  (0 <? dig)%Z = true /\ is_sig_col c = true /\ (c_fmt c =? dig)%Z = true /\ Qeq_bool (c_mult c) 1 = true.
Proof.
  unfold refine_kind. intros K K3.
  destruct ((dig <=? 0)%Z && is_int_col c && Qeq_bool (pow10 (- dig)) (c_mult c)); [lia|].
  destruct ((dig <=? 0)%Z && is_int_col c && Qeq_bool (c_mult c) 1); [lia|].
  destruct ((0 <? dig)%Z && is_sig_col c && (c_fmt c =? dig)%Z && Qeq_bool (c_mult c) 1) eqn:E.
  - apply andb_true_iff in E. destruct E as [E A4]. apply andb_true_iff in E. destruct E as [E A3].
    apply andb_true_iff in E. destruct E as [A1 A2]. tauto.
  - destruct ((0 <? dig)%Z && is_raster_col c && (c_fmt c =? dig)%Z); lia.
Qed.

Lemma kind4_cases dig c : refine_kind dig c = 4%Z ->
  (0 <? dig)%Z = true /\ is_raster_col c = true /\ (c_fmt c =? dig)%Z = true.
Proof.
  unfold refine_kind. intros K.
  destruct ((dig <=? 0)%Z && is_int_col c && Qeq_bool (pow10 (- dig)) (c_mult c)); [discriminate|].
  destruct ((dig <=? 0)%Z && is_int_col c && Qeq_bool (c_mult c) 1); [discriminate|].
  destruct ((0 <? dig)%Z && is_sig_col c && (c_fmt c =? dig)%Z && Qeq_bool (c_mult c) 1); [discriminate|].
  destruct ((0 <? dig)%Z && is_raster_col c && (c_fmt c =? dig)%Z) eqn:E; [|discriminate].
  apply andb_true_iff in E. destruct E as [E A3]. apply andb_true_iff in E. tauto.
Qed.

Lemma wcol_kind3 rfr dig c x : refine_kind dig c = 3%Z -> wcol rfr c x = fmt_sig dig x.
Proof.
  intro K. destruct (kind_cases dig c 3 K eq_refl) as [D [S [FM M]]].
  apply Z.eqb_eq in FM. apply Qeq_bool_iff in M.
  unfold is_sig_col in S. apply andb_true_iff in S. destruct S as [S _].
  apply andb_true_iff in S. destruct S as [S P1]. apply andb_true_iff in S. destruct S as [F P2].
  apply negb_true_iff in P1. apply negb_true_iff in P2.
  rewrite (wcol_sig rfr c x F), P2, P1, FM. apply fmt_sig_Proper. rewrite M. ring.
Qed.

(* kind 3, both directions: on the common range duplicate removal identifies exactly what prints identically *)
Theorem dedup_classes_eq_print_classes_sig rfr dig c x y :
  refine_kind dig c = 3%Z -> sig_range dig x -> sig_range dig y ->
  (round_spec dig x = round_spec dig y <-> wcol rfr c x = wcol rfr c y).
Proof.
  intros K RX RY. rewrite (wcol_kind3 rfr dig c x K), (wcol_kind3 rfr dig c y K).
  destruct (kind_cases dig c 3 K eq_refl) as [D _]. apply Z.ltb_lt in D.
  apply dedup_classes_refine_print_classes_sig; [lia|assumption|assumption].
Qed.

(* scaling by a power of ten commutes with rounding to significant digits *)
Lemma fmt_sig_scale n x j : fmt_sig n (x * p10 j) == fmt_sig n x * p10 j.
Proof.
  destruct (Qeq_dec x 0) as [Z0|NZ].
  - rewrite (fmt_sig_zero n x Z0). assert (Z1 : x * p10 j == 0) by (rewrite Z0; ring).
    rewrite (fmt_sig_zero n _ Z1). ring.
  - destruct (decade_of x NZ) as [A B]. set (e := flog10 (Qabs x)) in *.
    pose proof (p10_pos j) as Pj.
    assert (NZ' : ~ x * p10 j == 0).
    { intro H. apply NZ. apply Qmult_integral in H. destruct H as [H|H]; [exact H|lra]. }
    assert (AB : Qabs (x * p10 j) == Qabs x * p10 j) by (rewrite Qabs_Qmult, (Qabs_pos (p10 j)) by lra; reflexivity).
    assert (A' : p10 (e + j) <= Qabs (x * p10 j)).
    { rewrite AB, (p10_add e j). apply Qmult_le_compat_r; lra. }
    assert (B' : Qabs (x * p10 j) < p10 (e + j + 1)).
    { rewrite AB. replace (e + j + 1)%Z with (e + 1 + j)%Z by lia. rewrite (p10_add (e + 1) j). apply Qmult_lt_compat_r; lra. }
    rewrite (fmt_sig_unfold n (x * p10 j) (e + j) NZ' A' B'), (fmt_sig_unfold n x e NZ A B).
    replace (n - 1 - (e + j))%Z with (n - 1 - e + - j)%Z by lia.
    set (k := (n - 1 - e)%Z).
    assert (E1 : x * p10 j * p10 (k + - j) == x * p10 k).
    { rewrite (p10_add k (- j)). setoid_replace (x * p10 j * (p10 k * p10 (- j))) with (x * p10 k * (p10 j * p10 (- j))) by ring.
      rewrite p10_inv. ring. }
    rewrite (rnd_he_Proper _ _ E1).
    replace (- (k + - j))%Z with (- k + j)%Z by lia. rewrite (p10_add (- k) j). ring.
Qed.

(* kind 4 (RF delay): for delays on the RF raster, values identified by duplicate removal print identically *)
Theorem dedup_refines_print_raster rfr dig c j x y :
  refine_kind dig c = 4%Z -> c_mult c == p10 j -> ~ rfr == 0 ->
  (exists N, x == inject_Z N * rfr) -> (exists N, y == inject_Z N * rfr) ->
  sig_range dig x -> sig_range dig y ->
  round_spec dig x = round_spec dig y -> wcol rfr c x = wcol rfr c y.
Proof.
  intros K M NZ [Nx EX] [Ny EY] RX RY H.
  destruct (kind4_cases dig c K) as [D [R FM]]. apply Z.eqb_eq in FM. apply Z.ltb_lt in D.
  unfold is_raster_col in R. apply andb_true_iff in R. destruct R as [R _]. apply andb_true_iff in R. destruct R as [F P2].
  rewrite (wcol_sig rfr c x F), (wcol_sig rfr c y F), P2, FM.
  rewrite (round_spec_eq_fmt_sig dig x ltac:(lia) RX), (round_spec_eq_fmt_sig dig y ltac:(lia) RY) in H.
  assert (GX : inject_Z (rnd_he (x / rfr)) * rfr * c_mult c == x * p10 j).
  { assert (Q1 : x / rfr == inject_Z Nx) by (rewrite EX; field; exact NZ).
    rewrite (rnd_he_Proper _ _ Q1), rnd_he_inject, M, EX. reflexivity. }
  assert (GY : inject_Z (rnd_he (y / rfr)) * rfr * c_mult c == y * p10 j).
  { assert (Q1 : y / rfr == inject_Z Ny) by (rewrite EY; field; exact NZ).
    rewrite (rnd_he_Proper _ _ Q1), rnd_he_inject, M, EY. reflexivity. }
  rewrite (fmt_sig_Proper dig _ _ GX), (fmt_sig_Proper dig _ _ GY).
  apply Qeq_canon_eq; [apply fmt_sig_canon|apply fmt_sig_canon|].
  rewrite (fmt_sig_scale dig x j), (fmt_sig_scale dig y j), H. reflexivity.
Qed.

(* ---- quantised values (shape samples are multiples of 1e-7): below the common range too ------------------------ *)
(* a multiple of 10^-q that leaves room for q decimals within dig significant digits is a fixed point of
   duplicate removal's rounding, whatever its magnitude (down to 0) *)
Lemma round_spec_on_grid dig q m x :
  (0 < dig)%Z -> x == inject_Z m * pow10 (- q) -> Qabs x + log_offset <= pow10 (dig - q) ->
  Qeq_bool x neg_zero = false -> round_spec dig x == x.
Proof.
  intros D G U NN. rewrite (round_spec_sig_eq dig x NN D).
  destruct (sig_exp_spec x) as [[L1 L2] [S _]]. cbv zeta in *.
  assert (EB : (sig_exp x <= dig - q)%Z).
  { destruct S as [S|S].
    - rewrite S. destruct (Z_lt_le_dec (dig - q) (-12)) as [LT|GE]; [|exact GE]. exfalso.
      apply RoundProofs.pow10_lt in LT. rewrite <- log_offset_pow in LT. pose proof (Qabs_nonneg x). lra.
    - assert (LT : pow10 (sig_exp x - 1) < pow10 (dig - q)) by lra. apply pow10_lt_inv in LT. lia. }
  apply (round_dec_on_grid q (dig - sig_exp x) m x); [lia|exact G].
Qed.

Theorem quantised_dedup_is_print dig q m x :
  (1 <= dig)%Z -> (0 <= q)%Z -> x == inject_Z m * pow10 (- q) -> Qabs x + log_offset <= pow10 (dig - q) ->
  Qeq_bool x neg_zero = false -> round_spec dig x = fmt_sig dig x.
Proof.
  intros D Q0 G U NN.
  assert (RS : round_spec dig x == x) by (apply (round_spec_on_grid dig q m x); [lia|assumption..]).
  assert (MB : (Z.abs m < 10 ^ dig)%Z).
  { assert (A : Qabs x == inject_Z (Z.abs m) * pow10 (- q)) by (rewrite G; apply Qabs_inject_mult; apply RoundProofs.pow10_pos).
    assert (B : inject_Z (Z.abs m) * pow10 (- q) < pow10 (dig - q)).
    { rewrite <- A. assert (0 < log_offset) by reflexivity. lra. }
    replace (dig - q)%Z with (dig + - q)%Z in B by lia. rewrite pow10_plus in B.
    pose proof (RoundProofs.pow10_pos (- q)) as P. apply Qmult_lt_r in B; [|exact P].
    rewrite pow10_nonneg_int in B by lia. rewrite <- Zlt_Qlt in B. exact B. }
  assert (FS : fmt_sig dig x == x).
  { assert (G' : x == inject_Z m * p10 (- q)) by (rewrite G, pow10_p10; reflexivity).
    assert (E1 : fmt_sig dig x = fmt_sig dig (inject_Z m * p10 (- q))) by (apply fmt_sig_Proper; exact G').
    rewrite E1, (fmt_sig_exact_decimal dig m q D MB). symmetry. exact G'. }
  apply Qeq_canon_eq.
  - rewrite (round_spec_sig_eq dig x NN ltac:(lia)). apply round_dec_canon.
  - apply fmt_sig_canon.
  - rewrite RS, FS. reflexivity.
Qed.
