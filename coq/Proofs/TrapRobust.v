(* Proofs/TrapRobust.v — what binary64 rounding in front of math.ceil can do to the raster counts of
   make_trapezoid.  The model (Model/Trap.v) evaluates ceil(q) and ceil(sqrt(x)/r) exactly; the code
   evaluates them on a computed value v that carries a relative error delta.  These lemmas bracket the
   integer the code can obtain: it differs from the exact one by at most one, and only when the exact
   argument lies in an explicit band of relative width delta (resp. (1+-delta)^2 for the square root)
   next to an integer (resp. a perfect square).  The correspondence harness (harness/props/C11.py)
   evaluates exactly these band predicates to decide whether a one-raster divergence is admissible. *)
From Coq Require Import ZArith QArith Qround Qabs Bool Lia Lqa.
From PV Require Import Base.QUtil Gen.GenTrap Model.Trap Proofs.TrapProofs.
Open Scope Q_scope.

Lemma sq_lt_mono x y : 0 <= x -> x < y -> x * x < y * y.
Proof.
  intros Hx Hxy. apply Qle_lt_trans with (y * x).
  - apply Qmult_le_compat_r; lra.
  - apply Qmult_lt_l; lra.
Qed.

Lemma sq_le_cancel x y : 0 <= y -> x * x <= y * y -> x <= y.
Proof.
  intros Hy H. apply Qnot_lt_le. intro L. pose proof (sq_lt_mono y x Hy L). lra.
Qed.

Lemma inject_Z_pred (n : Z) : inject_Z (n - 1) == inject_Z n - 1.
Proof. unfold Z.sub. rewrite inject_Z_plus, inject_Z_opp. change (inject_Z 1) with 1. ring. Qed.

Lemma inject_Z_succ (n : Z) : inject_Z (n + 1) == inject_Z n + 1.
Proof. rewrite inject_Z_plus. change (inject_Z 1) with 1. ring. Qed.

Lemma Qceiling_gt_iff (x : Q) (k : Z) : (k < Qceiling x)%Z <-> inject_Z k < x.
Proof.
  split; intro H.
  - apply Qnot_le_lt. intro L. apply Qceiling_le_iff in L. lia.
  - apply Z.nle_gt. intro L. apply Qceiling_le_iff in L. lra.
Qed.

(* ---- plain ceil: math.ceil(v) for v within relative delta of the exact quotient q ----------------- *)
Theorem ceil_robust (q v delta : Q) : 0 <= delta -> Qabs (v - q) <= delta * Qabs q -> delta * Qabs q <= 1 ->
  let n := Qceiling q in
  let m := Qceiling v in
  m = n \/
  (m = (n + 1)%Z /\ q <= inject_Z n /\ inject_Z n < q + delta * Qabs q) \/
  (m = (n - 1)%Z /\ q - delta * Qabs q <= inject_Z (n - 1) /\ inject_Z (n - 1) < q).
Proof.
  intros Hd Hv Hs n m. apply Qabs_Qle_condition in Hv. destruct Hv as [Hv1 Hv2].
  set (e := delta * Qabs q) in *.
  pose proof (Qle_ceiling q) as Hq1. fold n in Hq1.
  pose proof (Qceiling_lt q) as Hq2. fold n in Hq2.
  pose proof (Qle_ceiling v) as Hm1. fold m in Hm1.
  pose proof (Qceiling_lt v) as Hm2. fold m in Hm2.
  rewrite inject_Z_pred in Hq2, Hm2.
  destruct (Z_lt_le_dec n m) as [L|L].
  - (* m > n *)
    right. left.
    assert (Hn : inject_Z n < v).
    { apply Qle_lt_trans with (inject_Z m - 1); [|exact Hm2].
      assert ((n <= m - 1)%Z) by lia. rewrite Zle_Qle in H. rewrite inject_Z_pred in H. exact H. }
    assert (Hm : (m <= n + 1)%Z).
    { apply Qceiling_le_iff. rewrite inject_Z_succ. lra. }
    split; [lia|]. split; lra.
  - destruct (Z_lt_le_dec m n) as [L'|L'].
    + (* m < n *)
      right. right.
      assert (Hn : v <= inject_Z (n - 1)).
      { apply Qle_trans with (inject_Z m); [exact Hm1|]. rewrite <- Zle_Qle. lia. }
      rewrite inject_Z_pred in Hn.
      assert (Hm : (n - 2 < m)%Z).
      { apply Qceiling_gt_iff. unfold Z.sub. rewrite inject_Z_plus, inject_Z_opp.
        change (inject_Z 2) with 2. lra. }
      rewrite inject_Z_pred. split; [lia|]. split; lra.
    + left. lia.
Qed.

(* ---- ceil(sqrt(x)/r): the computed v >= 0 has v^2 within (1 +- delta)^2 of the exact x/r^2, i.e.
   v = sqrt(x)/r * (1 + e) with |e| <= delta, stated without a square root -------------------------- *)
Theorem ceil_sqrt_div_robust (x r v delta : Q) :
  0 < r -> 0 <= x -> 0 <= delta -> delta < 1 -> 0 <= v ->
  let y := x / (r * r) in
  let n := ceil_sqrt_div x r in
  (1 - delta) * (1 - delta) * y <= v * v -> v * v <= (1 + delta) * (1 + delta) * y ->
  inject_Z n * delta <= 1 ->
  let m := Qceiling v in
  m = n \/
  (m = (n + 1)%Z /\ y <= inject_Z n * inject_Z n /\ inject_Z n * inject_Z n < (1 + delta) * (1 + delta) * y) \/
  (m = (n - 1)%Z /\ (1 - delta) * (1 - delta) * y <= inject_Z (n - 1) * inject_Z (n - 1) /\
                    inject_Z (n - 1) * inject_Z (n - 1) < y).
Proof.
  intros Hr Hx Hd Hd1 Hv y n Hlo Hhi Hnd m.
  assert (Hrr : 0 < r * r) by (apply Qmult_lt_0_compat; exact Hr).
  assert (Hy : 0 <= y) by (unfold y; apply Qdiv_pos_nonneg; assumption).
  pose proof (ceil_sqrt_div_nonneg x r) as Hn0. fold n in Hn0.
  assert (Hn0q : 0 <= inject_Z n) by (change 0 with (inject_Z 0); rewrite <- Zle_Qle; exact Hn0).
  (* y <= n^2 *)
  assert (Hyn : y <= inject_Z n * inject_Z n).
  { pose proof (ceil_sqrt_div_spec x r Hr Hx) as Hsp. fold n in Hsp.
    unfold y. apply Qdiv_le_iff; [exact Hrr|].
    assert (E : inject_Z n * inject_Z n * (r * r) == inject_Z n * r * (inject_Z n * r)) by ring.
    rewrite E. exact Hsp. }
  (* (n-1)^2 < y when n >= 1 *)
  assert (Hpred : (1 <= n)%Z -> inject_Z (n - 1) * inject_Z (n - 1) < y).
  { intro H1. pose proof (ceil_sqrt_div_pred x r Hr Hx) as Hp. fold n in Hp. specialize (Hp H1).
    unfold y. apply Qlt_div_iff; [exact Hrr|].
    assert (E : inject_Z (n - 1) * inject_Z (n - 1) * (r * r) ==
                inject_Z (n - 1) * r * (inject_Z (n - 1) * r)) by ring.
    rewrite E. exact Hp. }
  pose proof (Qle_ceiling v) as Hm1. fold m in Hm1.
  pose proof (Qceiling_lt v) as Hm2. fold m in Hm2. rewrite inject_Z_pred in Hm2.
  destruct (Z_lt_le_dec n m) as [L|L].
  - (* m > n: v > n *)
    right. left.
    assert (Hnv : inject_Z n < v).
    { apply Qle_lt_trans with (inject_Z m - 1); [|exact Hm2].
      assert ((n <= m - 1)%Z) by lia. rewrite Zle_Qle in H. rewrite inject_Z_pred in H. exact H. }
    assert (Hsq : inject_Z n * inject_Z n < v * v) by (apply sq_lt_mono; assumption).
    assert (Hm : (m <= n + 1)%Z).
    { apply Qceiling_le_iff. rewrite inject_Z_succ.
      apply Qle_trans with ((1 + delta) * inject_Z n); [|lra].
      apply sq_le_cancel.
      - apply Qmult_le_0_compat; lra.
      - apply Qle_trans with ((1 + delta) * (1 + delta) * y); [exact Hhi|].
        assert (E : (1 + delta) * inject_Z n * ((1 + delta) * inject_Z n) ==
                    (1 + delta) * (1 + delta) * (inject_Z n * inject_Z n)) by ring.
        rewrite E. rewrite (Qmult_comm ((1 + delta) * (1 + delta)) y).
        rewrite (Qmult_comm ((1 + delta) * (1 + delta)) (inject_Z n * inject_Z n)).
        apply Qmult_le_compat_r; [exact Hyn|]. apply Qmult_le_0_compat; lra. }
    split; [lia|]. split; [exact Hyn|]. lra.
  - destruct (Z_lt_le_dec m n) as [L'|L'].
    + (* m < n: v <= n - 1 *)
      right. right.
      assert (Hvn : v <= inject_Z (n - 1)).
      { apply Qle_trans with (inject_Z m); [exact Hm1|]. rewrite <- Zle_Qle. lia. }
      assert (Hn1 : (1 <= n)%Z).
      { destruct (Z_lt_le_dec n 1) as [C|C]; [|exact C]. exfalso.
        assert ((n - 1 <= -1)%Z) by lia. rewrite Zle_Qle in H. change (inject_Z (-1)) with (-1) in H. lra. }
      specialize (Hpred Hn1).
      assert (Hk0 : 0 <= inject_Z (n - 1)).
      { change 0 with (inject_Z 0). rewrite <- Zle_Qle. lia. }
      assert (Hsq : v * v <= inject_Z (n - 1) * inject_Z (n - 1)) by (apply sq_le_mono; assumption).
      assert (Hm : (n - 2 < m)%Z).
      { apply Qceiling_gt_iff.
        (* v > (1 - delta) (n - 1) >= n - 2 *)
        assert (Hd1' : 0 < 1 - delta) by lra.
        assert (Hlt : (1 - delta) * inject_Z (n - 1) < v).
        { apply sq_lt_cancel; [exact Hv|].
          apply Qlt_le_trans with ((1 - delta) * (1 - delta) * y); [|exact Hlo].
          assert (E : (1 - delta) * inject_Z (n - 1) * ((1 - delta) * inject_Z (n - 1)) ==
                      (1 - delta) * (1 - delta) * (inject_Z (n - 1) * inject_Z (n - 1))) by ring.
          rewrite E. apply Qmult_lt_l; [apply Qmult_lt_0_compat; lra|exact Hpred]. }
        assert (Hdk : delta * inject_Z (n - 1) <= 1).
        { apply Qle_trans with (inject_Z n * delta); [|exact Hnd].
          rewrite (Qmult_comm delta). apply Qmult_le_compat_r; [|exact Hd].
          rewrite <- Zle_Qle. lia. }
        assert (E : inject_Z (n - 2) == inject_Z (n - 1) - 1).
        { unfold Z.sub. rewrite !inject_Z_plus, !inject_Z_opp. change (inject_Z 2) with 2.
          change (inject_Z 1) with 1. ring. }
        rewrite E.
        assert (X : (1 - delta) * inject_Z (n - 1) == inject_Z (n - 1) - delta * inject_Z (n - 1)) by ring.
        rewrite X in Hlt. lra. }
      split; [lia|]. split; [lra|exact Hpred].
    + left. lia.
Qed.
