(* Proofs/ModAxisProofs.v — mod_grad_axis / flip_grad_axis (Model/ModAxis.v): every block decodes to
   the decode of the input with the gradient on the chosen channel rescaled, nothing else changes;
   decode never reads the key map, so key collisions created by the rescaling are invisible. *)
From Coq Require Import List Bool ZArith QArith Qcanon Lia Sorted.
From RecordUpdate Require Import RecordSet.
From PV Require Import Base.AList Base.QUtil Model.EventLib Model.Seq Model.ModAxis Gen.GenGradOps.
Import ListNotations RecordSetNotations.
Open Scope Z_scope.

Lemma Zeqb_spec' : forall a b : Z, Z.eqb a b = true <-> a = b.
Proof. intros a b. apply Z.eqb_eq. Qed.

(* ---- np.unique --------------------------------------------------------------------------------- *)
Lemma ins_uniq_in x l y : In y (ins_uniq x l) <-> y = x \/ In y l.
Proof.
  induction l as [|a l IH]; cbn [ins_uniq].
  - cbn. intuition.
  - destruct (x <? a) eqn:E1; [cbn; intuition|].
    destruct (x =? a) eqn:E2.
    + apply Z.eqb_eq in E2. subst a. cbn. intuition.
    + cbn [In]. rewrite IH. intuition.
Qed.

Lemma ins_uniq_sorted x l : StronglySorted Z.lt l -> StronglySorted Z.lt (ins_uniq x l).
Proof.
  induction l as [|a l IH]; intro H; cbn [ins_uniq].
  - constructor; constructor.
  - inversion H as [|? ? Hs Hf]; subst.
    destruct (x <? a) eqn:E1.
    + apply Z.ltb_lt in E1. constructor; [exact H|]. constructor; [exact E1|].
      rewrite Forall_forall in *. intros y Hy. specialize (Hf y Hy). lia.
    + destruct (x =? a) eqn:E2; [exact H|].
      apply Z.ltb_ge in E1. apply Z.eqb_neq in E2.
      constructor; [apply IH; exact Hs|].
      rewrite Forall_forall in *. intros y Hy. apply ins_uniq_in in Hy. destruct Hy as [->|Hy]; [lia|apply Hf; exact Hy].
Qed.

Lemma np_unique_in l y : In y (np_unique l) <-> In y l.
Proof.
  induction l as [|a l IH]; cbn [np_unique fold_right]; [reflexivity|].
  fold (np_unique l). rewrite ins_uniq_in, IH. cbn. intuition.
Qed.

Lemma np_unique_sorted l : StronglySorted Z.lt (np_unique l).
Proof.
  induction l as [|a l IH]; cbn [np_unique fold_right]; [constructor|]. apply ins_uniq_sorted. exact IH.
Qed.

Lemma sorted_nodup l : StronglySorted Z.lt l -> NoDup l.
Proof.
  induction 1 as [|a l Hs IH Hf]; constructor; [|exact IH].
  intro Hin. rewrite Forall_forall in Hf. specialize (Hf a Hin). lia.
Qed.

Lemma nodup_filter {A} (f : A -> bool) l : NoDup l -> NoDup (filter f l).
Proof.
  induction 1 as [|a l Hn Hd IH]; cbn [filter]; [constructor|].
  destruct (f a); [constructor; [|exact IH]|exact IH].
  intro Hin. apply filter_In in Hin. destruct Hin. contradiction.
Qed.

Lemma selected_spec c ch id :
  In id (selected_ids c ch) <-> id <> 0 /\ exists b, In b (blocks c) /\ nth (2 + ch) (snd b) 0 = id.
Proof.
  unfold selected_ids, grad_col. rewrite filter_In, np_unique_in, in_map_iff, negb_true_iff, Z.eqb_neq.
  split.
  - intros [[b [E Hb]] N]. split; [exact N|]. exists b. split; assumption.
  - intros [N [b [Hb E]]]. split; [|exact N]. exists b. split; assumption.
Qed.

Lemma selected_nodup c ch : NoDup (selected_ids c ch).
Proof. unfold selected_ids. apply nodup_filter. apply sorted_nodup. apply np_unique_sorted. Qed.

Lemma other_spec c ch o b : o <> ch -> (o < 3)%nat -> In b (blocks c) ->
  In (nth (2 + o) (snd b) 0) (other_ids c ch).
Proof.
  intros Hne Ho Hb. unfold other_ids. rewrite np_unique_in, in_flat_map.
  exists o. split; [destruct o as [|[|[|o]]]; cbn; try lia; auto|].
  assert (E : Nat.eqb o ch = false) by (apply Nat.eqb_neq; exact Hne). rewrite E.
  unfold grad_col. apply in_map_iff. exists b. split; [reflexivity|exact Hb].
Qed.

(* ---- one library update -------------------------------------------------------------------------- *)
Lemma kupd_get (l : klib) id k ty id' : id <> 0 ->
  lib_get (kupd l id k ty) id' = if id' =? id then Some k else lib_get l id'.
Proof.
  intro N. unfold kupd, lib_update, lib_insert, lib_get. cbn [fst ldata ltype lnext].
  assert (E : id =? 0 = false) by (apply Z.eqb_neq; exact N). rewrite E. cbn [ldata].
  destruct (id' =? id) eqn:E2.
  - apply Z.eqb_eq in E2. subst id'. apply aget_aset_same. exact Zeqb_spec'.
  - apply Z.eqb_neq in E2. apply aget_aset_other; [exact Zeqb_spec'|exact E2].
Qed.

Lemma kupd_type (l : klib) id k ty id' : id <> 0 -> lib_type l id = Some ty ->
  lib_type (kupd l id k ty) id' = lib_type l id'.
Proof.
  intros N Ht. unfold kupd, lib_update, lib_insert, lib_type in *. cbn [fst ldata ltype lnext].
  assert (E : id =? 0 = false) by (apply Z.eqb_neq; exact N). rewrite E. cbn [ltype].
  unfold set_type. destruct (ty =? 0); [reflexivity|].
  destruct (Z.eq_dec id' id) as [->|Hne].
  - rewrite Ht. apply aget_aset_same. exact Zeqb_spec'.
  - apply aget_aset_other; [exact Zeqb_spec'|exact Hne].
Qed.

(* ---- the loop ------------------------------------------------------------------------------------ *)
Lemma mod_loop_spec m : forall ids gl gl',
  NoDup ids -> ~ In 0 ids -> mod_loop m gl ids = (gl', None) ->
  (forall id, lib_type gl' id = lib_type gl id) /\
  (forall id, ~ In id ids -> lib_get gl' id = lib_get gl id) /\
  (forall id, In id ids -> exists ty data, lib_type gl id = Some ty /\ lib_get gl id = Some data /\
                                           lib_get gl' id = Some (scale_row ty m data)).
Proof.
  induction ids as [|a ids IH]; intros gl gl' Hnd H0 H; cbn [mod_loop] in H.
  - inversion H; subst. repeat split; try reflexivity. intros id [].
  - inversion Hnd as [|? ? Hna Hnd']; subst.
    assert (Ha : a <> 0) by (intro E; apply H0; left; exact E).
    assert (H0' : ~ In 0 ids) by (intro E; apply H0; right; exact E).
    destruct (lib_type gl a) as [ty|] eqn:Et; [|inversion H].
    destruct (lib_get gl a) as [data|] eqn:Ed; [|inversion H].
    destruct (IH _ _ Hnd' H0' H) as (T & G & SS).
    split; [|split].
    + intro id. rewrite T. apply kupd_type; assumption.
    + intros id Hn. rewrite G by (intro X; apply Hn; right; exact X).
      rewrite kupd_get by exact Ha.
      assert (E : id =? a = false) by (apply Z.eqb_neq; intro X; apply Hn; left; symmetry; exact X).
      rewrite E. reflexivity.
    + intros id [<-|Hin].
      * exists ty, data. split; [exact Et|]. split; [exact Ed|].
        rewrite G by exact Hna. rewrite kupd_get by exact Ha. rewrite Z.eqb_refl. reflexivity.
      * destruct (SS id Hin) as (ty' & data' & A & B & C).
        assert (Hne : id <> a) by (intro X; subst id; contradiction).
        rewrite kupd_type in A by assumption.
        rewrite kupd_get in B by exact Ha.
        assert (E : id =? a = false) by (apply Z.eqb_neq; exact Hne). rewrite E in B.
        exists ty', data'. repeat split; assumption.
Qed.

(* ---- rows ---------------------------------------------------------------------------------------- *)
Lemma scale_at_nth m idx : forall k n j, existsb (Nat.eqb (n + j)) idx = false ->
  nth j (scale_at m idx n k) qc0 = nth j k qc0.
Proof.
  induction k as [|x k IH]; intros n j H; cbn [scale_at]; [reflexivity|].
  destruct j as [|j].
  - rewrite Nat.add_0_r in H. rewrite H. reflexivity.
  - cbn [nth]. apply IH. rewrite <- H. f_equal. f_equal. lia.
Qed.

Lemma scale_row_shape_ids ty m data :
  knth (scale_row ty m data) 1 = knth data 1 /\ knth (scale_row ty m data) 2 = knth data 2.
Proof.
  unfold knth, scale_row. split; apply scale_at_nth; destruct (ty =? tag_g); reflexivity.
Qed.

(* ---- dec_grad before / after ---------------------------------------------------------------------- *)
Lemma dec_grad_scaled c gl' m id ty data :
  lib_type (grad_l c) id = Some ty -> lib_get (grad_l c) id = Some data ->
  lib_type gl' id = Some ty -> lib_get gl' id = Some (scale_row ty m data) ->
  dec_grad (c <| grad_l := gl' |>) id = option_map (option_map (scale_dgrad m)) (dec_grad c id).
Proof.
  intros T G T' G'. unfold dec_grad.
  destruct (id <=? 0); [reflexivity|].
  change (grad_l (c <| grad_l := gl' |>)) with gl'. rewrite T, G, T', G'. cbn [opt_bind].
  destruct (ty =? tag_t) eqn:Et; [reflexivity|].
  destruct (scale_row_shape_ids ty m data) as [E1 E2]. rewrite E1, E2.
  change (get_shape (c <| grad_l := gl' |>)) with (get_shape c).
  destruct (get_shape c (qz (knth data 1))) as [ws|]; [|reflexivity]. cbn [opt_bind].
  destruct (qz (knth data 2) =? 0); [reflexivity|].
  destruct (get_shape c (qz (knth data 2))) as [ts|]; reflexivity.
Qed.

Lemma dec_grad_same c gl' id :
  lib_type gl' id = lib_type (grad_l c) id -> lib_get gl' id = lib_get (grad_l c) id ->
  dec_grad (c <| grad_l := gl' |>) id = dec_grad c id.
Proof.
  intros T G. unfold dec_grad. destruct (id <=? 0); [reflexivity|].
  change (grad_l (c <| grad_l := gl' |>)) with gl'. rewrite T, G. reflexivity.
Qed.

Lemma dec_ext_grad_indep c gl' : forall f eid, dec_ext (c <| grad_l := gl' |>) f eid = dec_ext c f eid.
Proof.
  induction f as [|f IH]; intro eid; cbn [dec_ext]; [reflexivity|].
  destruct (eid =? 0); [reflexivity|].
  change (ext_l (c <| grad_l := gl' |>)) with (ext_l c).
  destruct (lib_get (ext_l c) eid) as [ed|]; [|reflexivity]. cbn [opt_bind].
  change (ext_type_str (c <| grad_l := gl' |>)) with (ext_type_str c).
  destruct (ext_type_str c (qz (knth ed 0))) as [s|]; [|reflexivity]. cbn [opt_bind].
  change (trig_l (c <| grad_l := gl' |>)) with (trig_l c).
  change (lset_l (c <| grad_l := gl' |>)) with (lset_l c).
  change (linc_l (c <| grad_l := gl' |>)) with (linc_l c).
  rewrite IH. reflexivity.
Qed.

(* ---- the theorem ---------------------------------------------------------------------------------- *)
Theorem mod_grad_axis_decodes_scaled c ch m c' :
  mod_grad_axis c ch m = (c', None) ->
  forall i, decode c' i = option_map (scale_dblock ch m) (decode c i).
Proof.
  intros H i. unfold mod_grad_axis in H.
  destruct (3 <=? ch)%nat eqn:Ech; [inversion H|]. apply Nat.leb_gt in Ech.
  destruct (blocks c) as [|b0 bl] eqn:Eb; [inversion H|].
  destruct (existsb (fun i0 => existsb (Z.eqb i0) (other_ids c ch)) (selected_ids c ch)) eqn:Esh; [inversion H|].
  destruct (mod_loop m (grad_l c) (selected_ids c ch)) as [gl' e] eqn:El. inversion H; subst c' e. clear H.
  assert (H0 : ~ In 0 (selected_ids c ch)) by (intro X; apply selected_spec in X; destruct X as [X _]; congruence).
  destruct (mod_loop_spec m _ _ _ (selected_nodup c ch) H0 El) as (T & G & SS).
  assert (Hsel : forall id, In id (selected_ids c ch) -> ~ In id (other_ids c ch)).
  { intros id Hs Ho.
    assert (X : existsb (fun i0 => existsb (Z.eqb i0) (other_ids c ch)) (selected_ids c ch) = true).
    { apply existsb_exists. exists id. split; [exact Hs|]. apply existsb_exists. exists id. split; [exact Ho|apply Z.eqb_refl]. }
    congruence. }
  unfold decode.
  change (blocks (c <| grad_l := gl' |>)) with (blocks c). change (durs (c <| grad_l := gl' |>)) with (durs c).
  destruct (aget Z.eqb (blocks c) i) as [ev|] eqn:Ev; [|reflexivity]. cbn [opt_bind].
  assert (Hin : In (i, ev) (blocks c)) by (apply (aget_In Z.eqb Zeqb_spec'); exact Ev).
  change (dec_rf (c <| grad_l := gl' |>)) with (dec_rf c).
  change (dec_adc (c <| grad_l := gl' |>)) with (dec_adc c).
  change (ext_l (c <| grad_l := gl' |>)) with (ext_l c).
  rewrite dec_ext_grad_indep.
  (* the three gradient columns *)
  assert (Col : forall o, (o < 3)%nat ->
            dec_grad (c <| grad_l := gl' |>) (nth (2 + o) ev 0)
            = if Nat.eqb o ch then option_map (option_map (scale_dgrad m)) (dec_grad c (nth (2 + o) ev 0))
              else dec_grad c (nth (2 + o) ev 0)).
  { intros o Ho. set (id := nth (2 + o) ev 0).
    destruct (Nat.eqb o ch) eqn:Eo.
    - apply Nat.eqb_eq in Eo. subst o.
      destruct (Z.eq_dec id 0) as [Z0|NZ].
      + rewrite Z0. reflexivity.
      + assert (Hs : In id (selected_ids c ch)).
        { apply selected_spec. split; [exact NZ|]. exists (i, ev). split; [exact Hin|reflexivity]. }
        destruct (SS id Hs) as (ty & data & A & B & C).
        apply (dec_grad_scaled c gl' m id ty data A B); [rewrite T; exact A|exact C].
    - apply Nat.eqb_neq in Eo.
      assert (Ho' : In id (other_ids c ch)) by (apply (other_spec c ch o (i, ev) Eo Ho Hin)).
      apply dec_grad_same; [apply T|apply G]. intro X. exact (Hsel id X Ho'). }
  change (nth 2 ev 0) with (nth (2 + 0) ev 0). change (nth 3 ev 0) with (nth (2 + 1) ev 0).
  change (nth 4 ev 0) with (nth (2 + 2) ev 0).
  rewrite (Col 0%nat), (Col 1%nat), (Col 2%nat) by lia.
  destruct (dec_rf c (nth 1 ev 0)) as [rf|]; [|reflexivity]. cbn [opt_bind].
  destruct (dec_grad c (nth (2 + 0) ev 0)) as [gx|] eqn:Ex;
    [|destruct (Nat.eqb 0 ch); reflexivity].
  destruct (dec_grad c (nth (2 + 1) ev 0)) as [gy|] eqn:Ey;
    [|destruct (Nat.eqb 0 ch), (Nat.eqb 1 ch); reflexivity].
  destruct (dec_grad c (nth (2 + 2) ev 0)) as [gz|] eqn:Ez;
    [|destruct (Nat.eqb 0 ch), (Nat.eqb 1 ch), (Nat.eqb 2 ch); reflexivity].
  clear Col SS G T Hsel H0 El Esh.
  destruct ch as [|[|[|ch]]]; [| | |lia]; cbn [Nat.eqb option_map opt_bind];
    repeat (match goal with |- context [opt_bind ?x _] => destruct x; cbn [opt_bind option_map] end);
    reflexivity.
Qed.

(* ---- what a rescaled row is ------------------------------------------------------------------------ *)
Lemma scale_at_spec m idx : forall k n j, (j < length k)%nat ->
  nth j (scale_at m idx n k) qc0 = if existsb (Nat.eqb (n + j)) idx then (nth j k qc0 * m)%Qc else nth j k qc0.
Proof.
  induction k as [|x k IH]; intros n j H; cbn [length] in H; [lia|]. cbn [scale_at].
  destruct j as [|j].
  - rewrite Nat.add_0_r. cbn [nth]. reflexivity.
  - cbn [nth]. rewrite IH by lia. replace (Datatypes.S n + j)%nat with (n + Datatypes.S j)%nat by lia. reflexivity.
Qed.

(* column 0 (amplitude) is multiplied; for 'g' rows also columns 4, 5 (first, last); nothing else *)
Theorem scale_row_spec ty m data j : (j < length data)%nat ->
  knth (scale_row ty m data) j =
  if (Nat.eqb j 0 || ((ty =? tag_g) && (Nat.eqb j 4 || Nat.eqb j 5)))%bool then (knth data j * m)%Qc else knth data j.
Proof.
  intro H. unfold knth, scale_row, ma_cols_all, ma_cols_g. cbn [app]. rewrite scale_at_spec by exact H. cbn [Nat.add].
  destruct (ty =? tag_g); cbn [existsb andb].
  - rewrite !(Nat.eqb_sym j). rewrite orb_false_r. rewrite orb_assoc. reflexivity.
  - rewrite !(Nat.eqb_sym j). rewrite !orb_false_r. reflexivity.
Qed.

Lemma scale_at_length m idx : forall k n, length (scale_at m idx n k) = length k.
Proof. induction k as [|x k IH]; intro n; cbn [scale_at length]; [reflexivity|]. rewrite IH. reflexivity. Qed.
Lemma scale_row_length ty m data : length (scale_row ty m data) = length data.
Proof. unfold scale_row. apply scale_at_length. Qed.

(* ---- the rest of the store is untouched ----------------------------------------------------------- *)
Theorem mod_grad_axis_frame c ch m c' e : mod_grad_axis c ch m = (c', e) ->
  exists gl', c' = c <| grad_l := gl' |> /\
    (e = Some MAAxis \/ e = Some MAEmpty \/ e = Some MAShared -> gl' = grad_l c).
Proof.
  intro H. unfold mod_grad_axis in H.
  assert (Id : c = c <| grad_l := grad_l c |>) by (destruct c; reflexivity).
  destruct (3 <=? ch)%nat; [injection H as <- <-; exists (grad_l c); split; [exact Id|reflexivity]|].
  destruct (blocks c); [injection H as <- <-; exists (grad_l c); split; [exact Id|reflexivity]|].
  destruct (existsb _ _); [injection H as <- <-; exists (grad_l c); split; [exact Id|reflexivity]|].
  destruct (mod_loop m (grad_l c) (selected_ids c ch)) as [gl' e'] eqn:El. injection H as <- <-.
  exists gl'. split; [reflexivity|]. intros [X|[X|X]].
  - exfalso. clear -El X. revert El. generalize (grad_l c). induction (selected_ids c ch) as [|a l IH]; intros g El; cbn [mod_loop] in El.
    + inversion El; subst; discriminate.
    + destruct (lib_type g a); [destruct (lib_get g a)|]; try (inversion El; subst; discriminate). exact (IH _ El).
  - exfalso. clear -El X. revert El. generalize (grad_l c). induction (selected_ids c ch) as [|a l IH]; intros g El; cbn [mod_loop] in El.
    + inversion El; subst; discriminate.
    + destruct (lib_type g a); [destruct (lib_get g a)|]; try (inversion El; subst; discriminate). exact (IH _ El).
  - exfalso. clear -El X. revert El. generalize (grad_l c). induction (selected_ids c ch) as [|a l IH]; intros g El; cbn [mod_loop] in El.
    + inversion El; subst; discriminate.
    + destruct (lib_type g a); [destruct (lib_get g a)|]; try (inversion El; subst; discriminate). exact (IH _ El).
Qed.

(* refusal: a gradient id used on the chosen channel and on another one *)
Theorem mod_grad_axis_refuses_shared c ch m o b1 b2 id :
  (ch < 3)%nat -> (o < 3)%nat -> o <> ch -> id <> 0 ->
  In b1 (blocks c) -> In b2 (blocks c) ->
  nth (2 + ch) (snd b1) 0 = id -> nth (2 + o) (snd b2) 0 = id ->
  mod_grad_axis c ch m = (c, Some MAShared).
Proof.
  intros Hc Ho Hne Hid H1 H2 E1 E2. unfold mod_grad_axis.
  assert (X : (3 <=? ch)%nat = false) by (apply Nat.leb_gt; exact Hc). rewrite X.
  destruct (blocks c) as [|b0 bl] eqn:Eb; [contradiction|]. rewrite <- Eb in *.
  assert (Y : existsb (fun i0 => existsb (Z.eqb i0) (other_ids c ch)) (selected_ids c ch) = true).
  { apply existsb_exists. exists id. split.
    - apply selected_spec. split; [exact Hid|]. exists b1. split; assumption.
    - apply existsb_exists. exists id. split; [|apply Z.eqb_refl]. rewrite <- E2. apply other_spec; assumption. }
  rewrite Y. reflexivity.
Qed.

(* decode never reads the key map (nor next_free_ID) of the gradient library: whatever collisions the
   rescaling creates there (a flipped row becoming equal to another row) cannot change any block *)
Theorem decode_keymap_indep c km nx i :
  decode (c <| grad_l := mkLib (ldata (grad_l c)) (ltype (grad_l c)) km nx |>) i = decode c i.
Proof.
  set (gl' := mkLib (ldata (grad_l c)) (ltype (grad_l c)) km nx).
  assert (D : forall id, dec_grad (c <| grad_l := gl' |>) id = dec_grad c id)
    by (intro id; apply dec_grad_same; reflexivity).
  unfold decode.
  change (blocks (c <| grad_l := gl' |>)) with (blocks c). change (durs (c <| grad_l := gl' |>)) with (durs c).
  change (dec_rf (c <| grad_l := gl' |>)) with (dec_rf c).
  change (dec_adc (c <| grad_l := gl' |>)) with (dec_adc c).
  change (ext_l (c <| grad_l := gl' |>)) with (ext_l c).
  destruct (aget Z.eqb (blocks c) i) as [ev|]; [|reflexivity]. cbn [opt_bind].
  rewrite !D, dec_ext_grad_indep. reflexivity.
Qed.

(* on the object: after a successful call the cache is empty, so get_block returns the new decode *)
Theorem mod_grad_axis_state_get cache_on s ch m s' i :
  mod_grad_axis_state s ch m = (s', None) ->
  snd (do_get cache_on s' i) = option_map (scale_dblock ch m) (decode (st_core s) i).
Proof.
  intro H. unfold mod_grad_axis_state in H.
  destruct (mod_grad_axis (st_core s) ch m) as [c' e] eqn:E. destruct e; [inversion H|]. inversion H; subst s'.
  unfold do_get. cbn [st_cache st_core aget]. destruct cache_on;
    rewrite (mod_grad_axis_decodes_scaled _ _ _ _ E i); destruct (decode (st_core s) i); reflexivity.
Qed.
