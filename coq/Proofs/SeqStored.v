(* Proofs/SeqStored.v — "get_block returns what was stored" for trapezoids and ADC events of Model/Seq.v:
   after a successful set_block / add_block with events handed over by value, decoding the block yields, on the
   channel of every trapezoid of the call, exactly that trapezoid's (amplitude, rise, flat, fall, delay) with the
   trapezoid tag, and as ADC exactly the ADC row of the call; this holds in every state reachable from the empty
   sequence by block writes, block reads, registrations and write() (the invariant below is inductive), and what
   is decoded at one index is not changed by later calls that do not overwrite that index (decode_mono). *)
From Coq Require Import List Bool ZArith QArith Qcanon Lia.
From RecordUpdate Require Import RecordSet.
From PV Require Import Base.AList Base.QUtil Model.EventLib Model.Seq Proofs.SeqSpec Proofs.SeqCache.
Import ListNotations RecordSetNotations.
Open Scope Z_scope.

(* ---- a library whose lookups are faithful ----------------------------------------------------------- *)
Definition lib_good (l : klib) : Prop :=
  lib_inv l /\ keymap_consistent l /\ 0 < lnext l /\ (forall id k, lib_get l id = Some k -> 0 < id).

(* in the gradient library, five-field rows are trapezoids *)
Definition trap_typed (l : klib) : Prop :=
  forall id k, lib_get l id = Some k -> length k = 5%nat -> lib_type l id = Some tag_t.

Lemma lib_good_empty : lib_good lib_empty.
Proof.
  split; [apply lib_inv_empty|]. split; [intros k id H; discriminate H|]. split; [reflexivity|].
  intros id k H. discriminate H.
Qed.

Lemma kfoi_good (l : klib) k ty : lib_good l -> lib_good (fst (fst (kfoi l k ty))).
Proof.
  intros (I & C & P & Q).
  destruct (kfoi_keymap_consistent l k ty I C) as [I' C'].
  split; [exact I'|]. split; [exact C'|].
  unfold kfoi, lib_find_or_insert in *.
  destruct (aget key_eqb (lkeymap l) k) as [id|]; cbn [fst lnext] in *; [split; assumption|].
  split; [lia|].
  intros id' k' H. unfold lib_get in H. cbn [ldata] in H.
  destruct (Z.eq_dec id' (lnext l)) as [->|N]; [exact P|].
  rewrite agetZ_aset_other in H by exact N. exact (Q _ _ H).
Qed.

Lemma kfoi_get_good (l : klib) k ty l' id f :
  lib_good l -> kfoi l k ty = (l', id, f) -> lib_get l' id = Some k /\ 0 < id.
Proof.
  intros (I & C & P & Q) E. unfold kfoi, lib_find_or_insert in E.
  destruct (aget key_eqb (lkeymap l) k) as [id0|] eqn:K.
  - inversion E. subst. split; [apply C; exact K|]. exact (Q _ _ (C _ _ K)).
  - inversion E. subst. split; [|exact P]. unfold lib_get. cbn [ldata]. apply agetZ_aset_same.
Qed.

Lemma kins0_good (l : klib) k ty : lib_good l -> lib_good (fst (kins l 0 k ty)).
Proof.
  intros (I & C & P & Q). split; [apply kins_inv; exact I|].
  unfold kins, lib_insert. cbn [Z.eqb fst]. rewrite Z.leb_refl.
  split.
  { intros k' id' H. cbn [lkeymap] in H. unfold lib_get. cbn [ldata].
    destruct (key_eqb k' k) eqn:Ek.
    - apply key_eqb_spec in Ek. subst k'.
      rewrite (aget_aset_same key_eqb key_eqb_spec) in H. inversion H. subst id'. apply agetZ_aset_same.
    - assert (Hne : k' <> k) by (intro X; subst; rewrite (proj2 (key_eqb_spec k k) eq_refl) in Ek; discriminate).
      rewrite (aget_aset_other key_eqb key_eqb_spec _ _ _ _ Hne) in H.
      pose proof (C k' id' H) as G.
      assert (Hlt : id' < lnext l) by (apply lib_get_lt; [exact I|congruence]).
      rewrite agetZ_aset_other; [exact G|lia]. }
  cbn [lnext]. split; [lia|].
  intros id' k' H. unfold lib_get in H. cbn [ldata] in H.
  destruct (Z.eq_dec id' (lnext l)) as [->|N]; [exact P|].
  rewrite agetZ_aset_other in H by exact N. exact (Q _ _ H).
Qed.

(* type of a row after find-or-insert with a non-zero tag *)
Lemma set_type_get t id ty id' :
  aget Z.eqb (set_type t id ty) id' = if (negb (ty =? 0)) && (id' =? id) then Some ty else aget Z.eqb t id'.
Proof.
  unfold set_type. destruct (ty =? 0); cbn [negb andb]; [reflexivity|].
  destruct (id' =? id) eqn:E.
  - apply Z.eqb_eq in E. subst. apply agetZ_aset_same.
  - apply Z.eqb_neq in E. apply agetZ_aset_other. exact E.
Qed.

Lemma kfoi_trap_typed (l : klib) k ty :
  lib_inv l -> trap_typed l -> (length k = 5%nat -> ty = tag_t) -> trap_typed (fst (fst (kfoi l k ty))).
Proof.
  intros I T Hty. unfold kfoi, lib_find_or_insert.
  destruct (aget key_eqb (lkeymap l) k) as [id0|]; cbn [fst]; [exact T|].
  intros id k' H L. unfold lib_get, lib_type in *. cbn [ldata ltype] in *.
  rewrite set_type_get.
  destruct (Z.eq_dec id (lnext l)) as [->|N].
  - rewrite agetZ_aset_same in H. inversion H. subst k'. rewrite (Hty L). rewrite Z.eqb_refl. reflexivity.
  - rewrite agetZ_aset_other in H by exact N.
    replace (id =? lnext l) with false by (symmetry; apply Z.eqb_neq; exact N). rewrite andb_false_r.
    exact (T _ _ H L).
Qed.

Lemma kins0_trap_typed (l : klib) k ty :
  lib_inv l -> trap_typed l -> (length k = 5%nat -> ty = tag_t) -> trap_typed (fst (kins l 0 k ty)).
Proof.
  intros I T Hty. unfold kins, lib_insert. cbn [Z.eqb fst].
  intros id k' H L. unfold lib_get, lib_type in *. cbn [ldata ltype] in *.
  rewrite set_type_get.
  destruct (Z.eq_dec id (lnext l)) as [->|N].
  - rewrite agetZ_aset_same in H. inversion H. subst k'. rewrite (Hty L). rewrite Z.eqb_refl. reflexivity.
  - rewrite agetZ_aset_other in H by exact N.
    replace (id =? lnext l) with false by (symmetry; apply Z.eqb_neq; exact N). rewrite andb_false_r.
    exact (T _ _ H L).
Qed.

(* ---- the invariant on the store ----------------------------------------------------------------------- *)
Definition ga_inv (c : core) : Prop :=
  core_inv c /\ lib_good (grad_l c) /\ trap_typed (grad_l c) /\ lib_good (adc_l c).

Definition gapart (c : core) := (grad_l c, adc_l c).

Lemma ga_inv_transfer c c' : core_inv c' -> gapart c' = gapart c -> ga_inv c -> ga_inv c'.
Proof.
  intros I E (_ & G & T & A). unfold gapart in E. inversion E as [[E1 E2]].
  split; [exact I|]. rewrite E1, E2. split; [exact G|]. split; [exact T|exact A].
Qed.

Ltac crush_reg :=
  repeat match goal with
  | |- context [kfoi ?a ?b ?c] => destruct (kfoi a b c) as [[? ?] ?]
  | |- context [kins ?a ?b ?c ?d] => destruct (kins a b c d) as [? ?]
  | |- context [match ?x with _ => _ end] => destruct x
  end; try reflexivity.

Lemma register_rf_gapart c sids amp mag ph ts delay freq phoff use :
  gapart (fst (fst (fst (register_rf c sids amp mag ph ts delay freq phoff use)))) = gapart c.
Proof. unfold register_rf. crush_reg. Qed.
Lemma register_ctl_gapart c ty ch de du : gapart (fst (fst (register_ctl c ty ch de du))) = gapart c.
Proof. unfold register_ctl. crush_reg. Qed.
Lemma register_label_gapart c s v l : gapart (fst (fst (register_label c s v l))) = gapart c.
Proof. unfold register_label. crush_reg. Qed.
Lemma ext_type_id_gapart c s : gapart (fst (ext_type_id c s)) = gapart c.
Proof. unfold ext_type_id. crush_reg. Qed.

Lemma ga_inv_init g s sl e : ga_inv (core_init g s sl e).
Proof.
  split; [apply core_inv_init|]. cbn.
  split; [apply lib_good_empty|]. split; [intros id k H; discriminate H|apply lib_good_empty].
Qed.

(* registrations *)
Lemma register_trap_ga c a r f fl d : ga_inv c -> ga_inv (fst (fst (register_trap c a r f fl d))).
Proof.
  intros (I & G & T & A).
  pose proof (register_trap_grows c a r f fl d I) as [I' _].
  unfold register_trap in *.
  pose proof (kfoi_good (grad_l c) [a; r; f; fl; d] tag_t G) as G'.
  pose proof (kfoi_trap_typed (grad_l c) [a; r; f; fl; d] tag_t (proj1 G) T (fun _ => eq_refl)) as T'.
  destruct (kfoi (grad_l c) [a; r; f; fl; d] tag_t) as [[l id] fd]. cbn [fst] in *.
  split; [exact I'|]. cbn. split; [exact G'|]. split; [exact T'|exact A].
Qed.

Lemma register_adc_ga c n dw de fr ph dd : ga_inv c -> ga_inv (fst (fst (register_adc c n dw de fr ph dd))).
Proof.
  intros (I & G & T & A).
  pose proof (register_adc_grows c n dw de fr ph dd I) as [I' _].
  unfold register_adc in *.
  pose proof (kfoi_good (adc_l c) [n; dw; de; fr; ph; dd] 0 A) as A'.
  destruct (kfoi (adc_l c) [n; dw; de; fr; ph; dd] 0) as [[l id] fd]. cbn [fst] in *.
  split; [exact I'|]. cbn. split; [exact G|]. split; [exact T|exact A'].
Qed.

Lemma register_grad_ga c sids amp ws ts delay first last :
  ga_inv c -> match sids with None => True | Some l => length l = 2%nat end ->
  ga_inv (fst (fst (fst (register_grad c sids amp ws ts delay first last)))).
Proof.
  intros (I & G & T & A) Hs.
  pose proof (register_grad_grows c sids amp ws ts delay first last I) as [I' _].
  unfold register_grad in *.
  set (r := match sids with
            | Some ids => (shape_l c, ids, true, false)
            | None => _ end) in *.
  assert (Hlen : length (snd (fst (fst r))) = 2%nat).
  { subst r. destruct sids as [ids|]; [exact Hs|].
    destruct (kfoi (shape_l c) ws 0) as [[sl1 id1] f1]. destruct ts as [t|]; [|reflexivity].
    destruct (kfoi sl1 t 0) as [[sl2 id2] f2]. reflexivity. }
  destruct r as [[[sl ids] may_exist] any_changed]. cbn [fst snd] in Hlen.
  assert (Hk : length ([amp] ++ map zq ids ++ [delay; first; last]) = 5%nat -> tag_g = tag_t).
  { rewrite !app_length, map_length, Hlen. cbn. discriminate. }
  destruct may_exist.
  - pose proof (kfoi_good (grad_l c) ([amp] ++ map zq ids ++ [delay; first; last]) tag_g G) as G'.
    pose proof (kfoi_trap_typed (grad_l c) _ tag_g (proj1 G) T Hk) as T'.
    destruct (kfoi (grad_l c) ([amp] ++ map zq ids ++ [delay; first; last]) tag_g) as [[gl gid] fd]. cbn [fst] in *.
    split; [exact I'|]. cbn. split; [exact G'|]. split; [exact T'|exact A].
  - pose proof (kins0_good (grad_l c) ([amp] ++ map zq ids ++ [delay; first; last]) tag_g G) as G'.
    pose proof (kins0_trap_typed (grad_l c) _ tag_g (proj1 G) T Hk) as T'.
    destruct (kins (grad_l c) 0 ([amp] ++ map zq ids ++ [delay; first; last]) tag_g) as [gl gid]. cbn [fst] in *.
    split; [exact I'|]. cbn. split; [exact G'|]. split; [exact T'|exact A].
Qed.

(* ---- the event loop: the invariant is kept, filled row entries are never overwritten -------------------- *)
From PV Require Import Proofs.SeqCont.

Lemma ev_step_ga a e a' : ga_inv (a_core a) -> ev_ok e -> ev_step a e = inl a' -> ga_inv (a_core a').
Proof.
  intros G Ok H. pose proof (ev_step_grows a e a' (proj1 G) H) as [I' _].
  destruct e; cbn [ev_step] in H.
  - destruct (negb (nth 1 (a_blk a) 0 =? 0)); [discriminate|].
    destruct id as [i|].
    + inversion H. cbn. exact G.
    + pose proof (register_rf_gapart (a_core a) sids amp mag phase tshape delay freq phoff use) as P.
      destruct (register_rf (a_core a) sids amp mag phase tshape delay freq phoff use) as [[[c1 i] ids] clr].
      inversion H. subst a'. cbn in *. eapply ga_inv_transfer; eassumption.
  - destruct Ok as (_ & -> & Hs).
    destruct (negb (nth (2 + ch) (a_blk a) 0 =? 0)); [discriminate|].
    pose proof (register_grad_ga (a_core a) sids amp wshape tshape delay first last G Hs) as P.
    destruct (register_grad (a_core a) sids amp wshape tshape delay first last) as [[[c1 i] ids] clr].
    inversion H. subst a'. cbn in *. exact P.
  - destruct Ok as (_ & ->).
    destruct (negb (nth (2 + ch) (a_blk a) 0 =? 0)); [discriminate|].
    pose proof (register_trap_ga (a_core a) amp rise flat fall delay G) as P.
    destruct (register_trap (a_core a) amp rise flat fall delay) as [[c1 i] clr].
    inversion H. subst a'. cbn in *. exact P.
  - destruct (negb (nth 5 (a_blk a) 0 =? 0)); [discriminate|].
    destruct id as [i|].
    + inversion H. cbn. exact G.
    + pose proof (register_adc_ga (a_core a) num dwell delay freq phoff dead G) as P.
      destruct (register_adc (a_core a) num dwell delay freq phoff dead) as [[c1 i] clr].
      inversion H. subst a'. cbn in *. exact P.
  - inversion H. cbn. exact G.
  - destruct id as [i|].
    + pose proof (ext_type_id_gapart (a_core a) XS_TRIGGERS) as P.
      destruct (ext_type_id (a_core a) XS_TRIGGERS) as [c2 tid].
      inversion H. subst a'. cbn in *. eapply ga_inv_transfer; eassumption.
    + pose proof (register_ctl_gapart (a_core a) typ chan delay dur) as P1.
      destruct (register_ctl (a_core a) typ chan delay dur) as [[c1 i] clr]. cbn [fst] in P1.
      pose proof (ext_type_id_gapart c1 XS_TRIGGERS) as P2.
      destruct (ext_type_id c1 XS_TRIGGERS) as [c2 tid]. cbn [fst] in P2.
      inversion H. subst a'. cbn in I' |- *. eapply ga_inv_transfer; [exact I'|rewrite P2; exact P1|exact G].
  - destruct id as [i|].
    + pose proof (ext_type_id_gapart (a_core a) (if is_set then XS_LABELSET else XS_LABELINC)) as P.
      destruct (ext_type_id (a_core a) (if is_set then XS_LABELSET else XS_LABELINC)) as [c2 tid].
      inversion H. subst a'. cbn in *. eapply ga_inv_transfer; eassumption.
    + pose proof (register_label_gapart (a_core a) is_set value lbl) as P1.
      destruct (register_label (a_core a) is_set value lbl) as [[c1 i] clr]. cbn [fst] in P1.
      pose proof (ext_type_id_gapart c1 (if is_set then XS_LABELSET else XS_LABELINC)) as P2.
      destruct (ext_type_id c1 (if is_set then XS_LABELSET else XS_LABELINC)) as [c2 tid]. cbn [fst] in P2.
      inversion H. subst a'. cbn in I' |- *. eapply ga_inv_transfer; [exact I'|rewrite P2; exact P1|exact G].
  - inversion H. cbn. exact G.
Qed.

Lemma negb_eqb_false x : negb (x =? 0) = false -> x = 0.
Proof. intro H. apply negb_false_iff in H. apply Z.eqb_eq in H. exact H. Qed.

Local Arguments set_nth : simpl never.

(* row entries that are filled stay as they are; the row keeps its length *)
Lemma ev_step_row a e a' :
  ev_step a e = inl a' ->
  length (a_blk a') = length (a_blk a) /\
  forall j, nth j (a_blk a) 0 <> 0 -> nth j (a_blk a') 0 = nth j (a_blk a) 0.
Proof.
  intro H. destruct e; cbn [ev_step] in H.
  - destruct (negb (nth 1 (a_blk a) 0 =? 0)) eqn:Z1; [discriminate|]. apply negb_eqb_false in Z1.
    destruct id as [i|];
      [|destruct (register_rf (a_core a) sids amp mag phase tshape delay freq phoff use) as [[[c1 i] ids] clr]];
      inversion H; cbn; (split; [apply set_nth_length|]); intros j Hj; apply nth_set_nth_other; intro Ej; subst j; exact (Hj Z1).
  - destruct (negb (nth (2 + ch) (a_blk a) 0 =? 0)) eqn:Z1; [discriminate|]. apply negb_eqb_false in Z1.
    destruct id as [i|];
      [|destruct (register_grad (a_core a) sids amp wshape tshape delay first last) as [[[c1 i] ids] clr]];
      inversion H; cbn; (split; [apply set_nth_length|]); intros j Hj; apply nth_set_nth_other; intro Ej; subst j; exact (Hj Z1).
  - destruct (negb (nth (2 + ch) (a_blk a) 0 =? 0)) eqn:Z1; [discriminate|]. apply negb_eqb_false in Z1.
    destruct id as [i|];
      [|destruct (register_trap (a_core a) amp rise flat fall delay) as [[c1 i] clr]];
      inversion H; cbn; (split; [apply set_nth_length|]); intros j Hj; apply nth_set_nth_other; intro Ej; subst j; exact (Hj Z1).
  - destruct (negb (nth 5 (a_blk a) 0 =? 0)) eqn:Z1; [discriminate|]. apply negb_eqb_false in Z1.
    destruct id as [i|];
      [|destruct (register_adc (a_core a) num dwell delay freq phoff dead) as [[c1 i] clr]];
      inversion H; cbn; (split; [apply set_nth_length|]); intros j Hj; apply nth_set_nth_other; intro Ej; subst j; exact (Hj Z1).
  - inversion H. cbn. split; [reflexivity|]. intros; reflexivity.
  - destruct id as [i|].
    + destruct (ext_type_id (a_core a) XS_TRIGGERS) as [c2 tid]. inversion H. cbn. split; [reflexivity|]. intros; reflexivity.
    + destruct (register_ctl (a_core a) typ chan delay dur) as [[c1 i] clr].
      destruct (ext_type_id c1 XS_TRIGGERS) as [c2 tid]. inversion H. cbn. split; [reflexivity|]. intros; reflexivity.
  - destruct id as [i|].
    + destruct (ext_type_id (a_core a) (if is_set then XS_LABELSET else XS_LABELINC)) as [c2 tid].
      inversion H. cbn. split; [reflexivity|]. intros; reflexivity.
    + destruct (register_label (a_core a) is_set value lbl) as [[c1 i] clr].
      destruct (ext_type_id c1 (if is_set then XS_LABELSET else XS_LABELINC)) as [c2 tid].
      inversion H. cbn. split; [reflexivity|]. intros; reflexivity.
  - inversion H. cbn. split; [reflexivity|]. intros; reflexivity.
Qed.

(* ---- what the accumulator has recorded ------------------------------------------------------------------ *)
Definition trap_recorded (a : acc) (ch : nat) (k : key) : Prop :=
  let gid := nth (2 + ch) (a_blk a) 0 in
  0 < gid /\ lib_get (grad_l (a_core a)) gid = Some k /\ lib_type (grad_l (a_core a)) gid = Some tag_t.
Definition adc_recorded (a : acc) (k : key) : Prop :=
  let id := nth 5 (a_blk a) 0 in 0 < id /\ lib_get (adc_l (a_core a)) id = Some k.

Lemma ev_step_keeps_trap a e a' ch k :
  core_inv (a_core a) -> ev_step a e = inl a' -> trap_recorded a ch k -> trap_recorded a' ch k.
Proof.
  intros I H (P & G & T). destruct (ev_step_grows a e a' I H) as [_ L].
  destruct (ev_step_row a e a' H) as [_ R]. unfold trap_recorded.
  rewrite (R (2 + ch)%nat) by lia.
  split; [exact P|]. split.
  - exact (lib_le_get _ _ _ _ (le_grad _ _ L) G).
  - rewrite (lib_le_type _ _ _ _ (le_grad _ _ L) G). exact T.
Qed.

Lemma ev_step_keeps_adc a e a' k :
  core_inv (a_core a) -> ev_step a e = inl a' -> adc_recorded a k -> adc_recorded a' k.
Proof.
  intros I H (P & G). destruct (ev_step_grows a e a' I H) as [_ L].
  destruct (ev_step_row a e a' H) as [_ R]. unfold adc_recorded.
  rewrite (R 5%nat) by lia.
  split; [exact P|]. exact (lib_le_get _ _ _ _ (le_adc _ _ L) G).
Qed.

Lemma ev_step_records_trap a a' ch amp rise flat fall delay :
  ga_inv (a_core a) -> length (a_blk a) = 7%nat -> (ch < 3)%nat ->
  ev_step a (MTrap ch None amp rise flat fall delay) = inl a' ->
  trap_recorded a' ch [amp; rise; flat; fall; delay].
Proof.
  intros (I & G & T & _) Len Hch H. cbn [ev_step] in H.
  destruct (negb (nth (2 + ch) (a_blk a) 0 =? 0)); [discriminate|].
  unfold register_trap in H.
  pose proof (kfoi_trap_typed (grad_l (a_core a)) [amp; rise; flat; fall; delay] tag_t (proj1 G) T (fun _ => eq_refl)) as T'.
  destruct (kfoi (grad_l (a_core a)) [amp; rise; flat; fall; delay] tag_t) as [[l id] fd] eqn:E.
  destruct (kfoi_get_good _ _ _ _ _ _ G E) as [Hg Hp]. cbn [fst] in T'.
  inversion H. subst a'. unfold trap_recorded. cbn.
  rewrite nth_set_nth_same by (rewrite Len; lia).
  split; [exact Hp|]. split; [exact Hg|]. exact (T' _ _ Hg eq_refl).
Qed.

Lemma ev_step_records_adc a a' num dwell delay freq phoff dead :
  ga_inv (a_core a) -> length (a_blk a) = 7%nat ->
  ev_step a (MAdc None num dwell delay freq phoff dead) = inl a' ->
  adc_recorded a' [num; dwell; delay; freq; phoff; dead].
Proof.
  intros (I & _ & _ & A) Len H. cbn [ev_step] in H.
  destruct (negb (nth 5 (a_blk a) 0 =? 0)); [discriminate|].
  unfold register_adc in H.
  destruct (kfoi (adc_l (a_core a)) [num; dwell; delay; freq; phoff; dead] 0) as [[l id] fd] eqn:E.
  destruct (kfoi_get_good _ _ _ _ _ _ A E) as [Hg Hp].
  inversion H. subst a'. unfold adc_recorded. cbn.
  rewrite nth_set_nth_same by (rewrite Len; lia).
  split; [exact Hp|exact Hg].
Qed.

(* the loop as a whole *)
Lemma ev_loop_stored evs : forall a a',
  ga_inv (a_core a) -> length (a_blk a) = 7%nat -> Forall ev_ok evs ->
  ev_loop a evs = (a', None) ->
  ga_inv (a_core a') /\ length (a_blk a') = 7%nat /\
  (forall ch k, trap_recorded a ch k -> trap_recorded a' ch k) /\
  (forall k, adc_recorded a k -> adc_recorded a' k) /\
  (forall ch amp rise flat fall delay, In (MTrap ch None amp rise flat fall delay) evs ->
     trap_recorded a' ch [amp; rise; flat; fall; delay]) /\
  (forall num dwell delay freq phoff dead, In (MAdc None num dwell delay freq phoff dead) evs ->
     adc_recorded a' [num; dwell; delay; freq; phoff; dead]).
Proof.
  induction evs as [|e r IH]; intros a a' G Len Ok H; cbn [ev_loop] in H.
  - inversion H. subst a'. split; [exact G|]. split; [exact Len|].
    split; [intros ch k Ht; exact Ht|]. split; [intros k Ha; exact Ha|].
    split; [intros ch amp rise flat fall delay []|intros num dwell delay freq phoff dead []].
  - inversion Ok as [|e0 r0 Oe Or]. subst e0 r0.
    destruct (ev_step a e) as [a1|x] eqn:E; [|discriminate].
    pose proof (ev_step_ga a e a1 G Oe E) as G1.
    destruct (ev_step_row a e a1 E) as [Len1 _]. rewrite Len in Len1.
    destruct (IH a1 a' G1 Len1 Or H) as (G' & Len' & KT & KA & NT & NA).
    split; [exact G'|]. split; [exact Len'|].
    split; [intros ch k Ht; apply KT; eapply ev_step_keeps_trap; [exact (proj1 G)|exact E|exact Ht]|].
    split; [intros k Ha; apply KA; eapply ev_step_keeps_adc; [exact (proj1 G)|exact E|exact Ha]|].
    split.
    + intros ch amp rise flat fall delay [->|Hin]; [|eapply NT; exact Hin].
      apply KT. eapply ev_step_records_trap; [exact G|exact Len|exact (proj1 Oe)|exact E].
    + intros num dwell delay freq phoff dead [->|Hin]; [|eapply NA; exact Hin].
      apply KA. eapply ev_step_records_adc; [exact G|exact Len|exact E].
Qed.

(* ---- decoding --------------------------------------------------------------------------------------------- *)
Lemma dec_grad_trap c gid k :
  0 < gid -> lib_get (grad_l c) gid = Some k -> lib_type (grad_l c) gid = Some tag_t ->
  dec_grad c gid = Some (Some (mkDGrad tag_t k [])).
Proof.
  intros P G T. unfold dec_grad.
  replace (gid <=? 0) with false by (symmetry; apply Z.leb_gt; exact P).
  rewrite T, G. cbn [opt_bind]. rewrite Z.eqb_refl. reflexivity.
Qed.

Lemma dec_adc_row c id k : 0 < id -> lib_get (adc_l c) id = Some k -> dec_adc c id = Some (Some k).
Proof.
  intros P G. unfold dec_adc.
  replace (id <=? 0) with false by (symmetry; apply Z.leb_gt; exact P).
  rewrite G. reflexivity.
Qed.

Lemma decode_fields c i b : decode c i = Some b ->
  exists ev, aget Z.eqb (blocks c) i = Some ev /\
    dec_grad c (nth 2 ev 0) = Some (nth 0 (d_g b) None) /\
    dec_grad c (nth 3 ev 0) = Some (nth 1 (d_g b) None) /\
    dec_grad c (nth 4 ev 0) = Some (nth 2 (d_g b) None) /\
    dec_adc c (nth 5 ev 0) = Some (d_adc b) /\
    aget Z.eqb (durs c) i = Some (d_dur b).
Proof.
  intro H. unfold decode in H.
  destruct (aget Z.eqb (blocks c) i) as [ev|] eqn:E0; cbn [opt_bind] in H; [|discriminate].
  destruct (dec_rf c (nth 1 ev 0)) as [rf|]; cbn [opt_bind] in H; [|discriminate].
  destruct (dec_grad c (nth 2 ev 0)) as [gx|] eqn:E2; cbn [opt_bind] in H; [|discriminate].
  destruct (dec_grad c (nth 3 ev 0)) as [gy|] eqn:E3; cbn [opt_bind] in H; [|discriminate].
  destruct (dec_grad c (nth 4 ev 0)) as [gz|] eqn:E4; cbn [opt_bind] in H; [|discriminate].
  destruct (dec_adc c (nth 5 ev 0)) as [adc|] eqn:E5; cbn [opt_bind] in H; [|discriminate].
  destruct (if 0 <? nth 6 ev 0 then dec_ext c (S (length (ldata (ext_l c)))) (nth 6 ev 0) else Some []) as [ext|];
    cbn [opt_bind] in H; [|discriminate].
  destruct (aget Z.eqb (durs c) i) as [d|] eqn:E7; cbn [opt_bind] in H; [|discriminate].
  inversion H. exists ev. cbn. rewrite E2, E3, E4, E5. repeat split; reflexivity.
Qed.

(* ---- one successful set_block: the block decodes to the trapezoids and the ADC handed over ------------- *)
Theorem set_block_stores_traps_and_adc : forall abs_fix c i evs hint c' clr b,
  ga_inv c -> Forall ev_ok evs ->
  set_block_core abs_fix c i evs hint = (c', clr, None) ->
  decode c' i = Some b ->
  (forall ch amp rise flat fall delay, In (MTrap ch None amp rise flat fall delay) evs ->
     nth ch (d_g b) None = Some (mkDGrad tag_t [amp; rise; flat; fall; delay] [])) /\
  (forall num dwell delay freq phoff dead, In (MAdc None num dwell delay freq phoff dead) evs ->
     d_adc b = Some [num; dwell; delay; freq; phoff; dead]).
Proof.
  intros abs_fix c i evs hint c' clr b G Ok H D. unfold set_block_core in H.
  set (a0 := mkAcc c false [0; 0; 0; 0; 0; 0; 0] qc0 [chk0; chk0; chk0] []) in *.
  destruct (ev_loop a0 evs) as [a eo] eqn:EL.
  destruct eo as [x|]; [inversion H|].
  destruct (ev_loop_stored evs a0 a G eq_refl Ok EL) as (Ga & Len & _ & _ & NT & NA).
  (* the stored row and the libraries of the final core, in both branches of the extension step *)
  assert (Hc : exists blk c2 dd,
            c' = c2 <| blocks := aset Z.eqb (blocks c2) i blk |> <| durs := dd |> /\
            grad_l c2 = grad_l (a_core a) /\ adc_l c2 = adc_l (a_core a) /\
            (forall j, (j < 6)%nat -> nth j blk 0 = nth j (a_blk a) 0)).
  { destruct (a_exts a) as [|x xs].
    - destruct (check_channels abs_fix (a_core a) i (a_dur a) 0 (a_chk a)); [inversion H|].
      inversion H. exists (a_blk a), (a_core a), (aset Z.eqb (durs (a_core a)) i (a_dur a)).
      repeat split; reflexivity.
    - destruct (ext_register hint (ext_l (a_core a)) (x :: xs)) as [el eid].
      destruct (check_channels abs_fix (a_core a <| ext_l := el |>) i (a_dur a) 0 (a_chk a)); [inversion H|].
      inversion H. exists (set_nth 6 eid (a_blk a)), (a_core a <| ext_l := el |>),
                          (aset Z.eqb (durs (a_core a <| ext_l := el |>)) i (a_dur a)).
      split; [reflexivity|]. split; [reflexivity|]. split; [reflexivity|].
      intros j Hj. apply nth_set_nth_other. lia. }
  destruct Hc as (blk & c2 & dd & -> & Eg & Ea & Eb).
  destruct (decode_fields _ _ _ D) as (ev & Hev & Dx & Dy & Dz & Dadc & _).
  change (blocks (c2 <| blocks := aset Z.eqb (blocks c2) i blk |> <| durs := dd |>))
    with (aset Z.eqb (blocks c2) i blk) in Hev.
  rewrite agetZ_aset_same in Hev. inversion Hev. subst ev.
  set (cF := c2 <| blocks := aset Z.eqb (blocks c2) i blk |> <| durs := dd |>) in *.
  assert (EgF : grad_l cF = grad_l (a_core a)) by exact Eg.
  assert (EaF : adc_l cF = adc_l (a_core a)) by exact Ea.
  split.
  - intros ch amp rise flat fall delay Hin.
    assert (Hch : (ch < 3)%nat).
    { rewrite Forall_forall in Ok. exact (proj1 (Ok _ Hin)). }
    destruct (NT _ _ _ _ _ _ Hin) as (P & Gt & Tt).
    assert (Dg : dec_grad cF (nth (2 + ch) blk 0) = Some (Some (mkDGrad tag_t [amp; rise; flat; fall; delay] []))).
    { rewrite (Eb (2 + ch)%nat) by lia. apply dec_grad_trap; [exact P|rewrite EgF; exact Gt|rewrite EgF; exact Tt]. }
    destruct ch as [|[|[|ch]]]; [| | |lia]; cbn [Nat.add] in Dg.
    + rewrite Dg in Dx. congruence.
    + rewrite Dg in Dy. congruence.
    + rewrite Dg in Dz. congruence.
  - intros num dwell delay freq phoff dead Hin.
    destruct (NA _ _ _ _ _ _ Hin) as (P & Ga').
    assert (Da : dec_adc cF (nth 5 blk 0) = Some (Some [num; dwell; delay; freq; phoff; dead])).
    { rewrite (Eb 5%nat) by lia. apply dec_adc_row; [exact P|rewrite EaF; exact Ga']. }
    rewrite Da in Dadc. congruence.
Qed.

(* ---- the invariant along histories ------------------------------------------------------------------------ *)
Lemma ev_loop_ga evs : forall a, ga_inv (a_core a) -> Forall ev_ok evs -> ga_inv (a_core (fst (ev_loop a evs))).
Proof.
  induction evs as [|e r IH]; intros a G Ok; cbn [ev_loop]; [exact G|].
  inversion Ok as [|e0 r0 Oe Or]. subst e0 r0.
  destruct (ev_step a e) as [a1|x] eqn:E; [|exact G].
  apply IH; [exact (ev_step_ga a e a1 G Oe E)|exact Or].
Qed.

Lemma sbc_ga abs_fix c i evs hint :
  ga_inv c -> Forall ev_ok evs -> ga_inv (fst (fst (set_block_core abs_fix c i evs hint))).
Proof.
  intros G Ok. pose proof (sbc_core_inv abs_fix c i evs hint (proj1 G)) as I'.
  unfold set_block_core in *.
  pose proof (ev_loop_ga evs (mkAcc c false [0; 0; 0; 0; 0; 0; 0] qc0 [chk0; chk0; chk0] []) G Ok) as Ga.
  destruct (ev_loop (mkAcc c false [0; 0; 0; 0; 0; 0; 0] qc0 [chk0; chk0; chk0] []) evs) as [a eo].
  cbn [fst] in Ga. destruct eo as [x|]; [exact Ga|].
  destruct (a_exts a) as [|x xs].
  - destruct (check_channels abs_fix (a_core a) i (a_dur a) 0 (a_chk a)); cbn [fst] in *;
      (apply (ga_inv_transfer (a_core a)); [exact I'|reflexivity|exact Ga]).
  - destruct (ext_register hint (ext_l (a_core a)) (x :: xs)) as [el eid].
    destruct (check_channels abs_fix (a_core a <| ext_l := el |>) i (a_dur a) 0 (a_chk a)); cbn [fst] in *;
      (apply (ga_inv_transfer (a_core a)); [exact I'|reflexivity|exact Ga]).
Qed.

(* operations of a history: block writes with events by value, block reads, registrations, write();
   duplicate removal and read() rebuild the libraries and are not covered by this invariant *)
Definition op_plain (o : op) : Prop :=
  match o with
  | AddBlock evs _ | SetBlock _ evs _ => Forall ev_ok evs
  | RegGrad sids _ _ _ _ _ _ => match sids with None => True | Some l => length l = 2%nat end
  | DedupInPlace | Load _ => False
  | _ => True
  end.

Lemma op_plain_wf o : op_plain o -> ops_wf [o].
Proof. destruct o; cbn; intros; try exact I; contradiction. Qed.

Theorem step_ga_inv : forall cache_on abs_fix r1 r2 r3 r4 s o,
  ga_inv (st_core s) -> op_plain o -> ga_inv (st_core (fst (step cache_on abs_fix r1 r2 r3 r4 s o))).
Proof.
  intros cache_on abs_fix r1 r2 r3 r4 s o G Ok.
  pose proof (step_core_inv cache_on abs_fix r1 r2 r3 r4 s o (proj1 G) (op_plain_wf o Ok)) as I'.
  destruct o; cbn [step op_plain] in *.
  - pose proof (sbc_ga abs_fix (st_core s) (next_block (st_core s)) evs hint G Ok) as H.
    destruct (set_block_core abs_fix (st_core s) (next_block (st_core s)) evs hint) as [[c' clr] e].
    cbn [fst] in H. destruct e; cbn [fst st_core] in *; [exact H|].
    apply (ga_inv_transfer c'); [exact I'|reflexivity|exact H].
  - pose proof (sbc_ga abs_fix (st_core s) i evs hint G Ok) as H.
    destruct (set_block_core abs_fix (st_core s) i evs hint) as [[c' clr] e].
    cbn [fst] in H. destruct e; cbn [fst st_core] in *; [exact H|].
    apply (ga_inv_transfer c'); [exact I'|reflexivity|exact H].
  - pose proof (do_get_core cache_on s i) as H.
    destruct (do_get cache_on s i) as [s' b]. cbn [fst] in *. rewrite H. exact G.
  - pose proof (register_rf_gapart (st_core s) sids amp mag phase tshape delay freq phoff use) as P.
    destruct (register_rf (st_core s) sids amp mag phase tshape delay freq phoff use) as [[[c' id] ids] clr].
    cbn [fst st_core] in *. eapply ga_inv_transfer; eassumption.
  - pose proof (register_grad_ga (st_core s) sids amp wshape tshape delay first last G Ok) as P.
    destruct (register_grad (st_core s) sids amp wshape tshape delay first last) as [[[c' id] ids] clr].
    cbn [fst st_core] in *. exact P.
  - pose proof (register_trap_ga (st_core s) amp rise flat fall delay G) as P.
    destruct (register_trap (st_core s) amp rise flat fall delay) as [[c' id] clr].
    cbn [fst st_core] in *. exact P.
  - pose proof (register_adc_ga (st_core s) num dwell delay freq phoff dead G) as P.
    destruct (register_adc (st_core s) num dwell delay freq phoff dead) as [[c' id] clr].
    cbn [fst st_core] in *. exact P.
  - pose proof (register_label_gapart (st_core s) is_set value lbl) as P.
    destruct (register_label (st_core s) is_set value lbl) as [[c' id] clr].
    cbn [fst st_core] in *. eapply ga_inv_transfer; eassumption.
  - contradiction.
  - cbn [fst]. exact G.
  - cbn [fst]. rewrite touch_core. exact G.
  - contradiction.
Qed.

Lemma run_ga_inv_gen cache_on abs_fix r1 r2 r3 r4 ops : forall s acc,
  ga_inv (st_core s) -> Forall op_plain ops ->
  ga_inv (st_core (fst (fold_left (fun (acc : state * list out) o =>
               let '(s', x) := step cache_on abs_fix r1 r2 r3 r4 (fst acc) o in (s', snd acc ++ [x]))
               ops (s, acc)))).
Proof.
  induction ops as [|o r IH]; intros s acc L Ok; cbn [fold_left]; [exact L|].
  inversion Ok as [|? ? Oo Or]. subst. cbn [fst snd].
  pose proof (step_ga_inv cache_on abs_fix r1 r2 r3 r4 s o L Oo) as L'.
  destruct (step cache_on abs_fix r1 r2 r3 r4 s o) as [s1 x1]. cbn [fst] in L'.
  apply IH; assumption.
Qed.

Theorem run_ga_inv : forall cache_on abs_fix r1 r2 r3 r4 ops g sr sl e,
  Forall op_plain ops ->
  ga_inv (st_core (fst (run cache_on abs_fix r1 r2 r3 r4 (mkState (core_init g sr sl e) []) ops))).
Proof. intros. unfold run. apply run_ga_inv_gen; [apply ga_inv_init|assumption]. Qed.

(* ---- the property's first clause for trapezoids and ADC events, after any such history -------------------- *)
(* a successful set_block(i, ...) (or add_block, i = next free index): whenever the block at i decodes, it carries
   the trapezoids and the ADC of the call *)
Theorem set_block_then_decode : forall cache_on abs_fix r1 r2 r3 r4 ops g sr sl e i evs hint b,
  Forall op_plain ops -> Forall ev_ok evs ->
  let s := fst (run cache_on abs_fix r1 r2 r3 r4 (mkState (core_init g sr sl e) []) ops) in
  let res := step cache_on abs_fix r1 r2 r3 r4 s (SetBlock i evs hint) in
  snd res = ONone ->
  decode (st_core (fst res)) i = Some b ->
  (forall ch amp rise flat fall delay, In (MTrap ch None amp rise flat fall delay) evs ->
     nth ch (d_g b) None = Some (mkDGrad tag_t [amp; rise; flat; fall; delay] [])) /\
  (forall num dwell delay freq phoff dead, In (MAdc None num dwell delay freq phoff dead) evs ->
     d_adc b = Some [num; dwell; delay; freq; phoff; dead]).
Proof.
  intros cache_on abs_fix r1 r2 r3 r4 ops g sr sl e i evs hint b Ok Oe. cbv zeta.
  pose proof (run_ga_inv cache_on abs_fix r1 r2 r3 r4 ops g sr sl e Ok) as G.
  set (s := fst (run cache_on abs_fix r1 r2 r3 r4 (mkState (core_init g sr sl e) []) ops)) in *.
  cbn [step].
  destruct (set_block_core abs_fix (st_core s) i evs hint) as [[c' clr] eo] eqn:E.
  destruct eo as [x|]; cbn [snd fst st_core]; [discriminate|]. intros _ D.
  rewrite decode_set_next in D.
  exact (set_block_stores_traps_and_adc _ _ _ _ _ _ _ _ G Oe E D).
Qed.

Theorem add_block_then_decode : forall cache_on abs_fix r1 r2 r3 r4 ops g sr sl e evs hint b,
  Forall op_plain ops -> Forall ev_ok evs ->
  let s := fst (run cache_on abs_fix r1 r2 r3 r4 (mkState (core_init g sr sl e) []) ops) in
  let res := step cache_on abs_fix r1 r2 r3 r4 s (AddBlock evs hint) in
  snd res = ONone ->
  decode (st_core (fst res)) (next_block (st_core s)) = Some b ->
  (forall ch amp rise flat fall delay, In (MTrap ch None amp rise flat fall delay) evs ->
     nth ch (d_g b) None = Some (mkDGrad tag_t [amp; rise; flat; fall; delay] [])) /\
  (forall num dwell delay freq phoff dead, In (MAdc None num dwell delay freq phoff dead) evs ->
     d_adc b = Some [num; dwell; delay; freq; phoff; dead]).
Proof.
  intros cache_on abs_fix r1 r2 r3 r4 ops g sr sl e evs hint b Ok Oe. cbv zeta.
  pose proof (run_ga_inv cache_on abs_fix r1 r2 r3 r4 ops g sr sl e Ok) as G.
  set (s := fst (run cache_on abs_fix r1 r2 r3 r4 (mkState (core_init g sr sl e) []) ops)) in *.
  cbn [step].
  destruct (set_block_core abs_fix (st_core s) (next_block (st_core s)) evs hint) as [[c' clr] eo] eqn:E.
  destruct eo as [x|]; cbn [snd fst st_core]; [discriminate|]. intros _ D.
  rewrite decode_set_next in D.
  exact (set_block_stores_traps_and_adc _ _ _ _ _ _ _ _ G Oe E D).
Qed.

(* ---- what is stored at an index stays until that index is written again --------------------------------------- *)
Definition writes_index (s : state) (o : op) (i : Z) : Prop :=
  match o with
  | AddBlock _ _ => next_block (st_core s) = i
  | SetBlock j _ _ => j = i
  | _ => False
  end.

Lemma sbc_keeps_other abs_fix c j evs hint i b :
  core_inv c -> j <> i -> decode c i = Some b ->
  decode (fst (fst (set_block_core abs_fix c j evs hint))) i = Some b.
Proof.
  intros I N D. destruct (set_block_core abs_fix c j evs hint) as [[c' clr] e] eqn:E. cbn [fst].
  destruct (sbc_spec _ _ _ _ _ _ _ _ I E) as (c2 & G & H).
  pose proof (decode_mono c c2 i b (proj2 G) D) as D2.
  destruct e as [x|]; [subst; exact D2|].
  destruct H as (blk & dur & ->).
  rewrite decode_set_other; [exact D2| |]; apply agetZ_aset_other; congruence.
Qed.

Theorem step_keeps_stored : forall cache_on abs_fix r1 r2 r3 r4 s o i b,
  core_inv (st_core s) -> op_plain o -> ~ writes_index s o i ->
  decode (st_core s) i = Some b ->
  decode (st_core (fst (step cache_on abs_fix r1 r2 r3 r4 s o))) i = Some b.
Proof.
  intros cache_on abs_fix r1 r2 r3 r4 s o i b I Ok W D.
  destruct o; cbn [step op_plain writes_index] in *.
  - pose proof (sbc_keeps_other abs_fix (st_core s) (next_block (st_core s)) evs hint i b I W D) as H.
    destruct (set_block_core abs_fix (st_core s) (next_block (st_core s)) evs hint) as [[c' clr] e].
    cbn [fst] in H. destruct e; cbn [fst st_core]; [exact H|]. rewrite decode_set_next. exact H.
  - pose proof (sbc_keeps_other abs_fix (st_core s) i0 evs hint i b I W D) as H.
    destruct (set_block_core abs_fix (st_core s) i0 evs hint) as [[c' clr] e].
    cbn [fst] in H. destruct e; cbn [fst st_core]; [exact H|]. rewrite decode_set_next. exact H.
  - pose proof (do_get_core cache_on s i0) as H.
    destruct (do_get cache_on s i0) as [s' bb]. cbn [fst] in *. rewrite H. exact D.
  - pose proof (register_rf_grows (st_core s) sids amp mag phase tshape delay freq phoff use I) as [_ L].
    destruct (register_rf (st_core s) sids amp mag phase tshape delay freq phoff use) as [[[c' id] ids] clr].
    cbn [fst st_core] in *. exact (decode_mono _ _ _ _ L D).
  - pose proof (register_grad_grows (st_core s) sids amp wshape tshape delay first last I) as [_ L].
    destruct (register_grad (st_core s) sids amp wshape tshape delay first last) as [[[c' id] ids] clr].
    cbn [fst st_core] in *. exact (decode_mono _ _ _ _ L D).
  - pose proof (register_trap_grows (st_core s) amp rise flat fall delay I) as [_ L].
    destruct (register_trap (st_core s) amp rise flat fall delay) as [[c' id] clr].
    cbn [fst st_core] in *. exact (decode_mono _ _ _ _ L D).
  - pose proof (register_adc_grows (st_core s) num dwell delay freq phoff dead I) as [_ L].
    destruct (register_adc (st_core s) num dwell delay freq phoff dead) as [[c' id] clr].
    cbn [fst st_core] in *. exact (decode_mono _ _ _ _ L D).
  - pose proof (register_label_grows (st_core s) is_set value lbl I) as [_ L].
    destruct (register_label (st_core s) is_set value lbl) as [[c' id] clr].
    cbn [fst st_core] in *. exact (decode_mono _ _ _ _ L D).
  - contradiction.
  - cbn [fst]. exact D.
  - cbn [fst]. rewrite touch_core. exact D.
  - contradiction.
Qed.

(* non-vacuity: a reachable state, a block with a trapezoid and an ADC, stored and decoded *)
Definition ex_trap : mevent := MTrap 1 None (zq 100) (zq 1) (zq 2) (zq 1) (zq 0).
Definition ex_adc : mevent := MAdc None (zq 16) (zq 1) (zq 0) (zq 0) (zq 0) (zq 0).
Example stored_example :
  let s0 := mkState (core_init (zq 1) (zq 1) (zq 1000000) qc0) [] in
  let res := step false true (fun k => k) (fun k => k) (fun k => k) (fun k => k) s0 (AddBlock [ex_trap; ex_adc] []) in
  snd res = ONone /\
  exists b, decode (st_core (fst res)) 1 = Some b /\
            nth 1 (d_g b) None = Some (mkDGrad tag_t [zq 100; zq 1; zq 2; zq 1; zq 0] []) /\
            d_adc b = Some [zq 16; zq 1; zq 0; zq 0; zq 0; zq 0].
Proof. vm_compute. split; [reflexivity|]. eexists. split; [reflexivity|]. split; reflexivity. Qed.
