(* Proofs/SeqSpec.v — declarative notions used by the theorems about Model/Seq.v
   (definitions only; the proofs are in SeqCache.v and SeqCont.v). *)
From Coq Require Import List Bool ZArith QArith Qcanon.
From PV Require Import Base.AList Base.QUtil Model.EventLib Model.Seq.
Import ListNotations.
Open Scope Z_scope.

(* ---- library / store invariants ---------------------------------------------------------------- *)
Definition lib_inv (l : klib) : Prop :=
  (forall id k, In (id, k) (ldata l) -> id < lnext l) /\
  (forall id t, In (id, t) (ltype l) -> id < lnext l).

Definition core_inv (c : core) : Prop :=
  lib_inv (rf_l c) /\ lib_inv (grad_l c) /\ lib_inv (adc_l c) /\ lib_inv (trig_l c) /\
  lib_inv (lset_l c) /\ lib_inv (linc_l c) /\ lib_inv (ext_l c) /\ lib_inv (shape_l c).

(* every cached block is what get_block would compute now *)
Definition cache_ok (c : core) (ch : list (Z * dblock)) : Prop :=
  forall i b, aget Z.eqb ch i = Some b -> decode c i = Some b.

Fixpoint ops_wf (ops : list op) : Prop :=
  match ops with
  | [] => True
  | Load c :: r => core_inv c /\ ops_wf r       (* read() builds libraries with ids below next_free_ID *)
  | _ :: r => ops_wf r
  end.

(* ---- gradient continuity (C05) ------------------------------------------------------------------- *)
Definition step_of (c : core) : Qc := (max_slew c * sys_raster c)%Qc.
Definition within_step (c : core) (x : Qc) : Prop := Qcltb (step_of c) (Qcabs' x) = false.

Definition edge (c : core) (b : Z) (ch : nat) (fld : nat) : option Qc :=
  edge_value c (blk_field c b (2 + ch)) fld.

(* along the block order: each block starts where the previous one ended (first block: at zero) *)
Fixpoint chain_ok (c : core) (ch : nat) (prev_last : Qc) (ks : list Z) : Prop :=
  match ks with
  | [] => True
  | b :: r => exists f l, edge c b ch 4 = Some f /\ edge c b ch 5 = Some l /\
                          within_step c (prev_last - f)%Qc /\ chain_ok c ch l r
  end.
Definition Cont (c : core) : Prop :=
  forall ch, (ch < 3)%nat -> chain_ok c ch qc0 (akeys (blocks c)).

(* events handed over by value, with well-shaped shape id lists *)
Definition ev_ok (e : mevent) : Prop :=
  match e with
  | MGrad ch id sids _ _ _ _ _ _ _ _ =>
    (ch < 3)%nat /\ id = None /\ match sids with None => True | Some l => length l = 2%nat end
  | MTrap ch id _ _ _ _ _ => (ch < 3)%nat /\ id = None
  | _ => True
  end.
Definition block_op_ok (o : op) : Prop :=
  match o with
  | AddBlock evs _ => Forall ev_ok evs
  | SetBlock i evs _ => 1 <= i /\ Forall ev_ok evs
  | GetBlock _ | RegRf _ _ _ _ _ _ _ _ _ | RegGrad _ _ _ _ _ _ _ | RegTrap _ _ _ _ _
  | RegAdc _ _ _ _ _ _ | RegLabel _ _ _ | TouchAll | DedupCopy => True
  | DedupInPlace | Load _ => False
  end.

(* the per-channel acceptance rules of the property, stated on the summary set_block computes *)
Definition channel_rules (c : core) (i : Z) (dur : Qc) (ch : nat) (k : chk)
           (prev next : option Z) : Prop :=
  (within_step c (ck_first k) \/ Qcltb (eps_ c) (ck_start_t k) = false) /\
  (exists lv, match prev with Some p => edge c p ch 5 | None => Some qc0 end = Some lv /\
              within_step c (lv - ck_first k)%Qc) /\
  (match next with
   | None => True
   | Some n => exists fv, edge c n ch 4 = Some fv /\ within_step c (fv - ck_last k)%Qc
   end) /\
  (within_step c (ck_last k) \/
   Qcltb (Q2Qc (1 # 10000000)) (Qcabs' (ck_stop_t k - dur)%Qc) = false).
