(* Proofs/RoundProofs.v — lemmas about Base/Round.v: powers of ten, idempotence and error bounds of
   decimal rounding (round_dec) and of the significant-digit rounding of EventLibrary
   .remove_duplicates (round_spec), row-wise versions. *)
From Coq Require Import ZArith QArith Qround Qabs Qpower Lia Lqa List Bool.
From PV Require Import Base.QUtil Base.Round.
Import ListNotations.
Open Scope Q_scope.

(* ---- powers of ten ------------------------------------------------------------------------------ *)
Lemma Zpow10_pos (n : Z) : (0 <= n)%Z -> (0 < 10 ^ n)%Z.
Proof. intro H. apply Z.pow_pos_nonneg; lia. Qed.

Lemma inv_pos_frac (z : Z) : (0 < z)%Z -> 1 # Z.to_pos z == / inject_Z z.
Proof.
  intro H. destruct z as [|p|p]; try lia. cbn. reflexivity.
Qed.

Lemma pow10_Qpower (n : Z) : pow10 n == (10 # 1) ^ n.
Proof.
  unfold pow10. destruct (0 <=? n)%Z eqn:E.
  - apply Z.leb_le in E. rewrite Zpower_Qpower by exact E. reflexivity.
  - apply Z.leb_gt in E.
    rewrite inv_pos_frac by (apply Zpow10_pos; lia).
    rewrite Zpower_Qpower by lia.
    change (inject_Z 10) with (10 # 1).
    rewrite <- Qpower_opp. rewrite Z.opp_involutive. reflexivity.
Qed.

Lemma ten_nz : ~ (10 # 1) == 0.
Proof. intro H. discriminate H. Qed.

Lemma pow10_plus (a b : Z) : pow10 (a + b) == pow10 a * pow10 b.
Proof. rewrite !pow10_Qpower. apply Qpower_plus. exact ten_nz. Qed.

Lemma pow10_0 : pow10 0 == 1.
Proof. reflexivity. Qed.

Lemma pow10_inv (n : Z) : pow10 n * pow10 (- n) == 1.
Proof. rewrite <- pow10_plus. rewrite Z.add_opp_diag_r. reflexivity. Qed.

Lemma pow10_pos (n : Z) : 0 < pow10 n.
Proof.
  unfold pow10. destruct (0 <=? n)%Z eqn:E.
  - apply Z.leb_le in E. pose proof (Zpow10_pos n E) as H.
    rewrite Zlt_Qlt in H. exact H.
  - reflexivity.
Qed.

Lemma pow10_nonneg_int (n : Z) : (0 <= n)%Z -> pow10 n = inject_Z (10 ^ n).
Proof. intro H. unfold pow10. apply Z.leb_le in H. rewrite H. reflexivity. Qed.

Lemma pow10_succ (n : Z) : pow10 (n + 1) == pow10 n * (10 # 1).
Proof. rewrite pow10_plus. reflexivity. Qed.

Lemma pow10_mono (a b : Z) : (a <= b)%Z -> pow10 a <= pow10 b.
Proof.
  intro H. replace b with (a + (b - a))%Z by lia. rewrite pow10_plus.
  assert (P : 1 <= pow10 (b - a)).
  { rewrite pow10_nonneg_int by lia. pose proof (Zpow10_pos (b - a) ltac:(lia)) as Z0.
    change 1 with (inject_Z 1). rewrite <- Zle_Qle. lia. }
  pose proof (pow10_pos a) as Pa. nra.
Qed.

(* ---- round_dec ------------------------------------------------------------------------------------ *)
(* the integer mantissa chosen by round_dec *)
Definition mant (n : Z) (d : Q) : Z := rnd_he (d * pow10 n).

Lemma round_dec_val (n : Z) (d : Q) : round_dec n d == inject_Z (mant n d) * pow10 (- n).
Proof. unfold round_dec, mant. apply Qred_correct. Qed.

(* a value on a grid at least as coarse as 10^-m is a fixed point of rounding to m decimals *)
Lemma mant_on_grid (n m : Z) (z : Z) (q : Q) :
  (n <= m)%Z -> q == inject_Z z * pow10 (- n) -> mant m q = (z * 10 ^ (m - n))%Z.
Proof.
  intros Hnm Hq. unfold mant.
  assert (E : q * pow10 m == inject_Z (z * 10 ^ (m - n))).
  { rewrite Hq. rewrite inject_Z_mult. rewrite <- (pow10_nonneg_int (m - n)) by lia.
    replace (m - n)%Z with (- n + m)%Z by lia. rewrite pow10_plus. ring. }
  rewrite E. apply rnd_he_inject.
Qed.

Lemma round_dec_on_grid (n m : Z) (z : Z) (q : Q) :
  (n <= m)%Z -> q == inject_Z z * pow10 (- n) -> round_dec m q == q.
Proof.
  intros Hnm Hq. rewrite round_dec_val. rewrite (mant_on_grid n m z q Hnm Hq).
  rewrite Hq. rewrite inject_Z_mult. rewrite <- (pow10_nonneg_int (m - n)) by lia.
  assert (P : pow10 (- n) == pow10 (m - n) * pow10 (- m)).
  { rewrite <- pow10_plus. replace (m - n + - m)%Z with (- n)%Z by lia. reflexivity. }
  rewrite P. ring.
Qed.

Global Instance round_dec_Proper (n : Z) : Proper (Qeq ==> eq) (round_dec n).
Proof.
  intros a b H. unfold round_dec. apply Qred_complete. rewrite H. reflexivity.
Qed.

Lemma round_dec_canon (n : Z) (d : Q) : Qred (round_dec n d) = round_dec n d.
Proof. unfold round_dec. apply Qred_complete. apply Qred_correct. Qed.

(* rounding to a finer or equal grid leaves an already rounded value alone (Leibniz equality:
   both sides are in lowest terms) *)
Theorem round_dec_finer (n m : Z) (d : Q) : (n <= m)%Z -> round_dec m (round_dec n d) = round_dec n d.
Proof.
  intro H. rewrite <- (round_dec_canon n d) at 2. rewrite <- (round_dec_canon m).
  apply Qred_complete. apply (round_dec_on_grid n m (mant n d)); [exact H|apply round_dec_val].
Qed.

Theorem round_dec_idem (n : Z) (d : Q) : round_dec n (round_dec n d) = round_dec n d.
Proof. apply round_dec_finer. lia. Qed.

Theorem round_dec_err (n : Z) (d : Q) : Qabs (round_dec n d - d) <= (1 # 2) * pow10 (- n).
Proof.
  rewrite round_dec_val. unfold mant.
  pose proof (rnd_he_err (d * pow10 n)) as E. unfold Qhalf in E.
  pose proof (pow10_pos (- n)) as P. pose proof (pow10_inv n) as I.
  set (z := inject_Z (rnd_he (d * pow10 n))) in *.
  assert (X : z * pow10 (- n) - d == - ((d * pow10 n - z) * pow10 (- n))).
  { transitivity (z * pow10 (- n) - d * (pow10 n * pow10 (- n))); [rewrite I; ring|ring]. }
  rewrite X. rewrite Qabs_opp. rewrite Qabs_Qmult. rewrite (Qabs_pos (pow10 (- n))) by lra.
  apply Qmult_le_compat_r; [exact E|lra].
Qed.

(* ---- the searched exponent ------------------------------------------------------------------------ *)
Lemma clog_spec (fuel : nat) : forall x e pw, pw == pow10 e ->
  let r := clog_search x e pw fuel in
  (e <= r <= e + Z.of_nat fuel)%Z /\ (r = e \/ pow10 (r - 1) < x) /\ ((r < e + Z.of_nat fuel)%Z -> x <= pow10 r).
Proof.
  induction fuel as [|f IH]; intros x e pw Hpw; cbn [clog_search].
  - cbv zeta. split; [lia|]. split; [left; reflexivity|]. intro H. lia.
  - destruct (Qle_bool x pw) eqn:E.
    + cbv zeta. split; [lia|]. split; [left; reflexivity|]. intros _.
      apply Qle_bool_iff in E. rewrite <- Hpw. exact E.
    + assert (Hlt : pow10 e < x).
      { rewrite <- Hpw. apply Qnot_le_lt. intro H. apply Qle_bool_iff in H. congruence. }
      assert (Hpw' : pw * (10 # 1) == pow10 (e + 1)) by (rewrite pow10_succ, Hpw; reflexivity).
      specialize (IH x (e + 1)%Z (pw * (10 # 1)) Hpw'). cbv zeta in IH |- *.
      destruct IH as (R1 & R2 & R3).
      split; [lia|]. split.
      * right. destruct R2 as [R2|R2]; [|exact R2].
        rewrite R2. replace (e + 1 - 1)%Z with e by lia. exact Hlt.
      * intro H. apply R3. lia.
Qed.

Lemma log_offset_pow : log_offset == pow10 (-12).
Proof. reflexivity. Qed.

Lemma ceil_log10_spec (x : Q) :
  let r := ceil_log10 x in
  (-12 <= r <= 388)%Z /\ (r = (-12)%Z \/ pow10 (r - 1) < x) /\ ((r < 388)%Z -> x <= pow10 r).
Proof.
  unfold ceil_log10.
  pose proof (clog_spec 400 x (-12)%Z (1 # 1000000000000) ltac:(reflexivity)) as H.
  cbv zeta in H |- *. destruct H as (A & B & C).
  split; [lia|]. split; [exact B|]. intro H. apply C. lia.
Qed.

Global Instance clog_search_Proper : Proper (Qeq ==> eq ==> eq ==> eq ==> eq) clog_search.
Proof.
  intros x y H e e' <- pw pw' <- f f' <-. revert e pw.
  induction f as [|f IH]; intros e pw; cbn [clog_search]; [reflexivity|].
  assert (E : Qle_bool x pw = Qle_bool y pw).
  { destruct (Qle_bool x pw) eqn:A, (Qle_bool y pw) eqn:B; try reflexivity.
    - apply Qle_bool_iff in A. rewrite H in A. apply Qle_bool_iff in A. congruence.
    - apply Qle_bool_iff in B. rewrite <- H in B. apply Qle_bool_iff in B. congruence. }
  rewrite E. destruct (Qle_bool y pw); [reflexivity|apply IH].
Qed.

Global Instance ceil_log10_Proper : Proper (Qeq ==> eq) ceil_log10.
Proof. intros x y H. unfold ceil_log10. rewrite H. reflexivity. Qed.

(* ---- round_spec ------------------------------------------------------------------------------------ *)
Definition sig_exp (d : Q) : Z := ceil_log10 (Qabs d + log_offset).
Local Opaque ceil_log10.

Lemma round_spec_sig_eq (dig : Z) (d : Q) :
  Qeq_bool d neg_zero = false -> (0 < dig)%Z -> round_spec dig d = round_dec (dig - sig_exp d) d.
Proof.
  intros G H. apply Z.ltb_lt in H. unfold round_spec, sig_exp. rewrite G, H. reflexivity.
Qed.

Lemma round_spec_passthrough (dig : Z) (d : Q) : Qeq_bool d neg_zero = true -> round_spec dig d = d.
Proof. intro H. unfold round_spec. rewrite H. reflexivity. Qed.

(* dig <= 0: -dig decimals, i.e. a multiple of 10^dig ... *)
Theorem round_spec_err_dec (dig : Z) (d : Q) :
  (dig <= 0)%Z -> Qabs (round_spec dig d - d) <= (1 # 2) * pow10 dig.
Proof.
  intro H. unfold round_spec.
  pose proof (pow10_pos dig) as P.
  destruct (Qeq_bool d neg_zero).
  - setoid_replace (d - d) with 0 by ring. cbn. lra.
  - assert (E : (0 <? dig)%Z = false) by (apply Z.ltb_ge; exact H). rewrite E.
    pose proof (round_dec_err (- dig) d) as R. rewrite Z.opp_involutive in R. exact R.
Qed.

(* ... dig > 0: dig significant digits: relative error 5*10^-dig (of |d| + 1e-12) *)
Theorem round_spec_err_sig (dig : Z) (d : Q) :
  (0 < dig)%Z -> Qabs (round_spec dig d - d) <= (5 # 1) * pow10 (- dig) * (Qabs d + log_offset).
Proof.
  intro H.
  pose proof (pow10_pos (- dig)) as P. pose proof (Qabs_nonneg d) as A.
  assert (O : 0 < log_offset) by reflexivity.
  destruct (Qeq_bool d neg_zero) eqn:G.
  - rewrite (round_spec_passthrough dig d G).
    setoid_replace (d - d) with 0 by ring. cbn [Qabs Qnum Z.abs]. nra.
  - rewrite (round_spec_sig_eq dig d G H). set (e := sig_exp d).
    pose proof (round_dec_err (dig - e) d) as R.
    replace (- (dig - e))%Z with ((e - 1) + 1 + - dig)%Z in R by lia.
    rewrite pow10_plus, pow10_succ in R.
    destruct (ceil_log10_spec (Qabs d + log_offset)) as (_ & B & _).
    change (ceil_log10 (Qabs d + log_offset)) with e in B.
    pose proof (pow10_pos (e - 1)) as Pe.
    destruct B as [B|B].
    + assert (Pe1 : pow10 (e - 1) <= log_offset).
      { rewrite B. vm_compute. discriminate. }
      eapply Qle_trans; [exact R|]. nra.
    + eapply Qle_trans; [exact R|]. nra.
Qed.

(* idempotence for the decimal columns (times): unconditional *)
Theorem round_spec_idem_dec (dig : Z) (d : Q) :
  (dig <= 0)%Z -> round_spec dig (round_spec dig d) = round_spec dig d.
Proof.
  intro H. destruct (Qeq_bool (round_spec dig d) neg_zero) eqn:E.
  - apply round_spec_passthrough. exact E.
  - unfold round_spec at 1. rewrite E.
    assert (F : (0 <? dig)%Z = false) by (apply Z.ltb_ge; exact H). rewrite F.
    unfold round_spec. destruct (Qeq_bool d neg_zero) eqn:G.
    + unfold round_spec in E. rewrite G in E. congruence.
    + rewrite F. apply round_dec_idem.
Qed.

(* idempotence for the significant-digit columns when the exponent found for the rounded value is
   not larger than the one found for the input (it can only be larger when the rounded value is
   exactly a power of ten; see DESIGN.md C02 for the paper argument that this is harmless) *)
Theorem round_spec_idem_partial (dig : Z) (d : Q) :
  (dig <= 0 \/ sig_exp (round_spec dig d) <= sig_exp d)%Z ->
  round_spec dig (round_spec dig d) = round_spec dig d.
Proof.
  intros [H|H]; [apply round_spec_idem_dec; exact H|].
  destruct (Z_le_gt_dec dig 0) as [L|L]; [apply round_spec_idem_dec; exact L|].
  assert (F : (0 <? dig)%Z = true) by (apply Z.ltb_lt; lia).
  destruct (Qeq_bool d neg_zero) eqn:G.
  - rewrite (round_spec_passthrough dig d G). apply round_spec_passthrough. exact G.
  - pose proof (round_spec_sig_eq dig d G ltac:(lia)) as R.
    rewrite R in *.
    destruct (Qeq_bool (round_dec (dig - sig_exp d) d) neg_zero) eqn:E.
    + apply round_spec_passthrough. exact E.
    + rewrite (round_spec_sig_eq dig _ E ltac:(lia)). apply round_dec_finer. lia.
Qed.

(* ---- canonical representatives (library keys are tuples of Qc) ------------------------------------ *)
Definition canonQ (q : Q) : Prop := Qred q = q.

Lemma round_spec_canon (dig : Z) (d : Q) : canonQ d -> canonQ (round_spec dig d).
Proof.
  intro C. unfold round_spec. destruct (Qeq_bool d neg_zero); [exact C|].
  destruct (0 <? dig)%Z; apply round_dec_canon.
Qed.

(* ---- rows -------------------------------------------------------------------------------------------- *)
Definition col_stable (dig : Z) (d : Q) : Prop :=
  (dig <= 0 \/ sig_exp (round_spec dig d) <= sig_exp d)%Z.

Fixpoint row_stable (digs : list Z) (row : list Q) : Prop :=
  match digs, row with
  | dg :: ds, d :: r => col_stable dg d /\ row_stable ds r
  | _, _ => True
  end.

Theorem round_row_idem_partial (digs : list Z) : forall row,
  row_stable digs row -> round_row digs (round_row digs row) = round_row digs row.
Proof.
  induction digs as [|dg ds IH]; intros [|d r] H; cbn [round_row]; try reflexivity.
  destruct H as [H1 H2]. f_equal; [apply round_spec_idem_partial; exact H1|apply IH; exact H2].
Qed.

Theorem round_all_idem_partial (dig : Z) (row : list Q) :
  Forall (col_stable dig) row -> round_all dig (round_all dig row) = round_all dig row.
Proof.
  unfold round_all. induction 1 as [|d r H _ IH]; cbn [map]; [reflexivity|].
  f_equal; [apply round_spec_idem_partial; exact H|exact IH].
Qed.

Lemma round_row_canon (digs : list Z) : forall row, Forall canonQ row -> Forall canonQ (round_row digs row).
Proof.
  induction digs as [|dg ds IH]; intros [|d r] H; cbn [round_row]; try constructor.
  - apply round_spec_canon. inversion H; assumption.
  - apply IH. inversion H; assumption.
Qed.

Lemma round_all_canon (dig : Z) (row : list Q) : Forall canonQ row -> Forall canonQ (round_all dig row).
Proof.
  unfold round_all. induction 1; cbn [map]; constructor; [apply round_spec_canon; assumption|assumption].
Qed.

Lemma round_row_length (digs : list Z) : forall row,
  length (round_row digs row) = Nat.min (length digs) (length row).
Proof.
  induction digs as [|dg ds IH]; intros [|d r]; cbn [round_row length Nat.min]; try reflexivity.
  rewrite IH. reflexivity.
Qed.

Lemma round_row_nth (digs : list Z) : forall row n dg d,
  nth_error digs n = Some dg -> nth_error row n = Some d ->
  nth_error (round_row digs row) n = Some (round_spec dg d).
Proof.
  induction digs as [|g ds IH]; intros [|x r] [|n] dg d H1 H2; cbn in *; try discriminate.
  - inversion H1. inversion H2. reflexivity.
  - apply IH; assumption.
Qed.

(* column-wise error statement for a whole row, for any digit tuple *)
Definition col_err_ok (dig : Z) (d r : Q) : Prop :=
  if (0 <? dig)%Z then Qabs (r - d) <= (5 # 1) * pow10 (- dig) * (Qabs d + log_offset)
  else Qabs (r - d) <= (1 # 2) * pow10 dig.

Theorem round_spec_col_err (dig : Z) (d : Q) : col_err_ok dig d (round_spec dig d).
Proof.
  unfold col_err_ok. destruct (0 <? dig)%Z eqn:E.
  - apply round_spec_err_sig. apply Z.ltb_lt. exact E.
  - apply round_spec_err_dec. apply Z.ltb_ge. exact E.
Qed.

Theorem round_row_err (digs : list Z) (row : list Q) n dg d :
  nth_error digs n = Some dg -> nth_error row n = Some d ->
  exists r, nth_error (round_row digs row) n = Some r /\ col_err_ok dg d r.
Proof.
  intros H1 H2. exists (round_spec dg d). split; [apply (round_row_nth _ _ _ _ _ H1 H2)|apply round_spec_col_err].
Qed.

(* integers survive every rounding with dig <= 0 (shape-id columns of gradient and RF rows) *)
Lemma inject_Z_not_neg_zero (z : Z) : Qeq_bool (inject_Z z) neg_zero = false.
Proof.
  destruct (Qeq_bool (inject_Z z) neg_zero) eqn:E; [|reflexivity].
  apply Qeq_bool_iff in E. unfold Qeq, neg_zero, inject_Z in E. cbn [Qnum Qden] in E. lia.
Qed.

Lemma round_spec_int (dig : Z) (z : Z) : (dig <= 0)%Z -> round_spec dig (inject_Z z) == inject_Z z.
Proof.
  intro H. unfold round_spec. rewrite inject_Z_not_neg_zero.
  assert (E : (0 <? dig)%Z = false) by (apply Z.ltb_ge; exact H). rewrite E.
  apply (round_dec_on_grid 0 (- dig) z); [lia|]. rewrite pow10_0. ring.
Qed.
