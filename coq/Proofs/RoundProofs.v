(* Proofs/RoundProofs.v — lemmas about Base/Round.v: powers of ten, idempotence and error bounds of
   decimal rounding (round_dec) and of the significant-digit rounding of EventLibrary
   .remove_duplicates (round_spec), row-wise versions. *)
From Coq Require Import ZArith QArith Qround Qabs Qpower Lia Lqa List Bool.
From PV Require Import Base.QUtil Base.Round.
Import ListNotations.
Open Scope Q_scope.

(* ---- powers of ten ------------------------------------------------------------------------------ *)
Lemma Zpow10_pos (n : Z) : (0 <= n)%Z -> (0 < 10 ^ n)%Z.
Proof. intro H. apply Z.pow_pos_nonneg; lia. Qed.

Lemma inv_pos_frac (z : Z) : (0 < z)%Z -> 1 # Z.to_pos z == / inject_Z z.
Proof.
  intro H. destruct z as [|p|p]; try lia. cbn. reflexivity.
Qed.

Lemma pow10_Qpower (n : Z) : pow10 n == (10 # 1) ^ n.
Proof.
  unfold pow10. destruct (0 <=? n)%Z eqn:E.
  - apply Z.leb_le in E. rewrite Zpower_Qpower by exact E. reflexivity.
  - apply Z.leb_gt in E.
    rewrite inv_pos_frac by (apply Zpow10_pos; lia).
    rewrite Zpower_Qpower by lia.
    change (inject_Z 10) with (10 # 1).
    rewrite <- Qpower_opp. rewrite Z.opp_involutive. reflexivity.
Qed.

Lemma ten_nz : ~ (10 # 1) == 0.
Proof. intro H. discriminate H. Qed.

Lemma pow10_plus (a b : Z) : pow10 (a + b) == pow10 a * pow10 b.
Proof. rewrite !pow10_Qpower. apply Qpower_plus. exact ten_nz. Qed.

Lemma pow10_0 : pow10 0 == 1.
Proof. reflexivity. Qed.

Lemma pow10_inv (n : Z) : pow10 n * pow10 (- n) == 1.
Proof. rewrite <- pow10_plus. rewrite Z.add_opp_diag_r. reflexivity. Qed.

Lemma pow10_pos (n : Z) : 0 < pow10 n.
Proof.
  unfold pow10. destruct (0 <=? n)%Z eqn:E.
  - apply Z.leb_le in E. pose proof (Zpow10_pos n E) as H.
    rewrite Zlt_Qlt in H. exact H.
  - reflexivity.
Qed.

Lemma pow10_nonneg_int (n : Z) : (0 <= n)%Z -> pow10 n = inject_Z (10 ^ n).
Proof. intro H. unfold pow10. apply Z.leb_le in H. rewrite H. reflexivity. Qed.

Lemma pow10_succ (n : Z) : pow10 (n + 1) == pow10 n * (10 # 1).
Proof. rewrite pow10_plus. reflexivity. Qed.

Lemma pow10_mono (a b : Z) : (a <= b)%Z -> pow10 a <= pow10 b.
Proof.
  intro H. replace b with (a + (b - a))%Z by lia. rewrite pow10_plus.
  assert (P : 1 <= pow10 (b - a)).
  { rewrite pow10_nonneg_int by lia. pose proof (Zpow10_pos (b - a) ltac:(lia)) as Z0.
    change 1 with (inject_Z 1). rewrite <- Zle_Qle. lia. }
  pose proof (pow10_pos a) as Pa. nra.
Qed.

(* ---- round_dec ------------------------------------------------------------------------------------ *)
(* the integer mantissa chosen by round_dec *)
Definition mant (n : Z) (d : Q) : Z := rnd_he (d * pow10 n).

Lemma round_dec_val (n : Z) (d : Q) : round_dec n d == inject_Z (mant n d) * pow10 (- n).
Proof. unfold round_dec, mant. apply Qred_correct. Qed.

(* a value on a grid at least as coarse as 10^-m is a fixed point of rounding to m decimals *)
Lemma mant_on_grid (n m : Z) (z : Z) (q : Q) :
  (n <= m)%Z -> q == inject_Z z * pow10 (- n) -> mant m q = (z * 10 ^ (m - n))%Z.
Proof.
  intros Hnm Hq. unfold mant.
  assert (E : q * pow10 m == inject_Z (z * 10 ^ (m - n))).
  { rewrite Hq. rewrite inject_Z_mult. rewrite <- (pow10_nonneg_int (m - n)) by lia.
    replace (m - n)%Z with (- n + m)%Z by lia. rewrite pow10_plus. ring. }
  rewrite E. apply rnd_he_inject.
Qed.

Lemma round_dec_on_grid (n m : Z) (z : Z) (q : Q) :
  (n <= m)%Z -> q == inject_Z z * pow10 (- n) -> round_dec m q == q.
Proof.
  intros Hnm Hq. rewrite round_dec_val. rewrite (mant_on_grid n m z q Hnm Hq).
  rewrite Hq. rewrite inject_Z_mult. rewrite <- (pow10_nonneg_int (m - n)) by lia.
  assert (P : pow10 (- n) == pow10 (m - n) * pow10 (- m)).
  { rewrite <- pow10_plus. replace (m - n + - m)%Z with (- n)%Z by lia. reflexivity. }
  rewrite P. ring.
Qed.

Global Instance round_dec_Proper (n : Z) : Proper (Qeq ==> eq) (round_dec n).
Proof.
  intros a b H. unfold round_dec. apply Qred_complete. rewrite H. reflexivity.
Qed.

Lemma round_dec_canon (n : Z) (d : Q) : Qred (round_dec n d) = round_dec n d.
Proof. unfold round_dec. apply Qred_complete. apply Qred_correct. Qed.

(* rounding to a finer or equal grid leaves an already rounded value alone (Leibniz equality:
   both sides are in lowest terms) *)
Theorem round_dec_finer (n m : Z) (d : Q) : (n <= m)%Z -> round_dec m (round_dec n d) = round_dec n d.
Proof.
  intro H. rewrite <- (round_dec_canon n d) at 2. rewrite <- (round_dec_canon m).
  apply Qred_complete. apply (round_dec_on_grid n m (mant n d)); [exact H|apply round_dec_val].
Qed.

Theorem round_dec_idem (n : Z) (d : Q) : round_dec n (round_dec n d) = round_dec n d.
Proof. apply round_dec_finer. lia. Qed.

Theorem round_dec_err (n : Z) (d : Q) : Qabs (round_dec n d - d) <= (1 # 2) * pow10 (- n).
Proof.
  rewrite round_dec_val. unfold mant.
  pose proof (rnd_he_err (d * pow10 n)) as E. unfold Qhalf in E.
  pose proof (pow10_pos (- n)) as P. pose proof (pow10_inv n) as I.
  set (z := inject_Z (rnd_he (d * pow10 n))) in *.
  assert (X : z * pow10 (- n) - d == - ((d * pow10 n - z) * pow10 (- n))).
  { transitivity (z * pow10 (- n) - d * (pow10 n * pow10 (- n))); [rewrite I; ring|ring]. }
  rewrite X. rewrite Qabs_opp. rewrite Qabs_Qmult. rewrite (Qabs_pos (pow10 (- n))) by lra.
  apply Qmult_le_compat_r; [exact E|lra].
Qed.

(* ---- the searched exponent ------------------------------------------------------------------------ *)
Lemma clog_spec (fuel : nat) : forall x e pw, pw == pow10 e ->
  let r := clog_search x e pw fuel in
  (e <= r <= e + Z.of_nat fuel)%Z /\ (r = e \/ pow10 (r - 1) < x) /\ ((r < e + Z.of_nat fuel)%Z -> x <= pow10 r).
Proof.
  induction fuel as [|f IH]; intros x e pw Hpw; cbn [clog_search].
  - cbv zeta. split; [lia|]. split; [left; reflexivity|]. intro H. lia.
  - destruct (Qle_bool x pw) eqn:E.
    + cbv zeta. split; [lia|]. split; [left; reflexivity|]. intros _.
      apply Qle_bool_iff in E. rewrite <- Hpw. exact E.
    + assert (Hlt : pow10 e < x).
      { rewrite <- Hpw. apply Qnot_le_lt. intro H. apply Qle_bool_iff in H. congruence. }
      assert (Hpw' : pw * (10 # 1) == pow10 (e + 1)) by (rewrite pow10_succ, Hpw; reflexivity).
      specialize (IH x (e + 1)%Z (pw * (10 # 1)) Hpw'). cbv zeta in IH |- *.
      destruct IH as (R1 & R2 & R3).
      split; [lia|]. split.
      * right. destruct R2 as [R2|R2]; [|exact R2].
        rewrite R2. replace (e + 1 - 1)%Z with e by lia. exact Hlt.
      * intro H. apply R3. lia.
Qed.

Lemma log_offset_pow : log_offset == pow10 (-12).
Proof. reflexivity. Qed.

Lemma ceil_log10_spec (x : Q) :
  let r := ceil_log10 x in
  (-12 <= r <= 388)%Z /\ (r = (-12)%Z \/ pow10 (r - 1) < x) /\ ((r < 388)%Z -> x <= pow10 r).
Proof.
  unfold ceil_log10.
  pose proof (clog_spec 400 x (-12)%Z (1 # 1000000000000) ltac:(reflexivity)) as H.
  cbv zeta in H |- *. destruct H as (A & B & C).
  split; [lia|]. split; [exact B|]. intro H. apply C. lia.
Qed.

Global Instance clog_search_Proper : Proper (Qeq ==> eq ==> eq ==> eq ==> eq) clog_search.
Proof.
  intros x y H e e' <- pw pw' <- f f' <-. revert e pw.
  induction f as [|f IH]; intros e pw; cbn [clog_search]; [reflexivity|].
  assert (E : Qle_bool x pw = Qle_bool y pw).
  { destruct (Qle_bool x pw) eqn:A, (Qle_bool y pw) eqn:B; try reflexivity.
    - apply Qle_bool_iff in A. rewrite H in A. apply Qle_bool_iff in A. congruence.
    - apply Qle_bool_iff in B. rewrite <- H in B. apply Qle_bool_iff in B. congruence. }
  rewrite E. destruct (Qle_bool y pw); [reflexivity|apply IH].
Qed.

Global Instance ceil_log10_Proper : Proper (Qeq ==> eq) ceil_log10.
Proof. intros x y H. unfold ceil_log10. rewrite H. reflexivity. Qed.

(* ---- round_spec ------------------------------------------------------------------------------------ *)
Definition sig_exp (d : Q) : Z := ceil_log10 (Qabs d + log_offset).
Local Opaque ceil_log10.

Lemma round_spec_sig_eq (dig : Z) (d : Q) :
  Qeq_bool d neg_zero = false -> (0 < dig)%Z -> round_spec dig d = round_dec (dig - sig_exp d) d.
Proof.
  intros G H. apply Z.ltb_lt in H. unfold round_spec, sig_exp. rewrite G, H. reflexivity.
Qed.

Lemma round_spec_passthrough (dig : Z) (d : Q) : Qeq_bool d neg_zero = true -> round_spec dig d = d.
Proof. intro H. unfold round_spec. rewrite H. reflexivity. Qed.

(* dig <= 0: -dig decimals, i.e. a multiple of 10^dig ... *)
Theorem round_spec_err_dec (dig : Z) (d : Q) :
  (dig <= 0)%Z -> Qabs (round_spec dig d - d) <= (1 # 2) * pow10 dig.
Proof.
  intro H. unfold round_spec.
  pose proof (pow10_pos dig) as P.
  destruct (Qeq_bool d neg_zero).
  - setoid_replace (d - d) with 0 by ring. cbn. lra.
  - assert (E : (0 <? dig)%Z = false) by (apply Z.ltb_ge; exact H). rewrite E.
    pose proof (round_dec_err (- dig) d) as R. rewrite Z.opp_involutive in R. exact R.
Qed.

(* ... dig > 0: dig significant digits: relative error 5*10^-dig (of |d| + 1e-12) *)
Theorem round_spec_err_sig (dig : Z) (d : Q) :
  (0 < dig)%Z -> Qabs (round_spec dig d - d) <= (5 # 1) * pow10 (- dig) * (Qabs d + log_offset).
Proof.
  intro H.
  pose proof (pow10_pos (- dig)) as P. pose proof (Qabs_nonneg d) as A.
  assert (O : 0 < log_offset) by reflexivity.
  destruct (Qeq_bool d neg_zero) eqn:G.
  - rewrite (round_spec_passthrough dig d G).
    setoid_replace (d - d) with 0 by ring. cbn [Qabs Qnum Z.abs]. nra.
  - rewrite (round_spec_sig_eq dig d G H). set (e := sig_exp d).
    pose proof (round_dec_err (dig - e) d) as R.
    replace (- (dig - e))%Z with ((e - 1) + 1 + - dig)%Z in R by lia.
    rewrite pow10_plus, pow10_succ in R.
    destruct (ceil_log10_spec (Qabs d + log_offset)) as (_ & B & _).
    change (ceil_log10 (Qabs d + log_offset)) with e in B.
    pose proof (pow10_pos (e - 1)) as Pe.
    destruct B as [B|B].
    + assert (Pe1 : pow10 (e - 1) <= log_offset).
      { rewrite B. vm_compute. discriminate. }
      eapply Qle_trans; [exact R|]. nra.
    + eapply Qle_trans; [exact R|]. nra.
Qed.

(* idempotence for the decimal columns (times): unconditional *)
Theorem round_spec_idem_dec (dig : Z) (d : Q) :
  (dig <= 0)%Z -> round_spec dig (round_spec dig d) = round_spec dig d.
Proof.
  intro H. destruct (Qeq_bool (round_spec dig d) neg_zero) eqn:E.
  - apply round_spec_passthrough. exact E.
  - unfold round_spec at 1. rewrite E.
    assert (F : (0 <? dig)%Z = false) by (apply Z.ltb_ge; exact H). rewrite F.
    unfold round_spec. destruct (Qeq_bool d neg_zero) eqn:G.
    + unfold round_spec in E. rewrite G in E. congruence.
    + rewrite F. apply round_dec_idem.
Qed.

(* idempotence for the significant-digit columns when the exponent found for the rounded value is
   not larger than the one found for the input (it can only be larger when the rounded value is
   exactly a power of ten; see DESIGN.md C02 for the paper argument that this is harmless) *)
Theorem round_spec_idem_partial (dig : Z) (d : Q) :
  (dig <= 0 \/ sig_exp (round_spec dig d) <= sig_exp d)%Z ->
  round_spec dig (round_spec dig d) = round_spec dig d.
Proof.
  intros [H|H]; [apply round_spec_idem_dec; exact H|].
  destruct (Z_le_gt_dec dig 0) as [L|L]; [apply round_spec_idem_dec; exact L|].
  assert (F : (0 <? dig)%Z = true) by (apply Z.ltb_lt; lia).
  destruct (Qeq_bool d neg_zero) eqn:G.
  - rewrite (round_spec_passthrough dig d G). apply round_spec_passthrough. exact G.
  - pose proof (round_spec_sig_eq dig d G ltac:(lia)) as R.
    rewrite R in *.
    destruct (Qeq_bool (round_dec (dig - sig_exp d) d) neg_zero) eqn:E.
    + apply round_spec_passthrough. exact E.
    + rewrite (round_spec_sig_eq dig _ E ltac:(lia)). apply round_dec_finer. lia.
Qed.

(* ---- canonical representatives (library keys are tuples of Qc) ------------------------------------ *)
Definition canonQ (q : Q) : Prop := Qred q = q.

Lemma round_spec_canon (dig : Z) (d : Q) : canonQ d -> canonQ (round_spec dig d).
Proof.
  intro C. unfold round_spec. destruct (Qeq_bool d neg_zero); [exact C|].
  destruct (0 <? dig)%Z; apply round_dec_canon.
Qed.

(* ---- rows -------------------------------------------------------------------------------------------- *)
Definition col_stable (dig : Z) (d : Q) : Prop :=
  (dig <= 0 \/ sig_exp (round_spec dig d) <= sig_exp d)%Z.

Fixpoint row_stable (digs : list Z) (row : list Q) : Prop :=
  match digs, row with
  | dg :: ds, d :: r => col_stable dg d /\ row_stable ds r
  | _, _ => True
  end.

Theorem round_row_idem_partial (digs : list Z) : forall row,
  row_stable digs row -> round_row digs (round_row digs row) = round_row digs row.
Proof.
  induction digs as [|dg ds IH]; intros [|d r] H; cbn [round_row]; try reflexivity.
  destruct H as [H1 H2]. f_equal; [apply round_spec_idem_partial; exact H1|apply IH; exact H2].
Qed.

Theorem round_all_idem_partial (dig : Z) (row : list Q) :
  Forall (col_stable dig) row -> round_all dig (round_all dig row) = round_all dig row.
Proof.
  unfold round_all. induction 1 as [|d r H _ IH]; cbn [map]; [reflexivity|].
  f_equal; [apply round_spec_idem_partial; exact H|exact IH].
Qed.

Lemma round_row_canon (digs : list Z) : forall row, Forall canonQ row -> Forall canonQ (round_row digs row).
Proof.
  induction digs as [|dg ds IH]; intros [|d r] H; cbn [round_row]; try constructor.
  - apply round_spec_canon. inversion H; assumption.
  - apply IH. inversion H; assumption.
Qed.

Lemma round_all_canon (dig : Z) (row : list Q) : Forall canonQ row -> Forall canonQ (round_all dig row).
Proof.
  unfold round_all. induction 1; cbn [map]; constructor; [apply round_spec_canon; assumption|assumption].
Qed.

Lemma round_row_length (digs : list Z) : forall row,
  length (round_row digs row) = Nat.min (length digs) (length row).
Proof.
  induction digs as [|dg ds IH]; intros [|d r]; cbn [round_row length Nat.min]; try reflexivity.
  rewrite IH. reflexivity.
Qed.

Lemma round_row_nth (digs : list Z) : forall row n dg d,
  nth_error digs n = Some dg -> nth_error row n = Some d ->
  nth_error (round_row digs row) n = Some (round_spec dg d).
Proof.
  induction digs as [|g ds IH]; intros [|x r] [|n] dg d H1 H2; cbn in *; try discriminate.
  - inversion H1. inversion H2. reflexivity.
  - apply IH; assumption.
Qed.

(* column-wise error statement for a whole row, for any digit tuple *)
Definition col_err_ok (dig : Z) (d r : Q) : Prop :=
  if (0 <? dig)%Z then Qabs (r - d) <= (5 # 1) * pow10 (- dig) * (Qabs d + log_offset)
  else Qabs (r - d) <= (1 # 2) * pow10 dig.

Theorem round_spec_col_err (dig : Z) (d : Q) : col_err_ok dig d (round_spec dig d).
Proof.
  unfold col_err_ok. destruct (0 <? dig)%Z eqn:E.
  - apply round_spec_err_sig. apply Z.ltb_lt. exact E.
  - apply round_spec_err_dec. apply Z.ltb_ge. exact E.
Qed.

Theorem round_row_err (digs : list Z) (row : list Q) n dg d :
  nth_error digs n = Some dg -> nth_error row n = Some d ->
  exists r, nth_error (round_row digs row) n = Some r /\ col_err_ok dg d r.
Proof.
  intros H1 H2. exists (round_spec dg d). split; [apply (round_row_nth _ _ _ _ _ H1 H2)|apply round_spec_col_err].
Qed.

(* integers survive every rounding with dig <= 0 (shape-id columns of gradient and RF rows) *)
Lemma inject_Z_not_neg_zero (z : Z) : Qeq_bool (inject_Z z) neg_zero = false.
Proof.
  destruct (Qeq_bool (inject_Z z) neg_zero) eqn:E; [|reflexivity].
  apply Qeq_bool_iff in E. unfold Qeq, neg_zero, inject_Z in E. cbn [Qnum Qden] in E. lia.
Qed.

Lemma round_spec_int (dig : Z) (z : Z) : (dig <= 0)%Z -> round_spec dig (inject_Z z) == inject_Z z.
Proof.
  intro H. unfold round_spec. rewrite inject_Z_not_neg_zero.
  assert (E : (0 <? dig)%Z = false) by (apply Z.ltb_ge; exact H). rewrite E.
  apply (round_dec_on_grid 0 (- dig) z); [lia|]. rewrite pow10_0. ring.
Qed.

(* ================================================================================================ *)
(* round 2: idempotence of the significant-digit rounding INCLUDING the carry to the next power of ten  *)
(* ================================================================================================ *)
(* ---- unconditional idempotence of the significant-digit rounding --------------------------------- *)
Lemma rnd_he_ge (a : Z) (x : Q) : inject_Z a <= x -> (a <= rnd_he x)%Z.
Proof.
  intro H. pose proof (rnd_he_err x) as E. apply Qabs_Qle_condition in E. unfold Qhalf in E.
  destruct E as [_ E2].
  assert (L : inject_Z a - 1 < inject_Z (rnd_he x)) by lra.
  change 1 with (inject_Z 1) in L. unfold Qminus in L. rewrite <- inject_Z_opp, <- inject_Z_plus in L.
  rewrite <- Zlt_Qlt in L. lia.
Qed.
Lemma rnd_he_le (b : Z) (x : Q) : x <= inject_Z b -> (rnd_he x <= b)%Z.
Proof.
  intro H. pose proof (rnd_he_err x) as E. apply Qabs_Qle_condition in E. unfold Qhalf in E.
  destruct E as [E1 _].
  assert (L : inject_Z (rnd_he x) < inject_Z b + 1) by lra.
  change 1 with (inject_Z 1) in L. rewrite <- inject_Z_plus in L.
  rewrite <- Zlt_Qlt in L. lia.
Qed.
Lemma rnd_he_abs_le (b : Z) (x : Q) : Qabs x <= inject_Z b -> (Z.abs (rnd_he x) <= b)%Z.
Proof.
  intro H. apply Qabs_Qle_condition in H. destruct H as [H1 H2].
  rewrite <- inject_Z_opp in H1. apply rnd_he_ge in H1. apply rnd_he_le in H2. lia.
Qed.

Lemma pow10_lt (a b : Z) : (a < b)%Z -> pow10 a < pow10 b.
Proof.
  intro H. replace b with (a + (b - a))%Z by lia. rewrite pow10_plus.
  assert (P : 1 < pow10 (b - a)).
  { rewrite pow10_nonneg_int by lia.
    assert (T : (10 ^ 1 <= 10 ^ (b - a))%Z) by (apply Z.pow_le_mono_r; lia).
    change 1 with (inject_Z 1). rewrite <- Zlt_Qlt. change (10 ^ 1)%Z with 10%Z in T. lia. }
  pose proof (pow10_pos a) as Pa. nra.
Qed.
Lemma pow10_lt_inv (a b : Z) : pow10 a < pow10 b -> (a < b)%Z.
Proof.
  intro H. destruct (Z_lt_ge_dec a b) as [L|L]; [exact L|]. exfalso.
  pose proof (pow10_mono b a ltac:(lia)). lra.
Qed.

Lemma Qabs_inject_mult (z : Z) (g : Q) : 0 < g -> Qabs (inject_Z z * g) == inject_Z (Z.abs z) * g.
Proof. intro H. rewrite Qabs_Qmult, (Qabs_pos g) by lra. reflexivity. Qed.

Lemma sig_exp_spec (d : Q) :
  let e := sig_exp d in
  (-12 <= e <= 388)%Z /\ (e = (-12)%Z \/ pow10 (e - 1) < Qabs d + log_offset) /\
  ((e < 388)%Z -> Qabs d + log_offset <= pow10 e).
Proof. exact (ceil_log10_spec (Qabs d + log_offset)). Qed.

Lemma canonQ_eq (a b : Q) : Qred a = a -> Qred b = b -> a == b -> a = b.
Proof. intros A B E. rewrite <- A, <- B. apply Qred_complete. exact E. Qed.

(* the carry case: the rounded value has a larger exponent than the input.  Then it is exactly
   +-10^e (e the input's exponent), its exponent is e+1, and 10^e lies on the coarser grid too. *)
Lemma round_sig_carry (dig : Z) (d : Q) (e e' : Z) (r : Q) :
  (0 < dig)%Z -> e = sig_exp d -> r = round_dec (dig - e) d -> e' = sig_exp r -> (e < e')%Z ->
  e' = (e + 1)%Z /\ exists s : Z, (s = 1 \/ s = -1)%Z /\ r == inject_Z (s * 10 ^ (dig - 1)) * pow10 (- (dig - (e + 1))).
Proof.
  intros Hd He Hr He' Hlt.
  destruct (sig_exp_spec d) as (Be & _ & Ue). rewrite <- He in Be, Ue.
  destruct (sig_exp_spec r) as (Br & Lr & _). rewrite <- He' in Br, Lr.
  assert (X : Qabs d + log_offset <= pow10 e) by (apply Ue; lia).
  assert (Y : pow10 e < Qabs r + log_offset).
  { destruct Lr as [Lr|Lr]; [lia|]. eapply Qle_lt_trans; [|exact Lr]. apply pow10_mono. lia. }
  assert (Rv0 : r == inject_Z (mant (dig - e) d) * pow10 (e - dig)).
  { rewrite Hr, round_dec_val. replace (- (dig - e))%Z with (e - dig)%Z by lia. reflexivity. }
  assert (GK0 : pow10 (e - dig) * pow10 (dig - e) == 1).
  { rewrite <- pow10_plus. replace (e - dig + (dig - e))%Z with 0%Z by lia. reflexivity. }
  assert (ZK : mant (dig - e) d = rnd_he (d * pow10 (dig - e))) by reflexivity.
  assert (PN0 : pow10 e == inject_Z (10 ^ dig) * pow10 (e - dig)).
  { rewrite <- pow10_nonneg_int by lia. rewrite <- pow10_plus. replace (dig + (e - dig))%Z with e by lia. reflexivity. }
  assert (G10 : pow10 (- (dig - (e + 1))) == (10 # 1) * pow10 (e - dig)).
  { replace (- (dig - (e + 1)))%Z with ((e - dig) + 1)%Z by lia. rewrite pow10_succ. ring. }
  assert (OgA : (-12 <= e - dig)%Z -> log_offset <= pow10 (e - dig)) by (intro CA; rewrite log_offset_pow; apply pow10_mono; exact CA).
  assert (OMB : (e - dig < -12)%Z -> log_offset == inject_Z (10 ^ (dig - e - 12)) * pow10 (e - dig)).
  { intro CB. rewrite <- pow10_nonneg_int by lia. rewrite <- pow10_plus.
    replace (dig - e - 12 + (e - dig))%Z with (-12)%Z by lia. apply log_offset_pow. }
  assert (Pg : 0 < pow10 (e - dig)) by apply pow10_pos. assert (PK : 0 < pow10 (dig - e)) by apply pow10_pos.
  assert (Oe : log_offset <= pow10 e) by (rewrite log_offset_pow; apply pow10_mono; lia).
  assert (S10 : pow10 (e + 1) == pow10 e * (10 # 1)) by apply pow10_succ.
  assert (LT' : pow10 (e' - 1) < pow10 (e + 1) -> (e' - 1 < e + 1)%Z) by apply pow10_lt_inv.
  remember (mant (dig - e) d) as z eqn:Hz. remember (pow10 (e - dig)) as g eqn:Hg. remember (pow10 (dig - e)) as K eqn:HK.
  remember (pow10 e) as P eqn:HP. remember (pow10 (e + 1)) as P1 eqn:HP1. remember (pow10 (e' - 1)) as P' eqn:HP'.
  remember (pow10 (- (dig - (e + 1)))) as g1 eqn:Hg1.
  clear He Hr He' Ue.
  pose proof Rv0 as Rv. pose proof GK0 as GK. pose proof PN0 as PN.
  assert (Ra : Qabs r == inject_Z (Z.abs z) * g) by (rewrite Rv; apply Qabs_inject_mult; exact Pg).
  assert (E10 : (10 ^ dig = 10 * 10 ^ (dig - 1))%Z).
  { replace dig with (Z.succ (dig - 1)) at 1 by lia. apply Z.pow_succ_r. lia. }
  remember (10 ^ dig)%Z as N eqn:HN. remember (10 ^ (dig - 1))%Z as N1 eqn:HN1.
  assert (Oo : 0 < log_offset) by reflexivity.
  assert (Qa : Qabs (d * K) == Qabs d * K) by (rewrite Qabs_Qmult, (Qabs_pos K) by lra; reflexivity).
  pose proof (Qabs_nonneg d) as Dn.
  destruct (Z_le_gt_dec (-12) (e - dig)) as [CA|CB].
  - (* the grid is not finer than the offset *)
    assert (Og : log_offset <= g) by (apply OgA; exact CA).
    assert (ZU : (Z.abs z <= N)%Z).
    { rewrite ZK. apply rnd_he_abs_le. rewrite Qa.
      assert (NK : inject_Z N == P * K).
      { rewrite PN. setoid_replace (inject_Z N * g * K) with (inject_Z N * (g * K)) by ring. rewrite GK. ring. }
      rewrite NK. apply Qmult_le_compat_r; lra. }
    assert (ZL : (N <= Z.abs z)%Z).
    { assert (T : inject_Z N * g < (inject_Z (Z.abs z) + 1) * g) by (rewrite <- PN, Ra in *; lra).
      apply Qmult_lt_r in T; [|exact Pg]. change 1 with (inject_Z 1) in T. rewrite <- inject_Z_plus, <- Zlt_Qlt in T. lia. }
    assert (ZE : Z.abs z = N) by lia.
    assert (RA : Qabs r == P) by (rewrite Ra, ZE, PN; reflexivity).
    assert (E' : e' = (e + 1)%Z).
    { assert (T : P' < P1).
      { destruct Lr as [Lr|Lr]; [lia|]. eapply Qlt_le_trans; [exact Lr|]. rewrite RA, S10. lra. }
      apply LT' in T. lia. }
    split; [exact E'|].
    assert (C : (z = N \/ z = - N)%Z) by lia.
    destruct C as [C|C].
    + exists 1%Z. split; [left; reflexivity|]. rewrite Rv, C, E10, G10, Z.mul_1_l, inject_Z_mult.
      change (inject_Z 10) with (10 # 1). ring.
    + exists (-1)%Z. split; [right; reflexivity|]. rewrite Rv, C, E10, G10.
      replace (-1 * N1)%Z with (- N1)%Z by lia. rewrite !inject_Z_opp, inject_Z_mult.
      change (inject_Z 10) with (10 # 1). ring.
  - (* the grid is finer than the offset: the offset is a whole number of grid steps and no carry
       can reach 10^e; contradiction *)
    exfalso. assert (OM := OMB ltac:(lia)). remember (10 ^ (dig - e - 12))%Z as M eqn:HM.
    assert (ZU : (Z.abs z <= N - M)%Z).
    { rewrite ZK. apply rnd_he_abs_le. rewrite Qa.
      setoid_replace (inject_Z (N - M)) with ((P - log_offset) * K).
      - apply Qmult_le_compat_r; lra.
      - unfold Zminus. rewrite inject_Z_plus, inject_Z_opp, PN, OM.
        setoid_replace ((inject_Z N * g - inject_Z M * g) * K) with ((inject_Z N - inject_Z M) * (g * K)) by ring.
        rewrite GK. ring. }
    assert (T : inject_Z (Z.abs z) * g <= (inject_Z N - inject_Z M) * g).
    { apply Qmult_le_compat_r; [|lra].
      setoid_replace (inject_Z N - inject_Z M) with (inject_Z (N - M))
        by (unfold Zminus; rewrite inject_Z_plus, inject_Z_opp; reflexivity).
      rewrite <- Zle_Qle. exact ZU. }
    rewrite Ra, PN, OM in Y. lra.
Qed.

Theorem round_spec_idem_sig (dig : Z) (d : Q) : (0 < dig)%Z -> round_spec dig (round_spec dig d) = round_spec dig d.
Proof.
  intro Hd. destruct (Qeq_bool d neg_zero) eqn:G.
  - rewrite (round_spec_passthrough dig d G). apply round_spec_passthrough. exact G.
  - pose proof (round_spec_sig_eq dig d G Hd) as R.
    destruct (Z_le_gt_dec (sig_exp (round_spec dig d)) (sig_exp d)) as [L|L].
    + apply round_spec_idem_partial. right. exact L.
    + rewrite R in *. set (r := round_dec (dig - sig_exp d) d) in *.
      destruct (Qeq_bool r neg_zero) eqn:E; [apply round_spec_passthrough; exact E|].
      rewrite (round_spec_sig_eq dig r E Hd).
      destruct (round_sig_carry dig d (sig_exp d) (sig_exp r) r Hd eq_refl eq_refl eq_refl ltac:(lia)) as (E' & s & _ & Rs).
      rewrite E'.
      apply canonQ_eq; [apply round_dec_canon|apply round_dec_canon|].
      apply (round_dec_on_grid (dig - (sig_exp d + 1)) (dig - (sig_exp d + 1)) (s * 10 ^ (dig - 1)) r); [lia|exact Rs].
Qed.

Theorem round_spec_idem (dig : Z) (d : Q) : round_spec dig (round_spec dig d) = round_spec dig d.
Proof.
  destruct (Z_le_gt_dec dig 0) as [L|L]; [apply round_spec_idem_dec; exact L|apply round_spec_idem_sig; lia].
Qed.

Theorem round_row_idem (digs : list Z) : forall row, round_row digs (round_row digs row) = round_row digs row.
Proof.
  induction digs as [|dg ds IH]; intros [|d r]; cbn [round_row]; try reflexivity.
  f_equal; [apply round_spec_idem|apply IH].
Qed.

Theorem round_all_idem (dig : Z) (row : list Q) : round_all dig (round_all dig row) = round_all dig row.
Proof.
  unfold round_all. induction row as [|d r IH]; cbn [map]; [reflexivity|]. f_equal; [apply round_spec_idem|exact IH].
Qed.
