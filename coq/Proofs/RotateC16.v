(* Proofs/RotateC16.v — rotate with add_gradients INSTANTIATED by the model of property C16
   (Model/AddGrad.v) instead of an abstract "pointwise sum" hypothesis, for trapezoid /
   extended-trapezoid inputs that one block can hold (C05Legal of Proofs/AddGradLegal.v).
   Bridge: to_ag / of_ag between the event records of Model/GradOps.v and Model/AddGrad.v. *)
From Coq Require Import ZArith QArith Qround Qabs Lia Lqa List Bool Setoid Morphisms.
From PV Require Import Base.QUtil Base.Round Base.PWL Gen.GenGradOps Model.GradOps
                       Proofs.GradOpsProofs Proofs.RotateProofs Proofs.RotateDrop.
From PV Require Gen.GenAddGrad Model.AddGrad Proofs.AddGradProofs Proofs.AddGradLegal.
From PV Require Import Model.GradBridge.
Import ListNotations.
Open Scope Q_scope.

(* ---- renderings agree -------------------------------------------------------------------------------- *)
Definition ag_shape_ok (g : AddGrad.grad) : Prop :=
  match g with
  | AddGrad.GTrap t => 0 <= AddGrad.tr_flat t
  | AddGrad.GExt e => AddGrad.eg_tt e <> [] /\ hd 0 (AddGrad.eg_tt e) == 0
  end.

Lemma render_of_ag r ch G t : ag_shape_ok G -> gev r (of_ag ch G) t == eval (AddGrad.to_pwl G) t.
Proof.
  intro H. unfold gev. destruct G as [tr|e]; cbn [of_ag to_pwl AddGrad.to_pwl t_delay e_delay].
  - cbn [ag_shape_ok] in H. apply eval_pwl_eq.
    unfold trap_corners, AddGrad.trap_pwl, AddGrad.Qgtb. cbn [t_flat t_rise t_fall t_amp].
    destruct (Qeq_bool (AddGrad.tr_flat tr) 0) eqn:E1; destruct (Qltb 0 (AddGrad.tr_flat tr)) eqn:E2.
    + apply Qeq_bool_iff in E1. apply Qltb_lt in E2. lra.
    + cbn [shift map fst snd]. repeat (constructor; [cbn [fst snd]; split; [ring|reflexivity]|]). constructor.
    + cbn [shift map fst snd]. repeat (constructor; [cbn [fst snd]; split; [ring|reflexivity]|]). constructor.
    + apply Qeqb_neq in E1. apply Qltb_ge in E2. lra.
  - cbn [ag_shape_ok] in H. destruct H as [Hne H0].
    unfold egrad_corners. cbn [e_tt e_wf e_first e_last].
    destruct (AddGrad.eg_tt e) as [|t0 tl] eqn:Et; [congruence|]. cbn [hd] in H0.
    rewrite (is_arb_head_zero r t0 tl H0).
    assert (E : Qeq_bool t0 0 = true) by (apply Qeq_bool_iff; exact H0). cbn [hd]. rewrite E.
    unfold AddGrad.ext_pwl. rewrite Et. reflexivity.
Qed.

Lemma render_to_ag r g t : ag_shape_ok (to_ag g) -> eval (AddGrad.to_pwl (to_ag g)) t == gev r g t.
Proof.
  intro H. rewrite <- (render_of_ag r (g_ch g) (to_ag g) t H). unfold gev.
  destruct g as [tr|e]; reflexivity.
Qed.

Lemma wf_shape_ok g : AddGradProofs.WF g -> ag_shape_ok g.
Proof.
  destruct g as [t|e]; cbn [AddGradProofs.WF ag_shape_ok]; [tauto|]. intros (_ & A & B & _). split; assumption.
Qed.

Lemma gsum_to_ag r l t : (forall g, In g l -> AddGradProofs.WF (to_ag g)) ->
  sum_eval (map AddGrad.to_pwl (map to_ag l)) t == gsum r l t.
Proof.
  induction l as [|g l IH]; intro H; [reflexivity|]. cbn [map sum_eval fold_right gsum].
  fold (sum_eval (map AddGrad.to_pwl (map to_ag l)) t).
  rewrite IH by (intros x Hx; apply H; right; exact Hx).
  rewrite (render_to_ag r g t) by (apply wf_shape_ok; apply H; left; reflexivity). reflexivity.
Qed.

(* ---- inversion of the model of add_gradients --------------------------------------------------------- *)
Lemma add_single_inv s mg ms L G : AddGrad.add_gradients s mg ms L = AddGrad.OK (AddGrad.P_single, G) -> L = [G].
Proof.
  unfold AddGrad.add_gradients. destruct L as [|g0 [|g1 rest]]; cbv beta iota zeta; try discriminate.
  - intro H. injection H as <-. reflexivity.
  - destruct (AddGrad.same_timing (g0 :: g1 :: rest)).
    + destruct g0; [|discriminate]. destruct (AddGrad.make_trap_amp _ _ _ _ _ _ _); discriminate.
    + destruct (forallb _ _).
      * destruct (AddGrad.make_ext_trap _ _ _ _); discriminate.
      * destruct (AddGrad.make_arb _ _ _ _ _ _ _); discriminate.
Qed.

Lemma add_raster_inv_arb s mg ms L G :
  AddGrad.add_gradients s mg ms L = AddGrad.OK (AddGrad.P_raster, G) ->
  forallb (fun g => AddGrad.is_trap g || negb (AddGrad.is_arb s g)) L = false.
Proof.
  unfold AddGrad.add_gradients. destruct L as [|g0 [|g1 rest]]; cbv beta iota zeta; try discriminate.
  destruct (AddGrad.same_timing (g0 :: g1 :: rest)).
  - destruct g0; [|discriminate]. destruct (AddGrad.make_trap_amp _ _ _ _ _ _ _); discriminate.
  - destruct (forallb _ _) eqn:E; [|reflexivity].
    destruct (AddGrad.make_ext_trap _ _ _ _); discriminate.
Qed.

Lemma make_trap_amp_flat mg ms a rise flat fall d G :
  AddGrad.make_trap_amp mg ms a rise flat fall d = AddGrad.OK G ->
  exists t', G = AddGrad.GTrap t' /\ AddGrad.tr_flat t' = flat.
Proof.
  unfold AddGrad.make_trap_amp.
  destruct (AddGrad.Qgtb _ _); [discriminate|]. destruct (AddGrad.Qgtb _ _); [discriminate|].
  destruct (AddGrad.Qgtb _ _); [discriminate|]. intro H. injection H as <-.
  eexists. split; reflexivity.
Qed.

Lemma make_ext_trap_shape s mg ms p G :
  AddGrad.make_ext_trap s mg ms p = AddGrad.OK G ->
  0 < AddGrad.s_raster s -> (exists k : Z, hd 0 (times p) == inject_Z k * AddGrad.s_raster s) ->
  ag_shape_ok G.
Proof.
  unfold AddGrad.make_ext_trap. intros H Hr (k & Hk).
  destruct (forallb (fun t => Qeq_bool t 0) (times p)) eqn:A1; [discriminate|].
  destruct (existsb (fun d => Qle_bool d 0) (AddGrad.diffs (times p))); [discriminate|].
  destruct (negb (AddGrad.on_raster (AddGrad.s_raster s) (last (times p) 0))); [discriminate|].
  destruct (AddGrad.Qgtb (hd 0 (times p)) 0 && negb (Qeq_bool (hd 0 (values p)) 0)); [discriminate|].
  destruct (negb (forallb (AddGrad.on_raster (AddGrad.s_raster s)) (times p))); [discriminate|].
  set (delay := inject_Z (rnd_he (hd 0 (times p) / AddGrad.s_raster s)) * AddGrad.s_raster s) in *.
  destruct (AddGrad.div_lists _ _); [discriminate|].
  destruct (AddGrad.Qgtb _ _); [discriminate|]. destruct (AddGrad.Qgtb _ _); [discriminate|].
  injection H as <-.
  assert (Hd : delay == hd 0 (times p)).
  { unfold delay.
    assert (E : hd 0 (times p) / AddGrad.s_raster s == inject_Z k) by (rewrite Hk; field; lra).
    assert (E' : rnd_he (hd 0 (times p) / AddGrad.s_raster s) = rnd_he (inject_Z k)) by (apply rnd_he_Proper; exact E).
    rewrite E', rnd_he_inject. symmetry. exact Hk. }
  destruct p as [|[t0 v0] p]; [discriminate|].
  cbn [ag_shape_ok AddGrad.eg_tt times map fst hd] in *. split; [discriminate|]. lra.
Qed.

Lemma g_ch_of_ag ch G : g_ch (of_ag ch G) = ch.
Proof. destruct G; reflexivity. Qed.

(* ---- the lists add_gradients is applied to --------------------------------------------------------- *)
(* what one block can hold (C05Legal, exact version of the C05 rules) and no raster-sampled shape *)
Definition LegalList (s : sys) (D : Q) (l : list grad) : Prop :=
  AddGradLegal.C05Legal (ag_sys s) D (map to_ag l) /\
  forallb (fun g => AddGrad.is_trap g || negb (AddGrad.is_arb (ag_sys s) g)) (map to_ag l) = true.

(* property C16 instantiated: on such lists the model of add_gradients returns the pointwise sum up to
   eps = 1e-9 (the code's `+ eps` on the amplitude of the equal-timing path; exact on the other paths),
   on the channel of the first summand, as a trapezoid or an extended trapezoid *)
Theorem add_c16_approx s D l g : l <> [] -> LegalList s D l -> add_c16 s l = OK g ->
  (forall t, Qabs (gev (raster s) g t - gsum (raster s) l t) <= AddGrad.eps) /\
  g_ch g = g_ch (hd g l) /\ not_arb (raster s) g.
Proof.
  intros Hne [HL Harb] H. set (r := raster s).
  destruct l as [|g0 l']; [congruence|]. unfold add_c16 in H.
  destruct l' as [|g1 l''].
  { injection H as <-. split; [|split].
    - intro t. cbn [gsum]. setoid_replace (gev r g0 t - (gev r g0 t + 0)) with 0 by ring.
      pose proof AddGradProofs.eps_pos. cbn [Qabs Z.abs]. lra.
    - reflexivity.
    - assert (W : AddGradProofs.WF (to_ag g0)) by (apply (AddGradLegal.cl_wf _ _ _ HL); left; reflexivity).
      destruct g0 as [t0|e0]; cbn [not_arb]; [exact I|]. cbn [to_ag AddGradProofs.WF AddGrad.eg_tt] in W.
      destruct W as (_ & Hn & H0 & _). destruct (e_tt e0) as [|t0 tl]; [congruence|]. apply is_arb_head_zero. exact H0. }
  set (l' := g1 :: l'') in *.
  destruct (AddGrad.add_gradients (ag_sys s) 0 0 (map to_ag (g0 :: l'))) as [[path G]|] eqn:Ea; [|discriminate].
  injection H as <-.
  assert (Hwf : forall x, In x (g0 :: l') -> AddGradProofs.WF (to_ag x)).
  { intros x Hx. apply (AddGradLegal.cl_wf _ _ _ HL). apply in_map. exact Hx. }
  assert (Hwf' : forall x, In x (map to_ag (g0 :: l')) -> AddGradProofs.WF x).
  { intros x Hx. apply (AddGradLegal.cl_wf _ _ _ HL). exact Hx. }
  pose proof (gsum_to_ag r (g0 :: l')) as GS.
  pose proof AddGradProofs.eps_pos as Hep.
  assert (Shape : ag_shape_ok G -> (forall t, Qabs (eval (AddGrad.to_pwl G) t
                     - sum_eval (map AddGrad.to_pwl (map to_ag (g0 :: l'))) t) <= AddGrad.eps) ->
          (forall t, Qabs (gev r (of_ag (g_ch g0) G) t - gsum r (g0 :: l') t) <= AddGrad.eps) /\
          g_ch (of_ag (g_ch g0) G) = g_ch (hd (of_ag (g_ch g0) G) (g0 :: l')) /\ not_arb r (of_ag (g_ch g0) G)).
  { intros Hs Hv. split; [|split].
    - intro t. rewrite (render_of_ag r _ G t Hs), <- (GS t Hwf). apply Hv.
    - apply g_ch_of_ag.
    - destruct G as [tr|e]; cbn [of_ag not_arb e_tt]; [exact I|].
      destruct Hs as [Hn H0]. destruct (AddGrad.eg_tt e) as [|t0 tl]; [congruence|].
      apply is_arb_head_zero. exact H0. }
  destruct path.
  - (* one summand: impossible here, the list has two or more elements *)
    apply add_single_inv in Ea. subst l'. discriminate.
  - (* equal-timing trapezoids *)
    apply Shape.
    + destruct (AddGradProofs.add_gradients_trap_inv _ _ _ _ _ Ea) as (t0 & rest & mg' & ms' & EL & _ & Hm).
      destruct (make_trap_amp_flat _ _ _ _ _ _ _ _ Hm) as (t' & -> & Ef). cbn [ag_shape_ok]. rewrite Ef.
      assert (W : AddGradProofs.WF (AddGrad.GTrap t0)) by (apply Hwf'; rewrite EL; left; reflexivity).
      cbn [AddGradProofs.WF] in W. tauto.
    + exact (AddGradProofs.add_trap_path_sum_eps _ _ _ _ _ Ea Hwf').
  - (* union of corner times: exact *)
    apply Shape.
    + destruct (AddGradProofs.add_gradients_ext_inv _ _ _ _ _ Ea) as (mg' & ms' & Hm).
      pose proof (AddGradLegal.c05_legal_inputs_ok _ _ _ HL) as Hok.
      destruct (AddGradProofs.eio_raster _ _ Hok) as [Hr Hk].
      apply (make_ext_trap_shape _ _ _ _ _ Hm Hr).
      unfold AddGrad.ext_sum. rewrite times_psum_on, (AddGradProofs.ext_times_T0 _ _ Hok). exact Hk.
    + intro t. rewrite (AddGradLegal.add_ext_path_sum_legal _ _ _ _ _ _ Ea HL t).
      setoid_replace (sum_eval (map AddGrad.to_pwl (map to_ag (g0 :: l'))) t
                      - sum_eval (map AddGrad.to_pwl (map to_ag (g0 :: l'))) t) with 0 by ring.
      cbn [Qabs Z.abs]. lra.
  - (* raster path: excluded, no raster-sampled input *)
    apply add_raster_inv_arb in Ea. congruence.
Qed.

(* ---- legality is preserved by what rotate does to its inputs (scaling, re-channelling, dropping) ------ *)
Definition ag_scale (k : Q) (g : AddGrad.grad) : AddGrad.grad :=
  match g with
  | AddGrad.GTrap t => AddGrad.GTrap (AddGrad.mkTrap (AddGrad.tr_amp t * k) (AddGrad.tr_rise t) (AddGrad.tr_flat t)
                                                     (AddGrad.tr_fall t) (AddGrad.tr_delay t))
  | AddGrad.GExt e => AddGrad.GExt (AddGrad.mkEG (AddGrad.eg_delay e) (AddGrad.eg_tt e)
                                                 (map (fun w => w * k) (AddGrad.eg_wf e)) (AddGrad.eg_first e * k)
                                                 (AddGrad.eg_last e * k) (AddGrad.eg_shape_dur e))
  end.

Lemma to_ag_scale g k : to_ag (scale_grad g k) = ag_scale k (to_ag g).
Proof. destruct g as [t|e]; reflexivity. Qed.
Lemma to_ag_set_ch g a : to_ag (set_ch g a) = to_ag g.
Proof. destruct g as [t|e]; reflexivity. Qed.

Lemma hd_map_scale k (wf : list Q) : hd 0 (map (fun w => w * k) wf) == hd 0 wf * k.
Proof. destruct wf; cbn [map hd]; ring. Qed.
Lemma last_map_scale k (wf : list Q) : last (map (fun w => w * k) wf) 0 == last wf 0 * k.
Proof.
  induction wf as [|w wf IH]; [cbn; ring|]. destruct wf as [|w1 wf]; [cbn [map last]; reflexivity|].
  change (map (fun w0 => w0 * k) (w :: w1 :: wf)) with (w * k :: map (fun w0 => w0 * k) (w1 :: wf)).
  change (map (fun w0 => w0 * k) (w1 :: wf)) with (w1 * k :: map (fun w0 => w0 * k) wf) at 1.
  cbn [last]. exact IH.
Qed.

Lemma legal_transfer s D L L' :
  AddGradLegal.C05Legal s D L -> L' <> [] ->
  (forall x, In x L' -> exists y k, In y L /\ x = ag_scale k y) ->
  AddGradLegal.C05Legal s D L'.
Proof.
  intros HL Hne Hsc. constructor.
  - exact Hne.
  - intros x Hx. destruct (Hsc x Hx) as (y & k & Hy & ->).
    destruct (AddGradLegal.cl_wf _ _ _ HL y Hy) as [W F].
    destruct y as [t|e]; cbn [ag_scale AddGradProofs.WF AddGradLegal.FieldsOk] in *.
    + split; [exact W|exact I].
    + cbn [AddGrad.eg_tt AddGrad.eg_wf AddGrad.eg_first AddGrad.eg_last AddGrad.eg_shape_dur].
      destruct W as (W1 & W2 & W3 & W4). destruct F as (F1 & F2 & F3).
      split; [repeat split; try assumption; rewrite map_length; exact W4|].
      split; [rewrite hd_map_scale, F1; reflexivity|]. split; [rewrite last_map_scale, F2; reflexivity|exact F3].
  - exact (AddGradLegal.cl_raster _ _ _ HL).
  - intros x c Hx Hc. destruct (Hsc x Hx) as (y & k & Hy & ->).
    apply (AddGradLegal.cl_on_raster _ _ _ HL y c Hy). destruct y; exact Hc.
  - intros x Hx. destruct (Hsc x Hx) as (y & k & Hy & ->).
    pose proof (AddGradLegal.cl_delay _ _ _ HL y Hy). destruct y; assumption.
  - intros x Hx. destruct (Hsc x Hx) as (y & k & Hy & ->).
    pose proof (AddGradLegal.cl_dur _ _ _ HL y Hy). destruct y; assumption.
  - intros x Hx Hn. destruct (Hsc x Hx) as (y & k & Hy & ->).
    pose proof (AddGradLegal.cl_start _ _ _ HL y Hy) as Hs.
    destruct y as [t|e]; cbn [ag_scale AddGrad.g_first AddGrad.g_delay AddGrad.eg_first AddGrad.eg_delay AddGrad.tr_delay] in *.
    + exfalso. apply Hn. reflexivity.
    + apply Hs. intro Z. apply Hn. rewrite Z. ring.
  - intros x Hx Hn. destruct (Hsc x Hx) as (y & k & Hy & ->).
    pose proof (AddGradLegal.cl_end _ _ _ HL y Hy) as Hs.
    destruct y as [t|e]; cbn [ag_scale AddGrad.g_last AddGrad.g_dur AddGrad.eg_last AddGrad.eg_delay AddGrad.eg_shape_dur] in *.
    + exfalso. apply Hn. reflexivity.
    + apply Hs. intro Z. apply Hn. rewrite Z. ring.
Qed.

Lemma is_arb_scale s k y : AddGrad.is_arb s (ag_scale k y) = AddGrad.is_arb s y.
Proof. destruct y; reflexivity. Qed.
Lemma is_trap_scale k y : AddGrad.is_trap (ag_scale k y) = AddGrad.is_trap y.
Proof. destruct y; reflexivity. Qed.

Lemma legal_list_transfer s D l l' :
  LegalList s D l -> l' <> [] ->
  (forall x, In x l' -> exists y k, In y l /\ to_ag x = ag_scale k (to_ag y)) ->
  LegalList s D l'.
Proof.
  intros [HL HA] Hne Hsc. split.
  - apply (legal_transfer _ _ (map to_ag l)); [exact HL|destruct l'; [congruence|discriminate]|].
    intros x Hx. apply in_map_iff in Hx. destruct Hx as (x0 & <- & Hx0).
    destruct (Hsc x0 Hx0) as (y & k & Hy & E). exists (to_ag y), k. split; [apply in_map; exact Hy|exact E].
  - apply forallb_forall. intros x Hx. apply in_map_iff in Hx. destruct Hx as (x0 & <- & Hx0).
    destruct (Hsc x0 Hx0) as (y & k & Hy & E). rewrite E, is_arb_scale, is_trap_scale.
    rewrite forallb_forall in HA. apply HA. apply in_map. exact Hy.
Qed.

Lemma rot_parts_scaled c s a0 a1 evs :
  let '(R1, R2, _) := rot_parts c s a0 a1 evs in
  forall x, In x R1 \/ In x R2 ->
    exists y k, In y (grads_on a0 evs ++ grads_on a1 evs) /\ to_ag x = ag_scale k (to_ag y).
Proof.
  unfold rot_parts. intros x [Hx|Hx]; apply in_app_or in Hx; destruct Hx as [Hx|Hx];
    apply in_map_iff in Hx; destruct Hx as (y & <- & Hy); exists y; eexists;
    (split; [apply in_or_app; (left; exact Hy) || (right; exact Hy)|]);
    rewrite ?to_ag_set_ch, to_ag_scale; reflexivity.
Qed.

Lemma legal_not_arb s D l g : LegalList s D l -> In g l -> not_arb (raster s) g.
Proof.
  intros [HL _] Hg. destruct (AddGradLegal.cl_wf _ _ _ HL (to_ag g) (in_map to_ag _ _ Hg)) as [W _].
  destruct g as [t|e]; cbn [not_arb]; [exact I|]. cbn [to_ag AddGradProofs.WF AddGrad.eg_tt] in W.
  destruct W as (_ & Hn & H0 & _). destruct (e_tt e) as [|t0 tl]; [congruence|]. apply is_arb_head_zero. exact H0.
Qed.

(* ---- C17 with the real add_gradients ------------------------------------------------------------------- *)
(* rotate, with add_gradients modelled by Model/AddGrad.v (property C16), applied to trapezoids and
   extended trapezoids that one block of duration D can hold: at EVERY time the returned pair is the
   rotated input pair up to (number of dropped components) * 1e-6 * max_mag + eps, eps = 1e-9 being the
   `+ eps` of add_gradients' equal-timing path.  No hypothesis about add_gradients is left. *)
Theorem rotate_c16_matrix_up_to_drop s D c sn axis evs out a0 a1 :
  axes_of axis = Some (a0, a1) ->
  (grads_on a0 evs ++ grads_on a1 evs <> [] -> LegalList s D (grads_on a0 evs ++ grads_on a1 evs)) ->
  rotate (add_c16 s) c sn axis evs = OK out ->
  let r := raster s in
  let '(R1, R2, thr) := rot_parts c sn a0 a1 evs in
  forall t,
    Qabs (render r a0 out t - (c * render r a0 evs t - sn * render r a1 evs t))
      <= inject_Z (Z.of_nat (n_dropped thr (add_c16 s) R1)) * thr + AddGrad.eps /\
    Qabs (render r a1 out t - (sn * render r a0 evs t + c * render r a1 evs t))
      <= inject_Z (Z.of_nat (n_dropped thr (add_c16 s) R2)) * thr + AddGrad.eps.
Proof.
  intros Hax HL H r.
  pose proof AddGradProofs.eps_pos as Hep.
  assert (He : 0 <= AddGrad.eps) by lra.
  assert (AA : forall l g, l <> [] -> LegalList s D l -> add_c16 s l = OK g ->
               (forall t, Qabs (gev r g t - gsum r l t) <= AddGrad.eps) /\ g_ch g = g_ch (hd g l)).
  { intros l g Hne Hl Ha. destruct (add_c16_approx s D l g Hne Hl Ha) as (A & B & _). split; assumption. }
  pose proof (rotate_matrix_up_to_drop r (add_c16 s) (LegalList s D) AddGrad.eps He AA c sn axis evs out a0 a1 Hax H) as M.
  pose proof (rot_parts_scaled c sn a0 a1 evs) as Sc.
  pose proof (rot_parts_thr_nonneg c sn a0 a1 evs) as Ht.
  destruct (rot_parts c sn a0 a1 evs) as [[R1 R2] thr] eqn:Erp. cbn [snd] in Ht.
  (* the kept lists are legal *)
  assert (Kept : forall R, (forall x, In x R -> In x R1 \/ In x R2) -> drop_small thr R <> [] ->
                 LegalList s D (drop_small thr R)).
  { intros R HR Hne.
    assert (Hin : grads_on a0 evs ++ grads_on a1 evs <> []).
    { destruct (drop_small thr R) as [|x K] eqn:EK; [congruence|].
      assert (Hx : In x R) by (assert (In x (drop_small thr R)) by (rewrite EK; left; reflexivity);
                               unfold drop_small in *; apply filter_In in H0; tauto).
      destruct (Sc x (HR x Hx)) as (y & _ & Hy & _). intro E. rewrite E in Hy. exact Hy. }
    apply (legal_list_transfer s D _ _ (HL Hin) Hne).
    intros x Hx. unfold drop_small in Hx. apply filter_In in Hx. destruct Hx as [Hx _].
    exact (Sc x (HR x Hx)). }
  specialize (M (Kept R1 (fun x Hx => or_introl Hx)) (Kept R2 (fun x Hx => or_intror Hx))).
  (* no edge value: every component and sum is a trapezoid or an extended trapezoid *)
  assert (Edge : forall R, (forall x, In x R -> In x R1 \/ In x R2) ->
                 chan_budget r thr (add_c16 s) R <= inject_Z (Z.of_nat (n_dropped thr (add_c16 s) R)) * thr).
  { intros R HR. apply chan_budget_count; [exact Ht| |].
    - intros g Hg. destruct (Sc g (HR g Hg)) as (y & k & Hy & E).
      assert (Hin : grads_on a0 evs ++ grads_on a1 evs <> []) by (intro Z; rewrite Z in Hy; exact Hy).
      assert (NA : not_arb r y) by (apply (legal_not_arb s D _ y (HL Hin) Hy)).
      assert (NA' : not_arb r g).
      { destruct g as [tg|eg]; [exact I|]. destruct y as [ty|ey]; [destruct eg; discriminate|].
        cbn [not_arb] in *. cbn [to_ag ag_scale] in E. injection E as _ Ett _ _ _ _. rewrite Ett. exact NA. }
      rewrite (gedge_not_arb r g NA'). exact Ht.
    - intros sg Hs.
      destruct (drop_small thr R) as [|x K] eqn:EK.
      + cbn [add_c16] in Hs. discriminate.
      + assert (Hne : drop_small thr R <> []) by (rewrite EK; discriminate).
        pose proof (Kept R HR Hne) as Hl. rewrite EK in Hl.
        destruct (add_c16_approx s D (x :: K) sg ltac:(discriminate) Hl Hs) as (_ & _ & NA).
        rewrite (gedge_not_arb r sg NA). exact Ht. }
  intro t. destruct (M t) as [M0 M1].
  pose proof (Edge R1 (fun x Hx => or_introl Hx)) as E1. pose proof (Edge R2 (fun x Hx => or_intror Hx)) as E2.
  split; lra.
Qed.

(* ---- the "no raster-sampled shape" conjunct of LegalList follows from legality ------------------------- *)
(* add_gradients.py:99-100 tests `np.all(np.abs(tt/raster - 0.5 - arange)) < eps`; for corner times on the
   raster every tt_k/raster - 1/2 - k is a half-integer, hence non-zero, np.all is True and 1 < eps is False *)
Lemma half_integer_nonzero (m k : Z) : ~ Qabs (inject_Z m - (1 # 2) - inject_Z k) == 0.
Proof.
  intro H.
  assert (E : inject_Z m - (1 # 2) - inject_Z k == 0).
  { destruct (Qlt_le_dec (inject_Z m - (1 # 2) - inject_Z k) 0) as [N|N].
    - rewrite Qabs_neg in H by lra. lra.
    - rewrite Qabs_pos in H by exact N. exact H. }
  assert (E3 : inject_Z (m - k) == 1 # 2) by (unfold Z.sub; rewrite inject_Z_plus, inject_Z_opp; lra).
  unfold Qeq in E3. cbn [Qnum Qden inject_Z] in E3. lia.
Qed.

Lemma zip_idx_all_nonzero r : 0 < r -> forall tt k0,
  (forall t, In t tt -> exists m : Z, t == inject_Z m * r) ->
  forallb (fun x => negb (Qeq_bool (Qabs x) 0))
          (map (fun kt : Z * Q => snd kt / r - (1 # 2) - inject_Z (fst kt)) (AddGrad.zip_idx k0 tt)) = true.
Proof.
  intro Hr. induction tt as [|t tt IH]; intros k0 H; [reflexivity|].
  cbn [AddGrad.zip_idx map forallb fst snd]. apply andb_true_iff. split.
  - destruct (H t (or_introl eq_refl)) as [m Hm]. apply negb_true_iff. apply Qeqb_neq.
    assert (E : t / r - (1 # 2) - inject_Z k0 == inject_Z m - (1 # 2) - inject_Z k0) by (rewrite Hm; field; lra).
    rewrite E. apply half_integer_nonzero.
  - apply IH. intros x Hx. apply H. right. exact Hx.
Qed.

Lemma legal_no_arb s D L : AddGradLegal.C05Legal s D L ->
  forallb (fun g => AddGrad.is_trap g || negb (AddGrad.is_arb s g)) L = true.
Proof.
  intro HL. apply forallb_forall. intros g Hg. destruct g as [t|e]; [reflexivity|]. cbn [AddGrad.is_trap orb].
  apply negb_true_iff. unfold AddGrad.is_arb.
  pose proof (AddGradLegal.cl_raster _ _ _ HL) as Hr. pose proof AddGradProofs.eps_pos as Hep.
  assert (Hr0 : 0 < AddGrad.s_raster s) by lra.
  destruct (AddGradLegal.cl_wf _ _ _ HL _ Hg) as [W _]. cbn [AddGradProofs.WF] in W.
  destruct W as (_ & Hne & H0 & _).
  assert (Hon : forall t, In t (AddGrad.eg_tt e) -> exists m : Z, t == inject_Z m * AddGrad.s_raster s).
  { intros t Ht.
    destruct (AddGrad.eg_tt e) as [|t0 tl] eqn:Et; [congruence|]. cbn [hd] in H0.
    assert (G0 : In (AddGrad.eg_delay e + t0) (AddGrad.grad_times (AddGrad.GExt e)))
      by (cbn [AddGrad.grad_times]; rewrite Et; left; reflexivity).
    assert (G1 : In (AddGrad.eg_delay e + t) (AddGrad.grad_times (AddGrad.GExt e)))
      by (cbn [AddGrad.grad_times]; rewrite Et; apply in_map; exact Ht).
    destruct (AddGradLegal.cl_on_raster _ _ _ HL _ _ Hg G0) as [m0 E0].
    destruct (AddGradLegal.cl_on_raster _ _ _ HL _ _ Hg G1) as [m1 E1].
    exists (m1 - m0)%Z. unfold Z.sub. rewrite inject_Z_plus, inject_Z_opp. lra. }
  rewrite (zip_idx_all_nonzero _ Hr0 _ 0%Z Hon). reflexivity.
Qed.

Theorem c05_legal_is_legal_list s D l : AddGradLegal.C05Legal (ag_sys s) D (map to_ag l) -> LegalList s D l.
Proof. intro H. split; [exact H|apply (legal_no_arb _ D); exact H]. Qed.

(* the final statement with C05Legal alone *)
Corollary rotate_c16_matrix_up_to_drop_legal s D c sn axis evs out a0 a1 :
  axes_of axis = Some (a0, a1) ->
  (grads_on a0 evs ++ grads_on a1 evs <> [] ->
   AddGradLegal.C05Legal (ag_sys s) D (map to_ag (grads_on a0 evs ++ grads_on a1 evs))) ->
  rotate (add_c16 s) c sn axis evs = OK out ->
  let r := raster s in
  let '(R1, R2, thr) := rot_parts c sn a0 a1 evs in
  forall t,
    Qabs (render r a0 out t - (c * render r a0 evs t - sn * render r a1 evs t))
      <= inject_Z (Z.of_nat (n_dropped thr (add_c16 s) R1)) * thr + AddGrad.eps /\
    Qabs (render r a1 out t - (sn * render r a0 evs t + c * render r a1 evs t))
      <= inject_Z (Z.of_nat (n_dropped thr (add_c16 s) R2)) * thr + AddGrad.eps.
Proof.
  intros Hax HL H.
  apply (rotate_c16_matrix_up_to_drop s D c sn axis evs out a0 a1 Hax); [|exact H].
  intro Hne. apply c05_legal_is_legal_list. exact (HL Hne).
Qed.
