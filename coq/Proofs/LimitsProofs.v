(* Proofs/LimitsProofs.v — lemmas for C04 about Model/Limits.v. *)
From Coq Require Import List Bool ZArith QArith Qabs Qround Lia Lqa Qfield.
From PV Require Import Base.QUtil Gen.GenUnits Gen.GenLimits Model.Limits.
Import ListNotations.
Open Scope Q_scope.

Lemma Qltb_false a b : Qltb a b = false -> b <= a.
Proof.
  unfold Qltb. rewrite negb_false_iff. intro H. apply Qle_bool_iff in H. exact H.
Qed.

Lemma Qle_bool_false a b : Qle_bool a b = false -> b < a.
Proof.
  intro H. apply Qnot_le_lt. intro L. apply Qle_bool_iff in L. congruence.
Qed.

(* ---- strictly increasing times ---- *)
Lemma any_nonpos_diffs_false l : any_nonpos (diffs l) = false -> strictly_increasing l.
Proof.
  induction l as [|a [|b r] IH]; cbn [diffs any_nonpos existsb strictly_increasing]; auto.
  intro H. apply orb_false_iff in H. destruct H as [H1 H2].
  split; [apply Qle_bool_false in H1; lra|]. apply IH. exact H2.
Qed.

Lemma strictly_increasing_shift d l :
  strictly_increasing l -> strictly_increasing (map (fun t => t - d) l).
Proof.
  induction l as [|a [|b r] IH]; cbn [map strictly_increasing]; auto.
  intros [H1 H2]. split; [lra|]. apply IH. exact H2.
Qed.

(* ---- slopes ---- *)
Lemma Qabs_div_pos a b : 0 < b -> Qabs (a / b) == Qabs a / b.
Proof.
  intro Hb. unfold Qdiv. rewrite Qabs_Qmult.
  rewrite (Qabs_pos (/ b)); [reflexivity|].
  apply Qlt_le_weak. apply Qinv_lt_0_compat. exact Hb.
Qed.

Lemma slope_le_to_seg S a dt : 0 < dt -> Qabs (a / dt) <= S -> Qabs a <= S * dt.
Proof.
  intros Hdt H. rewrite (Qabs_div_pos a dt Hdt) in H.
  apply (Qmult_le_r _ _ dt Hdt) in H.
  assert (E : Qabs a / dt * dt == Qabs a) by (field; lra).
  rewrite E in H. exact H.
Qed.

Lemma any_slope_gt_false S tt ww :
  length tt = length ww -> strictly_increasing tt -> any_slope_gt S tt ww = false ->
  segs_within S (combine tt ww).
Proof.
  revert ww. induction tt as [|t0 [|t1 tr] IH]; intros [|w0 [|w1 wr]] L Hs H;
    cbn [combine segs_within]; auto; try discriminate L.
  cbn [any_slope_gt] in H. apply orb_false_iff in H. destruct H as [H1 H2].
  destruct Hs as [Ht Hs]. split.
  - apply Qltb_false in H1. apply slope_le_to_seg; [lra|exact H1].
  - apply (IH (w1 :: wr)); [cbn in L |- *; lia|exact Hs|exact H2].
Qed.

Lemma any_abs_gt_false G ww : any_abs_gt G ww = false -> Forall (fun w => Qabs w <= G) ww.
Proof.
  induction ww as [|w r IH]; cbn [any_abs_gt existsb]; intro H; constructor.
  - apply orb_false_iff in H. destruct H as [H _]. apply Qltb_false in H. exact H.
  - apply IH. apply orb_false_iff in H. apply H.
Qed.

Lemma corners_within_combine G tt ww :
  Forall (fun w => Qabs w <= G) ww -> corners_within G (combine tt ww).
Proof.
  revert ww. induction tt as [|t tr IH]; intros [|w wr] H; cbn [combine]; try constructor.
  - inversion H; subst. assumption.
  - apply IH. inversion H; subst. assumption.
Qed.

(* ---- make_extended_trapezoid ---- *)
Theorem ext_trap_safe : forall sys times amps mg ms skip g,
  make_ext_trap sys times amps mg ms skip = LOK g ->
  let G := eff_pos mg (s_max_grad sys) in
  let S := eff_pos ms (s_max_slew sys) in
  cg_wave g = amps /\ length (cg_tt g) = length amps /\ (2 <= length amps)%nat /\
  strictly_increasing (cg_tt g) /\
  within (G + pp_eps) (S * (1 + pp_eps)) (ext_corners g).
Proof.
  intros sys times amps mg ms skip g H G S.
  unfold make_ext_trap in H.
  destruct (negb (length times =? length amps)%nat) eqn:E1; [discriminate|].
  destruct (all_zero times); [discriminate|].
  destruct (any_nonpos (diffs times)) eqn:E3; [discriminate|].
  destruct (off_raster (s_raster sys) (lastQ times)); [discriminate|].
  destruct (negb skip && Qltb 0 (headQ times) && negb (Qeq_bool (headQ amps) 0)); [discriminate|].
  destruct (existsb (off_raster (s_raster sys)) times); [discriminate|].
  apply negb_false_iff in E1. apply Nat.eqb_eq in E1.
  set (d := inject_Z (rnd_he (headQ times / s_raster sys)) * s_raster sys) in *.
  destruct (length times <? 2)%nat eqn:E6; [discriminate|].
  apply Nat.ltb_ge in E6.
  fold G in H. fold S in H.
  destruct (any_slope_gt (S * (1 + pp_eps)) (map (fun t => t - d) times) amps) eqn:E7; [discriminate|].
  destruct (any_abs_gt (G + pp_eps) amps) eqn:E8; [discriminate|].
  injection H as <-. cbn [cg_wave cg_tt ext_corners].
  assert (Hs : strictly_increasing (map (fun t => t - d) times)).
  { apply strictly_increasing_shift. apply any_nonpos_diffs_false. exact E3. }
  split; [reflexivity|]. split; [rewrite map_length; exact E1|].
  split; [rewrite <- E1; exact E6|]. split; [exact Hs|].
  split.
  - apply corners_within_combine. apply any_abs_gt_false. exact E8.
  - unfold ext_corners; cbn [cg_tt cg_wave]. apply any_slope_gt_false; [rewrite map_length; exact E1|exact Hs|exact E7].
Qed.

(* the code's absolute slack fits in the property's relative slack for limits of at least 1e-3 *)
Lemma abs_slack_in_rel G : (1 # 1000) <= G -> G + pp_eps <= G * (1 + rel_slack).
Proof. unfold pp_eps, rel_slack. intro H. lra. Qed.
Lemma rel_slack_slew S : 0 <= S -> S * (1 + pp_eps) <= S * (1 + rel_slack).
Proof. unfold pp_eps, rel_slack. intro H. nra. Qed.

Lemma corners_within_mono G G' p : G <= G' -> corners_within G p -> corners_within G' p.
Proof.
  intros L H. unfold corners_within in *. eapply Forall_impl; [|exact H].
  cbn. intros a Ha. lra.
Qed.

Lemma segs_within_mono S S' p :
  S <= S' -> strictly_increasing (map fst p) -> segs_within S p -> segs_within S' p.
Proof.
  intros L. induction p as [|[t0 v0] [|[t1 v1] r] IH]; cbn [map fst strictly_increasing segs_within]; auto.
  intros [Ht Hs] [H1 H2]. split; [|apply IH; assumption].
  assert (0 <= (S' - S) * (t1 - t0)) by (apply Qmult_le_0_compat; lra). lra.
Qed.

Lemma map_fst_combine (tt ww : list Q) : length tt = length ww -> map fst (combine tt ww) = tt.
Proof.
  revert ww. induction tt as [|t r IH]; intros [|w wr] L; cbn; try discriminate; auto.
  f_equal. apply IH. cbn in L. lia.
Qed.

Theorem ext_trap_within_relative : forall sys times amps mg ms skip g,
  make_ext_trap sys times amps mg ms skip = LOK g ->
  let G := eff_pos mg (s_max_grad sys) in
  let S := eff_pos ms (s_max_slew sys) in
  (1 # 1000) <= G -> 0 <= S ->
  strictly_increasing (cg_tt g) /\ within (G * (1 + rel_slack)) (S * (1 + rel_slack)) (ext_corners g).
Proof.
  intros sys times amps mg ms skip g H G S HG HS.
  destruct (ext_trap_safe _ _ _ _ _ _ _ H) as [Ew [El [_ [Hs [Hc Hseg]]]]].
  split; [exact Hs|]. split.
  - eapply corners_within_mono; [apply abs_slack_in_rel; exact HG|exact Hc].
  - eapply segs_within_mono; [apply rel_slack_slew; exact HS| |exact Hseg].
    unfold ext_corners. rewrite map_fst_combine; [exact Hs|rewrite Ew; exact El].
Qed.

(* ---- make_arbitrary_grad ---- *)
Lemma any_step_gt_false Sl r ww : 0 < r ->
  any_step_gt Sl r ww = false ->
  forall i, (Datatypes.S i < length ww)%nat -> Qabs (nth (Datatypes.S i) ww 0 - nth i ww 0) <= Sl * r.
Proof.
  intros Hr. induction ww as [|w0 [|w1 wr] IH]; intros H i Hi; cbn in Hi; try lia.
  cbn [any_step_gt] in H. apply orb_false_iff in H. destruct H as [H1 H2].
  destruct i as [|i].
  - cbn [nth]. apply Qltb_false in H1. apply slope_le_to_seg; assumption.
  - change (nth (Datatypes.S (Datatypes.S i)) (w0 :: w1 :: wr) 0) with (nth (Datatypes.S i) (w1 :: wr) 0).
    change (nth (Datatypes.S i) (w0 :: w1 :: wr) 0) with (nth i (w1 :: wr) 0).
    apply IH; [exact H2|cbn; lia].
Qed.

Lemma edge_default_step w0 w1 : w0 - edge_default w0 w1 == (w1 - w0) * (1 # 2).
Proof. unfold edge_default, arb_edge_c0, arb_edge_c1. ring. Qed.

(* interior: every sample within max_grad + eps, every raster step within max_slew (1 + eps) * raster *)
Theorem arb_interior_safe : forall sys wave first last delay mg ms g,
  0 < s_raster sys ->
  make_arb sys wave first last delay mg ms = LOK g ->
  let G := eff_opt mg (s_max_grad sys) in
  let S := eff_opt ms (s_max_slew sys) in
  cg_wave g = wave /\ cg_delay g = delay /\ (2 <= length wave)%nat /\
  Forall (fun w => Qabs w <= G + pp_eps) wave /\
  (forall i, (Datatypes.S i < length wave)%nat ->
     Qabs (nth (Datatypes.S i) wave 0 - nth i wave 0) <= S * (1 + pp_eps) * s_raster sys).
Proof.
  intros sys wave first last delay mg ms g Hr H G S.
  unfold make_arb in H. fold G in H. fold S in H.
  destruct wave as [|w0 [|w1 wr]]; try discriminate.
  destruct (any_step_gt (S * (1 + pp_eps)) (s_raster sys) (w0 :: w1 :: wr)) eqn:E1; [discriminate|].
  destruct (any_abs_gt (G + pp_eps) (w0 :: w1 :: wr)) eqn:E2; [discriminate|].
  injection H as <-. cbn [cg_wave cg_delay].
  split; [reflexivity|]. split; [reflexivity|]. split; [cbn; lia|].
  split; [apply any_abs_gt_false; exact E2|].
  apply any_step_gt_false; assumption.
Qed.

(* default edge values continue the neighbouring slope: the half-raster edge segments obey the same
   slew bound as the interior *)
Theorem arb_default_first_edge_slew : forall sys wave last delay mg ms g,
  0 < s_raster sys ->
  make_arb sys wave None last delay mg ms = LOK g ->
  let S := eff_opt ms (s_max_slew sys) in
  Qabs (nth 0 wave 0 - cg_first g) <= S * (1 + pp_eps) * (s_raster sys * (1 # 2)).
Proof.
  intros sys wave last delay mg ms g Hr H S.
  destruct (arb_interior_safe _ _ _ _ _ _ _ _ Hr H) as [_ [_ [_ [_ Hstep]]]].
  unfold make_arb in H.
  destruct wave as [|w0 [|w1 wr]]; try discriminate.
  destruct (any_step_gt _ _ _); [discriminate|]. destruct (any_abs_gt _ _); [discriminate|].
  injection H as <-. cbn [cg_first nth].
  specialize (Hstep 0%nat ltac:(cbn; lia)). cbn [nth] in Hstep. fold S in Hstep.
  rewrite edge_default_step. rewrite Qabs_Qmult. rewrite (Qabs_pos (1 # 2)) by lra.
  assert (A : Qabs (w1 - w0) * (1 # 2) <= S * (1 + pp_eps) * s_raster sys * (1 # 2)) by lra.
  lra.
Qed.

(* … but the extrapolated edge value itself is only bounded by the limit plus half a slew step *)
Theorem arb_default_first_edge_amp : forall sys wave last delay mg ms g,
  0 < s_raster sys ->
  make_arb sys wave None last delay mg ms = LOK g ->
  let G := eff_opt mg (s_max_grad sys) in
  let S := eff_opt ms (s_max_slew sys) in
  Qabs (cg_first g) <= (G + pp_eps) + S * (1 + pp_eps) * (s_raster sys * (1 # 2)).
Proof.
  intros sys wave last delay mg ms g Hr H G S.
  pose proof (arb_default_first_edge_slew _ _ _ _ _ _ _ Hr H) as E. fold S in E.
  destruct (arb_interior_safe _ _ _ _ _ _ _ _ Hr H) as [_ [_ [L [Hamp _]]]]. fold G in Hamp.
  destruct wave as [|w0 wr]; [cbn in L; lia|].
  inversion Hamp as [|? ? H0 _]; subst. cbn [nth] in E.
  assert (T : Qabs (cg_first g) <= Qabs w0 + Qabs (w0 - cg_first g)).
  { setoid_replace (cg_first g) with (w0 + - (w0 - cg_first g)) at 1 by ring.
    eapply Qle_trans; [apply Qabs_triangle|]. rewrite Qabs_opp. lra. }
  lra.
Qed.

(* ---- refutations (KF-13): make_arbitrary_grad never checks first / last ---- *)
Definition kf_sys : lsystem := mkLSys 1000 1000000 (1 # 100000).
(* explicit first = 0 in front of a waveform that starts at the limit: 200x max_slew on the edge *)
Example arb_explicit_edge_refuted :
  exists g, make_arb kf_sys [1000; 1000; 1000] (Some 0) (Some 0) 0 None None = LOK g /\
            segs_within_b (s_max_slew kf_sys * (1 + rel_slack)) (arb_corners (s_raster kf_sys) g) = false.
Proof. eexists. split; [vm_compute; reflexivity|vm_compute; reflexivity]. Qed.
(* extrapolated first = 1.5*1000 - 0.5*995 = 1002.5 > max_grad (1 + 1e-6) *)
Example arb_default_edge_amp_refuted :
  exists g, make_arb kf_sys [1000; 995; 990] None (Some 0) 0 None None = LOK g /\
            corners_within_b (s_max_grad kf_sys * (1 + rel_slack)) (arb_corners (s_raster kf_sys) g) = false.
Proof. eexists. split; [vm_compute; reflexivity|vm_compute; reflexivity]. Qed.
(* non-vacuity *)
Example ext_trap_example :
  exists g, make_ext_trap kf_sys [0; 1 # 1000; 2 # 1000] [0; 900; 0] 0 0 false = LOK g.
Proof. eexists. vm_compute. reflexivity. Qed.

(* ---- units ---- *)
Section Units.
Variables (pi gamma : Q).
Hypothesis pi_pos : 0 < pi.
Hypothesis gamma_pos : 0 < gamma.

(* every conversion to standard units is multiplication by a positive factor *)
Definition unit_factor (u : unit) : Q :=
  match u with
  | U_Hz_m | U_Hz_m_s => 1
  | U_mT_m => (1 # 1000) * gamma
  | U_rad_ms_mm => 1000000 / (2 * pi)
  | U_mT_m_ms | U_T_m_s => gamma
  | U_rad_ms_mm_ms => 1000000000 / (2 * pi)
  end.

Lemma unit_factor_pos u : 0 < unit_factor u.
Proof.
  destruct u; cbn [unit_factor]; try lra; apply Qlt_shift_div_l; lra.
Qed.

Lemma to_standard_linear u x : to_standard pi gamma u x == unit_factor u * x.
Proof. destruct u; cbn [to_standard unit_factor]; try ring; field; lra. Qed.

Lemma from_to_standard u x : from_standard pi gamma u (to_standard pi gamma u x) == x.
Proof. destruct u; cbn [to_standard from_standard]; try ring; field; lra. Qed.

Lemma to_from_standard u x : to_standard pi gamma u (from_standard pi gamma u x) == x.
Proof. destruct u; cbn [to_standard from_standard]; try ring; field; lra. Qed.

Lemma to_standard_strict_mono u x y : x < y -> to_standard pi gamma u x < to_standard pi gamma u y.
Proof.
  intro H. rewrite !to_standard_linear. pose proof (unit_factor_pos u).
  apply Qmult_lt_l; assumption.
Qed.

Lemma to_standard_le_iff u x y : x <= y <-> to_standard pi gamma u x <= to_standard pi gamma u y.
Proof.
  rewrite !to_standard_linear. pose proof (unit_factor_pos u) as P. split; intro H.
  - apply Qmult_le_l; assumption.
  - apply Qmult_le_l in H; assumption.
Qed.

(* an amplitude a (Hz/m) is within the limit x stated in unit u  iff  the same amplitude expressed
   in unit u is within x: the unit spelling does not change which waveforms are admitted *)
Lemma limit_same_in_any_unit u a x :
  a <= to_standard pi gamma u x <-> from_standard pi gamma u a <= x.
Proof.
  pose proof (to_standard_le_iff u (from_standard pi gamma u a) x) as I.
  pose proof (to_from_standard u a) as E. split; intro H.
  - apply I. lra.
  - apply I in H. lra.
Qed.

Lemma convert_roundtrip u v x :
  convert pi gamma (convert pi gamma x u v) v u == x.
Proof.
  unfold convert.
  assert (E : forall a b, a == b -> from_standard pi gamma u a == from_standard pi gamma u b).
  { intros a b Hab. destruct u; cbn [from_standard]; rewrite Hab; reflexivity. }
  rewrite (E _ _ (to_from_standard v (to_standard pi gamma u x))). apply from_to_standard.
Qed.

Lemma convert_to_std_grad u x : convert pi gamma x u U_Hz_m == to_standard pi gamma u x.
Proof. unfold convert. cbn [from_standard]. reflexivity. Qed.
End Units.

Lemma Qabs_pos_lt x : ~ x == 0 -> 0 < Qabs x.
Proof.
  intro H. destruct (Qlt_le_dec 0 x) as [P|N].
  - rewrite (Qabs_pos x); lra.
  - rewrite (Qabs_neg x N). assert (x < 0); [|lra].
    destruct (Qlt_le_dec x 0); [assumption|]. exfalso. apply H. lra.
Qed.

(* what Opts stores for a limit x given in unit u (gamma of either sign) *)
Theorem opts_limit_is_standard pi gamma u x : 0 < pi -> ~ gamma == 0 ->
  opts_limit pi gamma x u == unit_factor pi (Qabs gamma) u * x.
Proof.
  intros Hp Hg. unfold opts_limit. rewrite convert_to_std_grad.
  apply to_standard_linear; first [exact Hp | apply Qabs_pos_lt; exact Hg].
Qed.
