#!/bin/sh
# MANIFEST.setup_cmd — offline build of the whole development from files on disk.
set -e
DIR="$(cd "$(dirname "$0")" && pwd)"
cd "$DIR"
export PYTHONHASHSEED=0 PYTHONDONTWRITEBYTECODE=1
export PYTHONPATH="${VERIF_REPO:-/repo}/src"
mkdir -p evidence replays .lock coq/Gen
/venv/bin/python harness/translate.py || echo "setup: translator reported closed failures (checks will report them)"
/venv/bin/python harness/mkproject.py
cd coq
timeout 6000 make -k -j16 > ../.lock/setup_make.log 2>&1 || { tail -30 ../.lock/setup_make.log; echo "setup: coq build failed (checks will report it)"; }
/venv/bin/python ../harness/warm.py > ../.lock/setup_warm.log 2>&1 || true
cd ../ocaml
./build.sh || echo "setup: ocaml build failed"
echo "setup done"
