"""ambient_writer.py — child process of the C02 determinism stream.

usage: ambient_writer.py <pickled Sequence> <output .seq path> <clock shift in seconds> <create_signature 0|1>

Shifts the clock of THIS process before pypulseq is imported (datetime.date / datetime.datetime are replaced by
subclasses with shifted today() / now() / utcnow(), time.time / localtime / gmtime / strftime / ctime / asctime /
time_ns by shifted versions), then loads the sequence and writes it.  TZ, PYTHONHASHSEED, LC_ALL / LANG, the working
directory and the file name are chosen by the parent.  Prints the md5 returned by write()."""
import sys


def shift_clock(shift):
    import datetime
    import time
    real_date, real_dt = datetime.date, datetime.datetime
    real_time, real_time_ns = time.time, time.time_ns
    real_localtime, real_gmtime, real_strftime = time.localtime, time.gmtime, time.strftime
    delta = datetime.timedelta(seconds=shift)

    class ShiftedDateTime(real_dt):
        @classmethod
        def now(cls, tz=None):
            t = real_dt.now(tz) + delta
            return cls(t.year, t.month, t.day, t.hour, t.minute, t.second, t.microsecond, t.tzinfo)

        @classmethod
        def utcnow(cls):
            t = real_dt.utcnow() + delta
            return cls(t.year, t.month, t.day, t.hour, t.minute, t.second, t.microsecond)

        @classmethod
        def today(cls):
            return cls.now()

    class ShiftedDate(real_date):
        @classmethod
        def today(cls):
            t = real_dt.now() + delta
            return cls(t.year, t.month, t.day)

    datetime.datetime = ShiftedDateTime
    datetime.date = ShiftedDate
    time.time = lambda: real_time() + shift
    time.time_ns = lambda: real_time_ns() + int(shift * 1e9)
    time.localtime = lambda secs=None: real_localtime(real_time() + shift if secs is None else secs)
    time.gmtime = lambda secs=None: real_gmtime(real_time() + shift if secs is None else secs)
    time.strftime = lambda fmt, t=None: real_strftime(fmt, time.localtime() if t is None else t)
    time.ctime = lambda secs=None: time.asctime(time.localtime(secs))
    real_asctime = time.asctime
    time.asctime = lambda t=None: real_asctime(time.localtime() if t is None else t)


def main():
    src, out, shift, sig = sys.argv[1], sys.argv[2], float(sys.argv[3]), sys.argv[4] == '1'
    shift_clock(shift)
    import pickle
    import warnings
    warnings.simplefilter('ignore')
    import pypulseq  # noqa: F401  (after the clock shift)
    with open(src, 'rb') as f:
        seq = pickle.load(f)
    h = seq.write(out, create_signature=sig)
    print(h)


if __name__ == '__main__':
    main()
