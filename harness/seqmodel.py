"""seqmodel.py — bridge between real pypulseq Sequence objects and Model/Seq.v.

  * encode events / ops as token lines for the extracted model (`seq.run`)
  * dump the implementation's store (libraries, block table, durations, cache keys)
  * parse the model's state dump and compare the two exactly
"""
import copy
import math
from fractions import Fraction
from types import SimpleNamespace

import numpy as np

from common import D as F, Toks, qtok, ztok

LABELS = None


def labels():
    global LABELS
    if LABELS is None:
        from pypulseq.supported_labels_rf_use import get_supported_labels
        LABELS = list(get_supported_labels())
    return LABELS


NEG_ZERO = Fraction(-1, 2 ** 1075)   # Base/Round.v neg_zero: IEEE -0.0 inside byte-compared NumPy rows


def fz(v, numpy_row):
    v = float(v)
    if numpy_row and v == 0.0 and math.copysign(1.0, v) < 0:
        return NEG_ZERO
    return F(v)


def key_tokens(vals, numpy_row=False):
    vals = list(vals)
    return ' '.join([str(len(vals))] + [qtok(fz(v, numpy_row)) for v in vals])


def opt(tok):
    return '0' if tok is None else '1 ' + tok


def scratch_like(seq):
    import pypulseq as pp
    s = pp.Sequence(seq.system, use_block_cache=False)
    s.grad_raster_time = seq.grad_raster_time
    s.rf_raster_time = seq.rf_raster_time
    return s


USE_TAG = {'excitation': 'e', 'refocusing': 'r', 'inversion': 'i', 'saturation': 's', 'preparation': 'p'}


def event_registration(seq, ev):
    """what register_* would store for `ev`, computed by the implementation's own register
    functions on a scratch Sequence with the same rasters (numeric extraction is not modelled)"""
    s = scratch_like(seq)
    if hasattr(ev, 'id') or hasattr(ev, 'shape_IDs'):
        import copy as _copy
        ev = _copy.copy(ev)           # by-value registration on the scratch object: ids refer to the real store
        for a in ('id', 'shape_IDs'):
            if hasattr(ev, a):
                delattr(ev, a)
    if ev.type == 'rf':
        rid, sids = s.register_rf_event(ev)
        data = s.rf_library.data[rid]
        shapes = [s.shape_library.data[i] for i in sids if i != 0]
        return {'amp': data[0], 'mag': shapes[0], 'phase': shapes[1],
                'tshape': shapes[2] if sids[2] != 0 else None,
                'use': ord(s.rf_library.type[rid])}
    if ev.type == 'grad':
        gid, sids = s.register_grad_event(ev)
        data = s.grad_library.data[gid]
        shapes = [s.shape_library.data[i] for i in sids if i != 0]
        return {'amp': data[0], 'wshape': shapes[0], 'tshape': shapes[1] if sids[1] != 0 else None}
    raise ValueError(ev.type)


def encode_event(seq, ev):
    if isinstance(ev, float):
        return 'dur ' + qtok(F(ev))
    idt = opt(ztok(int(ev.id))) if hasattr(ev, 'id') else '0'
    t = ev.type
    if t == 'rf':
        reg = event_registration(seq, ev) if not hasattr(ev, '_reg') else ev._reg
        sids = opt(' '.join([str(len(ev.shape_IDs))] + [ztok(int(i)) for i in ev.shape_IDs])) if hasattr(ev, 'shape_IDs') else '0'
        return ' '.join(['rf', idt, sids, qtok(F(reg['amp'])), key_tokens(reg['mag'], True), key_tokens(reg['phase'], True),
                         opt(key_tokens(reg['tshape'], True)) if reg['tshape'] is not None else '0',
                         qtok(F(ev.delay)), qtok(F(ev.freq_offset)), qtok(F(ev.phase_offset)), ztok(reg['use']),
                         qtok(F(ev.shape_dur)), qtok(F(ev.ringdown_time))])
    if t == 'grad':
        reg = event_registration(seq, ev)
        ch = 'xyz'.index(ev.channel)
        sids = opt(' '.join([str(len(ev.shape_IDs))] + [ztok(int(i)) for i in ev.shape_IDs])) if hasattr(ev, 'shape_IDs') else '0'
        return ' '.join(['grad', str(ch), idt, sids, qtok(F(reg['amp'])), key_tokens(reg['wshape'], True),
                         opt(key_tokens(reg['tshape'], True)) if reg['tshape'] is not None else '0',
                         qtok(F(ev.delay)), qtok(F(ev.first)), qtok(F(ev.last)),
                         qtok(F(ev.tt[0])), qtok(F(ev.tt[-1]))])
    if t == 'trap':
        ch = 'xyz'.index(ev.channel)
        return ' '.join(['trap', str(ch), idt] + [qtok(F(v)) for v in
                                                  (ev.amplitude, ev.rise_time, ev.flat_time, ev.fall_time, ev.delay)])
    if t == 'adc':
        return ' '.join(['adc', idt] + [qtok(F(v)) for v in
                                        (ev.num_samples, ev.dwell, ev.delay, ev.freq_offset, ev.phase_offset, ev.dead_time)])
    if t == 'delay':
        return 'delay ' + qtok(F(ev.delay))
    if t in ('output', 'trigger'):
        typ = ['output', 'trigger'].index(t)
        chan = (['osc0', 'osc1', 'ext1'] if typ == 0 else ['physio1', 'physio2']).index(ev.channel)
        return ' '.join(['ctl', idt, ztok(typ + 1), ztok(chan + 1), qtok(F(ev.delay)), qtok(F(ev.duration))])
    if t in ('labelset', 'labelinc'):
        return ' '.join(['label', idt, '1' if t == 'labelset' else '0', qtok(F(ev.value)),
                         ztok(labels().index(ev.label) + 1)])
    raise ValueError('unknown event type ' + t)


def encode_events(seq, evs):
    return ' '.join([str(len(evs))] + [encode_event(seq, e) for e in evs])


# ------------------------------------------------------------------------------------------------
XS = {'TRIGGERS': 1, 'LABELSET': 2, 'LABELINC': 3}
LIBS = ['rf_library', 'grad_library', 'adc_library', 'trigger_library', 'label_set_library', 'label_inc_library',
        'extensions_library', 'shape_library']


def lib_dump(lib):
    data = [(int(k), [float(x) for x in np.asarray(v, dtype=float).ravel()]) for k, v in lib.data.items()]
    typ = [(int(k), ord(v)) for k, v in lib.type.items()]
    km = []
    for k, v in lib.keymap.items():
        if isinstance(k, bytes):
            vals = [float(x) for x in np.frombuffer(k, dtype=float)]
        else:
            try:
                vals = [float(x) for x in k]
            except TypeError:
                # a lookup key that is not the event's data (e.g. a hash of it): kept as an unmistakable pseudo key so
                # that the history goes on (the comparison with the model then reports the keymap)
                vals = [9.0e99, float(hash(k) % 1000003)]
        km.append((vals, int(v)))
    return {'data': data, 'type': typ, 'keymap': km, 'next': int(lib.next_free_ID)}


def state_dump(seq):
    return {
        'libs': [lib_dump(getattr(seq, n)) for n in LIBS],
        'blocks': [(int(k), [int(x) for x in v]) for k, v in seq.block_events.items()],
        'durs': [(int(k), float(v)) for k, v in seq.block_durations.items()],
        'next_block': int(seq.next_free_block_ID),
        'ext_num': [int(x) for x in seq.extension_numeric_idx],
        'ext_str': [XS.get(s, 99) for s in seq.extension_string_idx],
        'cache': sorted(int(k) for k in seq.block_cache.keys()) if seq.use_block_cache else [],
    }


def lib_tokens(d, numpy_row=False):
    parts = [str(len(d['data']))]
    for i, k in d['data']:
        parts += [ztok(i), key_tokens(k, numpy_row)]
    parts.append(str(len(d['type'])))
    for i, t in d['type']:
        parts += [ztok(i), ztok(t)]
    parts.append(str(len(d['keymap'])))
    for k, i in d['keymap']:
        parts += [key_tokens(k, numpy_row), ztok(i)]
    parts.append(ztok(d['next']))
    return ' '.join(parts)


def core_tokens(seq):
    st = state_dump(seq)
    parts = [lib_tokens(l, numpy_row=(n == 'shape_library')) for n, l in zip(LIBS, st['libs'])]
    parts.append(' '.join([str(len(st['blocks']))] + [ztok(i) + ' ' + ' '.join([str(len(ev))] + [ztok(x) for x in ev])
                                                      for i, ev in st['blocks']]))
    parts.append(' '.join([str(len(st['durs']))] + [ztok(i) + ' ' + qtok(F(d)) for i, d in st['durs']]))
    parts.append(ztok(st['next_block']))
    parts.append(' '.join([str(len(st['ext_num']))] + [ztok(x) for x in st['ext_num']]))
    parts.append(' '.join([str(len(st['ext_str']))] + [ztok(x) for x in st['ext_str']]))
    parts += [qtok(F(seq.grad_raster_time)), qtok(F(seq.system.grad_raster_time)), qtok(F(seq.system.max_slew)),
              qtok(F(eps_value()))]
    return ' '.join(parts)


def eps_value():
    import pypulseq
    return float(pypulseq.eps)


def header_tokens(seq, cache_on, abs_fix):
    return ' '.join(['1' if cache_on else '0', '1' if abs_fix else '0', qtok(F(seq.grad_raster_time)),
                     qtok(F(seq.system.grad_raster_time)), qtok(F(seq.system.max_slew)), qtok(F(eps_value()))])


# ---- parsing the model's output ------------------------------------------------------------------
def p_key(t):
    return t.list(t.qf)


def p_lib(t):
    data = t.list(lambda: (t.z(), p_key(t)))
    typ = t.list(lambda: (t.z(), t.z()))
    km = t.list(lambda: (p_key(t), t.z()))
    return {'data': data, 'type': typ, 'keymap': km, 'next': t.z()}


def p_core(t):
    libs = [p_lib(t) for _ in range(8)]
    blocks = t.list(lambda: (t.z(), t.list(t.z)))
    durs = t.list(lambda: (t.z(), t.qf()))
    return {'libs': libs, 'blocks': blocks, 'durs': durs, 'next_block': t.z(),
            'ext_num': t.list(t.z), 'ext_str': t.list(t.z)}


def p_dblock(t):
    dur = t.qf()
    rf = t.opt(lambda: {'data': p_key(t), 'use': t.z(), 'shapes': t.list(lambda: p_key(t))})
    g = t.list(lambda: t.opt(lambda: {'type': t.z(), 'data': p_key(t), 'shapes': t.list(lambda: p_key(t))}))
    adc = t.opt(lambda: p_key(t))
    ext = t.list(lambda: (t.z(), p_key(t)))
    return {'dur': dur, 'rf': rf, 'g': g, 'adc': adc, 'ext': ext}


def p_out(t):
    tag = t.next()
    if tag == 'none':
        return ('none',)
    if tag == 'err':
        return ('err', t.next())
    if tag == 'id':
        return ('id', t.z(), t.list(t.z))
    if tag == 'block':
        return ('block', t.opt(lambda: p_dblock(t)))
    if tag == 'core':
        return ('core', t.opt(lambda: p_core(t)))
    raise ValueError('bad out tag ' + tag)


def parse_run(line):
    """-> list of (out, core, cache_keys) per op"""
    res = []
    t = Toks(line)
    while t.more():
        assert t.next() == '#'
        out = p_out(t)
        assert t.next() == '|'
        core = p_core(t)
        assert t.next() == '|'
        cache = sorted(t.list(t.z))
        res.append((out, core, cache))
    return res


# ---- comparison -------------------------------------------------------------------------------------
def same_float(mq, x):
    """model value (already rounded to binary64 by the parser) vs implementation double; the -0.0
    sentinel (parsed as -0.0) must meet a negative zero"""
    b = float(x)
    if mq != b:
        return False
    if mq == 0.0 and math.copysign(1.0, mq) < 0:
        return _negz(b)
    return True


def _negz(b):
    return b == 0.0 and math.copysign(1.0, b) < 0


def cmp_lib(name, impl, mod):
    if [i for i, _ in impl['data']] != [i for i, _ in mod['data']]:
        return '%s: data ids %s vs model %s' % (name, [i for i, _ in impl['data']], [i for i, _ in mod['data']])
    for (i, kv), (_, mk) in zip(impl['data'], mod['data']):
        if len(kv) != len(mk) or not all(same_float(a, b) for a, b in zip(mk, kv)):
            return '%s: data[%d] %s vs model %s' % (name, i, kv, [float(x) for x in mk])
    if sorted(impl['type']) != sorted(mod['type']):
        return '%s: types %s vs model %s' % (name, impl['type'], mod['type'])
    npy = name == 'shape_library'
    ikm = {tuple((x if npy else x + 0.0).hex() for x in k): v for k, v in impl['keymap']}
    mkm = {tuple(float(x).hex() for x in k): v for k, v in mod['keymap']}
    if ikm != mkm:
        return '%s: keymap differs: impl-only %s model-only %s' % (
            name, [(k, v) for k, v in ikm.items() if mkm.get(k) != v][:3],
            [(k, v) for k, v in mkm.items() if ikm.get(k) != v][:3])
    if impl['next'] != mod['next']:
        return '%s: next_free_ID %d vs model %d' % (name, impl['next'], mod['next'])
    return None


def cmp_state(impl, mod, cache_keys=None, check_cache=True):
    for name, a, b in zip(LIBS, impl['libs'], mod['libs']):
        d = cmp_lib(name, a, b)
        if d:
            return d
    if impl['blocks'] != mod['blocks']:
        return 'block_events %s vs model %s' % (impl['blocks'], mod['blocks'])
    if [i for i, _ in impl['durs']] != [i for i, _ in mod['durs']]:
        return 'duration keys differ'
    for (i, a), (_, b) in zip(impl['durs'], mod['durs']):
        if abs(a - b) > 1e-12:
            return 'block_durations[%d] %r vs model %r' % (i, a, float(b))
    for k in ('next_block', 'ext_num', 'ext_str'):
        if impl[k] != mod[k]:
            return '%s %s vs model %s' % (k, impl[k], mod[k])
    if check_cache and cache_keys is not None and impl['cache'] != cache_keys:
        return 'block_cache keys %s vs model %s' % (impl['cache'], cache_keys)
    return None


# ---- canonical, comparable form of a decoded block (twin / reference comparison on the impl) ------
def canon_block(b):
    def ev(e):
        if e is None:
            return None
        d = {}
        for k, v in vars(e).items():
            if isinstance(v, np.ndarray):
                d[k] = [complex(x) if np.iscomplexobj(v) else float(x) for x in v.ravel()]
                if np.iscomplexobj(v):
                    d[k] = [(z.real, z.imag) for z in d[k]]
            elif isinstance(v, (np.generic,)):
                d[k] = v.item()
            elif isinstance(v, (list, tuple)):
                d[k] = [float(x) if isinstance(x, (int, float, np.generic)) else x for x in v]
            else:
                d[k] = v
        return d
    out = {}
    for k, v in vars(b).items():
        if k in ('label', 'trigger') and isinstance(v, dict):
            out[k] = [ev(x) for x in v.values()]
        elif isinstance(v, SimpleNamespace):
            out[k] = ev(v)
        elif isinstance(v, (np.generic,)):
            out[k] = v.item()
        else:
            out[k] = v
    return out


def block_matches_model(b, md, seq):
    """the implementation's decoded block against the model's decode (library tuples + shapes)"""
    if md is None:
        return 'model decode failed but implementation returned a block'
    if abs(float(b.block_duration) - md['dur']) > 1e-12:
        return 'block_duration %r vs %r' % (b.block_duration, float(md['dur']))
    if (b.rf is None) != (md['rf'] is None):
        return 'rf presence'
    if b.rf is not None:
        d = md['rf']['data']
        if not (same_float(d[4], b.rf.delay) and same_float(d[5], b.rf.freq_offset) and same_float(d[6], b.rf.phase_offset)):
            return 'rf scalars'
        use = {'e': 'excitation', 'r': 'refocusing', 'i': 'inversion', 's': 'saturation', 'p': 'preparation'}.get(chr(md['rf']['use']), 'undefined')
        if getattr(b.rf, 'use', None) != use:
            return 'rf use %r vs %r' % (getattr(b.rf, 'use', None), use)
        if len(b.rf.signal) != int(md['rf']['shapes'][0][0]):
            return 'rf sample count'
        if abs(float(np.max(np.abs(b.rf.signal))) - float(d[0])) > 1e-9 * max(1.0, abs(float(d[0]))):
            return 'rf amplitude'
    for ch, nm in enumerate(('gx', 'gy', 'gz')):
        g = getattr(b, nm)
        mg = md['g'][ch]
        if (g is None) != (mg is None):
            return nm + ' presence'
        if g is None:
            continue
        d = mg['data']
        if g.type == 'trap':
            if mg['type'] != ord('t'):
                return nm + ' type'
            vals = (g.amplitude, g.rise_time, g.flat_time, g.fall_time, g.delay)
            if not all(same_float(a, x) for a, x in zip(d, vals)):
                return nm + ' trap fields %s vs %s' % (vals, [float(x) for x in d])
        else:
            if mg['type'] != ord('g'):
                return nm + ' type'
            if not (same_float(d[3], g.delay) and same_float(d[4], g.first) and same_float(d[5], g.last)):
                return nm + ' grad scalars'
            if int(g.shape_id) != int(d[1]) or int(g.time_id) != int(d[2]):
                return nm + ' shape ids'
            if len(g.waveform) != int(mg['shapes'][0][0]):
                return nm + ' sample count'
            m = float(np.max(np.abs(g.waveform))) if len(g.waveform) else 0.0
            if abs(m - abs(float(d[0]))) > 1e-9 * max(1.0, abs(float(d[0]))) + 6e-8 * abs(float(d[0])):
                return nm + ' amplitude %r vs %r' % (m, float(d[0]))
    if (b.adc is None) != (md['adc'] is None):
        return 'adc presence'
    if b.adc is not None:
        vals = (b.adc.num_samples, b.adc.dwell, b.adc.delay, b.adc.freq_offset, b.adc.phase_offset, b.adc.dead_time)
        if not all(same_float(a, x) for a, x in zip(md['adc'], vals)):
            return 'adc fields'
    # extensions: labels in reversed walk order, triggers in walk order
    mlabels = [(s, k) for s, k in md['ext'] if s in (2, 3)]
    mtrigs = [k for s, k in md['ext'] if s == 1]
    ilabels = list(b.label.values()) if getattr(b, 'label', None) else []
    itrigs = list(b.trigger.values()) if hasattr(b, 'trigger') else []
    if len(ilabels) != len(mlabels) or len(itrigs) != len(mtrigs):
        return 'extension counts: labels %d/%d triggers %d/%d' % (len(ilabels), len(mlabels), len(itrigs), len(mtrigs))
    for lab, (s, k) in zip(ilabels, reversed(mlabels)):
        if lab.type != ('labelset' if s == 2 else 'labelinc') or not same_float(k[0], lab.value) \
                or labels().index(lab.label) + 1 != int(k[1]):
            return 'label mismatch'
    for tr, k in zip(itrigs, mtrigs):
        typ = ['output', 'trigger'].index(tr.type) + 1
        chan = (['osc0', 'osc1', 'ext1'] if typ == 1 else ['physio1', 'physio2']).index(tr.channel) + 1
        if typ != int(k[0]) or chan != int(k[1]) or not same_float(k[2], tr.delay) or not same_float(k[3], tr.duration):
            return 'trigger mismatch'
    return None


ERRMAP = [
    ('Multiple', 'multiple'),
    ('No delay allowed', 'delaynz'),
    ('Two consecutive gradients', 'connect'),
    ('First gradient in the the first block', 'firstnz'),
    ("doesn't end at zero needs to be aligned", 'align'),
]


def classify_exc(e):
    s = str(e)
    for frag, name in ERRMAP:
        if frag in s:
            return name
    if isinstance(e, (KeyError, IndexError)):
        return 'key'
    return 'other:' + type(e).__name__ + ':' + s[:80]
