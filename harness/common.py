"""common.py — shared plumbing of the /verif checks.

  * environment pinning (implementation = /repo/src, run in-process under /venv/bin/python)
  * exact-rational token I/O with the extracted OCaml model runner
  * build steps (translator -> coq make -> extraction -> ocaml), serialised by a file lock
  * Ctx: counters, failure/mismatch recording, shrinking hook, evidence, replay, known findings
"""
import fcntl
import hashlib
import json
import os
import random
import re
import subprocess
import sys
import time
import traceback
import warnings
from fractions import Fraction

VERIF = os.path.dirname(os.path.dirname(os.path.abspath(__file__)))
REPO = os.environ.get('VERIF_REPO', '/repo')
SRC = os.path.join(REPO, 'src')
COQ = os.path.join(VERIF, 'coq')
OCAML = os.path.join(VERIF, 'ocaml')
DEFAULT_RUNNER = 'seq'


def runner_path(name):
    return os.path.join(OCAML, name, 'runner')

EVID = os.path.join(VERIF, 'evidence')
REPLAYS = os.path.join(VERIF, 'replays')
KF_FILE = os.path.join(VERIF, 'known_findings.json')
GUARD = 'PYPULSEQ_VERIF'

ALLOWED_AXIOMS = {
    # standard-library axioms that may legitimately appear (each is named in the trusted base)
    'Eqdep.Eq_rect_eq.eq_rect_eq', 'Coq.Logic.Eqdep.Eq_rect_eq.eq_rect_eq',
    'FunctionalExtensionality.functional_extensionality_dep',
    'Coq.Logic.FunctionalExtensionality.functional_extensionality_dep',
}

HYGIENE_RE = re.compile(
    r'\b(Admitted|admit|give_up|Axiom|Axioms|Parameter|Parameters|Conjecture|Conjectures|'
    r'Unset\s+Guard\w*|bypass_check|Unset\s+Positivity\w*|Unset\s+Universe\w*|type-in-type|impredicative-set|'
    r'Admit\s+Obligations|native_compute|Extract\s+Constant|Extract\s+Inductive|Extract\s+Inlined|ExtrOcamlNatInt|ExtrOcamlZInt|ExtrOcamlNatBigInt|ExtrOcamlZBigInt)\b')


def pin_env():
    """Make `import pypulseq` resolve to the current working tree of /repo, deterministically."""
    os.environ.setdefault('PYTHONHASHSEED', '0')
    os.environ['MPLBACKEND'] = 'Agg'
    os.environ[GUARD] = '1'
    if SRC not in sys.path:
        sys.path.insert(0, SRC)
    warnings.simplefilter('ignore')


# ------------------------------------------------------------------------------------------------
# exact rational tokens
def ztok(n: int) -> str:
    return ('-' if n < 0 else '') + format(abs(int(n)), 'x')


def qtok(x) -> str:
    f = x if isinstance(x, Fraction) else Fraction(x)
    if f.denominator == 1:
        return ztok(f.numerator)
    return ztok(f.numerator) + '/' + format(f.denominator, 'x')


def tokz(s: str) -> int:
    return int(s, 16)


def tokq(s: str) -> Fraction:
    if '/' in s:
        a, b = s.split('/')
        return Fraction(int(a, 16), int(b, 16))
    return Fraction(int(s, 16))


def qlist(xs) -> str:
    xs = list(xs)
    return ' '.join([str(len(xs))] + [qtok(x) for x in xs])


def zlist(xs) -> str:
    xs = list(xs)
    return ' '.join([str(len(xs))] + [ztok(x) for x in xs])


class Toks:
    """reader over a whitespace-separated result line"""

    def __init__(self, line):
        self.t = line.split()
        self.i = 0

    def next(self):
        v = self.t[self.i]
        self.i += 1
        return v

    def int(self):
        return int(self.next())

    def bool(self):
        return self.next() == '1'

    def z(self):
        return tokz(self.next())

    def q(self):
        return tokq(self.next())

    def qf(self):
        """rational token as the nearest binary64 (int/int true division is correctly rounded)"""
        s = self.next()
        if '/' in s:
            a, b = s.split('/')
            return int(a, 16) / int(b, 16)
        return float(int(s, 16))

    def list(self, f):
        n = self.int()
        return [f() for _ in range(n)]

    def opt(self, f):
        return f() if self.bool() else None

    def more(self):
        return self.i < len(self.t)


def F(x) -> Fraction:
    """exact value of a Python/NumPy float (or int / Fraction)"""
    if isinstance(x, Fraction):
        return x
    if isinstance(x, int):
        return Fraction(x)
    return Fraction(float(x))


def D(x) -> Fraction:
    """shortest-round-trip decimal of a double, as an exact rational.  This is the abstraction under which
    library rows are handed to the store model: it is injective on doubles, maps the double nearest to a
    short decimal back to that decimal (so the model's exact decimal rounding and the implementation's
    `round()` results coincide), and differs from the exact binary value by < 1 ulp."""
    if isinstance(x, Fraction):
        return x
    if isinstance(x, int):
        return Fraction(x)
    return Fraction(repr(float(x)))


def dec(s: str) -> Fraction:
    """exact value of a decimal string"""
    return Fraction(s)


# ------------------------------------------------------------------------------------------------
# model runner
class ModelUnavailable(Exception):
    pass


def run_model(lines, timeout=3600, runner=DEFAULT_RUNNER):
    """Feed case lines to an extracted-OCaml model runner, one output line per input line."""
    exe = runner_path(runner)
    if not os.path.exists(exe):
        raise ModelUnavailable('model runner %s not built' % runner)
    data = '\n'.join(lines) + '\n'
    p = subprocess.run(['/bin/sh', '-c', 'ulimit -s unlimited 2>/dev/null; exec "%s"' % exe],
                       input=data, capture_output=True, text=True, timeout=timeout)
    if p.returncode != 0:
        raise ModelUnavailable('model_runner exit %d: %s' % (p.returncode, p.stderr[-500:]))
    out = p.stdout.split('\n')
    if out and out[-1] == '':
        out.pop()
    if len(out) != len(lines):
        raise ModelUnavailable('model_runner produced %d lines for %d cases' % (len(out), len(lines)))
    return out


# ------------------------------------------------------------------------------------------------
# build
class BuildResult:
    def __init__(self):
        self.translate_errors = {}     # gen section -> message
        self.proof_ok = True
        self.proof_log = ''
        self.model_ok = True
        self.model_log = ''
        self.assumptions = {}          # theorem -> 'closed' | [axioms]
        self.obligations = []          # names in Props file
        self.hygiene = []
        self.source_changed = {}       # fingerprint group -> message (escalates the correspondence, not a failure)
        self.wall = 0.0


def _sh(cmd, cwd=None, timeout=3000):
    p = subprocess.run(cmd, shell=True, cwd=cwd, capture_output=True, text=True, timeout=timeout)
    return p.returncode, p.stdout + p.stderr


def strip_coq_comments(txt):
    """remove (nested) Coq comments and string literals with a small lexer"""
    out = []
    i, n, depth = 0, len(txt), 0
    while i < n:
        two = txt[i:i + 2]
        if two == '(*':
            depth += 1
            i += 2
        elif two == '*)' and depth > 0:
            depth -= 1
            i += 2
            out.append(' ')
        elif depth > 0:
            i += 1
        elif txt[i] == '"':
            j = i + 1
            while j < n:
                if txt[j] == '"':
                    if txt[j + 1:j + 2] == '"':
                        j += 2
                        continue
                    break
                j += 1
            out.append('""')
            i = j + 1
        else:
            out.append(txt[i])
            i += 1
    return ''.join(out)


SECTION_DECL_RE = re.compile(r'\b(Variable|Variables|Hypothesis|Hypotheses|Context)\b')
SENTENCE_RE = re.compile(r'\b(Section|Module|End)\s+([A-Za-z_][A-Za-z0-9_\']*)\s*\.|'
                         r'\b(Variable|Variables|Hypothesis|Hypotheses|Context)\b')


def hygiene_scan():
    """forbidden vernacular anywhere; Variable/Hypothesis/Context only inside a Section"""
    hits = []
    for root, _, files in os.walk(COQ):
        for fn in files:
            if not fn.endswith('.v'):
                continue
            path = os.path.join(root, fn)
            txt = strip_coq_comments(open(path).read())
            rel = os.path.relpath(path, COQ)
            for m in HYGIENE_RE.finditer(txt):
                hits.append('%s: %s' % (rel, m.group(0)))
            stack = []
            for m in SENTENCE_RE.finditer(txt):
                if m.group(1) in ('Section', 'Module'):
                    stack.append(m.group(1))
                elif m.group(1) == 'End':
                    if stack:
                        stack.pop()
                elif 'Section' not in stack:
                    hits.append('%s: %s outside a Section' % (rel, m.group(3)))
    return hits


def _dep_key(vfile):
    """the property file and its compiled object (make rebuilds the .vo whenever any dependency changed)"""
    h = hashlib.sha1(open(vfile, 'rb').read())
    vo = vfile + 'o'
    if os.path.exists(vo):
        st = os.stat(vo)
        h.update(('%d:%d' % (st.st_size, st.st_mtime_ns)).encode())
    return h.hexdigest()


def parse_props_file(path):
    txt = open(path).read()
    return re.findall(r'^\s*(?:Theorem|Example|Lemma|Corollary)\s+([A-Za-z0-9_\']+)', txt, flags=re.M)


def parse_assumptions(out):
    """Parse the stdout of coqc on a Props file: sequence of Print Assumptions answers."""
    res = []
    cur = None
    for line in out.split('\n'):
        if line.startswith('Closed under the global context'):
            res.append('closed')
            cur = None
        elif line.startswith('Axioms:'):
            cur = []
            res.append(cur)
        elif cur is not None:
            m = re.match(r'^([A-Za-z_][A-Za-z0-9_.\']*)\s*:', line)
            if m:
                cur.append(m.group(1))
            elif line.strip() == '' :
                pass
    return res


def build(prop_id, gen_sections, coq_targets, need_model=True, log=print,
          extract_targets=('Extract/Extract.vo',), runners=(DEFAULT_RUNNER,)):
    """translate -> make Props/<id>.vo (+ deps) -> extraction -> ocaml.  Serialised by a lock."""
    import translate
    import mkproject
    br = BuildResult()
    t0 = time.time()
    os.makedirs(os.path.join(VERIF, '.lock'), exist_ok=True)
    with open(os.path.join(VERIF, '.lock', 'build.lock'), 'w') as lk:
        fcntl.flock(lk, fcntl.LOCK_EX)
        try:
            errs = translate.run(log=lambda *a: None)
            br.translate_errors = {k: v for k, v in errs.items()}
            bad = [s for s in gen_sections if s in errs and not s.startswith('FP_')]
            br.source_changed = {s: errs[s] for s in gen_sections if s in errs and s.startswith('FP_')}
            mkproject.run()
            if bad:
                br.proof_ok = False
                br.proof_log = 'translator failed closed for: ' + '; '.join('%s: %s' % (s, errs[s]) for s in bad)
            else:
                tg = ' '.join(coq_targets)
                rc, out = _sh('timeout 2400 make -j8 %s' % tg, cwd=COQ)
                if rc != 0:
                    br.proof_ok = False
                    br.proof_log = out[-4000:]
            br.hygiene = hygiene_scan()
            if br.hygiene:
                br.proof_ok = False
                br.proof_log += '\nhygiene: ' + '; '.join(br.hygiene)
            # assumptions of the property theorems (cached next to the .vo)
            for tgt in coq_targets:
                if not tgt.startswith('Props/'):
                    continue
                v = os.path.join(COQ, tgt[:-1])
                vo = os.path.join(COQ, tgt)
                names = parse_props_file(v)
                br.obligations += names
                if not br.proof_ok or not os.path.exists(vo):
                    continue
                cache = vo[:-3] + '.assumptions'
                key = _dep_key(v)
                cached = open(cache).read() if os.path.exists(cache) else ''
                if not cached.startswith(key + '\n'):
                    rc, out = _sh('timeout 1200 coqc -Q . PV -w none %s 2>&1' % tgt[:-1], cwd=COQ)
                    if rc != 0:
                        br.proof_ok = False
                        br.proof_log += out[-3000:]
                        continue
                    key = _dep_key(v)     # coqc has just rewritten the .vo: key the cache on the new object
                    open(cache, 'w').write(key + '\n' + out)
                out = open(cache).read()
                answers = parse_assumptions(out)
                printed = re.findall(r'^\s*Print Assumptions\s+([A-Za-z0-9_\']+)', open(v).read(), flags=re.M)
                for n, a in zip(printed, answers):
                    br.assumptions[n] = a
                    if a != 'closed':
                        extra = [x for x in a if x not in ALLOWED_AXIOMS]
                        if extra:
                            br.proof_ok = False
                            br.proof_log += '\n%s depends on non-allowed axioms %s' % (n, extra)
                if len(printed) != len(answers):
                    br.proof_ok = False
                    br.proof_log += '\nPrint Assumptions answers (%d) != requests (%d) in %s' % (len(answers), len(printed), tgt)
            if need_model and runners:
                rc, out = _sh('timeout 2400 make -j8 %s' % ' '.join(extract_targets), cwd=COQ)
                if rc != 0:
                    br.model_ok = False
                    br.model_log = out[-3000:]
                else:
                    for rn in runners:
                        rd = os.path.join(OCAML, rn)
                        exe = runner_path(rn)
                        srcs = [os.path.join(rd, f) for f in os.listdir(rd) if f.endswith('.ml')] + \
                               [os.path.join(OCAML, 'common', f) for f in os.listdir(os.path.join(OCAML, 'common'))]
                        if (not os.path.exists(exe)) or any(os.path.getmtime(s) > os.path.getmtime(exe) for s in srcs):
                            rc, out = _sh('./build.sh %s' % rn, cwd=OCAML)
                            if rc != 0:
                                br.model_ok = False
                                br.model_log = out[-3000:]
        finally:
            fcntl.flock(lk, fcntl.LOCK_UN)
    br.wall = time.time() - t0
    return br


def run_coqchk(coq_targets, timeout=2400):
    """independent re-check of the compiled property files (and everything they depend on) with coqchk;
    returns dict(ok, axioms, unsafe, log)"""
    mods = ['PV.' + t[:-3].replace('/', '.') for t in coq_targets if t.startswith('Props/')]
    if not mods:
        return {'ok': True, 'axioms': [], 'log': 'no property file'}
    try:
        rc, out = _sh('timeout %d coqchk -silent -o -Q . PV %s 2>&1' % (timeout, ' '.join(mods)), cwd=COQ, timeout=timeout + 60)
    except subprocess.TimeoutExpired:
        return {'ok': False, 'axioms': [], 'log': 'coqchk timed out'}
    res = {'ok': rc == 0, 'axioms': [], 'unsafe': [], 'log': out[-1500:]}
    cur = None
    for line in out.split('\n'):
        m = re.match(r'^\* (Axioms|Constants/Inductives relying on type-in-type|Constants/Inductives relying on unsafe \(co\)fixpoints|'
                     r'Inductives whose positivity is assumed):\s*(.*)$', line)
        if m:
            cur = 'axioms' if m.group(1) == 'Axioms' else 'unsafe'
            rest = m.group(2).strip()
            if rest and rest != '<none>':
                res[cur].append(rest)
        elif cur and line.startswith('    ') and line.strip():
            res[cur].append(line.strip())
        elif line.strip() == '':
            cur = None
    extra = [a for a in res['axioms'] if a.split()[0] not in ALLOWED_AXIOMS]
    if extra or res['unsafe']:
        res['ok'] = False
    return res


# ------------------------------------------------------------------------------------------------
def stable_hash(obj) -> str:
    return hashlib.sha1(json.dumps(obj, sort_keys=True, default=str).encode()).hexdigest()[:16]


def jsonable(x):
    try:
        import numpy as np
    except Exception:
        np = None
    if isinstance(x, Fraction):
        return str(x)
    if isinstance(x, dict):
        return {str(k): jsonable(v) for k, v in x.items()}
    if isinstance(x, (list, tuple)):
        return [jsonable(v) for v in x]
    if np is not None:
        if isinstance(x, np.ndarray):
            return [jsonable(v) for v in x.tolist()]
        if isinstance(x, np.generic):
            return jsonable(x.item())
    if isinstance(x, float):
        if x != x or x in (float('inf'), float('-inf')):
            return repr(x)
        return x
    if isinstance(x, (int, str, bool)) or x is None:
        return x
    if isinstance(x, complex):
        return [x.real, x.imag]
    if hasattr(x, '__dict__'):
        return {k: jsonable(v) for k, v in vars(x).items()}
    return repr(x)


class Ctx:
    def __init__(self, prop_id, tier, seed, budget_s=None):
        self.id = prop_id
        self.tier = tier
        self.seed = seed
        self.t0 = time.time()
        self.budget_s = budget_s
        self.dist = {}
        self.failures = []        # oracle failures: dict(signature, case, detail)
        self.mismatches = []      # model/impl correspondence mismatches
        self.benign = []          # divergences whose impl output still satisfies the property
        self.samples = []
        self.nontrivial = set()
        self.evaluations = 0
        self.model_cases = 0
        self.model_available = True
        self.runner = DEFAULT_RUNNER
        self.escalated = False      # source of a transcribed region changed: run the deep correspondence
        self.notes = []

    # PRNG: every random choice derives from (seed, property, stream)
    def rng(self, stream='main'):
        h = hashlib.sha256(('%d|%s|%s' % (self.seed, self.id, stream)).encode()).digest()
        return random.Random(int.from_bytes(h[:8], 'big'))

    def out_of_time(self):
        return self.budget_s is not None and (time.time() - self.t0) > self.budget_s

    def count(self, key, n=1):
        self.dist[key] = self.dist.get(key, 0) + n

    def evaluated(self, case_key=None, nontrivial=True):
        self.evaluations += 1
        if nontrivial and case_key is not None:
            self.nontrivial.add(case_key if isinstance(case_key, str) else stable_hash(jsonable(case_key)))

    def sample(self, case, limit=4):
        if len(self.samples) < limit:
            self.samples.append(jsonable(case))

    def fail(self, signature, case, detail):
        """the property's own predicate failed on the implementation's output"""
        self.failures.append({'signature': signature, 'case': jsonable(case), 'detail': jsonable(detail)})

    def mismatch(self, stream, case, detail):
        self.mismatches.append({'stream': stream, 'case': jsonable(case), 'detail': jsonable(detail)})

    def benign_divergence(self, stream, case, detail):
        self.benign.append({'stream': stream, 'case': jsonable(case), 'detail': jsonable(detail)})

    def model(self, lines, runner=None):
        if not self.model_available:
            raise ModelUnavailable('model disabled')
        out = run_model(lines, runner=runner or self.runner)
        self.model_cases += len(lines)
        return out


class LineCoverage:
    """line coverage of the property's anchored source files while the check runs (sys.monitoring, Python >= 3.12:
    each line event is delivered once per code location and then disabled, so the overhead is negligible)"""

    def __init__(self, prop_id):
        self.files = {}
        self.hit = {}
        self.tool = None
        try:
            for l in open(os.path.join(VERIF, 'properties.jsonl')):
                p = json.loads(l)
                if p.get('id') == prop_id:
                    for f in p.get('anchors', {}).get('files', []):
                        self.files[os.path.realpath(os.path.join(REPO, f))] = f
        except Exception:
            pass

    def start(self):
        mon = getattr(sys, 'monitoring', None)
        if mon is None or not self.files:
            return
        try:
            self.tool = mon.COVERAGE_ID
            mon.use_tool_id(self.tool, 'pv-coverage')
        except Exception:
            self.tool = None
            return
        files, hit = self.files, self.hit

        def on_line(code, line):
            fn = code.co_filename
            if fn in files:
                hit.setdefault(fn, set()).add(line)
            return mon.DISABLE
        mon.register_callback(self.tool, mon.events.LINE, on_line)
        mon.set_events(self.tool, mon.events.LINE)

    def stop(self):
        mon = getattr(sys, 'monitoring', None)
        if mon is None or self.tool is None:
            return
        try:
            mon.set_events(self.tool, 0)
            mon.register_callback(self.tool, mon.events.LINE, None)
            mon.free_tool_id(self.tool)
        except Exception:
            pass

    @staticmethod
    def _executable_lines(path):
        lines = set()
        try:
            code = compile(open(path).read(), path, 'exec')
        except Exception:
            return lines
        stack = [code]
        while stack:
            c = stack.pop()
            for _, _, ln in c.co_lines():
                if ln is not None:
                    lines.add(ln)
            for k in c.co_consts:
                if hasattr(k, 'co_lines'):
                    stack.append(k)
        return lines

    def report(self):
        out = {}
        for path, rel in self.files.items():
            ex = self._executable_lines(path)
            got = self.hit.get(path, set()) & ex if ex else self.hit.get(path, set())
            missed = sorted(ex - got)
            ranges = []
            for ln in missed:
                if ranges and ln == ranges[-1][1] + 1:
                    ranges[-1][1] = ln
                else:
                    ranges.append([ln, ln])
            out[rel] = {'executable_lines': len(ex), 'executed': len(got),
                        'not_executed': ['%d-%d' % (a, b) if a != b else str(a) for a, b in ranges][:60]}
        return out


def load_known():
    if not os.path.exists(KF_FILE):
        return []
    return json.load(open(KF_FILE)).get('findings', [])


def write_replay(prop_id, name, payload):
    os.makedirs(REPLAYS, exist_ok=True)
    path = os.path.join(REPLAYS, '%s_%s.json' % (prop_id, name))
    json.dump(jsonable(payload), open(path, 'w'), indent=1)
    return path


def write_evidence(prop_id, ev):
    os.makedirs(EVID, exist_ok=True)
    path = os.path.join(EVID, '%s.json' % prop_id)
    tmp = path + '.tmp'
    json.dump(jsonable(ev), open(tmp, 'w'), indent=1)
    os.replace(tmp, path)
    return path
