"""exportgen.py — shared by the C08 / C09 check modules.

  * generator of random EDGE-CONSISTENT sequences (trapezoids, triangles, extended trapezoids and raster-sampled
    arbitrary gradients connected across blocks with non-zero edges of both signs, delays, empty blocks, several
    channels; optional RF pulses of every `use` and ADC events).  Every time is a multiple of the gradient raster
    (gradients, block durations), 1 us (RF, delays) or 100 ns (ADC dwell): multiples of 50 ns.
  * encoder of what the sequence holds (get_block) into model input lines (times snapped to the 1 ns grid they were
    generated on, amplitudes as the exact value of the stored double)
  * an independent exact-Fraction renderer / integrator of the events (the oracle side)
"""
import bisect
import math
from fractions import Fraction

import numpy as np

from common import F, qtok, qlist

U = 1000.0                       # amplitude unit (Hz/m): every corner amplitude is an integer multiple
GOOD_MAX = [1, 2, 4, 5, 8, 10, 16, 20, 25, 32, 40, 50, 64, 80, 100, 125, 128, 160, 200, 250]
RF_USES = [None, 'excitation', 'refocusing', 'inversion', 'saturation', 'preparation']
NS = 10 ** 9


def snap(x):
    """the 1 ns grid value next to the double x (generated times are multiples of 50 ns)"""
    return Fraction(int(round(float(x) * NS)), NS)


def on_grid(x):
    return abs(F(float(x)) - snap(x)) <= Fraction(1, 10 ** 13)


# ------------------------------------------------------------------------------------------------
# generator
class Builder:
    def __init__(self, rng, with_rf=False, with_adc=False, max_blocks=8, reread=False, long=False, twins=False,
                 gapped=False, adc_on_rf=False):
        import pypulseq as pp
        self.pp = pp
        self.rng = rng
        r = rng
        self.reread = reread
        self.long = long          # 1-10 s of delay in front, events one / two raster steps apart
        self.twins = twins        # extended trapezoid + arbitrary gradient with the SAME normalised amplitude shape
        self.adc_on_rf = adc_on_rf  # ADC running under an RF pulse with one sample exactly on the RF centre
        self.gapped = gapped      # self-contained blocks stored with set_block under gapped, unordered block numbers
        self.raster = r.choice([10e-6, 10e-6, 20e-6]) if not reread else r.choice([20e-6, 20e-6, 10e-6])
        self.rk = int(round(self.raster * 1e6))          # raster in us
        self.system = pp.Opts(grad_raster_time=self.raster, block_duration_raster=self.raster,
                              max_grad=r.choice([40, 80]), grad_unit='mT/m',
                              max_slew=r.choice([170, 200, 100]), slew_unit='T/m/s')
        self.step = int(0.9 * self.system.max_slew * self.raster / U)   # amplitude units per raster (slew)
        self.with_rf = with_rf
        self.with_adc = with_adc
        self.last = {'x': 0, 'y': 0, 'z': 0}
        self.n_blocks = r.randint(1, max_blocks)
        self.desc = []        # JSON-able description of every block (enough to rebuild the sequence)

    # ---- helpers (all amplitudes in integer units of U, all times in integer rasters) ----
    def ramp(self, a, b):
        need = max(1, math.ceil(abs(b - a) / self.step))
        return need + self.rng.choice([0, 0, 1, 2, 5])

    def pick_amp(self, lo=1):
        r = self.rng
        cands = [m for m in GOOD_MAX if m >= lo and m <= 128]
        m = r.choice(cands) if cands else lo
        return m * r.choice([-1, 1])

    def gen_trap(self, tri=False):
        r = self.rng
        a = self.pick_amp() if r.random() < 0.6 else r.choice([-1, 1]) * r.randint(1, 128) + r.choice([0, 0.5, 0.123456789])
        rise = self.ramp(0, a)
        fall = rise if r.random() < 0.5 else self.ramp(0, a)
        flat = 0 if tri else r.randint(1, 30)
        delay = r.choice([0, 0, 1, 3, 10]) if not self.long else r.choice([0, 1, 2, 1, 2])
        return {'k': 'trap', 'amp': a, 'rise': rise, 'flat': flat, 'fall': fall, 'delay': delay}

    def gen_ext(self, first, last_v):
        """corner list from `first` to `last_v`; times in rasters, tt[0] = 0"""
        r = self.rng
        delay = (r.choice([0, 0, 2, 7]) if not self.long else r.choice([0, 1, 2, 1, 2])) if first == 0 else 0
        nmid = r.choice([0, 1, 1, 2, 3])
        lo = max(abs(first), abs(last_v), 1)
        mmax = abs(self.pick_amp(lo))
        vals = [first]
        for i in range(nmid):
            v = r.randint(-mmax, mmax) if r.random() < 0.6 else vals[-1]
            vals.append(v)
        vals.append(last_v)
        if max(abs(v) for v in vals) not in GOOD_MAX:
            # force the extreme value to be of the form 2^a 5^b: the shape quantisation is then exact
            i = r.randint(1, len(vals) - 1) if len(vals) > 2 else None
            if i is not None and i < len(vals) - 1:
                vals[i] = mmax * r.choice([-1, 1])
            elif len(vals) == 2:
                vals.insert(1, mmax * r.choice([-1, 1]))
        if not any(vals):
            vals.insert(1, self.pick_amp())
        tt = [0]
        unit = r.random() < 0.25 and all(abs(vals[i] - vals[i - 1]) <= self.step for i in range(1, len(vals)))
        for i in range(1, len(vals)):
            if unit:
                tt.append(tt[-1] + 1)       # corners on consecutive raster edges: times = arange(n) * raster
            else:
                tt.append(tt[-1] + self.ramp(vals[i - 1], vals[i]) + (r.randint(0, 10) if vals[i - 1] == vals[i] else 0))
        return {'k': 'ext', 'delay': delay, 'tt': tt, 'vals': vals}

    def gen_arb(self, first, last_v):
        """raster samples: a slew-limited integer walk from `first` to `last_v`"""
        r = self.rng
        delay = (r.choice([0, 0, 1, 4]) if not self.long else r.choice([0, 1, 2, 1, 2])) if first == 0 else 0
        lo = max(abs(first), abs(last_v), 1)
        mmax = abs(self.pick_amp(lo))
        n = r.randint(3, 16)
        half = max(1, self.step // 2)
        w = []
        cur = first
        # walk towards a random target, then towards last_v, steps limited by the slew
        target = r.choice([-1, 1]) * mmax
        for i in range(n):
            lim = half if i == 0 else self.step
            d = max(-lim, min(lim, target - cur))
            if d == 0 and r.random() < 0.5:
                target = r.randint(-mmax, mmax)
            cur = max(-mmax, min(mmax, cur + d))
            w.append(cur)
        target = last_v
        while abs(w[-1] - last_v) > half or len(w) < 2:
            d = max(-self.step, min(self.step, last_v - w[-1]))
            w.append(w[-1] + d)
        if self.reread or r.random() < 0.3:
            # the file format does not store `last`: a reader restores it by linear extrapolation of the last two
            # samples; end the walk with  last + 3d, last + d  so that the extrapolation IS `last` while the last
            # sample differs from it
            d = r.choice([-1, 1]) * r.randint(1, max(1, min(half // 3, 12)))
            while abs(w[-1] - (last_v + 3 * d)) > self.step:
                w.append(w[-1] + max(-self.step, min(self.step, last_v + 3 * d - w[-1])))
            w += [last_v + 3 * d, last_v + d]
        return {'k': 'arb', 'delay': delay, 'w': w, 'first': first, 'last': last_v}

    def g_end(self, g):
        if g['k'] == 'trap':
            return g['delay'] + g['rise'] + g['flat'] + g['fall']
        if g['k'] == 'ext':
            return g['delay'] + g['tt'][-1]
        return g['delay'] + len(g['w'])

    def g_last(self, g):
        if g['k'] == 'trap':
            return 0
        return g['vals'][-1] if g['k'] == 'ext' else g['last']

    def extend(self, g, end):
        """hold the final value of a non-zero-ending gradient up to the block end (in rasters)"""
        if g['k'] == 'ext' and g['delay'] + g['tt'][-1] < end:
            g['tt'].append(end - g['delay'])
            g['vals'].append(g['vals'][-1])
        elif g['k'] == 'arb':
            while g['delay'] + len(g['w']) < end:
                g['w'].append(g['last'])

    def block_end(self, blk):
        """duration of a described block in gradient rasters"""
        ends = [self.g_end(g) for g in blk['g'].values()]
        if blk['rf']:
            ends.append(math.ceil((blk['rf']['delay'] + blk['rf']['dur']) / self.rk))
        if blk['adc']:
            ends.append(math.ceil((blk['adc']['delay'] + blk['adc']['n'] * blk['adc']['dwell'] / 10) / self.rk))
        if blk['delay']:
            ends.append(blk['delay'])
        return max(ends) if ends else 0

    def g_first(self, g):
        if g['k'] == 'trap':
            return 0
        return g['vals'][0] if g['k'] == 'ext' else g['first']

    def gen_history(self):
        """operations applied to the sequence object AFTER it has been exported once: set_block replacing an existing
        block by edge-consistent content of ANOTHER duration (the same events plus a longer delay where every gradient
        of the block ends at zero; a pure delay or a fresh zero-to-zero block where the block's gradients also start
        at zero), and add_block of new final blocks.  Call after generate()."""
        import copy
        r = self.rng
        blocks = [copy.deepcopy(b) for b in self.desc]
        ops = []
        for _ in range(r.choice([1, 1, 2, 2, 3])):
            kind = r.choice(['longer', 'longer', 'replace', 'delay', 'add', 'flip', 'flip', 'mod', 'dedup'])
            ends0 = [i for i, b in enumerate(blocks) if all(self.g_last(g) == 0 for g in b['g'].values())]
            both0 = [i for i in ends0 if all(self.g_first(g) == 0 for g in blocks[i]['g'].values())]
            if kind in ('flip', 'mod'):
                # flip_grad_axis / mod_grad_axis on an axis that carries gradients (all of them scale together, so the
                # sequence stays edge consistent); the decoded-block cache must not keep the old amplitudes
                axes = [c for c in 'xyz' if any(c in b['g'] for b in blocks)]
                if not axes:
                    continue
                ax = r.choice(axes)
                f = -1 if kind == 'flip' else r.choice([-1, 2, 0.5, -2])
                ops.append({'op': 'flip', 'axis': ax} if kind == 'flip' else {'op': 'mod', 'axis': ax, 'factor': f})
                blocks = scale_desc(blocks, ax, f)
                # ... and then add events EQUAL to earlier, pre-modification ones again (the same unmodified block):
                # they must be stored as given, not bound to the modified library entries
                cand = [b for b in self.desc if ax in b['g'] and
                        all(self.g_first(g) == 0 and self.g_last(g) == 0 for g in b['g'].values())]
                last_zero = all(self.g_last(g) == 0 for g in blocks[-1]['g'].values()) if blocks else True
                if cand and last_zero and r.random() < 0.8:
                    nb = copy.deepcopy(r.choice(cand))
                    ops.append({'op': 'add', 'block': nb})
                    blocks.append(nb)
            elif kind == 'dedup':
                ops.append({'op': 'dedup'})
            elif kind == 'longer' and ends0:
                i = r.choice(ends0)
                nb = copy.deepcopy(blocks[i])
                nb['delay'] = self.block_end(nb) + r.choice([1, 2, 5, 13, 40])
                ops.append({'op': 'set', 'index': i, 'block': nb})
                blocks[i] = nb
            elif kind == 'delay' and both0:
                i = r.choice(both0)
                old = self.block_end(blocks[i])
                d = r.choice([x for x in (1, 2, 3, 7, 20, 55, old + 4) if x != old])
                nb = {'g': {}, 'rf': None, 'adc': None, 'delay': d}
                ops.append({'op': 'set', 'index': i, 'block': nb})
                blocks[i] = nb
            elif kind == 'replace' and both0:
                i = r.choice(both0)
                old = self.block_end(blocks[i])
                saved = dict(self.last)
                self.last = {'x': 0, 'y': 0, 'z': 0}
                nb = self.gen_block(final=True)
                self.last = saved
                if self.block_end(nb) == old:
                    nb['delay'] = old + r.choice([1, 3, 9])
                ops.append({'op': 'set', 'index': i, 'block': nb})
                blocks[i] = nb
            else:
                if any(v != 0 for v in self.last.values()):
                    continue
                nb = self.gen_block(final=True)
                ops.append({'op': 'add', 'block': nb})
                blocks.append(nb)
        return ops

    def gen_block(self, final):
        r = self.rng
        blk = {'g': {}, 'rf': None, 'adc': None, 'delay': None}
        kind = r.random()
        pure_delay = all(v == 0 for v in self.last.values()) and kind < 0.12
        if pure_delay:
            blk['delay'] = r.randint(1, 50)
        else:
            for ch in 'xyz':
                f = self.last[ch]
                if f == 0:
                    k = r.choice([None, None, 'trap', 'trap', 'tri', 'ext', 'ext', 'arb'])
                else:
                    k = r.choice(['ext', 'ext', 'arb'])
                if k is None:
                    continue
                if k in ('trap', 'tri'):
                    blk['g'][ch] = self.gen_trap(tri=(k == 'tri'))
                    continue
                lv = 0 if (final or r.random() < 0.45) else r.choice([-1, 1]) * r.choice([3, 10, 17, 40, 64, 100])
                blk['g'][ch] = self.gen_ext(f, lv) if k == 'ext' else self.gen_arb(f, lv)
            if self.with_rf and r.random() < 0.45:
                use = r.choice(RF_USES + ['excitation', 'refocusing'])
                shape = r.choice(['block', 'block', 'sinc', 'sinc', 'lobes'])
                blk['rf'] = {'shape': shape, 'use': use, 'dur': r.randint(2, 25) * 10, 'delay': r.choice([0, 0, 10, 35]),
                             'tbw': r.choice([2, 4]), 'center_pos': r.choice([0.5, 0.5, 0.25, 0.7]),
                             'flip': r.choice([0.3, 1.5707963267948966, 3.141592653589793])}
                if shape == 'block':
                    # every other block pulse repeats the B1 AMPLITUDE of the previous one with another duration
                    # (flip and duration both doubled / halved: byte-identical signal samples, different time axis)
                    prev = getattr(self, 'prev_block_rf', None)
                    if prev is not None and r.random() < 0.6:
                        pf, pd = prev
                        if pd * 2 <= 600 and pf * 2 <= 3.2 and r.random() < 0.7:
                            blk['rf']['flip'], blk['rf']['dur'] = pf * 2, pd * 2
                        elif pd % 20 == 0:
                            blk['rf']['flip'], blk['rf']['dur'] = pf / 2, pd // 2
                    self.prev_block_rf = (blk['rf']['flip'], blk['rf']['dur'])
                if shape == 'lobes':
                    # composite pulse: 2-3 lobes of EQUAL peak amplitude and different length (in RF rasters),
                    # separated by lower stretches: the maximum is reached on an unevenly distributed sample set
                    nl = r.choice([2, 2, 3])
                    lens = r.sample([3, 5, 8, 12, 20, 31, 47], nl)
                    segs = []
                    if r.random() < 0.5:
                        segs.append([r.randint(1, 10), r.choice([0.0, 0.2, 0.5])])
                    for i, n in enumerate(lens):
                        segs.append([n, 1.0])
                        if i < nl - 1 or r.random() < 0.5:
                            segs.append([r.randint(1, 25), r.choice([0.0, 0.3, 0.6, 0.9999])])
                    blk['rf']['segs'] = segs
                    total = sum(n for n, _ in segs)
                    pad = (-total) % 10
                    if pad:
                        segs.append([pad, 0.0])
                    blk['rf']['dur'] = sum(n for n, _ in segs)
                if self.adc_on_rf and self.with_adc and r.random() < 0.7 and \
                        (shape == 'block' or (shape == 'sinc' and blk['rf']['center_pos'] == 0.5)):
                    # an ADC in the same block with sample n0 exactly on the RF centre (delay + dur/2); dwell >= 4 us
                    # keeps every other sample more than one RF raster away from the centre
                    centre_u = (blk['rf']['delay'] * 10 + blk['rf']['dur'] * 5)        # units of 100 ns
                    w = r.choice([40, 60, 100, 200])
                    n0 = r.randint(0, max(0, (centre_u - w // 2) // w))
                    a_u = centre_u - n0 * w - w // 2
                    if a_u >= 0 and a_u % 10 == 0:
                        blk['adc'] = {'n': n0 + 1 + r.randint(0, 8), 'dwell': w, 'delay': a_u // 10}
            elif self.with_adc and r.random() < 0.6:
                blk['adc'] = {'n': r.randint(1, 16), 'dwell': r.choice([10, 25, 50, 100, 237]),   # units of 100 ns
                              'delay': r.choice([0, 0, 5, 13, 40])}                               # us
            if r.random() < 0.15:
                blk['delay'] = r.randint(1, 60)
        # block end in rasters
        if self.block_end(blk) == 0:
            blk['delay'] = r.randint(1, 20)
        end = self.block_end(blk)
        for ch, g in blk['g'].items():
            if self.g_last(g) != 0:
                self.extend(g, end)
        for ch in 'xyz':
            self.last[ch] = self.g_last(blk['g'][ch]) if ch in blk['g'] else 0
        return blk

    def twin_blocks(self):
        """blocks (all channels zero before and after) holding, on one channel, an extended trapezoid and a
        raster-sampled arbitrary gradient whose normalised amplitude arrays are IDENTICAL (one deduplicated shape),
        in random order, with delays"""
        r = self.rng
        ch = r.choice('xyz')
        pat = r.choice([[4, 0], [5, 2, 0], [2, 5, 1, 0], [0, 4, 0], [1, 1, 0], [5, 4, 2, 1, 0], [4, -2, 0], [0, 2, 5, 0],
                        [8, 0], [1, 0]])
        sgn = r.choice([-1, 1])
        se = sgn * r.choice([1, 2, 5, 10, 16, 25])
        sb = r.choice([-1, 1]) * r.randint(1, max(1, self.step // (2 * max(abs(v) for v in pat))))
        ev = [v * se for v in pat]
        tt = [0]
        for i in range(1, len(ev)):
            tt.append(tt[-1] + self.ramp(ev[i - 1], ev[i]) + r.choice([0, 0, 1, 3]))
        eb = []
        if ev[0] != 0:
            pre = self.gen_ext(0, ev[0])          # ramp up to the first value, ends at its block end
            eb.append({'g': {ch: pre}, 'rf': None, 'adc': None, 'delay': None})
            ext = {'k': 'ext', 'delay': 0, 'tt': tt, 'vals': ev}
        else:
            ext = {'k': 'ext', 'delay': r.choice([0, 1, 3, 6]), 'tt': tt, 'vals': ev}
        eb.append({'g': {ch: ext}, 'rf': None, 'adc': None, 'delay': r.choice([None, None, 60])})
        arb = {'k': 'arb', 'delay': r.choice([1, 2, 5, 9, 0]), 'w': [v * sb for v in pat], 'first': 0, 'last': 0}
        ab = [{'g': {ch: arb}, 'rf': None, 'adc': None, 'delay': r.choice([None, None, 40])}]
        oth = [c for c in 'xyz' if c != ch]
        if r.random() < 0.5:      # something unrelated on another channel of the arbitrary block
            ab[0]['g'][r.choice(oth)] = self.gen_trap()
        return eb + ab if r.random() < 0.5 else ab + eb

    def generate(self):
        self.desc = []
        if self.long:
            # a long delay in front: absolute times of 1-10 s
            self.desc.append({'g': {}, 'rf': None, 'adc': None, 'delay': self.rng.randint(100000, 1000000) * 10 // self.rk})
        if self.gapped:
            self.desc += [self.gen_block(final=True) for _ in range(self.n_blocks)]
        else:
            self.desc += [self.gen_block(final=(i == self.n_blocks - 1)) for i in range(self.n_blocks)]
        if self.twins:
            tw = self.twin_blocks()
            if self.rng.random() < 0.5:
                self.desc = tw + self.desc
            else:
                self.desc = self.desc + tw + ([self.gen_block(final=True)] if self.rng.random() < 0.5 else [])
        case = {'raster_us': self.rk, 'max_grad': self.system.max_grad, 'max_slew': self.system.max_slew,
                'blocks': self.desc}
        if self.gapped:
            # block numbers: arbitrary positive, with gaps, not ascending (insertion order = time order)
            case['block_ids'] = self.rng.sample(range(1, 4 * len(self.desc) + 5), len(self.desc))
        if self.reread:
            # written with this raster, read into a Sequence() whose SYSTEM has another gradient raster
            case['reread_raster_us'] = 10 if self.rk == 20 else self.rng.choice([20, 5])
        return case


def scale_desc(blocks, axis, f):
    """description of the blocks after mod_grad_axis(axis, f)"""
    import copy
    out = []
    for b in blocks:
        b = copy.deepcopy(b)
        g = b['g'].get(axis)
        if g is not None:
            if g['k'] == 'trap':
                g['amp'] = g['amp'] * f
            elif g['k'] == 'ext':
                g['vals'] = [v * f for v in g['vals']]
            else:
                g['w'] = [v * f for v in g['w']]
                g['first'] = g['first'] * f
                g['last'] = g['last'] * f
        out.append(b)
    return out


def fresh_view(seq):
    """the sequence AS IT IS NOW, decoded without any cache: a deep copy with use_block_cache=False and an empty
    block cache.  Its get_block() defines the events every export of the live object has to render."""
    import copy
    s2 = copy.deepcopy(seq)
    s2.use_block_cache = False
    s2.block_cache = {}
    return s2


def apply_op(seq, blocks, op, case):
    """one history operation through the public API on the live sequence object, and on its description
    (None when the description is no longer known, e.g. after reading another file)"""
    import os
    import tempfile
    kind = op['op']
    if kind in ('set', 'add'):
        system = make_system(case)
        raster = case['raster_us'] * 1e-6
        evs = block_events(op['block'], system, raster)
        if kind == 'set':
            seq.set_block(op['index'] + 1, *evs)
            return blocks[:op['index']] + [op['block']] + blocks[op['index'] + 1:] if blocks is not None else None
        seq.add_block(*evs)
        return blocks + [op['block']] if blocks is not None else None
    if kind == 'flip':
        seq.flip_grad_axis(op['axis'])
        return scale_desc(blocks, op['axis'], -1) if blocks is not None else None
    if kind == 'mod':
        seq.mod_grad_axis(op['axis'], op['factor'])
        return scale_desc(blocks, op['axis'], op['factor']) if blocks is not None else None
    if kind == 'dedup':
        seq.remove_duplicates(in_place=True)
        return None      # dedup rounds the stored numbers to its key digits: the exact description is gone
    if kind == 'read':
        other = build_sequence(op['case'])
        with tempfile.TemporaryDirectory(prefix='pvC08') as d:
            fn = os.path.join(d, 'b.seq')
            other.write(fn, create_signature=False)
            seq.read(fn)
        return None
    raise ValueError('unknown history op %r' % (kind,))


def make_system(case):
    import pypulseq as pp
    raster = case['raster_us'] * 1e-6
    return pp.Opts(grad_raster_time=raster, block_duration_raster=raster,
                   max_grad=case['max_grad'], max_slew=case['max_slew'])   # already in Hz/m, Hz/m/s


def block_events(blk, system, raster):
    """the pypulseq events of one described block"""
    import pypulseq as pp
    evs = []
    for ch, g in blk['g'].items():
        if g['k'] == 'trap':
            evs.append(pp.make_trapezoid(ch, amplitude=g['amp'] * U, rise_time=g['rise'] * raster,
                                         flat_time=g['flat'] * raster, fall_time=g['fall'] * raster,
                                         delay=g['delay'] * raster, system=system))
        elif g['k'] == 'ext':
            evs.append(pp.make_extended_trapezoid(ch, amplitudes=np.array([v * U for v in g['vals']], dtype=float),
                                                  times=np.array([(g['delay'] + t) * raster for t in g['tt']]),
                                                  system=system))
        else:
            evs.append(pp.make_arbitrary_grad(ch, np.array([v * U for v in g['w']], dtype=float),
                                              first=g['first'] * U, last=g['last'] * U,
                                              delay=g['delay'] * raster, system=system))
    if blk['rf']:
        q = blk['rf']
        kw = dict(delay=q['delay'] * 1e-6, system=system)
        if q['use'] is not None:
            kw['use'] = q['use']
        if q['shape'] == 'block':
            evs.append(pp.make_block_pulse(q['flip'], duration=q['dur'] * 1e-6, **kw))
        elif q['shape'] == 'lobes':
            sig = np.concatenate([np.full(int(n), float(v)) for n, v in q['segs']])
            evs.append(pp.make_arbitrary_rf(sig, q['flip'], **kw))
        else:
            evs.append(pp.make_sinc_pulse(q['flip'], duration=q['dur'] * 1e-6, time_bw_product=q['tbw'],
                                          center_pos=q['center_pos'], **kw))
    if blk['adc']:
        q = blk['adc']
        evs.append(pp.make_adc(q['n'], dwell=q['dwell'] * 1e-7, delay=q['delay'] * 1e-6, system=system))
    if blk['delay']:
        evs.append(pp.make_delay(blk['delay'] * raster))
    return evs


def build_sequence(case):
    """case (as returned by Builder.generate) -> pp.Sequence"""
    import pypulseq as pp
    raster = case['raster_us'] * 1e-6
    system = make_system(case)
    seq = pp.Sequence(system, use_block_cache=case.get('cache', True))
    ids = case.get('block_ids')
    for k, blk in enumerate(case['blocks']):
        if ids:
            seq.set_block(ids[k], *block_events(blk, system, raster))
        else:
            seq.add_block(*block_events(blk, system, raster))
    return seq


def reread_sequence(seq, case):
    """write the sequence and read it into a Sequence() built on a system with ANOTHER gradient raster"""
    import os
    import tempfile
    import pypulseq as pp
    other = pp.Opts(grad_raster_time=case['reread_raster_us'] * 1e-6, max_grad=case['max_grad'], max_slew=case['max_slew'])
    with tempfile.TemporaryDirectory(prefix='pvC08') as d:
        fn = os.path.join(d, 'a.seq')
        seq.write(fn, create_signature=False)
        s2 = pp.Sequence(other)
        s2.read(fn)
    return s2


# ------------------------------------------------------------------------------------------------
# what the sequence holds -> plain data (exact rationals)
class Held:
    """events of every block as get_block returns them; times snapped to the 1 ns grid, values exact"""

    def __init__(self, seq):
        self.raster = snap(seq.grad_raster_time)
        self.blocks = []
        self.ok = on_grid(seq.grad_raster_time)
        start = Fraction(0)
        for idx in seq.block_events:
            b = seq.get_block(idx)
            dur = seq.block_durations[idx]
            self.ok &= on_grid(dur)
            ent = {'start': start, 'dur': snap(dur), 'g': [None, None, None], 'rf': None, 'adc': None}
            for j, nm in enumerate(('gx', 'gy', 'gz')):
                g = getattr(b, nm)
                if g is None:
                    continue
                if g.type == 'trap':
                    ts = [g.rise_time, g.flat_time, g.fall_time, g.delay]
                    self.ok &= all(on_grid(t) for t in ts)
                    ent['g'][j] = {'k': 'trap', 'amp': F(float(g.amplitude)), 'rise': snap(g.rise_time),
                                   'flat': snap(g.flat_time), 'fall': snap(g.fall_time), 'delay': snap(g.delay)}
                else:
                    self.ok &= on_grid(g.delay) and all(on_grid(t) for t in g.tt)
                    ent['g'][j] = {'k': 'grad', 'arb': int(g.time_id) == 0, 'delay': snap(g.delay),
                                   'tt': [snap(t) for t in g.tt], 'wf': [F(float(v)) for v in g.waveform],
                                   'first': F(float(g.first)), 'last': F(float(g.last))}
            if b.rf is not None:
                rf = b.rf
                self.ok &= on_grid(rf.delay) and all(on_grid(t) for t in rf.t)
                ent['rf'] = {'delay': snap(rf.delay), 't': [snap(t) for t in rf.t],
                             'mag': [F(float(abs(s))) for s in rf.signal],
                             'use': getattr(rf, 'use', None)}
            if b.adc is not None:
                a = b.adc
                self.ok &= on_grid(a.delay) and on_grid(a.dwell)
                ent['adc'] = {'delay': snap(a.delay), 'dwell': snap(a.dwell), 'n': int(a.num_samples)}
            self.blocks.append(ent)
            start += ent['dur']
        self.total = start

    # ---- model encoding ----
    def grad_tok(self, g):
        if g is None:
            return '0'
        if g['k'] == 'trap':
            return '1 T %s %s %s %s %s' % tuple(qtok(g[k]) for k in ('amp', 'rise', 'flat', 'fall', 'delay'))
        return '1 C %s %s %s %s %s' % (qtok(g['delay']), qlist(g['tt']), qlist(g['wf']), qtok(g['first']), qtok(g['last']))

    def block_tok(self, ent):
        return '%s 3 %s' % (qtok(ent['dur']), ' '.join(self.grad_tok(g) for g in ent['g']))

    def blocks_tok(self):
        return '%d %s' % (len(self.blocks), ' '.join(self.block_tok(e) for e in self.blocks))

    def kblocks_tok(self):
        out = []
        for e in self.blocks:
            s = self.block_tok(e)
            if e['rf'] is None:
                s += ' 0'
            else:
                rf = e['rf']
                u = rf['use']
                utok = '0' if u is None else '1 %d %s' % (len(u.encode()), ' '.join('%x' % c for c in u.encode()))
                # magnitudes scaled by one common power of two to integers (exact; calc_rf_center only compares
                # them with 0.99999 * their maximum, which is scale invariant) - keeps the extracted arithmetic cheap
                den = max([v.denominator for v in rf['mag']] + [1])
                s += ' 1 %s %s %s %s' % (qtok(rf['delay']), qlist(rf['t']), qlist([v * den for v in rf['mag']]), utok)
            if e['adc'] is None:
                s += ' 0'
            else:
                a = e['adc']
                s += ' 1 %s %s %d' % (qtok(a['delay']), qtok(a['dwell']), a['n'])
            out.append(s)
        return '%d %s' % (len(out), ' '.join(out))


# ------------------------------------------------------------------------------------------------
# independent renderer (oracle side): value of ONE event at block-relative time s, None when not active
def interp_corners(ts, vs, s):
    if s < ts[0] or s > ts[-1]:
        return None
    i = bisect.bisect_right(ts, s) - 1
    if i >= len(ts) - 1:
        return vs[-1]
    t0, t1 = ts[i], ts[i + 1]
    return vs[i] + (vs[i + 1] - vs[i]) * (s - t0) / (t1 - t0)


def event_corners(g, raster):
    """block-relative corner times / values of one held gradient event (what the event IS, from its definition)"""
    if g['k'] == 'trap':
        d = g['delay']
        if g['flat'] > 0:
            return [d, d + g['rise'], d + g['rise'] + g['flat'], d + g['rise'] + g['flat'] + g['fall']], \
                   [Fraction(0), g['amp'], g['amp'], Fraction(0)]
        return [d, d + g['rise'], d + g['rise'] + g['fall']], [Fraction(0), g['amp'], Fraction(0)]
    d = g['delay']
    if g['arb']:
        n = len(g['wf'])
        ts = [d] + [d + (i + Fraction(1, 2)) * raster for i in range(n)] + [d + n * raster]
        return ts, [g['first']] + list(g['wf']) + [g['last']]
    return [d + t for t in g['tt']], list(g['wf'])


def event_value(g, raster, s):
    if g['k'] == 'trap':
        u = s - g['delay']
        tot = g['rise'] + g['flat'] + g['fall']
        if u < 0 or u > tot:
            return None
        if u < g['rise']:
            return g['amp'] * u / g['rise']
        if u <= g['rise'] + g['flat']:
            return g['amp']
        return g['amp'] * (tot - u) / g['fall']
    ts, vs = event_corners(g, raster)
    return interp_corners(ts, vs, s)


class Rendering:
    """the sequence as a function of time on one channel, straight from the held events"""

    def __init__(self, held, ch, block_subset=None):
        self.h = held
        self.ch = ch
        self.whole = block_subset is None
        self.items = []       # (start, end_of_block, event)
        for i, e in enumerate(held.blocks):
            if block_subset is not None and i not in block_subset:
                continue
            g = e['g'][ch]
            if g is not None:
                self.items.append((e['start'], e['start'] + e['dur'], g))
        self.starts = [it[0] for it in self.items]
        self.cors = [event_corners(g, held.raster) for (_, _, g) in self.items]   # cached corner lists

    def active_values(self, t):
        out = []
        i = bisect.bisect_right(self.starts, t)
        for j in (i - 2, i - 1, i):
            if 0 <= j < len(self.items):
                st, en, g = self.items[j]
                # active = inside the event's own support
                v = event_value(g, self.h.raster, t - st) if g['k'] == 'trap' else \
                    interp_corners(self.cors[j][0], self.cors[j][1], t - st)
                if v is not None:
                    out.append(v)
        return out

    def corners(self):
        out = []
        for st, en, g in self.items:
            ts, vs = event_corners(g, self.h.raster)
            out += [(st + t, v) for t, v in zip(ts, vs)]
        return out

    def junction_slack(self):
        """largest disagreement between two events at a time where both are active (stored shapes are quantised
        to 1e-7 of their maximum, so touching events may differ by that much): measured, then allowed"""
        worst = Fraction(0)
        for (s0, e0, g0), (s1, e1, g1) in zip(self.items[:-1], self.items[1:]):
            ts0, vs0 = event_corners(g0, self.h.raster)
            ts1, vs1 = event_corners(g1, self.h.raster)
            if s0 + ts0[-1] == s1 + ts1[0]:
                worst = max(worst, abs(vs0[-1] - vs1[0]))
            else:
                worst = max(worst, abs(vs0[-1]), abs(vs1[0]))
        return worst

    def junctions(self):
        """[(interval start, interval end, disagreement)] for every pair of consecutive events: the stretch between
        the last inner corner of the earlier and the first inner corner of the later event, and how much the two
        events disagree where they meet (or differ from zero where they do not meet)"""
        if hasattr(self, '_junc'):
            return self._junc
        out = []
        for (s0, e0, g0), (s1, e1, g1) in zip(self.items[:-1], self.items[1:]):
            ts0, vs0 = event_corners(g0, self.h.raster)
            ts1, vs1 = event_corners(g1, self.h.raster)
            if s0 + ts0[-1] == s1 + ts1[0]:
                m = abs(vs0[-1] - vs1[0])
            else:
                m = max(abs(vs0[-1]), abs(vs1[0]))
            lo = s0 + (ts0[-2] if len(ts0) > 1 else ts0[-1])
            hi = s1 + (ts1[1] if len(ts1) > 1 else ts1[0])
            out.append((lo, hi, m))
        # the first / last event of the channel: where it starts or ends away from zero with nothing next to it (only a
        # re-read sequence can hold such an event: the reader extrapolates `last` of a raster shape), the export steps
        # to zero within the implementation's 1e-9 s nudge, so the rendering is two-valued at that instant
        if self.items and self.whole:     # (not for a restriction to some blocks: its ends are cuts, not ends)
            s0, e0, g0 = self.items[0]
            ts0, vs0 = event_corners(g0, self.h.raster)
            if vs0[0] != 0:
                out.append((s0 + ts0[0] - TEDGE, s0 + (ts0[1] if len(ts0) > 1 else ts0[0]), abs(vs0[0])))
            s1, e1, g1 = self.items[-1]
            ts1, vs1 = event_corners(g1, self.h.raster)
            if vs1[-1] != 0:
                out.append((s1 + (ts1[-2] if len(ts1) > 1 else ts1[-1]), s1 + ts1[-1] + TEDGE, abs(vs1[-1])))
        self._junc = out
        return out

    def slack_at(self, t):
        """the measured disagreement of the events meeting next to t (0 away from junctions)"""
        w = Fraction(0)
        for lo, hi, m in self.junctions():
            if lo <= t <= hi and m > w:
                w = m
        return w

    def max_slope(self):
        if hasattr(self, '_ms'):
            return self._ms
        m = Fraction(0)
        for ts, vs in self.cors:
            for i in range(len(ts) - 1):
                if ts[i + 1] > ts[i]:
                    m = max(m, abs(vs[i + 1] - vs[i]) / (ts[i + 1] - ts[i]))
        self._ms = m
        return m

    def max_abs(self):
        if hasattr(self, '_ma'):
            return self._ma
        m = Fraction(0)
        for st, en, g in self.items:
            m = max([m] + [abs(v) for v in event_corners(g, self.h.raster)[1]])
        self._ma = m
        return m

    def value(self, t):
        """(value, spread) : value of the active event(s), 0 when none; spread = disagreement between them"""
        vs = self.active_values(t)
        if not vs:
            return Fraction(0), Fraction(0)
        return vs[0], max(vs) - min(vs)

    # exact integral of the rendering: breakpoints = all corners; midpoint rule on each linear stretch
    def _prep_integral(self):
        bps = sorted(set([Fraction(0), self.h.total] + [t for t, _ in self.corners()]))
        cum = [Fraction(0)]
        for a, b in zip(bps[:-1], bps[1:]):
            cum.append(cum[-1] + self.value((a + b) / 2)[0] * (b - a))
        self.bps, self.cum = bps, cum

    def integral_to(self, t):
        """integral of the rendering from the first breakpoint (<= 0) to t"""
        if not hasattr(self, 'bps'):
            self._prep_integral()
        if t <= self.bps[0]:
            return Fraction(0)
        if t >= self.bps[-1]:
            return self.cum[-1]
        i = bisect.bisect_right(self.bps, t) - 1
        a = self.bps[i]
        return self.cum[i] + self.value((a + t) / 2)[0] * (t - a)


TEDGE = Fraction(1, 10 ** 12)


def eval_export(ts, vs, t):
    """exact linear interpolation of an exported corner list (lists of Fractions), 0 outside; a time within 1e-12 of
    the first / last corner counts as that corner (binary64 noise of the exported times)"""
    if not ts or t < ts[0] - TEDGE or t > ts[-1] + TEDGE:
        return Fraction(0)
    if t <= ts[0]:
        return vs[0]
    if t >= ts[-1]:
        return vs[-1]
    i = bisect.bisect_right(ts, t) - 1
    if i >= len(ts) - 1:
        return vs[-1]
    return vs[i] + (vs[i + 1] - vs[i]) * (t - ts[i]) / (ts[i + 1] - ts[i])


def dense_times(held, rend):
    r8 = held.raster / 8
    pts = set()
    cs = sorted(set(t for t, _ in rend.corners()))
    for t in cs:
        pts.update((t, t - r8, t + r8))
    for a, b in zip(cs[:-1], cs[1:]):
        pts.add((a + b) / 2)
    for e in held.blocks:
        pts.update((e['start'], e['start'] + e['dur']))
    pts.update((Fraction(0), held.total, held.total + r8, -r8))
    return sorted(pts)


def stored_differs(given, held_g, raster):
    """does the gradient the sequence holds differ from the one that was added? (kind, timing; values to 1e-7 of
    the shape maximum = the shape quantisation).  Returns a short reason or None."""
    if given['k'] == 'trap':
        if held_g['k'] != 'trap':
            return 'trap stored as %s' % held_g['k']
        for k in ('rise', 'flat', 'fall', 'delay'):
            if held_g[k] != given[k] * raster:
                return 'trap %s changed' % k
        if abs(held_g['amp'] - F(float(given['amp'] * U))) > abs(held_g['amp']) / 10 ** 9:
            return 'trap amplitude changed'
        return None
    if held_g['k'] != 'grad':
        return '%s stored as trap' % given['k']
    if given['k'] == 'ext':
        if held_g['arb']:
            return 'extended trapezoid stored as raster-sampled arbitrary gradient'
        want_t = [t * raster for t in given['tt']]
        want_v = [Fraction(v) * Fraction(U) for v in given['vals']]
    else:
        if not held_g['arb']:
            return 'arbitrary gradient stored with a time shape'
        want_t = [(i + Fraction(1, 2)) * raster for i in range(len(given['w']))]
        want_v = [Fraction(v) * Fraction(U) for v in given['w']]
        if abs(held_g['first'] - given['first'] * Fraction(U)) > 0 or abs(held_g['last'] - given['last'] * Fraction(U)) > 0:
            return 'first/last changed'
    if held_g['delay'] != given['delay'] * raster:
        return 'delay changed'
    if held_g['tt'] != want_t:
        return 'corner times changed'
    m = max(abs(v) for v in want_v)
    if len(want_v) != len(held_g['wf']) or any(abs(a - b) > m * 2 / 10 ** 7 for a, b in zip(held_g['wf'], want_v)):
        return 'corner values changed'
    return None
