"""gradops_lib.py — helpers shared by props/C17.py and props/C18.py:
token encoding of gradient events for the `gradops` model runner, an INDEPENDENT exact-Fraction rendering of
gradient events (the oracle's notion of "the waveform at time t"), snapshots of argument objects, builders of
gradient events from JSON-able case descriptions."""
import copy
from fractions import Fraction
from types import SimpleNamespace

import numpy as np

from common import F, qtok, ztok, qlist

CH = {'x': 0, 'y': 1, 'z': 2}
CHN = ['x', 'y', 'z']
EPS9 = Fraction(1, 10 ** 9)


# ------------------------------------------------------------------------------------------------
# building events from case descriptions (all numbers in the description are Python floats)
def make_system(d):
    import pypulseq as pp
    return pp.Opts(max_grad=d['max_grad'], grad_unit='Hz/m', max_slew=d['max_slew'], slew_unit='Hz/m/s',
                   grad_raster_time=d['raster'], rf_ringdown_time=d.get('ringdown', 0.0),
                   rf_dead_time=d.get('rf_dead', 0.0), adc_dead_time=d.get('adc_dead', 0.0))


def build_grad(d, system):
    """d: {'kind': 'trap'|'ext'|'arb', ...} -> SimpleNamespace exactly as the makers produce it"""
    import pypulseq as pp
    k = d['kind']
    if k == 'trap':
        g = SimpleNamespace()
        g.type = 'trap'
        g.channel = d['ch']
        g.amplitude = d['amp']
        g.rise_time = d['rise']
        g.flat_time = d['flat']
        g.fall_time = d['fall']
        g.area = d['amp'] * (d['flat'] + d['rise'] / 2 + d['fall'] / 2)
        g.flat_area = d['amp'] * d['flat']
        g.delay = d['delay']
        g.first = 0
        g.last = 0
    elif k == 'ext':
        # 'dtype': 'int' -> the samples are handed over as an INTEGER NumPy array (the makers keep that dtype)
        amps = np.array([int(a) for a in d['amps']]) if d.get('dtype') == 'int' else np.array(d['amps'], dtype=float)
        g = pp.make_extended_trapezoid(d['ch'], amplitudes=amps,
                                       times=np.array(d['times'], dtype=float), system=system, skip_check=True,
                                       max_grad=1e30, max_slew=1e30)
        g.delay = d['delay']
    elif k == 'arb':
        wf = np.array([int(a) for a in d['wf']]) if d.get('dtype') == 'int' else np.array(d['wf'], dtype=float)
        g = pp.make_arbitrary_grad(d['ch'], wf, delay=d['delay'], system=system,
                                   max_grad=1e30, max_slew=1e30, first=d.get('first'), last=d.get('last'))
    else:
        raise ValueError(k)
    if d.get('id') is not None:
        g.id = d['id']
    if d.get('no_area') and hasattr(g, 'area'):
        del g.area
    return g


# ------------------------------------------------------------------------------------------------
# token encoding
def _opt(x, f):
    return '0' if x is None else '1 ' + f(x)


def enc_grad(g):
    ch = CH.get(g.channel, 7)
    gid = getattr(g, 'id', None)
    if g.type == 'trap':
        return ' '.join(['T', str(ch), qtok(F(g.amplitude)), qtok(F(g.rise_time)), qtok(F(g.flat_time)),
                         qtok(F(g.fall_time)), qtok(F(g.delay)), qtok(F(g.area)), qtok(F(g.flat_area)),
                         _opt(gid, ztok)])
    area = getattr(g, 'area', None)
    return ' '.join(['E', str(ch), qtok(F(g.delay)), qlist(F(v) for v in g.tt), qlist(F(v) for v in g.waveform),
                     qtok(F(g.shape_dur)), qtok(F(g.first)), qtok(F(g.last)),
                     _opt(area, lambda a: qtok(F(a))), _opt(gid, ztok)])


def enc_sys(system):
    return ' '.join([qtok(F(system.grad_raster_time)), qtok(F(system.max_grad)), qtok(F(system.max_slew))])


def dec_grad(t):
    tag = t.next()
    if tag == 'T':
        return {'type': 'trap', 'ch': t.int(), 'amplitude': t.q(), 'rise_time': t.q(), 'flat_time': t.q(),
                'fall_time': t.q(), 'delay': t.q(), 'area': t.q(), 'flat_area': t.q(), 'id': t.opt(t.z)}
    if tag == 'E':
        return {'type': 'grad', 'ch': t.int(), 'delay': t.q(), 'tt': t.list(t.q), 'waveform': t.list(t.q),
                'shape_dur': t.q(), 'first': t.q(), 'last': t.q(), 'area': t.opt(t.q), 'id': t.opt(t.z)}
    raise ValueError('bad grad tag %s' % tag)


def grad_fields(g):
    """implementation event -> the same dict shape as dec_grad (exact Fractions)"""
    if g.type == 'trap':
        return {'type': 'trap', 'ch': CH.get(g.channel, 7), 'amplitude': F(g.amplitude), 'rise_time': F(g.rise_time),
                'flat_time': F(g.flat_time), 'fall_time': F(g.fall_time), 'delay': F(g.delay), 'area': F(g.area),
                'flat_area': F(g.flat_area), 'id': getattr(g, 'id', None)}
    area = getattr(g, 'area', None)
    return {'type': 'grad', 'ch': CH.get(g.channel, 7), 'delay': F(g.delay), 'tt': [F(v) for v in g.tt],
            'waveform': [F(v) for v in g.waveform], 'shape_dur': F(g.shape_dur), 'first': F(g.first),
            'last': F(g.last), 'area': None if area is None else F(area), 'id': getattr(g, 'id', None)}


TIME_FIELDS = ('rise_time', 'flat_time', 'fall_time', 'delay', 'shape_dur', 'tt')


def close(a, b, scale):
    return abs(a - b) <= EPS9 * scale + Fraction(1, 10 ** 12)


def diff_fields(m, i, amp_scale, time_scale):
    """first difference between a model event dict and an implementation event dict, or None"""
    if m['type'] != i['type']:
        return {'field': 'type', 'model': m['type'], 'impl': i['type']}
    for k in m:
        a, b = m[k], i[k]
        if k in ('type', 'ch', 'id'):
            if a != b:
                return {'field': k, 'model': a, 'impl': b}
            continue
        if a is None or b is None:
            if a is not b:
                return {'field': k, 'model': str(a), 'impl': str(b)}
            continue
        if k in ('area', 'flat_area'):
            sc = amp_scale * time_scale
        elif k in TIME_FIELDS:
            sc = Fraction(time_scale) / 1000   # times are compared to 1e-12 of a millisecond-sized scale
        else:
            sc = amp_scale
        if isinstance(a, list):
            if len(a) != len(b):
                return {'field': k, 'model_len': len(a), 'impl_len': len(b)}
            for j, (x, y) in enumerate(zip(a, b)):
                if not close(x, y, sc):
                    return {'field': k, 'index': j, 'model': float(x), 'impl': float(y)}
        elif not close(a, b, sc):
            return {'field': k, 'model': float(a), 'impl': float(b)}
    return None


# ------------------------------------------------------------------------------------------------
# independent exact rendering
def is_arbitrary(tt, raster):
    r = F(raster)
    return all(abs(F(t) / r + Fraction(1, 2) - (i + 1)) < EPS9 for i, t in enumerate(tt))


def corners(g, raster):
    """corner list [(time, value)] of a gradient event in block time, exact Fractions"""
    d = F(g.delay)
    if g.type == 'trap':
        a = F(g.amplitude)
        r, f, l = F(g.rise_time), F(g.flat_time), F(g.fall_time)
        pts = [(d, Fraction(0)), (d + r, a)]
        if f != 0:
            pts.append((d + r + f, a))
        pts.append((d + r + f + l, Fraction(0)))
        return pts
    tt = [F(v) for v in g.tt]
    wf = [F(v) for v in g.waveform]
    if is_arbitrary(g.tt, raster):
        return [(d, F(g.first))] + [(d + t, w) for t, w in zip(tt, wf)] + [(d + tt[-1] + F(raster) / 2, F(g.last))]
    return [(d + t, w) for t, w in zip(tt, wf)]


def pw_eval(pts, t):
    """piecewise-linear value: 0 outside [first, last] corner time, corner value at a corner"""
    if not pts or t < pts[0][0] or t > pts[-1][0]:
        return Fraction(0)
    for j in range(len(pts) - 1):
        t0, v0 = pts[j]
        t1, v1 = pts[j + 1]
        if t <= t1:
            if t1 == t0:
                return v0
            return v0 + (v1 - v0) * (t - t0) / (t1 - t0)
    return pts[-1][1]


def sample_times(corner_lists, raster, extra=()):
    ts = set()
    for pts in corner_lists:
        for t, _ in pts:
            ts.add(t)
    ts.update(extra)
    base = sorted(ts)
    r8 = F(raster) / 8
    out = set(base)
    for t in base:
        out.add(t - r8)
        out.add(t + r8)
    for a, b in zip(base, base[1:]):
        out.add((a + b) / 2)
        out.add(a + (b - a) / 3)
    return sorted(out)


# ------------------------------------------------------------------------------------------------
# snapshots of argument objects
def snap(o):
    return copy.deepcopy(o)


def same_value(a, b):
    if isinstance(a, np.ndarray) or isinstance(b, np.ndarray):
        if not (isinstance(a, np.ndarray) and isinstance(b, np.ndarray)):
            return False
        return a.shape == b.shape and a.dtype == b.dtype and bool(np.array_equal(a, b, equal_nan=True))
    if isinstance(a, SimpleNamespace) or isinstance(b, SimpleNamespace):
        return isinstance(a, SimpleNamespace) and isinstance(b, SimpleNamespace) and same_obj(a, b) is None
    if isinstance(a, (list, tuple)):
        return type(a) is type(b) and len(a) == len(b) and all(same_value(x, y) for x, y in zip(a, b))
    try:
        return bool(a == b)
    except Exception:
        return False


def same_obj(a, b, ignore=()):
    """None when the two namespaces have the same attributes with the same values, else the first difference"""
    ka, kb = set(vars(a)) - set(ignore), set(vars(b)) - set(ignore)
    if ka != kb:
        return {'attributes': sorted(ka ^ kb)}
    for k in sorted(ka):
        if not same_value(getattr(a, k), getattr(b, k)):
            return {'attribute': k, 'before': repr(getattr(a, k))[:120], 'after': repr(getattr(b, k))[:120]}
    return None


# ------------------------------------------------------------------------------------------------
# calls that rely on the library-wide default system
def call_with_default(system, use_default, f, *args, **kw):
    """f(*args, system=system, **kw); with use_default the system is made the library default
    (Opts.set_as_default) and f is called WITHOUT a system argument; the previous default is restored."""
    import pypulseq as pp
    if not use_default:
        return f(*args, system=system, **kw)
    prev = pp.Opts.default
    system.set_as_default()
    try:
        return f(*args, **kw)
    finally:
        prev.set_as_default()


# ------------------------------------------------------------------------------------------------
# events registered with a Sequence (they carry the library id, and shape_IDs for shape-based events)
def register_events(seq, evs):
    """`ev.id = seq.register_*_event(ev)` for every event kind that has a library; returns the ids"""
    ids = []
    for ev in evs:
        t = getattr(ev, 'type', None)
        if t == 'trap':
            ev.id = seq.register_grad_event(ev)
        elif t == 'grad':
            ev.id, ev.shape_IDs = seq.register_grad_event(ev)
        elif t == 'rf':
            ev.id, ev.shape_IDs = seq.register_rf_event(ev)
        elif t == 'adc':
            ev.id = seq.register_adc_event(ev)
        else:
            continue
        ids.append((t, ev.id))
    return ids


def stale_id(inputs, outputs):
    """an output that is not one of the input objects but carries a library id: (index, id) or None.
    (The outputs are new events; an id taken over from an input makes add_block store the INPUT event.)"""
    for j, o in enumerate(outputs):
        if any(o is i for i in inputs):
            continue
        if hasattr(o, 'id'):
            return j, getattr(o, 'id')
    return None


def stored_differs(seq, block_index, outs, raster, amp_scale):
    """compare what the Sequence stored for block `block_index` (decoded with get_block) with the events that were
    handed to add_block: gradient waveforms per channel (rendered), RF/ADC timing.  None or a detail dict."""
    b = seq.get_block(block_index)
    tol_amp = Fraction(amp_scale) * Fraction(3, 10 ** 7) + Fraction(1, 10 ** 6)
    for ch in CHN:
        want = [o for o in outs if getattr(o, 'type', None) in ('grad', 'trap') and o.channel == ch]
        got = getattr(b, 'g' + ch, None)
        if not want:
            if got is not None:
                return {'channel': ch, 'what': 'stored block has a gradient, no event was given'}
            continue
        if got is None:
            return {'channel': ch, 'what': 'stored block has no gradient'}
        p0, p1 = corners(want[0], raster), corners(got, raster)
        ts = set()
        for pts in (p0, p1):
            for (t0, _), (t1, _) in zip(pts, pts[1:]):
                ts.add((t0 + t1) / 2)
                ts.add(t0 + (t1 - t0) / 3)
        for t in sorted(ts):
            a, c = pw_eval(p0, t), pw_eval(p1, t)
            if abs(a - c) > tol_amp:
                return {'channel': ch, 't': float(t), 'event_given': float(a), 'stored_block': float(c)}
    for kind in ('rf', 'adc'):
        want = [o for o in outs if getattr(o, 'type', None) == kind]
        got = getattr(b, kind, None)
        if want and got is None:
            return {'what': 'stored block has no ' + kind}
        if want and abs(F(got.delay) - F(want[0].delay)) > Fraction(1, 10 ** 12):
            return {'what': kind + ' delay', 'event_given': float(want[0].delay), 'stored_block': float(got.delay)}
    return None
