"""histories.py — random operation histories on real Sequence objects (twin: cache on / off),
the matching `seq.run` model line, and the per-op comparison.  Shared by C05 C06 C15 C19 C07."""
import copy
import math
import os
import tempfile
from fractions import Fraction
from types import SimpleNamespace

import numpy as np

import seqmodel as sm
from common import D as F, ztok, qtok

A_LEVELS = [2.0e5, 3.5e5]
RASTER = 1e-5


def mk_system(rng, variant=0):
    import pypulseq as pp
    if variant == 0:
        return pp.Opts()
    return pp.Opts(max_grad=rng.choice([30, 40, 80]), grad_unit='mT/m', max_slew=rng.choice([100, 170, 200]),
                   slew_unit='T/m/s', rf_ringdown_time=rng.choice([0, 20e-6]), rf_dead_time=rng.choice([0, 100e-6]),
                   adc_dead_time=rng.choice([0, 10e-6]))


def loose(system):
    """same rasters / dead times, but limits that never bind (events are built for the store, not for C04)"""
    import pypulseq as pp
    s = copy.copy(system)
    s.max_grad = 1e12
    s.max_slew = 1e15
    return s


class Pool:
    """small discrete families of events so that equal / nearly equal events recur"""

    def __init__(self, rng, system):
        self.rng = rng
        self.sys = system
        self.lsys = loose(system)

    def trap(self, ch=None, delay=None):
        import pypulseq as pp
        r = self.rng
        ch = ch or r.choice('xyz')
        amp = r.choice([1e5, -1e5, 2.5e5, 123456.7891, 123456.4, 123457.2, 5e4])
        g = pp.make_trapezoid(ch, amplitude=amp, rise_time=r.choice([1e-4, 2e-4]), flat_time=r.choice([0, 5e-4, 1e-3]),
                              fall_time=r.choice([1e-4, 2e-4]), delay=r.choice([0, 0, 1e-4, 3e-4]) if delay is None else delay,
                              system=self.lsys)
        return g

    def ext(self, ch=None, first=0.0, last=0.0, delay=0.0, dur=None):
        """extended trapezoid from `first` to `last` (irregular time shape is stored)"""
        import pypulseq as pp
        r = self.rng
        ch = ch or r.choice('xyz')
        mid = r.choice([1e5, -1e5, 2e5, first, last, 0.5 * (first + last)])
        n1 = r.choice([10, 20, 30, 10, 20, 30, 1, 2])     # also corners one or two raster steps apart
        n2 = n1 + r.choice([10, 20, 40, 1])
        if dur is not None:
            n2 = max(2, int(round(dur / RASTER)))
            n1 = max(1, n2 // 2)
        amps = np.array([first, mid, last], dtype=float)
        if not np.any(amps != 0):
            amps[1] = 1e5
        g = pp.make_extended_trapezoid(ch, amplitudes=amps, times=np.array([0, n1 * RASTER, n2 * RASTER]),
                                       system=self.lsys)
        g.delay = delay
        return g

    def arb(self, ch=None, first=0.0, last=0.0, delay=0.0, n=None):
        """raster-sampled arbitrary gradient (regular timing, no time shape)"""
        import pypulseq as pp
        r = self.rng
        ch = ch or r.choice('xyz')
        n = n or r.choice([8, 12, 20])
        w = np.linspace(first, last, n + 2)[1:-1] if (first != 0 or last != 0) else \
            1e5 * np.sin(np.linspace(0, math.pi, n + 2)[1:-1])
        if r.random() < 0.3:
            w = w + 1e3 * np.array([r.choice([-1, 0, 1]) for _ in range(n)])
        g = pp.make_arbitrary_grad(ch, np.asarray(w, dtype=float), first=first, last=last, delay=delay, system=self.lsys)
        return g

    def rf(self):
        import pypulseq as pp
        r = self.rng
        kind = r.choice(['block', 'block', 'block', 'sinc'])
        kw = dict(delay=r.choice([0, 1e-4, 1.5e-4]), freq_offset=r.choice([0, 100.0, 123.4567, 123.4561]),
                  phase_offset=r.choice([0, 0.5, math.pi / 2]), system=self.sys)
        if kind == 'block':
            args = (r.choice([math.pi / 2, math.pi, 0.3]),)
            kw['duration'] = r.choice([1e-4, 2e-4, 1e-3])
        else:
            args = (r.choice([math.pi / 2, 0.5]),)
            kw['duration'] = r.choice([4e-5, 6e-5])
            kw['time_bw_product'] = r.choice([2, 4])
        # `use` is a function of the other parameters unless collide_use is set: two RF events that differ
        # only in `use` share one library entry (known finding C06/rf-use-shared-entry)
        uses = [None, 'excitation', 'refocusing', 'inversion']
        if getattr(self, 'collide_use', False):
            use = r.choice(uses)
        else:
            h = hash((kind, args, kw['delay'], kw['freq_offset'], kw['phase_offset'], kw['duration'], kw.get('time_bw_product')))
            use = uses[h % 4]
        if use:
            kw['use'] = use
        return (pp.make_block_pulse if kind == 'block' else pp.make_sinc_pulse)(*args, **kw)

    def adc(self):
        import pypulseq as pp
        r = self.rng
        return pp.make_adc(r.choice([16, 32, 64]), dwell=r.choice([1e-5, 2e-5, 1.0000004e-5]),
                           delay=r.choice([0, 1e-4, 1.000004e-4, 2e-5]), freq_offset=r.choice([0, 50.0, -1.0, -2.0]),
                           phase_offset=r.choice([0, 0.25, -1.0, -2.0]), system=self.sys)

    def label(self):
        import pypulseq as pp
        r = self.rng
        return pp.make_label(r.choice(sm.labels()), r.choice(['SET', 'INC']), r.choice([0, 1, 2, 3, -1, -2, 7]))

    def trig(self):
        import pypulseq as pp
        r = self.rng
        if r.random() < 0.5:
            return pp.make_trigger(r.choice(['physio1', 'physio2']), delay=r.choice([0, 1e-4]), duration=r.choice([1e-4, 2e-4]), system=self.sys)
        return pp.make_digital_output_pulse(r.choice(['osc0', 'osc1', 'ext1']), delay=r.choice([0, 1e-4]), duration=r.choice([1e-4, 2e-4]), system=self.sys)

    def delay(self):
        import pypulseq as pp
        return pp.make_delay(self.rng.choice([1e-3, 2e-3, 5e-3]))


def chan_end(ev):
    """(start_amp, end_amp) of a gradient event as the store sees it"""
    if ev is None or ev.type == 'trap':
        return 0.0, 0.0
    return float(ev.first), float(ev.last)


def gen_block(rng, pool, prev_last, mostly_valid=True, rich=True):
    """events of one block; per channel a gradient that (mostly) continues from prev_last[ch]"""
    evs = []
    dmax = 0.0
    ends = {}
    for ci, ch in enumerate('xyz'):
        pl = prev_last[ci]
        if rng.random() < (0.35 if pl == 0 else 0.03):
            continue
        start = pl if (mostly_valid and rng.random() < 0.9) else rng.choice([0.0, A_LEVELS[0], -A_LEVELS[0], A_LEVELS[1]])
        last = rng.choice([0.0, 0.0, start, -start, A_LEVELS[0], -A_LEVELS[0]])
        if start == 0 and last == 0:
            k = rng.choice(['trap', 'trap', 'ext', 'arb'])
            if k == 'trap':
                g = pool.trap(ch)
            elif k == 'ext':
                g = pool.ext(ch, 0.0, 0.0, delay=rng.choice([0, 1e-4]))
            else:
                g = pool.arb(ch, 0.0, 0.0, delay=rng.choice([0, 1e-4]))
        else:
            delay = 0.0 if (start != 0 and (mostly_valid or rng.random() < 0.7)) else rng.choice([0.0, 1e-4])
            g = pool.ext(ch, start, last, delay=delay) if rng.random() < 0.7 else pool.arb(ch, start, last, delay=delay)
        evs.append(g)
        ends[ci] = g
    # block length: gradients that end away from zero must reach the block end
    def gdur(g):
        if g.type == 'trap':
            return g.delay + g.rise_time + g.flat_time + g.fall_time
        return g.delay + math.ceil(g.tt[-1] / RASTER - 1e-10) * RASTER
    nz = [g for g in ends.values() if g.type == 'grad' and g.last != 0]
    if nz and mostly_valid and rng.random() < 0.9:
        # stretch every non-zero-ending gradient to a common duration
        D = max(gdur(g) for g in ends.values())
        evs2 = []
        for g in evs:
            if g.type == 'grad' and g.last != 0 and abs(gdur(g) - D) > 1e-9:
                n = int(round((D - g.delay) / RASTER))
                g2 = pool.ext(g.channel, float(g.first), float(g.last), delay=float(g.delay), dur=n * RASTER)
                evs2.append(g2)
            else:
                evs2.append(g)
        evs = evs2
    if rich:
        if rng.random() < 0.4:
            evs.append(pool.rf())
        if rng.random() < 0.4:
            evs.append(pool.adc())
        for _ in range(rng.choice([0, 0, 1, 2, 3])):
            evs.append(pool.label())
        for _ in range(rng.choice([0, 0, 0, 1, 2])):
            evs.append(pool.trig())
    if not nz and rng.random() < 0.4:
        evs.append(pool.delay())
    if not evs:
        evs.append(pool.delay())
    rng.shuffle(evs)
    return evs


class Twin:
    """the same history on a cache-on and a cache-off Sequence + the model line"""

    def __init__(self, system, abs_fix=None):
        import pypulseq as pp
        if abs_fix is None:
            import translate
            if 'align_check_uses_abs' not in translate.CONSTS:
                try:
                    translate.sec_block()
                except Exception:
                    pass
            abs_fix = translate.CONSTS.get('align_check_uses_abs', True)
        self.on = pp.Sequence(system, use_block_cache=True)
        self.off = pp.Sequence(system, use_block_cache=False)
        self.header = sm.header_tokens(self.on, True, abs_fix)
        self.ops = []          # model tokens per op
        self.records = []      # per op: dict(kind, outcome, state, ...)
        self.twin_diffs = []

    def _both(self, f):
        res = []
        for s in (self.on, self.off):
            try:
                res.append(('ok', f(s)))
            except Exception as e:  # noqa: BLE001
                res.append(('exc', e))
        return res

    def _record(self, kind, tok, res, extra=None):
        (k1, v1), (k2, v2) = res
        rec = {'kind': kind, 'state': sm.state_dump(self.on)}
        if k1 == 'exc':
            rec['outcome'] = ('err', sm.classify_exc(v1))
        else:
            rec['outcome'] = ('ok', v1)
        # twin agreement on raise / no raise and on the store
        if k1 != k2 or (k1 == 'exc' and sm.classify_exc(v1) != sm.classify_exc(v2)):
            self.twin_diffs.append({'op': len(self.ops), 'kind': kind, 'what': 'raise/no-raise differs',
                                    'on': repr(v1)[:200], 'off': repr(v2)[:200]})
        s_off = sm.state_dump(self.off)
        d = sm.cmp_state_plain(rec['state'], s_off)
        if d:
            self.twin_diffs.append({'op': len(self.ops), 'kind': kind, 'what': 'store differs: ' + d})
        if extra:
            rec.update(extra)
        self.ops.append(tok)
        self.records.append(rec)
        return rec

    def _hint(self, evs):
        """tie order of np.argsort over the extension refs, recomputed with the same call on the refs the
        implementation assigned (the model validates that it is a sorting permutation)"""
        refs = []
        s = self.on
        for e in evs:
            t = getattr(e, 'type', None)
            if t in ('output', 'trigger'):
                if hasattr(e, 'id'):
                    refs.append(int(e.id))
                    continue
                typ = ['output', 'trigger'].index(t)
                chan = (['osc0', 'osc1', 'ext1'] if typ == 0 else ['physio1', 'physio2']).index(e.channel)
                refs.append(s.trigger_library.keymap.get((typ + 1, chan + 1, e.delay, e.duration), 0))
            elif t in ('labelset', 'labelinc'):
                if hasattr(e, 'id'):
                    refs.append(int(e.id))
                    continue
                lib = s.label_set_library if t == 'labelset' else s.label_inc_library
                refs.append(lib.keymap.get((e.value, sm.labels().index(e.label) + 1), 0))
        if not refs:
            return '0'
        perm = [int(i) for i in np.argsort(refs)]
        return ' '.join([str(len(perm))] + [str(i) for i in perm])

    def add(self, evs):
        tok = 'add ' + sm.encode_events(self.on, evs)
        res = self._both(lambda s: s.add_block(*[copy.deepcopy(e) for e in evs]))
        tok += ' ' + self._hint(evs)
        return self._record('add', tok, res, {'events': evs})

    def set(self, i, evs):
        tok = 'set %s %s' % (ztok(i), sm.encode_events(self.on, evs))
        res = self._both(lambda s: s.set_block(i, *[copy.deepcopy(e) for e in evs]))
        tok += ' ' + self._hint(evs)
        return self._record('set', tok, res, {'events': evs, 'index': i})

    def get(self, i):
        tok = 'get ' + ztok(i)
        res = self._both(lambda s: s.get_block(i))
        rec = self._record('get', tok, res, {'index': i})
        (k1, v1), (k2, v2) = res
        if k1 == 'ok' and k2 == 'ok':
            c1, c2 = sm.canon_block(v1), sm.canon_block(v2)
            if not deep_equal(c1, c2):
                self.twin_diffs.append({'op': len(self.ops) - 1, 'kind': 'get', 'index': i,
                                        'what': 'get_block differs between cache on/off', 'diff': first_diff(c1, c2)})
        return rec

    def register(self, ev):
        if ev.type == 'rf':
            reg = sm.event_registration(self.on, ev)
            tok = ' '.join(['regrf', '0', qtok(F(reg['amp'])), sm.key_tokens(reg['mag'], True), sm.key_tokens(reg['phase'], True),
                            sm.opt(sm.key_tokens(reg['tshape'], True)) if reg['tshape'] is not None else '0',
                            qtok(F(ev.delay)), qtok(F(ev.freq_offset)), qtok(F(ev.phase_offset)), ztok(reg['use'])])
            f = lambda s: s.register_rf_event(ev)
        elif ev.type == 'grad':
            reg = sm.event_registration(self.on, ev)
            tok = ' '.join(['reggrad', '0', qtok(F(reg['amp'])), sm.key_tokens(reg['wshape'], True),
                            sm.opt(sm.key_tokens(reg['tshape'], True)) if reg['tshape'] is not None else '0',
                            qtok(F(ev.delay)), qtok(F(ev.first)), qtok(F(ev.last))])
            f = lambda s: s.register_grad_event(ev)
        elif ev.type == 'trap':
            tok = ' '.join(['regtrap'] + [qtok(F(v)) for v in (ev.amplitude, ev.rise_time, ev.flat_time, ev.fall_time, ev.delay)])
            f = lambda s: s.register_grad_event(ev)
        elif ev.type == 'adc':
            tok = ' '.join(['regadc'] + [qtok(F(v)) for v in (ev.num_samples, ev.dwell, ev.delay, ev.freq_offset, ev.phase_offset, ev.dead_time)])
            f = lambda s: s.register_adc_event(ev)
        else:
            tok = ' '.join(['reglabel', '1' if ev.type == 'labelset' else '0', qtok(F(ev.value)), ztok(sm.labels().index(ev.label) + 1)])
            f = lambda s: s.register_label_event(ev)
        res = self._both(f)
        return self._record('register', tok, res, {'event': ev})

    def dedup_in_place(self):
        res = self._both(lambda s: s.remove_duplicates(in_place=True) and None)
        return self._record('dedupip', 'dedupip', res)

    def dedup_copy(self):
        def copy_and_use(s):
            import pypulseq as pp
            c = s.remove_duplicates()
            dump = sm.state_dump(c)
            # the copy is the caller's to use: overwrite a block of it and decode all of it (its cache, its libraries) --
            # nothing of that may show on the object it was copied from
            try:
                ids = list(c.block_events.keys())
                if ids:
                    try:
                        c.set_block(ids[0], pp.make_delay(0.123))
                    except Exception:  # noqa: BLE001
                        pass
                    for i in ids:
                        c.get_block(i)
            except Exception:  # noqa: BLE001
                pass
            return dump
        res = self._both(copy_and_use)
        return self._record('dedupcp', 'dedupcp', res)

    def write_read(self, do_read=True, detect_rf_use=False, remove_duplicates=True):
        with tempfile.TemporaryDirectory(prefix='pvhist') as d:
            fn = os.path.join(d, 's.seq')
            res = self._both(lambda s: s.write(fn, create_signature=False) and None)
            self._record('write', 'touch', res)
            if res[0][0] != 'ok' or not do_read:
                return
            res = self._both(lambda s: s.read(fn, detect_rf_use=detect_rf_use, remove_duplicates=remove_duplicates))
            tok = 'load ' + sm.core_tokens(self.on)
            if not remove_duplicates and res[0][0] == 'ok':
                # read(remove_duplicates=False) leaves blocks decoded by its first/last scan in the cache, the model's load
                # starts with an empty one: the cache keys are not compared at this operation; then every block is decoded
                # on both sides (implementation: get_block, model: touch) and the comparison is exact again
                self._record('read', tok, res, {'skip_cache': True})
                res2 = self._both(lambda s: [s.get_block(i) for i in list(s.block_events.keys())] and None)
                self._record('touch-after-read', 'touch', res2)
            else:
                self._record('read', tok, res)

    def model_line(self):
        return 'seq.run ' + self.header + ' ' + ' '.join([str(len(self.ops))] + self.ops)


def cmp_state_plain(a, b):
    """two implementation dumps (floats), cache ignored"""
    for name, la, lb in zip(sm.LIBS, a['libs'], b['libs']):
        for k in ('data', 'type', 'next'):
            if la[k] != lb[k]:
                return '%s.%s' % (name, k)
        if sorted(la['keymap']) != sorted(lb['keymap']):
            return '%s.keymap' % name
    for k in ('blocks', 'durs', 'next_block', 'ext_num', 'ext_str'):
        if a[k] != b[k]:
            return k
    return None


sm.cmp_state_plain = cmp_state_plain


def deep_equal(a, b):
    if isinstance(a, dict) and isinstance(b, dict):
        return a.keys() == b.keys() and all(deep_equal(a[k], b[k]) for k in a)
    if isinstance(a, (list, tuple)) and isinstance(b, (list, tuple)):
        return len(a) == len(b) and all(deep_equal(x, y) for x, y in zip(a, b))
    if isinstance(a, float) and isinstance(b, float):
        return a == b or (a != a and b != b)
    return a == b


def first_diff(a, b, path=''):
    if isinstance(a, dict) and isinstance(b, dict):
        for k in sorted(set(a) | set(b)):
            if k not in a or k not in b:
                return path + '/' + k + ' missing'
            d = first_diff(a[k], b[k], path + '/' + k)
            if d:
                return d
        return None
    if isinstance(a, (list, tuple)) and isinstance(b, (list, tuple)):
        if len(a) != len(b):
            return '%s len %d vs %d' % (path, len(a), len(b))
        for i, (x, y) in enumerate(zip(a, b)):
            d = first_diff(x, y, '%s[%d]' % (path, i))
            if d:
                return d
        return None
    if not deep_equal(a, b):
        return '%s: %r vs %r' % (path, a, b)
    return None


def compare_with_model(twin, model_line_out):
    """per-op comparison of outcome, full store and cache key set; returns list of differences"""
    diffs = []
    try:
        parsed = sm.parse_run(model_line_out)
    except Exception as e:  # noqa: BLE001
        return [{'op': -1, 'what': 'cannot parse model output: %r / %s' % (e, model_line_out[:200])}]
    if len(parsed) != len(twin.records):
        return [{'op': -1, 'what': 'model produced %d results for %d ops' % (len(parsed), len(twin.records))}]
    for n, (rec, (out, core, cache)) in enumerate(zip(twin.records, parsed)):
        kind = rec['kind']
        oc = rec['outcome']
        if kind == 'write':
            pass   # write() may raise for reasons outside the store model (timing assertions); its cache effect is compared below
        elif oc[0] == 'err' and oc[1] == 'key' and kind == 'get' and out[0] == 'block' and out[1] is None:
            pass   # KeyError of get_block == decode failure in the model
        elif oc[0] == 'err':
            if out[0] != 'err' or out[1] != oc[1]:
                diffs.append({'op': n, 'kind': kind, 'what': 'implementation raised %s, model %s' % (oc[1], out[:2])})
                break
        else:
            if out[0] == 'err':
                diffs.append({'op': n, 'kind': kind, 'what': 'model raised %s, implementation did not' % out[1]})
                break
            if kind == 'register':
                v = oc[1]
                iid, sids = (int(v[0]), [int(x) for x in v[1]]) if isinstance(v, tuple) else (int(v), [])
                if out[0] != 'id' or out[1] != iid or (sids and out[2] != sids):
                    diffs.append({'op': n, 'kind': kind, 'what': 'registered id %s %s vs model %s' % (iid, sids, out[1:])})
                    break
            if kind == 'get':
                d = sm.block_matches_model(oc[1], out[1] if out[0] == 'block' else None, twin.on)
                if d:
                    diffs.append({'op': n, 'kind': kind, 'what': 'decoded block: ' + d})
                    break
            if kind == 'dedupcp':
                if out[0] != 'core' or out[1] is None:
                    diffs.append({'op': n, 'kind': kind, 'what': 'model dedup copy failed'})
                    break
                d = sm.cmp_state(oc[1], out[1], None, check_cache=False)
                if d:
                    diffs.append({'op': n, 'kind': kind, 'what': 'dedup copy: ' + d})
                    break
        d = sm.cmp_state(rec['state'], core, None, check_cache=False) if rec.get('skip_cache') else sm.cmp_state(rec['state'], core, cache)
        if d:
            diffs.append({'op': n, 'kind': kind, 'what': d})
            break
    return diffs
