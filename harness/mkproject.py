"""mkproject.py — (re)generate coq/_CoqProject and coq/Makefile from the .v files present.
Order is irrelevant (coq_makefile computes dependencies with coqdep).  Gen/*.v are produced by
translate.py beforehand.  The files are rewritten only when their content changes."""
import os
import subprocess

HERE = os.path.dirname(os.path.abspath(__file__))
COQ = os.path.join(os.path.dirname(HERE), 'coq')
DIRS = ['Base', 'Gen', 'Model', 'Proofs', 'Props', 'Extract']
HEAD = ['-Q . PV',
        '-arg -w -arg -notation-overridden,-deprecated-hint-without-locality,-deprecated-instance-without-locality']


def run():
    files = []
    for d in DIRS:
        p = os.path.join(COQ, d)
        if os.path.isdir(p):
            files += sorted('%s/%s' % (d, f) for f in os.listdir(p) if f.endswith('.v') and not f.startswith('.'))
    text = '\n'.join(HEAD + files) + '\n'
    path = os.path.join(COQ, '_CoqProject')
    old = open(path).read() if os.path.exists(path) else None
    if old != text or not os.path.exists(os.path.join(COQ, 'Makefile')):
        open(path, 'w').write(text)
        subprocess.run('coq_makefile -f _CoqProject -o Makefile', shell=True, cwd=COQ,
                       stdout=subprocess.DEVNULL, stderr=subprocess.DEVNULL)
        return True
    return False


if __name__ == '__main__':
    print('project regenerated' if run() else 'project unchanged')
