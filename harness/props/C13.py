"""C13 — RF pulse makers deliver the flip angle, timing and slice gradient asked for."""
import math
from fractions import Fraction

import numpy as np

from common import F, qtok, qlist, Toks, load_known

ID = 'C13'
GEN_SECTIONS = ['GenRf', 'FP_rf_makers', 'FP_rf_trapezoid']
COQ_TARGETS = ['Props/C13.vo']
EXTRACT_TARGETS = ['Extract/Ex_rf.vo']
RUNNER = 'rf'
LEVEL = 'proof'
MANIFEST = {
    'text': "Theorems (Coq, for ALL envelopes, arguments and systems): the sinc/gauss normalisation and the "
            "make_arbitrary_rf scaling make 2*pi*dwell*sum(signal) equal to the flip angle (arbitrary: for a user "
            "signal of positive sum; |.| in general), the block pulse integrates to the flip angle when its duration "
            "is on the RF raster, samples are the centres of consecutive dwell cells, shape_dur = N*dwell, the "
            "returned delay is >= rf_dead_time, offsets/use/dead/ring-down are passed through, the slice gradient "
            "has flat_time = duration and amplitude = bandwidth/thickness, the RF starts exactly at the start of the "
            "flat top (never before it), gz.delay and the ramps are on the gradient raster, and the rephaser area "
            "is minus (flat area after the centre + half the ramp area).  The arithmetic expressions the theorems "
            "are about are re-translated from the five maker sources on every run; the extracted model is run "
            "against the implementation on ~1000 (quick) / 30000 (thorough) calls (pulses of up to 4000 / 8000 samples; the runner executes fast forms proved equal to the specification forms, C13_fast_form_*) and the property is evaluated "
            "with exact Fractions on every returned event.",
    'note': 'Trusted: Coq kernel; translator patterns for the makers (expressions translated, guards compared as '
            'text); extraction + driver; the envelope functions (np.sinc, np.exp, np.cos), np.pi and binary64 '
            'arithmetic are outside the model (envelope = list argument; sampled by correspondence); the local '
            'model of make_trapezoid covers only the flat_time+flat_area and area-only argument sets.',
    'technique': 'Rocq/Coq proof over a Gallina model whose expressions are generated from the source + '
                 'extraction-based correspondence',
}
BUDGET = {'quick': 70, 'thorough': 1500}
ESCALATE_BUDGET = 240      # a maker source changed since transcription: thorough-size correspondence, time-boxed
SEARCH_BUDGET = 150
MISMATCH_BUDGET = 0.0
RULE = ('calls drawn per maker (sinc, gauss, block, arbitrary, adiabatic timing) over random systems (rf dead time, '
        'ring-down, rf/gradient raster, max_grad, max_slew) with flip angles (tiny, pi/2, pi, >2pi, negative, 0), '
        'durations = N*dwell, dwell = raster or a multiple, tbw, apodisation, centre position, thickness chosen '
        'relative to max_grad (incl. beyond the limit), requested delays below/at/above the dead time on and off '
        'the gradient raster, overrides of max_grad/max_slew, every use incl. an invalid one, plus a boundary '
        'stream (off-raster or non-positive durations, zero thickness, invalid argument sets).  distinct = '
        'distinct argument sets; non-trivial = an event was returned and (a slice gradient was requested or the '
        'dead-time rule changed the delay or dwell != raster)')
TRUSTED = ['RF envelope functions (np.sinc, np.exp, np.cos), np.pi and binary64 rounding are outside the model: the '
           'envelope is an arbitrary list in the theorems; the correspondence feeds the implementation\'s own samples',
           'make_trapezoid is modelled locally for the two argument sets used by the RF makers (C11 models it in full)']
ASSUMPTIONS = ['a one-raster ceil() disagreement between binary64 and exact arithmetic is accepted only when the implementation\'s '
               'k = gz.delay/raster lies in the 1e-6 bracket of C13_ceil_threshold_bracket, which proves every clause for either outcome',
               'make_adiabatic_pulse documents no peak amplitude (adiabaticity has no stated relation to the returned magnitude): '
               'no amplitude clause is claimed for it; grid, shape_dur, delay, use and slice gradients are',
               'slice-gradient theorems assume: gradient raster > 0 and >= eps (1e-9 s), max_grad > 0, duration >= 0; flip theorems '
               'assume sum(envelope) != 0, pi > 0; make_arbitrary_rf delivers the flip angle for a user signal of positive sum '
               '(minus the flip angle for a negative sum: abs() in its scaling) - recorded as a finding, not as a failure',
               'ceil()/round() decisions are taken on exact rationals by the model and on binary64 by the code: when the '
               'exact quotient is within 1e-6 of an integer a one-raster disagreement is recorded as a benign '
               'divergence (the oracle still has to pass)',
               'durations are multiples of dwell in the main stream (as the property quantifies); off-raster durations '
               'are checked for everything except shape_dur == duration']

PI = F(math.pi)
ERRMAP = [('Invalid use', 'EUse'), ('duration must be positive', 'EDur'), ('Slice thickness', 'EThick'),
          ('Bandwidth of pulse', 'EBandwidth'), ('One of bandwidth or duration', 'EArgs'),
          ('Refined amplitude', 'EGradAmp'), ('must be positive and `flat_time`', 'ETrapTimes'), ('for ramp up', 'ESlewUp'), ('for ramp down', 'ESlewDown')]
KF_ARB_SIGN = 'C13/arbitrary-flip-sign'


# --------------------------------------------------------------------------------------------------------------
# generation
def gen_sys(rng):
    gr = rng.choice([10e-6, 10e-6, 20e-6, 4e-6, 5e-6])
    return {
        'dead': rng.choice([0.0, 100e-6, 100e-6, 50e-6, 30e-6, 123e-6, 1e-3, 7.5e-6]),
        'ring': rng.choice([0.0, 20e-6, 30e-6, 60e-6, 100e-6, 13e-6]),
        'rfr': rng.choice([1e-6, 1e-6, 2e-6, 5e-7, 1e-7, 10e-6]),
        'gr': gr,
        'mg': round(rng.uniform(0.6e6, 3.5e6), 0),
        'ms': round(rng.uniform(2e9, 9e9), -3),
    }


def gen_delay(rng, sy):
    k = rng.random()
    if k < 0.2:
        return 0.0
    if k < 0.3:
        return sy['dead']
    if k < 0.45:
        return round(sy['dead'] * rng.uniform(0.05, 0.95), 9)
    if k < 0.7:
        return rng.randint(0, 150) * sy['gr']
    if k < 0.8:
        return rng.randint(1, 400) * sy['gr'] + sy['dead']
    return round(rng.uniform(1e-6, 3e-3), 9)


def gen_flip(rng):
    return rng.choice([math.pi / 2, math.pi, math.pi / 6, 1e-3, 1e-6, 2.5 * math.pi, -math.pi / 2, -0.3, 0.0,
                       round(rng.uniform(-7, 7), 6), round(rng.uniform(0.01, 3.2), 6), 1.0])


def gen_use(rng):
    return rng.choice([0, 0, 1, 2, 3, 4, 5, 1, 6 if rng.random() < 0.3 else 2])


def gen_n(rng, big):
    """number of samples; the extracted model (fast form, C13_fast_form_*) costs ~0.1 ms per sample; realistic pulse
    lengths (1-4 ms at 1 us raster) are part of the quick tier"""
    k = rng.random()
    if k < 0.15:
        return rng.randint(1, 8)
    if k < 0.70:
        return rng.randint(9, 200)
    if k < 0.91:
        return rng.randint(201, 1000)
    return rng.randint(1001, 8000 if big else 4000)


def trap_n(rng, deff, n):
    """a sample count n' whose binary64 quotient (n'*deff)/deff falls just BELOW n' (truncation instead of rounding
    would lose a sample there); falls back to n"""
    for _ in range(300):
        m = rng.randint(3, 600)
        if (m * deff) / deff < m:
            return m
    return n


def gen_thickness(rng, bandwidth, mg):
    """thickness chosen via the ratio amplitude/max_grad (kept away from 1); sometimes beyond the limit"""
    k = rng.random()
    ratio = rng.choice([1.3, 2.0, 10.0]) if k < 0.08 else rng.uniform(0.02, 0.9)
    th = abs(bandwidth) / (ratio * mg) if bandwidth else 5e-3
    return float('%.6g' % th) if th > 0 else 5e-3


def gen_shaped(rng, big, maker):
    sy = gen_sys(rng)
    dwell_mult = rng.choice([0, 0, 0, 1, 2, 5, 10])
    dwell = 0.0 if dwell_mult == 0 else dwell_mult * sy['rfr']
    deff = dwell if dwell else sy['rfr']
    n = gen_n(rng, big)
    if rng.random() < 0.1:
        n = trap_n(rng, deff, n)
    duration = n * deff
    tbw = rng.choice([4, 4, 2, 1, 8, 6.5, round(rng.uniform(0.5, 12), 3)])
    bw = 0.0
    if maker == 'gauss' and rng.random() < 0.3:
        bw = round(rng.uniform(200, 5000), 1)
    band = bw if bw else tbw / duration
    rgz = rng.random() < 0.6
    c = {'maker': maker, 'sys': sy, 'flip': gen_flip(rng), 'apod': rng.choice([0, 0, 0.5, 0.46, round(rng.random(), 3)]),
         'delay': gen_delay(rng, sy), 'duration': duration, 'dwell': dwell,
         'center': rng.choice([0.5, 0.5, 0.5, 0.3, 0.7, 0.0, 1.0, round(rng.random(), 3)]),
         'freq': rng.choice([0.0, round(rng.uniform(-5e3, 5e3), 2)]), 'phase': rng.choice([0.0, round(rng.uniform(-3.2, 3.2), 4)]),
         'bw': bw, 'tbw': tbw, 'rgz': rgz,
         'thick': gen_thickness(rng, band, sy['mg']) if rgz else rng.choice([0.0, 5e-3]),
         'mg': 0.0, 'ms': 0.0, 'use': gen_use(rng), 'stream': 'valid'}
    if rgz and rng.random() < 0.2:
        c['mg'] = round(sy['mg'] * rng.uniform(0.5, 1.5), 0)
        c['thick'] = gen_thickness(rng, band, c['mg'])
    if rgz and rng.random() < 0.2:
        c['ms'] = round(sy['ms'] * rng.uniform(0.3, 1.5), -3)
    return c


def gen_block(rng, big):
    sy = gen_sys(rng)
    n = gen_n(rng, big)
    if rng.random() < 0.2:
        n = trap_n(rng, sy['rfr'], n)
    c = {'maker': 'block', 'sys': sy, 'flip': gen_flip(rng), 'delay': gen_delay(rng, sy),
         'duration': n * sy['rfr'], 'bw': None, 'tbw': None,
         'freq': rng.choice([0.0, round(rng.uniform(-5e3, 5e3), 2)]), 'phase': rng.choice([0.0, round(rng.uniform(-3.2, 3.2), 4)]),
         'use': gen_use(rng), 'stream': 'valid'}
    k = rng.random()
    if k < 0.12:
        # bandwidth form; choose the bandwidth so that the derived duration is on the raster: 1/(4*bw) = n*raster
        c['duration'] = None
        c['bw'] = 1.0 / (4 * n * sy['rfr'])
        c['stream'] = 'bw'
    elif k < 0.22:
        # bandwidth + time-bandwidth product, derived duration tbw/bw = n*raster
        c['duration'] = None
        c['tbw'] = rng.choice([1.0, 2.0, 4.0, round(rng.uniform(0.5, 8), 2)])
        c['bw'] = c['tbw'] / (n * sy['rfr'])
        c['stream'] = 'bw'
    elif k < 0.36:
        # derived duration in general OFF the raster: delivers flip*N*raster/duration (C13_block_flip_general)
        c['duration'] = None
        c['bw'] = round(rng.uniform(100, 20000), 1)
        c['tbw'] = rng.choice([None, 0.0, round(rng.uniform(0.5, 8), 2)])
        c['stream'] = 'bw-offraster'
    elif k < 0.39:
        c['duration'] = None
        c['stream'] = 'default'
    return c


def gen_arb(rng, big):
    sy = gen_sys(rng)
    dwell_mult = rng.choice([0, 0, 1, 2, 5])
    dwell = 0.0 if dwell_mult == 0 else dwell_mult * sy['rfr']
    deff = dwell if dwell else sy['rfr']
    n = max(2, gen_n(rng, big))
    kind = rng.choice(['pos', 'pos', 'mixed', 'hann', 'neg', 'const'])
    if kind == 'pos':
        sig = [round(rng.uniform(0.01, 1), 6) for _ in range(n)]
    elif kind == 'mixed':
        sig = [round(rng.uniform(-0.4, 1), 6) for _ in range(n)]
        if sum(sig) <= 0.05 * n:
            sig = [abs(v) + 0.1 for v in sig]
    elif kind == 'hann':
        sig = [0.5 - 0.5 * math.cos(2 * math.pi * (i + 0.5) / n) for i in range(n)]
    elif kind == 'neg':
        sig = [-round(rng.uniform(0.01, 1), 6) for _ in range(n)]
    else:
        sig = [rng.choice([1.0, 0.25, 3.0])] * n
    duration = n * deff
    rgz = rng.random() < 0.5
    tbw = rng.choice([0.0, 0.0, 4.0, round(rng.uniform(0.5, 12), 3)])
    bw = round(rng.uniform(300, 6000), 1) if rgz or rng.random() < 0.3 else 0.0
    band = tbw / duration if tbw > 0 else bw
    c = {'maker': 'arb', 'sys': sy, 'signal': sig, 'sigkind': kind, 'flip': gen_flip(rng), 'bw': bw,
         'delay': gen_delay(rng, sy), 'dwell': dwell,
         'freq': rng.choice([0.0, round(rng.uniform(-5e3, 5e3), 2)]), 'phase': rng.choice([0.0, round(rng.uniform(-3.2, 3.2), 4)]),
         'noscale': rng.random() < 0.1, 'mg': 0.0, 'ms': 0.0, 'rgz': rgz,
         'thick': gen_thickness(rng, band, sy['mg']) if rgz else 0.0, 'tbw': tbw, 'use': gen_use(rng), 'stream': 'valid'}
    if rgz and rng.random() < 0.2:
        c['mg'] = round(sy['mg'] * rng.uniform(0.5, 1.5), 0)
        c['thick'] = gen_thickness(rng, band, c['mg'])
    if rgz and rng.random() < 0.2:
        c['ms'] = round(sy['ms'] * rng.uniform(0.3, 1.5), -3)
    return c


def gen_adia(rng, big):
    sy = gen_sys(rng)
    sy['rfr'] = rng.choice([1e-6, 2e-6, 10e-6])
    dwell = rng.choice([None, None, 5 * sy['rfr'], 10 * sy['rfr']])
    deff = dwell if dwell else sy['rfr']
    n = rng.choice([rng.randint(40, 400) * 4, rng.randint(160, 1600), rng.randint(40, 300) * 4 + 2])
    duration = n * deff
    ptype = rng.choice(['hypsec', 'wurst'])
    rgz = rng.random() < 0.7
    bwv = float(rng.choice([40000, 20000, 8000]))
    beta, mu = rng.choice([(800.0, 4.9), (600.0, 5.5), (1200.0, 3.0)])
    band = mu * beta / math.pi if ptype == 'hypsec' else bwv
    return {'maker': 'adia', 'sys': sy, 'ptype': ptype, 'delay': gen_delay(rng, sy), 'duration': duration, 'dwell': dwell,
            'freq': rng.choice([0.0, round(rng.uniform(-5e3, 5e3), 2)]), 'phase': rng.choice([0.0, round(rng.uniform(-3.2, 3.2), 4)]),
            'rgz': rgz, 'thick': gen_thickness(rng, band, sy['mg']) if rgz else 0.0, 'bw': bwv, 'beta': beta, 'mu': mu,
            'use': gen_use(rng), 'stream': 'valid'}


def gen_boundary(rng, big):
    """malformed / boundary calls"""
    k = rng.choice(['dur<=0', 'offraster', 'thick0', 'block-args', 'arb-args', 'baduse', 'tiny', 'arb1'])
    if k == 'dur<=0':
        c = gen_shaped(rng, big, rng.choice(['sinc', 'sinc', 'gauss']))
        c['duration'] = rng.choice([0.0, -1e-3, -c['duration']])
        if c['maker'] == 'gauss' and c['duration'] < 0:
            c['rgz'] = False          # negative durations in gauss: only the RF part is defined behaviour worth comparing
    elif k == 'offraster':
        c = gen_shaped(rng, big, rng.choice(['sinc', 'gauss']))
        deff = c['dwell'] if c['dwell'] else c['sys']['rfr']
        c['duration'] = c['duration'] + deff * rng.choice([0.25, 0.3, 0.7, 0.1, 0.9])
    elif k == 'thick0':
        c = rng.choice([gen_shaped(rng, big, rng.choice(['sinc', 'gauss'])), gen_arb(rng, big), gen_adia(rng, big)])
        c['rgz'] = True
        c['thick'] = rng.choice([0.0, 0.0, -1e-3])
        if c['maker'] in ('sinc', 'gauss') and c['thick'] < 0:
            c['thick'] = 0.0
    elif k == 'block-args':
        c = gen_block(rng, big)
        c['duration'] = rng.choice([None, 1e-3, 0.0, -1e-3])
        c['bw'] = rng.choice([None, 1000.0, 0.0, -5.0])
        c['tbw'] = rng.choice([None, 2.0, 0.0, -1.0])
    elif k == 'arb-args':
        c = gen_arb(rng, big)
        c['rgz'] = True
        c['bw'] = rng.choice([0.0, -10.0, c['bw']])
        if c['thick'] == 0.0:
            c['thick'] = 5e-3
    elif k == 'baduse':
        c = rng.choice([gen_shaped(rng, big, 'sinc'), gen_shaped(rng, big, 'gauss'), gen_block(rng, big), gen_arb(rng, big),
                        gen_adia(rng, big)])
        c['use'] = 6
    elif k == 'arb1':
        c = gen_arb(rng, big)
        c['signal'] = c['signal'][:1]
    else:
        c = gen_block(rng, big)
        c['duration'] = c['sys']['rfr'] * rng.choice([1, 2, 0.4, 0.2])
    c['stream'] = 'boundary:' + k
    return c


def corpus():
    sy = {'dead': 100e-6, 'ring': 30e-6, 'rfr': 1e-6, 'gr': 10e-6, 'mg': 1.7e6, 'ms': 7e9}
    base = {'maker': 'sinc', 'sys': sy, 'flip': math.pi / 2, 'apod': 0.5, 'delay': 0.0, 'duration': 3e-3, 'dwell': 0.0,
            'center': 0.5, 'freq': 0.0, 'phase': 0.0, 'bw': 0.0, 'tbw': 4, 'rgz': True, 'thick': 3e-3, 'mg': 0.0, 'ms': 0.0,
            'use': 1, 'stream': 'corpus'}
    cs = [dict(base)]
    cs.append(dict(base, maker='gauss', center=0.3, delay=2.3e-4, use=2))
    cs.append(dict(base, delay=5e-3, flip=math.pi, thick=5e-3))
    cs.append(dict(base, sys=dict(sy, dead=0.0), delay=0.0))
    cs.append(dict(base, dwell=10e-6, duration=2e-3, center=1.0))
    cs.append({'maker': 'block', 'sys': sy, 'flip': math.pi, 'delay': 0.0, 'duration': 5e-4, 'bw': None, 'tbw': None,
               'freq': 100.0, 'phase': 0.5, 'use': 3, 'stream': 'corpus'})
    cs.append({'maker': 'arb', 'sys': sy, 'signal': [0.1, 0.5, 1.0, 0.5, 0.1] * 20, 'sigkind': 'pos', 'flip': 0.7, 'bw': 2000.0,
               'delay': 0.0, 'dwell': 10e-6, 'freq': 0.0, 'phase': 0.0, 'noscale': False, 'mg': 0.0, 'ms': 0.0, 'rgz': True,
               'thick': 4e-3, 'tbw': 0.0, 'use': 1, 'stream': 'corpus'})
    cs.append({'maker': 'adia', 'sys': sy, 'ptype': 'hypsec', 'delay': 0.0, 'duration': 8e-3, 'dwell': 10e-6, 'freq': 0.0,
               'phase': 0.0, 'rgz': True, 'thick': 10e-3, 'bw': 40000.0, 'beta': 800.0, 'mu': 4.9, 'use': 0,
               'stream': 'corpus'})
    return cs


# --------------------------------------------------------------------------------------------------------------
# implementation driver
def uses_tuple():
    from pypulseq.supported_labels_rf_use import get_supported_rf_uses
    return tuple(get_supported_rf_uses())


def use_str(k):
    u = uses_tuple()
    if k == 0:
        return ''
    return u[k - 1] if k <= len(u) else 'bogus_use'


def mk_sys(sy):
    import pypulseq as pp
    return pp.Opts(max_grad=sy['mg'], grad_unit='Hz/m', max_slew=sy['ms'], slew_unit='Hz/m/s', rf_dead_time=sy['dead'],
                   rf_ringdown_time=sy['ring'], rf_raster_time=sy['rfr'], grad_raster_time=sy['gr'])


def classify(e):
    if isinstance(e, ZeroDivisionError):
        return 'EZeroDiv'
    msg = str(e)
    for frag, cls in ERRMAP:
        if frag in msg:
            return cls
    return 'OTHER:' + type(e).__name__ + ':' + msg[:80]


def trap_dict(g):
    return {k: float(getattr(g, k)) for k in ('amplitude', 'rise_time', 'flat_time', 'fall_time', 'area', 'flat_area', 'delay')}


def call_impl(c):
    import pypulseq as pp
    old_default = pp.Opts.default
    try:
        return _call_impl(c)
    finally:
        if pp.Opts.default is not old_default:
            old_default.set_as_default()


class _OmitSystem(dict):
    """keyword dict that drops `system`: the call then uses the library default"""


def _call_impl(c):
    import pypulseq as pp
    system = mk_sys(c['sys'])
    m = c['maker']
    use = use_str(c['use'])
    # about one call in 12 goes through the LIBRARY DEFAULT: the case's system is installed with set_as_default() and the
    # makers are called without a `system` argument (same expected result; exposes defaults bound at import time)
    import hashlib as _h
    omit = int(_h.sha1(repr(sorted((k, repr(v)) for k, v in c.items() if k != 'signal')).encode()).hexdigest()[:2], 16) < 21
    sysarg = {'system': system}
    if omit:
        system.set_as_default()
        sysarg = {}
    try:
        if m in ('sinc', 'gauss'):
            kw = dict(flip_angle=c['flip'], apodization=c['apod'], delay=c['delay'], duration=c['duration'], dwell=c['dwell'],
                      center_pos=c['center'], freq_offset=c['freq'], phase_offset=c['phase'], return_gz=c['rgz'],
                      slice_thickness=c['thick'], **sysarg, time_bw_product=c['tbw'], use=use,
                      max_grad=c['mg'], max_slew=c['ms'])
            if m == 'gauss':
                kw['bandwidth'] = c['bw']
                out = pp.make_gauss_pulse(**kw)
            else:
                out = pp.make_sinc_pulse(**kw)
        elif m == 'block':
            out = pp.make_block_pulse(flip_angle=c['flip'], delay=c['delay'], duration=c['duration'], bandwidth=c['bw'],
                                      time_bw_product=c['tbw'], freq_offset=c['freq'], phase_offset=c['phase'],
                                      **sysarg, use=use)
        elif m == 'arb':
            sig = np.array(c['signal'], dtype=float)
            if c.get('signal_im') is not None:
                sig = sig + 1j * np.array(c['signal_im'], dtype=float)
            out = pp.make_arbitrary_rf(signal=sig, flip_angle=c['flip'], bandwidth=c['bw'], delay=c['delay'], dwell=c['dwell'],
                                       freq_offset=c['freq'], phase_offset=c['phase'], no_signal_scaling=c['noscale'],
                                       max_grad=c['mg'], max_slew=c['ms'], return_gz=c['rgz'], slice_thickness=c['thick'],
                                       **sysarg, time_bw_product=c['tbw'], use=use)
        else:
            out = pp.make_adiabatic_pulse(pulse_type=c['ptype'], bandwidth=c['bw'], beta=c['beta'], mu=c['mu'],
                                          delay=c['delay'], duration=c['duration'], dwell=c['dwell'], freq_offset=c['freq'],
                                          phase_offset=c['phase'], return_gz=c['rgz'], slice_thickness=c['thick'],
                                          **sysarg, use=use)
    except (ValueError, ZeroDivisionError, AssertionError) as e:
        return {'ok': False, 'err': classify(e)}
    except TypeError as e:
        if m == 'arb' and len(c['signal']) == 1 and ('has no len()' in str(e) or 'unsized object' in str(e)):
            # np.squeeze turns a one-sample signal into a 0-d array and len() fails: side finding, see report
            return {'ok': False, 'err': 'SINGLE-SAMPLE-TYPEERROR'}
        raise
    rf = out[0] if isinstance(out, tuple) else out
    res = {'ok': True, 'signal': np.asarray(rf.signal), 't': np.asarray(rf.t, dtype=float), 'shape_dur': float(rf.shape_dur),
           'freq': rf.freq_offset, 'phase': rf.phase_offset, 'dead': rf.dead_time, 'ring': rf.ringdown_time,
           'delay': float(rf.delay), 'use': getattr(rf, 'use', None), 'type': rf.type,
           'end': float(pp.calc_duration(rf)), 'gz': None, 'gzr': None}
    if isinstance(out, tuple):
        res['gz'] = trap_dict(out[1])
        res['gz']['end'] = float(pp.calc_duration(out[1]))
        if len(out) > 2:
            res['gzr'] = trap_dict(out[2])
            res['gzr']['end'] = float(pp.calc_duration(out[2]))
    if m == 'adia':
        res['center_time'] = float(pp.calc_rf_center(rf)[0])
    return res


# --------------------------------------------------------------------------------------------------------------
# oracle: the property's own predicate on the implementation's outputs, exact Fractions
def rel_ok(a, b, rel=Fraction(1, 10 ** 9), floor=Fraction(1, 10 ** 15)):
    a, b = F(a), F(b)
    return abs(a - b) <= rel * max(abs(a), abs(b)) + floor


def near_int(q, tol=1e-6):
    q = float(q)
    return abs(q - round(q)) <= tol * max(1.0, abs(q))


def eff_dwell(c):
    if c['maker'] == 'block':
        return c['sys']['rfr']
    d = c.get('dwell')
    return d if d else c['sys']['rfr']


def eff_bandwidth(c):
    """bandwidth as the code defines it (binary64, same expression)"""
    m = c['maker']
    if m == 'sinc':
        return c['tbw'] / c['duration']
    if m == 'gauss':
        return c['bw'] if c['bw'] != 0 else c['tbw'] / c['duration']
    if m == 'arb':
        dur = len(c['signal']) * eff_dwell(c)
        return c['tbw'] / dur if c['tbw'] > 0 else c['bw']
    return c['mu'] * c['beta'] / np.pi if c['ptype'] == 'hypsec' else c['bw']


def pulse_duration(c):
    """the pulse duration the slice gradient has to cover"""
    if c['maker'] == 'arb':
        return len(c['signal']) * eff_dwell(c)
    return c['duration']


def on_raster_duration(c):
    d = c.get('duration')
    if c['maker'] == 'arb':
        return True
    if d is None or d <= 0:
        return False
    q = F(d) / F(eff_dwell(c))
    return abs(q - round(q)) <= Fraction(1, 10 ** 6)


def oracle(ctx, c, r):
    """returns None or (signature, detail)"""
    m = c['maker']
    sy = c['sys']
    dwell = eff_dwell(c)
    fails = []

    def bad(sig, **detail):
        fails.append(('C13/%s/%s' % (m, sig), detail))

    sig = r['signal']
    t = r['t']
    n = len(sig)
    if r['type'] != 'rf':
        bad('type', type=r['type'])
    # ---- flip angle
    if m in ('sinc', 'gauss', 'block', 'arb') and not (m == 'arb' and c['noscale']):
        cplx = np.iscomplexobj(sig)
        re = [F(v) for v in (sig.real if cplx else sig)]
        im = [F(v) for v in sig.imag] if cplx else []
        sabs = sum(abs(v) for v in re) + sum(abs(v) for v in im)
        if m == 'block':
            # two end points: the pulse is the constant between them
            integ_re = (re[0] + re[1]) / 2 * (F(t[1]) - F(t[0])) if n == 2 else None
            integ_im = Fraction(0)
            wscale = sabs / 2 * abs(F(t[1]) - F(t[0])) if n == 2 else Fraction(0)
            if n != 2:
                bad('block-samples', n=n)
        else:
            integ_re = sum(re) * F(dwell)
            integ_im = sum(im) * F(dwell)
            wscale = sabs * F(dwell)
        if integ_re is not None:
            flip = F(c['flip'])
            tol = Fraction(1, 10 ** 9) * abs(flip) + Fraction(1, 10 ** 13) * 2 * PI * wscale + Fraction(1, 10 ** 15)
            got_re = 2 * PI * integ_re
            got_im = 2 * PI * integ_im
            applicable = True
            if m == 'block' and not on_raster_duration(c) and c['stream'] not in ('bw', 'default'):
                applicable = False       # the property quantifies over durations on the RF raster
            if m in ('sinc', 'gauss') and n == 0:
                applicable = False
            if m == 'arb' and (c.get('signal_im') is not None):
                applicable = False
            if applicable and (abs(got_re - flip) > tol or abs(got_im) > tol):
                if m == 'arb' and sum(F(v) for v in c['signal']) < 0 and abs(got_re + flip) <= tol and abs(got_im) <= tol:
                    fails.append((KF_ARB_SIGN, {'flip_requested': c['flip'], 'flip_delivered': float(got_re)}))
                else:
                    bad('flip', requested=c['flip'], delivered=float(got_re), imag=float(got_im), n=n)
    # ---- sample times and shape_dur
    if m == 'block':
        if n == 2 and len(t) == 2:
            if F(t[0]) != 0 or not rel_ok(t[1], r['shape_dur']):
                bad('block-times', t=[float(v) for v in t], shape_dur=r['shape_dur'])
            q = F(r['shape_dur']) / F(sy['rfr'])
            if abs(q - round(q)) > Fraction(1, 10 ** 6):
                bad('shape-dur-raster', shape_dur=r['shape_dur'])
            if on_raster_duration(c) and c['duration'] and not rel_ok(r['shape_dur'], c['duration']):
                bad('shape-dur', shape_dur=r['shape_dur'], duration=c['duration'])
    else:
        if len(t) != n and m != 'adia':
            bad('len', n_signal=n, n_t=len(t))
        nt = len(t)
        fd = F(dwell)
        for i in ([0, 1, nt // 2, nt - 2, nt - 1] if nt > 6 else range(nt)):
            if 0 <= i < nt and not rel_ok(t[i], (2 * i + 1) * fd / 2):
                bad('centres', index=i, t=float(t[i]), expected=float((2 * i + 1) * fd / 2))
                break
        if nt > 1:
            d = np.diff(t)
            if not (np.all(d > 0) and abs(float(d.max()) - dwell) <= 1e-6 * dwell and abs(float(d.min()) - dwell) <= 1e-6 * dwell):
                bad('spacing', dmin=float(d.min()), dmax=float(d.max()), dwell=dwell)
        if not rel_ok(r['shape_dur'], nt * fd):
            bad('shape-dur', shape_dur=r['shape_dur'], n=nt, dwell=dwell)
        if m != 'arb' and on_raster_duration(c) and not rel_ok(r['shape_dur'], c['duration']):
            bad('shape-dur-vs-duration', shape_dur=r['shape_dur'], duration=c['duration'])
    # ---- dead time, pass-through, ring-down
    if not (r['delay'] >= sy['dead']):
        bad('dead-time', delay=r['delay'], dead=sy['dead'])
    if r['gz'] is None and r['delay'] != max(c['delay'], sy['dead']):
        bad('delay', delay=r['delay'], requested=c['delay'], dead=sy['dead'])
    if r['delay'] < c['delay']:
        bad('delay-decreased', delay=r['delay'], requested=c['delay'])
    if r['freq'] != c['freq'] or r['phase'] != c['phase']:
        bad('offsets', freq=r['freq'], phase=r['phase'])
    want_use = use_str(c['use'])
    if m == 'adia':
        if r['use'] != (want_use or 'inversion'):
            bad('use', use=r['use'])
    elif (r['use'] or '') != want_use:
        bad('use', use=r['use'], wanted=want_use)
    if r['dead'] != sy['dead'] or r['ring'] != sy['ring']:
        bad('dead-ring-fields', dead=r['dead'], ring=r['ring'])
    if not rel_ok(r['end'], F(r['delay']) + F(r['shape_dur']) + F(sy['ring'])):
        bad('ring-down-duration', end=r['end'])
    # ---- slice-select gradient
    gz = r['gz']
    if c.get('rgz') and gz is None:
        bad('no-gz')
    if gz is not None:
        dur = pulse_duration(c)
        bwd = eff_bandwidth(c)
        if gz['flat_time'] != dur:
            bad('gz-flat-time', flat_time=gz['flat_time'], duration=dur)
        if not rel_ok(gz['amplitude'], F(bwd) / F(c['thick'])):
            bad('gz-amplitude', amplitude=gz['amplitude'], expected=float(F(bwd) / F(c['thick'])))
        if not rel_ok(gz['flat_area'], F(gz['amplitude']) * F(gz['flat_time'])):
            bad('gz-flat-area', flat_area=gz['flat_area'])
        start_flat = F(gz['delay']) + F(gz['rise_time'])
        if F(r['delay']) < start_flat - Fraction(1, 10 ** 9) * start_flat - Fraction(1, 10 ** 15):
            bad('rf-before-flat', rf_delay=r['delay'], gz_delay=gz['delay'], rise=gz['rise_time'])
        for nm in ('delay', 'rise_time', 'fall_time'):
            if not near_int(F(gz[nm]) / F(sy['gr'])):
                bad('gz-raster-' + nm, value=gz[nm], raster=sy['gr'])
        if gz['delay'] < 0 or gz['rise_time'] <= 0:
            bad('gz-negative', delay=gz['delay'], rise=gz['rise_time'])
        gzr = r['gzr']
        if gzr is not None:
            if m == 'adia':
                after = F(dur) - F(r['center_time'])
            else:
                after = F(dur) * (1 - F(c['center']))
            want = -(F(gz['amplitude']) * after + F(gz['amplitude']) * F(gz['fall_time']) / 2)
            tol = Fraction(1, 10 ** 9) * abs(F(gz['area'])) + Fraction(1, 10 ** 12)
            if abs(F(gzr['area']) - want) > tol:
                bad('gzr-area', gzr_area=gzr['area'], expected=float(want), gz_area=gz['area'],
                    center=(r.get('center_time') if m == 'adia' else c['center']))
            if not rel_ok(gzr['area'], F(gzr['amplitude']) * (F(gzr['flat_time']) + F(gzr['rise_time']) / 2 + F(gzr['fall_time']) / 2)):
                bad('gzr-area-field', gzr=gzr)
    return fails


# --------------------------------------------------------------------------------------------------------------
# model
def sys_toks(sy, system):
    return ' '.join(qtok(F(v)) for v in (sy['dead'], sy['ring'], sy['rfr'], sy['gr'], system.max_grad, system.max_slew))


def opt_tok(v):
    return '0' if v is None else '1 ' + qtok(F(v))


def b(v):
    return '1' if v else '0'


def model_line(c, r):
    system = mk_sys(c['sys'])
    st = sys_toks(c['sys'], system)
    m = c['maker']
    if m in ('sinc', 'gauss'):
        # envelope: the implementation's own samples (any positive multiple of the envelope gives the same result);
        # when the call raised, an envelope of the right length
        if r['ok']:
            w = [F(v) for v in r['signal']]
        else:
            deff = eff_dwell(c)
            n = max(0, round(c['duration'] / deff)) if deff else 0
            w = [Fraction(1)] * n
        args = [c['flip'], c['delay'], c['duration'], c['dwell'], c['center'], c['freq'], c['phase'], c['bw'], c['tbw']]
        return 'rf.shaped %s %s %s %s %s %s %s %d' % (
            b(m == 'gauss'), st, qtok(PI), qlist(w), ' '.join(qtok(F(v)) for v in args), b(c['rgz']),
            ' '.join(qtok(F(v)) for v in (c['thick'], c['mg'], c['ms'])), c['use'])
    if m == 'block':
        return 'rf.block %s %s %s %s %s %s %s %d' % (
            st, qtok(PI), ' '.join(qtok(F(v)) for v in (c['flip'], c['delay'])), opt_tok(c['duration']), opt_tok(c['bw']),
            opt_tok(c['tbw']), ' '.join(qtok(F(v)) for v in (c['freq'], c['phase'])), c['use'])
    if m == 'arb':
        return 'rf.arb %s %s %s %s %s %s %s %s %d' % (
            st, qtok(PI), qlist(F(v) for v in c['signal']),
            ' '.join(qtok(F(v)) for v in (c['flip'], c['bw'], c['delay'], c['dwell'], c['freq'], c['phase'])),
            b(c['noscale']), ' '.join(qtok(F(v)) for v in (c['mg'], c['ms'])), b(c['rgz']),
            ' '.join(qtok(F(v)) for v in (c['thick'], c['tbw'])), c['use'])
    bwd = eff_bandwidth(c)
    center = r.get('center_time', 0.0) if r['ok'] else 0.0
    return 'rf.adia %s %s %s %s %s %s %d' % (
        st, ' '.join(qtok(F(v)) for v in (c['delay'], c['duration'])), opt_tok(c['dwell']),
        ' '.join(qtok(F(v)) for v in (c['freq'], c['phase'])), b(c['rgz']),
        ' '.join(qtok(F(v)) for v in (c['thick'], bwd, center)), c['use'])


def parse_rf(t):
    d = {'signal': t.list(t.q), 't': t.list(t.q)}
    for k in ('shape_dur', 'freq', 'phase', 'dead', 'ring', 'delay'):
        d[k] = t.q()
    d['use'] = t.opt(t.int)
    d['end'] = t.q()
    return d


def parse_trap(t):
    return {k: t.q() for k in ('amplitude', 'rise_time', 'flat_time', 'fall_time', 'area', 'flat_area', 'delay', 'end')}


def parse_model(c, line):
    t = Toks(line)
    tag = t.next()
    if tag == 'ERR':
        return {'ok': False, 'err': t.next()}
    if tag != 'OK':
        return {'ok': False, 'err': 'MODEL:' + line[:100]}
    d = parse_rf(t)
    d['ok'] = True
    d['gz'] = d['gzr'] = None
    if c['maker'] != 'block' and t.bool():
        d['gz'] = parse_trap(t)
        if c['maker'] != 'arb':
            d['gzr'] = parse_trap(t)
    return d


def prone_flags(c, r):
    """which float-vs-exact ceil decisions of this call sit on a threshold"""
    fl = set()
    gz = r.get('gz')
    if gz is None:
        return fl
    sy = c['sys']
    ms = c.get('ms') or sy['ms']
    mg = c.get('mg') or sy['mg']
    if c['maker'] == 'adia':
        ms, mg = sy['ms'], sy['mg']
    q = abs(gz['amplitude']) / ms / sy['gr']
    if q > 1 - 1e-6 and near_int(q):
        fl.add('gz-rise')
    d0 = max(c['delay'], sy['dead'])
    if near_int((d0 - gz['rise_time']) / sy['gr']):
        fl.add('gz-delay')
    gzr = r.get('gzr')
    if gzr is not None:
        A = abs(gzr['area'])
        q1 = math.sqrt(A / ms) / sy['gr']
        rise0 = max(math.ceil(q1 - 1e-9), 1) * sy['gr']
        near_branch = abs(A / rise0 - mg) <= 1e-6 * mg
        q2 = A / mg / sy['gr']
        q3 = abs(gzr['amplitude']) / ms / sy['gr']
        if near_int(q1) or near_branch or near_int(q2) or near_int(q3):
            fl.add('gzr-timing')
    return fl


def compare_one(ctx, c, r, mo):
    """returns list of (field, model, impl) disagreements"""
    diffs = []
    if r['ok'] != mo['ok']:
        return [('ok', mo.get('err', 'OK'), r.get('err', 'OK'))]
    if not r['ok']:
        if r['err'] != mo['err']:
            diffs.append(('err', mo['err'], r['err']))
        return diffs
    m = c['maker']
    if m != 'adia':
        sig = r['signal']
        if np.iscomplexobj(sig):
            if np.any(sig.imag != 0):
                diffs.append(('signal-imag', 0, float(np.max(np.abs(sig.imag)))))
            sig = sig.real
        if len(mo['signal']) != len(sig):
            diffs.append(('len(signal)', len(mo['signal']), len(sig)))
        else:
            scale = max([abs(float(v)) for v in sig] + [0.0])
            tol = Fraction(1, 10 ** 9) * F(scale) + Fraction(1, 10 ** 15)
            for i, (a, bb) in enumerate(zip(mo['signal'], sig)):
                if abs(a - F(bb)) > tol:
                    diffs.append(('signal[%d]' % i, float(a), float(bb)))
                    break
    if len(mo['t']) != len(r['t']):
        diffs.append(('len(t)', len(mo['t']), len(r['t'])))
    else:
        for i, (a, bb) in enumerate(zip(mo['t'], r['t'])):
            if not rel_ok(a, bb):
                diffs.append(('t[%d]' % i, float(a), float(bb)))
                break
    for k in ('shape_dur', 'freq', 'phase', 'dead', 'ring', 'delay', 'end'):
        mv = max(mo[k], Fraction(0)) if k == 'end' else mo[k]      # calc_duration is max(0, event end)
        if not rel_ok(mv, r[k]):
            diffs.append((k, float(mo[k]), float(r[k])))
    mu = use_str(mo['use']) if mo['use'] else None
    if mu != r['use']:
        diffs.append(('use', mu, r['use']))
    for nm in ('gz', 'gzr'):
        if (mo[nm] is None) != (r[nm] is None):
            diffs.append((nm, mo[nm] is not None, r[nm] is not None))
        elif mo[nm] is not None:
            for k in ('amplitude', 'rise_time', 'flat_time', 'fall_time', 'area', 'flat_area', 'delay', 'end'):
                if not rel_ok(mo[nm][k], r[nm][k], floor=Fraction(1, 10 ** 12)):
                    diffs.append(('%s.%s' % (nm, k), float(mo[nm][k]), float(r[nm][k])))
    return diffs


BRACKET_DELTA = Fraction(1, 10 ** 6)


def in_bracket(c, r):
    """C13_ceil_threshold_bracket: the implementation's gz.delay = k*raster with k in the delta-bracket around
    e = max(rf.delay_before_coupling - gz.rise_time, 0) (delta = 1e-6); then every clause holds for its outcome too"""
    gz = r['gz']
    ra = F(c['sys']['gr'])
    kq = F(gz['delay']) / ra
    k = round(kq)
    if abs(kq - k) > BRACKET_DELTA or k < 0:
        return False
    d0 = F(max(c['delay'], c['sys']['dead']))
    e = max(d0 - F(gz['rise_time']), Fraction(0))
    return e - BRACKET_DELTA * ra <= k * ra < e + ra + BRACKET_DELTA * ra


def compare_model(ctx, batch):
    lines = [model_line(c, r) for c, r in batch]
    outs = ctx.model(lines)
    # the specification (direct) forms are run next to the fast forms on the short pulses: identical results
    direct = [(i, l) for i, ((c, r), l) in enumerate(zip(batch, lines))
              if c['maker'] in ('sinc', 'gauss', 'arb') and l.split()[0] in ('rf.shaped', 'rf.arb')
              and (len(r['signal']) if r['ok'] else 0) <= 40 and (len(c.get('signal', ())) <= 40)]
    if direct:
        douts = ctx.model([l.replace('rf.shaped', 'rf.shaped_direct', 1).replace('rf.arb ', 'rf.arb_direct ', 1) for _, l in direct])
        for (i, _), do in zip(direct, douts):
            ctx.count('corr.direct-vs-fast')
            a, b2 = Toks(outs[i]), Toks(do)
            same = len(a.t) == len(b2.t) and all(_tok_eq(x, y) for x, y in zip(a.t, b2.t))
            if not same:
                ctx.mismatch('fast-vs-direct', batch[i][0], {'fast': outs[i][:200], 'direct': do[:200]})
    for (c, r), o in zip(batch, outs):
        mo = parse_model(c, o)
        diffs = compare_one(ctx, c, r, mo)
        if not diffs:
            continue
        if r['ok'] and mo['ok']:
            fl = prone_flags(c, r)
            fields = set(d[0] for d in diffs)
            allowed = set()
            if 'gz-rise' in fl:
                allowed |= {'gz.rise_time', 'gz.fall_time', 'gz.area', 'gz.delay', 'gz.end', 'delay', 'end',
                            'gzr.amplitude', 'gzr.rise_time', 'gzr.flat_time', 'gzr.fall_time', 'gzr.area', 'gzr.flat_area', 'gzr.end'}
            if 'gz-delay' in fl:
                allowed |= {'gz.delay', 'gz.end', 'delay', 'end'}
            if 'gzr-timing' in fl:
                allowed |= {'gzr.amplitude', 'gzr.rise_time', 'gzr.flat_time', 'gzr.fall_time', 'gzr.flat_area', 'gzr.end'}
            if fields <= allowed and in_bracket(c, r):
                # a one-raster disagreement of ceil() on a threshold; the implementation's k lies in the delta-bracket,
                # so by C13_ceil_threshold_bracket its outcome satisfies every clause (and the oracle has passed)
                ctx.benign_divergence('ceil-threshold', case_brief(c), {'flags': sorted(fl), 'diffs': diffs[:4]})
                ctx.count('corr.benign.' + '+'.join(sorted(fl)))
                continue
        ctx.mismatch(c['maker'], c, {'diffs': diffs[:6]})


def _tok_eq(x, y):
    if x == y:
        return True
    try:
        from common import tokq
        return tokq(x) == tokq(y)
    except Exception:
        return False


def case_brief(c):
    d = dict(c)
    if 'signal' in d and len(d['signal']) > 12:
        d = dict(d, signal=d['signal'][:12] + ['...%d' % len(c['signal'])])
    return d


def tie_prone(c):
    """round(duration/dwell) on a .5 tie (boundary stream only)"""
    if c['maker'] == 'arb':
        return False
    d = c.get('duration')
    if d is None:
        return False
    dw = eff_dwell(c)
    q = F(d) / F(dw)
    return abs((q - math.floor(q)) - Fraction(1, 2)) < Fraction(1, 10 ** 6)


# --------------------------------------------------------------------------------------------------------------
def evaluate(ctx, c, known_sigs):
    """implementation + oracle for one case; returns the impl result (or None)"""
    try:
        r = call_impl(c)
    except Exception as e:  # noqa: BLE001
        ctx.fail('C13/%s/raises' % c['maker'], case_brief(c) if False else c, {'exception': repr(e)[:300]})
        ctx.evaluated(None, nontrivial=False)
        return None
    key = {k: v for k, v in c.items() if k != 'stream'}
    if not r['ok']:
        ctx.count('outcome.%s.%s' % (c['maker'], r['err'].split(':')[0]))
        if r['err'] == 'SINGLE-SAMPLE-TYPEERROR':
            ctx.evaluated(key, nontrivial=False)
            return None
        if r['err'].startswith('OTHER'):
            ctx.fail('C13/%s/unexpected-exception' % c['maker'], c, {'err': r['err']})
        ctx.evaluated(key, nontrivial=False)
        return r
    ctx.count('outcome.%s.ok' % c['maker'])
    if not np.all(np.isfinite(r['signal'])):
        # envelope whose samples sum to zero (e.g. one sample on a zero of the window): 0/0 in the normalisation.
        # The theorems carry the hypothesis sum w <> 0; nothing to check here.
        ctx.count('degenerate.envelope-sum-zero')
        ctx.evaluated(key, nontrivial=False)
        return None
    if c.get('duration') is not None and c['duration'] <= 0:
        # gauss accepts non-positive durations (empty pulse, negative shape_dur); the property quantifies over
        # positive durations, so only the correspondence is checked there
        ctx.count('oracle.skipped.nonpositive-duration')
        fails = []
    else:
        fails = oracle(ctx, c, r)
    for sig, detail in fails:
        if sig == KF_ARB_SIGN and sig not in known_sigs:
            # documented sign convention of make_arbitrary_rf (abs() in the scaling); reported as a finding in the
            # builder report; becomes a KNOWN-FINDING line once the signature is registered in known_findings.json
            ctx.count('finding.arbitrary-negative-sum-gives-minus-flip')
            continue
        ctx.fail(sig, c, detail)
    r['oracle_ok'] = not [s for s, _ in fails if s != KF_ARB_SIGN]
    sy = c['sys']
    nontrivial = bool(r['gz'] is not None or c['delay'] < sy['dead'] or (c.get('dwell') or 0) != 0)
    ctx.evaluated(key, nontrivial=nontrivial)
    if r['gz'] is not None:
        ctx.count('gz.%s' % ('delayed' if r['gz']['delay'] > 0 else 'undelayed'))
    ctx.count('delay.%s' % ('below-dead' if c['delay'] < sy['dead'] else 'at-dead' if c['delay'] == sy['dead'] else 'above-dead'))
    return r


def run(ctx):
    rng = ctx.rng('calls')
    big = ctx.tier == 'thorough'
    n_cases = {'quick': 1000, 'thorough': 30000}[ctx.tier]
    known_sigs = {k['signature'] for k in load_known() if k.get('property') == ID and k.get('status') == 'known'}
    cases = corpus()
    for i in range(n_cases):
        k = rng.random()
        if k < 0.26:
            cases.append(gen_shaped(rng, big, 'sinc'))
        elif k < 0.46:
            cases.append(gen_shaped(rng, big, 'gauss'))
        elif k < 0.58:
            cases.append(gen_block(rng, big))
        elif k < 0.78:
            cases.append(gen_arb(rng, big))
        elif k < 0.86:
            cases.append(gen_adia(rng, big))
        else:
            cases.append(gen_boundary(rng, big))
    pending = []
    for i, c in enumerate(cases):
        if ctx.out_of_time():
            ctx.notes.append('time budget reached after %d calls' % i)
            break
        r = evaluate(ctx, c, known_sigs)
        ctx.count('stream.' + c['stream'])
        ctx.count('maker.' + c['maker'])
        if r is None:
            continue
        if i % 300 == 3 and r['ok']:
            ctx.sample({'case': case_brief(c), 'delay': r['delay'], 'shape_dur': r['shape_dur'], 'gz': r['gz'], 'gzr': r['gzr']})
        if ctx.model_available and (not r['ok'] or r.get('oracle_ok')):
            if tie_prone(c):
                ctx.count('corr.tie_prone_oracle_only')
            elif c.get('signal_im') is not None:
                ctx.count('corr.complex_oracle_only')
            else:
                pending.append((c, r))
        if len(pending) >= 200:
            compare_model(ctx, pending)
            pending = []
    if pending and ctx.model_available:
        compare_model(ctx, pending)


def replay(ctx, case):
    known_sigs = {k['signature'] for k in load_known() if k.get('property') == ID and k.get('status') == 'known'}
    r = evaluate(ctx, case, known_sigs)
    if r is None:
        return {'note': 'implementation raised an unexpected exception'}
    out = {'impl': {k: v for k, v in r.items() if k not in ('signal', 't')}}
    if r['ok']:
        out['impl']['n_samples'] = len(r['signal'])
    if ctx.model_available and not tie_prone(case) and case.get('signal_im') is None:
        compare_model(ctx, [(case, r)])
    return out
