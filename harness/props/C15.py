"""C15 — duplicate removal changes ids only, never content."""
import copy
import math

import numpy as np

import histories as H
import seqmodel as sm

ID = 'C15'
GEN_SECTIONS = ['GenDedup', 'GenFile', 'FP_dedup', 'FP_event_lib', 'FP_get_block']
COQ_TARGETS = ['Props/C15.vo']
LEVEL = 'proof'
MANIFEST = {
    'text': 'Theorems (Coq, Props/C15.v): for EventLibrary.remove_duplicates over ANY key type and ANY rounding function: the id mapping is total on the old ids and points to existing new ids; the new library holds exactly the rounded old data at the mapped id; two entries are merged IF AND ONLY IF their rounded data are equal; new ids are dense 1..n in ascending order of the first member of each class, whose type tag is kept; the result is a well-formed library; for an idempotent rounding a second pass returns the identical library and the identity mapping. Rounding: round-to-n-decimals is idempotent with error <= 0.5*10^-n; the significant-digit rounding has relative error <= 5*10^-dig (of |d|+1e-12). The digit tuples are re-read from sequence.py on every run and the theorems about columns are stated over them. Sequence level (dedup_core): for a store with valid references the result exists, its references are valid, the block table keeps keys, order and durations, and every block decodes to the rounded rows / rounded shape payloads of the original block; copy leaves the original state unchanged; in place = copy. The RF-delay exception (6 significant digits instead of 1 us for delays >= 1 s) is a kernel-checked witness. Sequences full of near-duplicates around every column\'s rounding threshold are run through the implementation and the extracted model (libraries, id maps and block table compared exactly).',
    'note': 'Trusted: Coq kernel; translator patterns + source fingerprints of Sequence.remove_duplicates / EventLibrary.remove_duplicates / get_block; extraction + driver; numeric extraction inside register_* taken from the implementation. No partial theorem is left: idempotence of the significant-digit rounding is proved for every rational including the carry to the next power of ten, so a second duplicate removal with the source tuples is the identity for every library with unique ids. Duplicate removal identifies two values exactly when the printer prints them identically for |x| >= 10^(dig-12) (1e-6 for 6 digits, 1e-3 for 9 digits) or x = 0; below that range it is false (kernel-checked counterexamples: the 1e-12 offset makes duplicate removal coarser). Hypotheses of the sequence-level theorems: ids are unique positive dict keys, no empty type tag stored, references valid (and, for the statement that every block decodes, the mandatory shapes present and every block has a duration and a walkable extension chain), merged rows carry equal type tags (automatic for gradients; necessary for RF rows: witness with two RF rows of different use). Known findings: RF delay >= 1 s rounded to 6 significant digits; RF rows within the rounding but of different use are merged.',
    'technique': 'Rocq/Coq proof (loop invariant over the sorted id list, canonical-form argument for idempotence, exact rational rounding lemmas) + model/implementation correspondence on near-duplicate sequences',
}
BUDGET = {'quick': 200, 'thorough': 2400}
MISMATCH_BUDGET = 0.0
RULE = ('THREE kinds of stores. (1) sequences of 3-25 blocks built by add_block from a pool in which every numeric column is perturbed around its rounding threshold '
        '(x0.4, x1, x3 of: 6th significant digit of amplitudes/offsets/phases, 1 us of delays and trapezoid times, 1 ns of '
        'dwell, 9th digit of raw shape samples), shapes shared between gradients, repeated events; then remove_duplicates() '
        '(copy), again on the copy, and in place. Oracles: every block decodes to the same events within the declared '
        'rounding, the original store is bit-identical afterwards and decodes as before, all referenced ids exist, every type tag (use of RF entries, t/g of gradients) referenced by a block is unchanged, ids are dense and ascending, any exception of get_block / remove_duplicates is an oracle failure, '
        'second application is the identity, in-place equals copy. (2) raster-valid histories (append + overwrite, so that unreferenced library entries stay) rebuilt with unique but gapped, non-ascending ids in the shape/gradient/RF/ADC libraries and the block table (explicit-id EventLibrary.insert in shuffled order), and/or passed through write(remove_duplicates=False) + read(remove_duplicates=False, detect_rf_use False/True): the same shape twice in the file ahead of RF shapes, RF rows without type entry, identical rows under different ids; with and without merges. (3) a hand-written file with gapped, unordered ids in every section. The same oracle on all. Correspondence: the extracted Coq model (digit tuples read '
        'from the source) must produce the same libraries, id maps and block table. non-trivial = dedup merged at least one pair')
TRUSTED = ['numeric extraction inside register_* taken from the implementation',
           'doubles are handed to the model as their shortest round-trip decimals (injective; see common.D)']
ASSUMPTIONS = ['values are kept 10% of a rounding unit away from exact rounding ties (binary64 product vs exact decimal)']


KF5_SIG = 'C15/rf-delay>=1s-6digits'


def perturb(rng, x, unit):
    return x + rng.choice([0, 0, 0.4, -0.4, 1, -1, 3, 0.6]) * unit


class NearPool(H.Pool):
    uses = [None]          # set per case by gen_case: the `use` values RF pulses of this case may carry

    def trap(self, ch=None, delay=None):
        import pypulseq as pp
        r = self.rng
        ch = ch or r.choice('xyz')
        amp = r.choice([1e5, -2.5e5, 123456.7, 9.99999e4])
        amp = perturb(r, amp, abs(amp) * 1e-6 * 0.9)
        rise = perturb(r, r.choice([1e-4, 2e-4]), 1e-6 * 0.9)
        return pp.make_trapezoid(ch, amplitude=amp, rise_time=rise, flat_time=perturb(r, r.choice([5e-4, 1e-3]), 0.9e-6),
                                 fall_time=r.choice([1e-4, 2e-4]), delay=perturb(r, r.choice([1e-4, 3e-4]), 0.9e-6), system=self.lsys)

    def adc(self):
        import pypulseq as pp
        r = self.rng
        return pp.make_adc(r.choice([16, 32]), dwell=perturb(r, r.choice([1e-5, 2e-5]), 0.9e-9),
                           delay=perturb(r, r.choice([1e-4, 2e-5]), 0.9e-6), freq_offset=perturb(r, 1234.56, 1234.56 * 0.9e-6),
                           phase_offset=perturb(r, 0.25, 0.25e-6 * 0.9), system=self.sys)

    def rf(self):
        import pypulseq as pp
        r = self.rng
        flip = perturb(r, r.choice([math.pi / 2, 0.3]), 0.9e-6)
        use = r.choice(self.uses)
        kw = dict(delay=perturb(r, r.choice([1e-4, 1.5e-4]), 0.9e-6), freq_offset=perturb(r, 123.456, 123.456e-6 * 0.9),
                  phase_offset=perturb(r, 0.5, 0.45e-6), system=self.sys)
        if use is not None:
            kw['use'] = use
        if r.random() < 0.7:
            return pp.make_block_pulse(flip, duration=r.choice([1e-4, 2e-4]), **kw)
        return pp.make_sinc_pulse(flip, duration=r.choice([4e-5, 6e-5]), time_bw_product=2, **kw)

    def arb(self, ch=None, first=0.0, last=0.0, delay=0.0, n=None):
        import pypulseq as pp
        r = self.rng
        ch = ch or r.choice('xyz')
        n = n or r.choice([3, 4, 8, 12])     # <= 4 samples are stored raw: 9-digit rounding acts on them
        w = 1e5 * np.sin(np.linspace(0, math.pi, n + 2)[1:-1]) * perturb(r, 1.0, 0.9e-6)
        if r.random() < 0.5:
            w = w * (1 + np.array([r.choice([0, 4e-10, 1e-9, -3e-9]) for _ in range(n)]))
        return pp.make_arbitrary_grad(ch, np.asarray(w, dtype=float), first=perturb(r, 0.0, 0.9e-6), last=0.0,
                                      delay=perturb(r, delay, 0.9e-6) if delay else 0.0, system=self.lsys)


def close_amp(a, b):
    return abs(a - b) <= 5.5e-6 * max(abs(a), abs(b)) + 1e-12


def block_close(b1, b2, seq, exact=False):
    """b2 (after dedup) equals b1 up to the declared rounding; exact=True: identical (the untouched original)"""
    if exact:
        import common
        if hasattr(sm, 'block_dump'):
            return None if sm.block_dump(b1) == sm.block_dump(b2) else 'decoded block differs'
        d = block_close(b1, b2, seq)
        return d
    for nm in ('gx', 'gy', 'gz'):
        g1, g2 = getattr(b1, nm), getattr(b2, nm)
        if (g1 is None) != (g2 is None):
            return nm + ' presence'
        if g1 is None:
            continue
        if g1.type != g2.type:
            return nm + ' type'
        if g1.type == 'trap':
            if not close_amp(g1.amplitude, g2.amplitude):
                return '%s.amplitude %r -> %r' % (nm, g1.amplitude, g2.amplitude)
            for f in ('rise_time', 'flat_time', 'fall_time', 'delay'):
                if abs(getattr(g1, f) - getattr(g2, f)) > 0.5e-6 + 1e-12:
                    return '%s.%s %r -> %r' % (nm, f, getattr(g1, f), getattr(g2, f))
        else:
            if len(g1.waveform) != len(g2.waveform):
                return nm + ' waveform length'
            full = float(np.max(np.abs(g1.waveform))) or 1.0
            if float(np.max(np.abs(np.asarray(g1.waveform) - np.asarray(g2.waveform)))) > 5.5e-6 * full + 2e-9 * full:
                return nm + ' waveform'
            if float(np.max(np.abs(np.asarray(g1.tt) - np.asarray(g2.tt)))) > 1e-12:
                return nm + ' tt'
            if abs(g1.delay - g2.delay) > 0.5e-6 + 1e-12:
                return nm + '.delay'
            for f in ('first', 'last'):
                if abs(getattr(g1, f) - getattr(g2, f)) > 0.5e-6 + 1e-12:
                    return '%s.%s %r -> %r' % (nm, f, getattr(g1, f), getattr(g2, f))
    if (b1.rf is None) != (b2.rf is None):
        return 'rf presence'
    if b1.rf is not None:
        if len(b1.rf.signal) != len(b2.rf.signal):
            return 'rf length'
        full = float(np.max(np.abs(b1.rf.signal))) or 1.0
        if float(np.max(np.abs(b1.rf.signal - b2.rf.signal))) > 5.5e-6 * full + 2e-8 * full:
            return 'rf signal'
        if abs(b1.rf.delay - b2.rf.delay) > 0.5e-6 + 1e-12:
            return 'rf.delay %r -> %r' % (b1.rf.delay, b2.rf.delay)
        for f in ('freq_offset', 'phase_offset'):
            if not close_amp(getattr(b1.rf, f), getattr(b2.rf, f)):
                return 'rf.' + f
        if getattr(b1.rf, 'use', None) != getattr(b2.rf, 'use', None):
            return 'rf.use'
    if (b1.adc is None) != (b2.adc is None):
        return 'adc presence'
    if b1.adc is not None:
        a1, a2 = b1.adc, b2.adc
        if a1.num_samples != a2.num_samples or abs(a1.dwell - a2.dwell) > 0.5e-9 + 1e-15 or abs(a1.delay - a2.delay) > 0.5e-6 + 1e-12 \
                or not close_amp(a1.freq_offset, a2.freq_offset) or not close_amp(a1.phase_offset, a2.phase_offset):
            return 'adc fields'
    l1 = [(l.type, l.label, l.value) for l in (b1.label or {}).values()]
    l2 = [(l.type, l.label, l.value) for l in (b2.label or {}).values()]
    if l1 != l2:
        return 'labels'
    t1 = [(t.type, t.channel, t.delay, t.duration) for t in getattr(b1, 'trigger', {}).values()]
    t2 = [(t.type, t.channel, t.delay, t.duration) for t in getattr(b2, 'trigger', {}).values()]
    if t1 != t2:
        return 'triggers'
    if b1.block_duration != b2.block_duration:
        return 'block_duration'
    return None


def refs_ok(seq):
    for i, ev in seq.block_events.items():
        for col, lib in ((1, seq.rf_library), (2, seq.grad_library), (3, seq.grad_library), (4, seq.grad_library), (5, seq.adc_library)):
            if ev[col] != 0 and ev[col] not in lib.data:
                return 'block %d column %d references missing id %d' % (i, col, ev[col])
    for k, d in seq.rf_library.data.items():
        for s in d[1:4]:
            if s != 0 and s not in seq.shape_library.data:
                return 'rf %d references missing shape %r' % (k, s)
    for k, d in seq.grad_library.data.items():
        if seq.grad_library.type.get(k) not in ('t', 'g'):
            return 'grad %d has type tag %r' % (k, seq.grad_library.type.get(k))
        if seq.grad_library.type[k] == 'g':
            for s in d[1:3]:
                if s != 0 and s not in seq.shape_library.data:
                    return 'grad %d references missing shape %r' % (k, s)
    for name in ('rf_library', 'grad_library', 'adc_library', 'shape_library'):
        ids = list(getattr(seq, name).data.keys())
        if ids != list(range(1, len(ids) + 1)):
            return '%s ids not dense/ascending: %s' % (name, ids[:10])
    return None


def tags_same(seq, s2):
    """type tags (`use` of RF entries, 't'/'g' of gradient entries) referenced by every block, before vs after.
    Returns (signature-kind, text) or None.  kind 'merge': the tag differs AND the new entry is shared with an old entry
    that carried the new tag (two differently tagged entries were merged: the recorded finding); kind 'tag': any other
    change of a tag (dropped, replaced)."""
    cols = ((1, 'rf_library'), (2, 'grad_library'), (3, 'grad_library'), (4, 'grad_library'))
    if list(seq.block_events.keys()) != list(s2.block_events.keys()):
        return ('tag', 'block ids changed')
    for col, name in cols:
        l1, l2 = getattr(seq, name), getattr(s2, name)
        classes = {}
        for i, ev in seq.block_events.items():
            a, b = int(ev[col]), int(s2.block_events[i][col])
            if a:
                classes.setdefault(b, set()).add(l1.type.get(a))
        for i, ev in seq.block_events.items():
            a, b = int(ev[col]), int(s2.block_events[i][col])
            if (a == 0) != (b == 0):
                return ('tag', 'block %d column %d: id %d -> %d' % (i, col, a, b))
            if a == 0:
                continue
            t1, t2 = l1.type.get(a), l2.type.get(b)
            if t1 != t2:
                kind = 'merge' if (name == 'rf_library' and t2 in classes.get(b, ()) and len(classes[b]) > 1) else 'tag'
                return (kind, 'block %d column %d: type tag %r -> %r (old id %d, new id %d)' % (i, col, t1, t2, a, b))
    return None


def guarded(ctx, sig, case, what, f):
    """run one call into the implementation on a store the generator built: an exception is an oracle failure with the
    concrete history as replay, never a harness error.  Returns (ok, value)."""
    try:
        return True, f()
    except Exception as e:  # noqa: BLE001
        import traceback
        ctx.fail(sig, case, {'call': what, 'exception': repr(e)[:300], 'where': traceback.format_exc().strip().split('\n')[-3:][0][:200]})
        return False, None


USES = ['excitation', 'refocusing', 'inversion', 'saturation', 'preparation', None]


def gen_case(rng, tier, rf_long_delay=False):
    system = H.mk_system(rng, rng.choice([0, 1]))
    pool = NearPool(rng, system)
    # one `use` per case (so that near-equal RF pulses may be merged without changing content) in most cases; in the
    # rest two uses are mixed (merging then changes the use of a block: recorded finding C15/rf-use-merged)
    pool.uses = [rng.choice(USES)] if rng.random() < 0.85 else rng.sample(USES, 2)
    tw = H.Twin(system)
    n = rng.randint(3, 25 if tier == 'thorough' else 14)
    for _ in range(n):
        evs = []
        for ch in 'xyz':
            if rng.random() < 0.5:
                evs.append(rng.choice([pool.trap, pool.trap, pool.arb, lambda c: pool.ext(c, 0.0, 0.0)])(ch))
        if rng.random() < 0.5:
            evs.append(pool.rf())
        if rng.random() < 0.5:
            evs.append(pool.adc())
        if rng.random() < 0.3:
            evs.append(pool.label())
        if not evs:
            evs.append(pool.delay())
        if rng.random() < 0.25 and tw.records:
            prev = [r for r in tw.records if r['kind'] == 'add' and r['outcome'][0] == 'ok']
            if prev:
                evs = rng.choice(prev)['events']      # exact repeat of an earlier block
        tw.add(evs)
    return tw


def run_one(ctx, rng, n, tag):
    tw = gen_case(rng, ctx.tier)
    return oracle_on_store(ctx, tw, n, tag)


def oracle_on_store(ctx, tw, n, tag, extra=None):
    """the complete C15 oracle + the model operations on the store held by the twin `tw` (however it was built)"""
    seq = tw.off                      # oracle reads on the cache-off twin
    # the replay carries the concrete history (operation tokens with exact rationals) besides the generator coordinates
    case = {'rng_stream': tag, 'index': n, 'seed': ctx.seed, 'tier': ctx.tier, 'blocks': len(seq.block_events),
            'history': list(tw.ops)}
    if extra:
        case.update(extra)
    for name in ('rf_library', 'grad_library', 'adc_library', 'shape_library'):
        ids = list(getattr(seq, name).data.keys())
        if ids and ids != list(range(1, len(ids) + 1)):
            ctx.count('store.%s.ids-gapped-or-unordered' % name)
    if any(k not in seq.rf_library.type for k in seq.rf_library.data):
        ctx.count('store.rf-without-type-entry')
    before = sm.state_dump(seq)
    ok, blocks_before = guarded(ctx, 'C15/decode-raises', case, 'get_block before remove_duplicates',
                                lambda: {i: seq.get_block(i) for i in seq.block_events})
    if not ok:
        ctx.evaluated((tag, n, tw.model_line()[:3000]))
        return None, case
    ok, s2 = guarded(ctx, 'C15/raises', case, 'remove_duplicates()', lambda: seq.remove_duplicates())
    if not ok:
        ctx.evaluated((tag, n, tw.model_line()[:3000]))
        return None, case
    after = sm.state_dump(seq)
    if H.cmp_state_plain(before, after):
        ctx.fail('C15/original-modified', case, {'what': H.cmp_state_plain(before, after)})
    # ... including what the original decodes to (a shared, rewritten library entry shows here)
    for i in seq.block_events:
        ok, b = guarded(ctx, 'C15/original-modified', case, 'get_block(%d) of the original after remove_duplicates()' % i,
                        lambda: seq.get_block(i))
        if not ok:
            break
        d = block_close(blocks_before[i], b, seq, exact=True)
        if d:
            ctx.fail('C15/original-modified', case, {'block': i, 'what': 'original decodes differently: ' + d})
            break
    merged = sum(len(getattr(seq, l).data) - len(getattr(s2, l).data) for l in ('rf_library', 'grad_library', 'adc_library', 'shape_library'))
    ctx.evaluated((tag, n, tw.model_line()[:3000]), nontrivial=merged > 0)
    ctx.count('merged_entries', merged)
    ctx.count('cases.with_merge' if merged else 'cases.no_merge')
    ctx.count('shape_ids_shift' if len(s2.shape_library.data) < len(seq.shape_library.data) else 'shape_ids_fixed')
    gids = list(seq.grad_library.data.keys())
    if gids and gids != list(range(1, len(gids) + 1)) and len(s2.grad_library.data) == len(gids):
        ctx.count('store.grad-ids-gapped-and-no-gradient-merged')
    if any(k not in seq.rf_library.type for k in seq.rf_library.data) and \
            list(seq.shape_library.data.keys()) != list(s2.shape_library.data.keys()):
        ctx.count('store.rf-untyped-and-shape-ids-move')
    ok, r = guarded(ctx, 'C15/refs', case, 'reference scan of the result', lambda: refs_ok(s2))
    if ok and r:
        ctx.fail('C15/refs', case, {'what': r})
    ok, tg = guarded(ctx, 'C15/type-tag', case, 'type tag scan', lambda: tags_same(seq, s2))
    use_merged = False
    if ok and tg:
        if tg[0] == 'merge':
            use_merged = True
            ctx.count('kf.rf-use-merged.random')
            ctx.fail(KF_USE_SIG, case, {'what': tg[1]})
        else:
            ctx.fail('C15/type-tag', case, {'what': tg[1]})
    for i in seq.block_events:
        ok, b2 = guarded(ctx, 'C15/decode-raises', case, 'get_block(%d) after remove_duplicates()' % i, lambda: s2.get_block(i))
        if not ok:
            break
        d = block_close(blocks_before[i], b2, seq)
        if d:
            sig = 'C15/content'
            if d.startswith('rf.delay') and blocks_before[i].rf.delay >= 1.0:
                sig = KF5_SIG
            if d == 'rf.use' and use_merged:
                sig = KF_USE_SIG
            ctx.fail(sig, case, {'block': i, 'what': d})
            break
    ok, s3 = guarded(ctx, 'C15/raises', case, 'remove_duplicates() of the result', lambda: s2.remove_duplicates())
    if ok:
        d = H.cmp_state_plain(sm.state_dump(s2), sm.state_dump(s3))
        if d:
            ctx.fail('C15/not-idempotent', case, {'what': d})
    # (write() is not called here: the near-threshold timings of this generator are deliberately off the block raster,
    #  which write() refuses by an assertion; C01/C02 exercise write on raster-valid sequences)
    # model ops: copy, in place, copy again
    def model_ops():
        tw.dedup_copy()
        tw.dedup_in_place()
        tw.dedup_copy()
        return H.cmp_state_plain(sm.state_dump(tw.off), sm.state_dump(s2))
    ok, d = guarded(ctx, 'C15/decode-raises', case, 'copy / in place / copy on the twins', model_ops)
    if not ok:
        return None, case
    bad_twin = [r for r in tw.records[-3:] if r['outcome'][0] != 'ok']
    if bad_twin:
        ctx.fail('C15/raises', case, {'call': 'remove_duplicates on the twins', 'outcome': repr(bad_twin[0]['outcome'])[:200]})
        return None, case
    if d:
        ctx.fail('C15/in-place-differs-from-copy', case, {'what': d})
    if n % 60 == 0:
        ctx.sample({'case': {k: v for k, v in case.items() if k != 'history'}, 'merged_entries': merged,
                    'lib_sizes_before': [len(l['data']) for l in before['libs']],
                    'lib_sizes_after': [len(l['data']) for l in sm.state_dump(s2)['libs']]})
    return tw, case


# ---- stores that do not come from add_block alone ---------------------------------------------------------------
class FilePool(H.Pool):
    """raster-valid events (so that write() accepts them) with amplitudes around the 6-digit threshold and arbitrary
    gradients whose waveforms are equal up to floating-point noise (same shape twice in the file)"""

    def arb(self, ch=None, first=0.0, last=0.0, delay=0.0, n=None):
        import pypulseq as pp
        r = self.rng
        ch = ch or r.choice('xyz')
        n = n or r.choice([8, 12, 20, 40])
        w = 1e5 * np.sin(np.linspace(0, math.pi, n + 2)[1:-1]) ** r.choice([1, 2])
        if r.random() < 0.6:
            w = w.copy()
            w[r.randrange(n)] *= 1 + r.choice([4e-13, -3e-13, 2e-12])       # far below the 9 digits of shape samples
        return pp.make_arbitrary_grad(ch, np.asarray(w, dtype=float), first=0.0, last=0.0, delay=delay, system=self.lsys)

    def trap(self, ch=None, delay=None):
        import pypulseq as pp
        r = self.rng
        ch = ch or r.choice('xyz')
        amp = r.choice([1e5, -1e5, 123456.7891, 123456.4, 123457.2, 123456.7893, 5e4])
        return pp.make_trapezoid(ch, amplitude=amp, rise_time=r.choice([1e-4, 2e-4]), flat_time=r.choice([5e-4, 1e-3]),
                                 fall_time=r.choice([1e-4, 2e-4]), delay=r.choice([0, 1e-4]) if delay is None else delay,
                                 system=self.lsys)

    def adc(self):
        import pypulseq as pp
        r = self.rng
        return pp.make_adc(r.choice([16, 32]), dwell=r.choice([1e-5, 2e-5]), delay=r.choice([1e-4, 2e-5]),
                           freq_offset=r.choice([0, 50.0, 50.00004]), phase_offset=r.choice([0, 0.25]), system=self.sys)

    def rf(self):
        import pypulseq as pp
        r = self.rng
        flip = r.choice([math.pi / 2, 0.3, 0.3 * (1 + 1e-8)])
        kw = dict(delay=r.choice([1e-4, 2e-4]), freq_offset=r.choice([0, 123.4567, 123.45674]),
                  phase_offset=r.choice([0, 0.5]), system=self.sys)
        if self.use is not None:
            kw['use'] = self.use
        if r.random() < 0.7:
            return pp.make_block_pulse(flip, duration=r.choice([1e-3, 2e-3, 3e-3]), **kw)     # several time shapes
        return pp.make_sinc_pulse(flip, duration=r.choice([4e-5, 6e-5]), time_bw_product=r.choice([2, 4]), **kw)  # short: 40-60 samples


def gen_valid_history(rng, system, n_blocks):
    """raster-valid history: blocks appended, some overwritten (their library entries stay, unreferenced)"""
    pool = FilePool(rng, system)
    pool.use = rng.choice(USES)
    tw = H.Twin(system)
    order = rng.choice(['mixed', 'shapes-first'])
    for b in range(n_blocks):
        evs = []
        want_rf = rng.random() < (0.45 if order == 'mixed' else (0.0 if b < n_blocks // 2 else 0.8))
        for ch in 'xyz':
            if rng.random() < 0.45:
                evs.append(rng.choice([pool.trap, pool.arb, pool.arb, lambda c: pool.ext(c, 0.0, 0.0)])(ch))
        if want_rf:
            evs.append(pool.rf())
        if rng.random() < 0.4:
            evs.append(pool.adc())
        if rng.random() < 0.25:
            evs.append(pool.label())
        if not evs:
            evs.append(pool.delay())
        tw.add(evs)
    for _ in range(rng.choice([0, 0, 1, 2])):
        ok_blocks = list(tw.off.block_events.keys())
        if ok_blocks:
            tw.set(rng.choice(ok_blocks), [pool.trap(rng.choice('xyz')), pool.delay()])
    return tw


def renumbered(seq, rng_seed, renumber_blocks=True):
    """the same store with unique but gapped, non-ascending ids in the shape / gradient / RF / ADC libraries (entries
    inserted with explicit ids in a shuffled order, as EventLibrary.insert allows and as files from other tools look),
    references rewritten accordingly.  Deterministic in rng_seed so that both twins get the same store."""
    import random
    from collections import OrderedDict
    from pypulseq.event_lib import EventLibrary
    r = random.Random(rng_seed)
    new = copy.deepcopy(seq)
    new.block_cache = {}
    maps = {}
    for name in ('shape_library', 'grad_library', 'rf_library', 'adc_library'):
        old_ids = list(getattr(seq, name).data.keys())
        pool_ids = r.sample(range(1, 3 * len(old_ids) + 4), len(old_ids))
        if r.random() < 0.3:
            pool_ids = sorted(pool_ids)                      # gapped but ascending
        maps[name] = dict(zip(old_ids, pool_ids))
        maps[name][0] = 0
    sm_ = maps['shape_library']
    for name in ('shape_library', 'grad_library', 'rf_library', 'adc_library'):
        lib = getattr(seq, name)
        nl = EventLibrary(numpy_data=lib.numpy_data)
        order = list(lib.data.keys())
        r.shuffle(order)
        for k in order:
            d = lib.data[k]
            t = lib.type.get(k, str())
            if name == 'grad_library' and t == 'g':
                d = (d[0], sm_[d[1]], sm_[d[2]]) + tuple(d[3:])
            elif name == 'rf_library':
                d = (d[0], sm_[d[1]], sm_[d[2]], sm_[d[3]]) + tuple(d[4:])
            nl.insert(maps[name][k], d, t)
        setattr(new, name, nl)
    cols = ((1, 'rf_library'), (2, 'grad_library'), (3, 'grad_library'), (4, 'grad_library'), (5, 'adc_library'))
    bmap = {}
    ids = list(seq.block_events.keys())
    for j, b in enumerate(ids):
        bmap[b] = (3 * j + 2) if renumber_blocks else b
    be, bd = OrderedDict(), OrderedDict()
    for b in ids:
        ev = np.array(seq.block_events[b]).copy()
        for col, name in cols:
            ev[col] = maps[name][int(ev[col])]
        be[bmap[b]] = ev
        bd[bmap[b]] = seq.block_durations[b]
    new.block_events, new.block_durations = be, bd
    new.next_free_block_ID = max(be.keys()) + 1 if be else 1
    return new


def adopt(system, on_seq, off_seq, label):
    """a twin whose two objects are the given stores; the model gets the store as a Load operation"""
    tw = H.Twin(system)
    on_seq.use_block_cache, off_seq.use_block_cache = True, False
    on_seq.block_cache, off_seq.block_cache = {}, {}
    tw.on, tw.off = on_seq, off_seq
    tw._record('read', 'load ' + sm.core_tokens(tw.on), [('ok', None), ('ok', None)])
    return tw


def through_file(ctx, case, seqs, detect_rf_use):
    """write(remove_duplicates=False) + read(remove_duplicates=False) of each object; returns the loaded objects or None"""
    import os
    import tempfile
    import pypulseq as pp
    out = []
    with tempfile.TemporaryDirectory(prefix='pvc15') as dn:
        for j, s in enumerate(seqs):
            fn = os.path.join(dn, 's%d.seq' % j)
            ok, _ = guarded(ctx, 'C15/write-raises', case, 'write(remove_duplicates=False) of a raster-valid store',
                            lambda: s.write(fn, create_signature=False, remove_duplicates=False))
            if not ok:
                return None
            t = pp.Sequence(s.system, use_block_cache=s.use_block_cache)
            ok, _ = guarded(ctx, 'C15/read-raises', case, 'read(remove_duplicates=False) of the file just written',
                            lambda: t.read(fn, detect_rf_use=detect_rf_use, remove_duplicates=False))
            if not ok:
                return None
            out.append(t)
    return out


def run_built(ctx, rng, n, tag):
    """stores with gapped / non-ascending ids and stores that come from read()"""
    system = H.mk_system(rng, 0)
    tw0 = gen_valid_history(rng, system, rng.randint(3, 9))
    how = rng.choice(['gapped', 'gapped', 'file', 'file', 'gapped+file'])
    detect = rng.random() < 0.4
    extra = {'built': how, 'detect_rf_use': detect, 'base_history': list(tw0.ops)}
    case0 = dict(extra, rng_stream=tag, index=n, seed=ctx.seed, tier=ctx.tier)
    on, off = tw0.on, tw0.off
    if tw0.twin_diffs or not off.block_events:
        ctx.evaluated((tag, n, 'skipped'))
        return None, case0
    if 'gapped' in how:
        sd = rng.randrange(1 << 30)
        rb = rng.random() < 0.6
        ok, pair = guarded(ctx, 'C15/decode-raises', case0, 'explicit-id construction of the store',
                           lambda: (renumbered(on, sd, rb), renumbered(off, sd, rb)))
        if not ok:
            return None, case0
        on, off = pair
    if 'file' in how:
        pair = through_file(ctx, case0, (on, off), detect)
        if pair is None:
            ctx.evaluated((tag, n, 'file-failed'))
            return None, case0
        on, off = pair
    ctx.count('built.' + how)
    tw = adopt(system, on, off, how)
    return oracle_on_store(ctx, tw, n, tag, extra=extra)


HAND_FILE = """# Pulseq sequence file
# written by hand: ids with gaps and in non-ascending order in every section

[VERSION]
major 1
minor 4
revision 2

[DEFINITIONS]
AdcRasterTime 1e-07
BlockDurationRaster 1e-05
GradientRasterTime 1e-05
RadiofrequencyRasterTime 1e-06
TotalDuration 0.0076

[BLOCKS]
1 100   0   7   0   0  4  0
2 200   0   0   3  12  0  0
3 200   0   0   0  12  0  0
4 100   0   3   0   7  6  0
5 100   9   0   0   0  0  0
6  10   0  15   0   0  0  0
7 100   2   0  15   0  0  0
8  50   0   0   0  20  0  0

[RF]
9 250 11 4 0 100 0 0
2 250.0001 11 4 0 100 0 0

[GRADIENTS]
15 100000 8 0 0
20 100000 5 0 0

[TRAP]
12      -167598 210 1580 210   0
 7  1.31579e+06 240  520 240   0
 3       657895 240  520 240   0

[ADC]
6 64 10000 240 0 0
4 32 10000 240 0 0

[SHAPES]

shape_id 11
num_samples 2
1
1

shape_id 4
num_samples 2
0
0

shape_id 8
num_samples 4
0.25
0.5
1
0.5

shape_id 5
num_samples 4
0.25
0.5
1.0000000001
0.5

"""


def hand_file_stream(ctx):
    """a legitimate hand-written file whose ids are unique but neither contiguous nor ascending; nothing merges among
    the trapezoids, the two arbitrary gradients become equal once their (equal up to 1e-10) shapes are merged"""
    import os
    import tempfile
    import pypulseq as pp
    for detect in (False, True):
        case = {'reproducer': 'hand-file', 'detect_rf_use': detect}
        objs = []
        with tempfile.TemporaryDirectory(prefix='pvc15') as dn:
            fn = os.path.join(dn, 'hand.seq')
            open(fn, 'w').write(HAND_FILE)
            for cache in (True, False):
                t = pp.Sequence(pp.Opts(), use_block_cache=cache)
                ok, _ = guarded(ctx, 'C15/read-raises', case, 'read(remove_duplicates=False) of the hand-written file',
                                lambda: t.read(fn, detect_rf_use=detect, remove_duplicates=False))
                if not ok:
                    return []
                objs.append(t)
        tw = adopt(pp.Opts(), objs[0], objs[1], 'hand-file')
        tw2, c2 = oracle_on_store(ctx, tw, int(detect), 'hand-file', extra=case)
        if tw2 is not None:
            yield tw2, c2


def known_finding_stream(ctx):
    """KF: RF delays >= 1 s are rounded to 6 significant digits (not to 1 us) and merged"""
    import pypulseq as pp
    s = pp.Sequence()
    a = pp.make_block_pulse(math.pi / 2, duration=1e-3, delay=1.234567)
    b = pp.make_block_pulse(math.pi / 2, duration=1e-3, delay=1.234568)
    s.add_block(a)
    s.add_block(b)
    s2 = s.remove_duplicates()
    ctx.evaluated('kf-rf-delay')
    d1, d2 = s2.get_block(1).rf.delay, s2.get_block(2).rf.delay
    if abs(d1 - 1.234567) > 0.5e-6 + 1e-12 or abs(d2 - 1.234568) > 0.5e-6 + 1e-12:
        detail = {'delays_after': [d1, d2], 'rf_ids_after': [int(s2.block_events[1][1]), int(s2.block_events[2][1])]}
        ctx.count('kf5.rf-delay>=1s.reproduced')
        import common
        registered = any(k.get('property') == ID and k.get('status') == 'known' and k.get('signature') == KF5_SIG
                         for k in common.load_known())
        if registered:
            # reported as KNOWN-FINDING (exit 0) by check.py
            ctx.fail(KF5_SIG, {'reproducer': 'block pulses with delay 1.234567 s and 1.234568 s; remove_duplicates()'}, detail)
        else:
            # DESIGN.md section 8 #5 (KF-5, recorded under C01/C15; Coq witness C15_rf_delay_merge_refuted).  The entry of
            # known_findings.json is a shared file: until it is added the reproduction is recorded in the evidence only.
            # The random generator never produces RF delays >= 1 s, so no other signature can hide behind this one.
            ctx.notes.append('KF-5 reproduced (RF delays 1.234567 s / 1.234568 s merged, stored as %r): known finding, '
                             'known_findings.json entry %s pending' % (d1, KF5_SIG))
    else:
        ctx.count('kf5.rf-delay>=1s.not-reproduced')


KF_USE_SIG = 'C15/rf-use-merged'


def rf_use_stream(ctx):
    """events of different kind with numeric data equal within the rounding: two RF pulses that differ only in the 9th
    digit of the amplitude and in `use`.  remove_duplicates() merges them (EventLibrary looks entries up by data only)
    and block 2 decodes with the first pulse's use.  Coq witness: C15_rf_use_merge_refuted; same root cause as the
    recorded finding C06/rf-use-shared-entry."""
    import pypulseq as pp
    import common
    for flip_b, tag in ((math.pi / 2 * (1 + 1e-8), 'near'), (math.pi / 2 * (1 + 3e-5), 'far')):
        s = pp.Sequence()
        s.add_block(pp.make_block_pulse(math.pi / 2, duration=1e-3, use='excitation'))
        s.add_block(pp.make_block_pulse(flip_b, duration=1e-3, use='refocusing'))
        before = [s.get_block(i) for i in (1, 2)]
        s2 = s.remove_duplicates()
        ctx.evaluated('rf-use-' + tag, nontrivial=len(s2.rf_library.data) < 2)
        r = refs_ok(s2)
        if r:
            ctx.fail('C15/refs', {'stream': 'rf-use', 'variant': tag}, {'what': r})
        for i in (1, 2):
            d = block_close(before[i - 1], s2.get_block(i), s)
            if not d:
                continue
            case = {'reproducer': 'rf-use', 'variant': tag}
            detail = {'block': i, 'what': d, 'use_before': before[i - 1].rf.use, 'use_after': s2.get_block(i).rf.use}
            if d == 'rf.use' and tag == 'near':
                ctx.count('kf.rf-use-merged.reproduced')
                registered = any(k.get('property') == ID and k.get('status') == 'known' and k.get('signature') == KF_USE_SIG
                                 for k in common.load_known())
                if registered:
                    ctx.fail(KF_USE_SIG, case, detail)
                else:
                    ctx.notes.append('finding %s reproduced (RF pulses equal within the rounding but with different use are '
                                     'merged: block 2 decodes with use %r instead of %r); known_findings.json entry pending'
                                     % (KF_USE_SIG, detail['use_after'], detail['use_before']))
            else:
                # pulses further apart than the rounding must never be merged, whatever their use
                ctx.fail('C15/content', case, detail)


def run(ctx):
    n_cases = {'quick': 100, 'thorough': 3000}[ctx.tier]
    n_built = {'quick': 48, 'thorough': 1500}[ctx.tier]
    batch = []

    def push(tw, case):
        if ctx.model_available and tw is not None:
            batch.append((tw, case))
        if len(batch) >= 40:
            flush(ctx, batch)
            del batch[:]

    for tw, case in hand_file_stream(ctx):
        push(tw, case)
    rng = ctx.rng('near')
    rng_b = ctx.rng('built')
    # the two random streams are interleaved so that a time budget cuts both
    nb = 0
    for n in range(n_cases):
        if ctx.out_of_time():
            ctx.notes.append('time budget reached after %d cases' % n)
            break
        push(*run_one(ctx, rng, n, 'near'))
        while nb < n_built and nb * n_cases <= n * n_built:
            push(*run_built(ctx, rng_b, nb, 'built'))
            nb += 1
    if batch:
        flush(ctx, batch)
    known_finding_stream(ctx)
    rf_use_stream(ctx)


def flush(ctx, batch):
    outs = ctx.model([tw.model_line() for tw, _ in batch])
    for (tw, case), o in zip(batch, outs):
        for d in H.compare_with_model(tw, o):
            ctx.mismatch('dedup', case, d)


def replay(ctx, case):
    if case.get('reproducer') == 'rf-use':
        rf_use_stream(ctx)
        return {'reproducer': case['reproducer']}
    if 'reproducer' in case:
        known_finding_stream(ctx)
        return {'reproducer': case['reproducer']}
    if case.get('reproducer') == 'hand-file':
        list(hand_file_stream(ctx))
        return {'reproducer': 'hand-file'}
    stream = case.get('rng_stream', 'near')
    rng = ctx.rng(stream)
    sub = type(ctx)(ctx.id, case.get('tier', 'quick'), ctx.seed)
    for n in range(case['index'] + 1):
        sub.failures = []
        (run_built if stream == 'built' else run_one)(sub, rng, n, stream)
    ctx.failures += sub.failures
    return {'case': case}
