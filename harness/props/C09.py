"""C09 — the k-space trajectory is the running integral of the gradients."""
import bisect
from fractions import Fraction

import numpy as np

import exportgen as eg
from common import F, qtok, qlist, Toks

ID = 'C09'
GEN_SECTIONS = ['GenExport']
COQ_TARGETS = ['Props/C09.vo']
EXTRACT_TARGETS = ['Extract/Ex_export.vo']
RUNNER = 'export'
LEVEL = 'proof'
MANIFEST = {
    'text': "Theorems (Coq): for ANY moment function M and ANY list of excitation / refocusing / other RF events the "
            "dk-recurrence of calculate_kspace (dk := -M(t_exc); dk := -2 M(t_ref) - dk) equals the specification "
            "fold 'integral since the last excitation, negated at each refocusing' (induction over the event list); "
            "pulses of any other use do not change k; the antiderivative of a corner list is its exact integral "
            "(prim p c = area of p cut at c, trapezoid rule on every stretch without corner); ADC sample times are "
            "start + delay + (i + 1/2) dwell; without RF the final k is the sum of the areas of all pieces; the "
            "two-list / two-pointer period loop of the code equals the fold for every time-sorted pulse list. "
            "Constants and the reset/negation statements are re-read from the source on every run; the extracted "
            "model is run against calculate_kspace on random sequences with excitation/refocusing/other pulses "
            "(block and sinc), all gradient kinds and ADCs, and k at every ADC sample, t_adc, t_excitation, "
            "t_refocusing are compared with an independent exact-Fraction integrator of the event rendering.",
    'note': 'Trusted: Coq kernel; translator patterns; extraction + driver; binary64/NumPy/scipy PPoly arithmetic is '
            'outside the model (sampled); the 1e-10 time-grid rounding and np.unique/searchsorted lookup are modelled '
            'on exact times (all generated times are multiples of 50 ns, where the rounding is the identity); the '
            'time axis of the full k_traj array (not returned by calculate_kspace) is rebuilt in the harness the way '
            'the code builds it; every finite column is checked by the oracle, a sample of 12 columns by the model.',
    'technique': 'Rocq/Coq proof over a Gallina model (induction over the RF event list / corner list) + '
                 'extraction-based correspondence + exact-rational oracle',
}
BUDGET = {'quick': 80, 'thorough': 1500}
MISMATCH_BUDGET = 0.0
RULE = ('random edge-consistent sequences of 1-8 (quick) / 1-30 (thorough) blocks with block/sinc/composite (2-3 '
        'equal-amplitude lobes of different length: peak reached on an unevenly distributed sample set) RF pulses of use '
        'none/excitation/refocusing/inversion/saturation/preparation (random delay, duration, centre position), '
        'streams: plain; reread (written and read into a Sequence() whose system has another gradient raster); history '
        '(after calculate_kspace decoded the blocks: flip_grad_axis / mod_grad_axis / set_block / add_block / '
        'remove_duplicates on the same object, both cache settings, whole oracle again); gapped (set_block with '
        'gapped, non-ascending block numbers); adc_on_rf (ADC under an RF pulse with a sample exactly on its centre) '
        '(k-space of the re-read object vs the integrator of its own events), '
        'gradients of all kinds on 3 channels (also during RF), ADC events with random dwell/delay/num_samples; per '
        'sequence calculate_kspace(): t_adc, t_excitation, t_refocusing and k_traj_adc on every channel vs exact '
        'integrator and vs the extracted model; every finite point of the full k_traj on the rebuilt time axis vs '
        'the integrator (and a sample vs the model); the model recurrence is also compared with the oracle at RF centres '
        'and random times. distinct = distinct sequences; non-trivial = has an ADC sample after an excitation or '
        'refocusing pulse')
TRUSTED = ['binary64 arithmetic of NumPy and scipy.interpolate.PPoly (antiderivative) are outside the model: sampled',
           'get_block is taken as the definition of the events held by the sequence (C06 checks it)']
ASSUMPTIONS = ['OnGrid: all event times are multiples of 50 ns (the 1e-10 rounding of calculate_kspace is the '
               'identity); no ADC sample strictly inside the RF raster before an excitation centre (that grid point '
               'is overwritten with NaN by the code as a plot marker) - samples exactly ON an excitation / refocusing '
               'centre are generated and must be finite; RF centres later than 2 RF rasters',
               'the events every output is compared with are those of a cache-free deep copy of the live object '
               '(use_block_cache=False), so a stale decoded-block cache shows as an oracle failure']

EXC_USES = (None, 'excitation', 'undefined')      # the property: "use excitation or no use"


def rf_centre(rf):
    """centre of the RF peak: middle of the plateau of samples within 1e-5 of the maximum magnitude"""
    m = max(rf['mag'])
    idx = [i for i, v in enumerate(rf['mag']) if v >= m * Fraction(99999, 100000)]
    return (rf['t'][idx[0]] + rf['t'][idx[-1]]) / 2


def rf_events(held):
    out = []
    for e in held.blocks:
        if e['rf'] is not None:
            rf = e['rf']
            kind = 'exc' if rf['use'] in EXC_USES else 'ref' if rf['use'] == 'refocusing' else 'other'
            out.append((e['start'] + rf['delay'] + rf_centre(rf), kind, rf['use']))
    return out


def adc_times(held):
    out = []
    for e in held.blocks:
        if e['adc'] is not None:
            a = e['adc']
            out += [e['start'] + a['delay'] + (i + Fraction(1, 2)) * a['dwell'] for i in range(a['n'])]
    return out


def k_oracle_simple(rend, evs, t):
    """integral of the rendering since the most recent excitation at or before t (sequence start when there is
    none), where the part accumulated before each refocusing pulse changes sign at that pulse"""
    te = Fraction(0)
    for (tv, kind, _) in evs:
        if kind == 'exc' and tv <= t:
            te = max(te, tv)
    refs = sorted(tv for (tv, kind, _) in evs if kind == 'ref' and te <= tv <= t and tv > 0)
    cuts = [te] + refs + [t]
    n = len(refs)
    k = Fraction(0)
    for j, (a, b) in enumerate(zip(cuts[:-1], cuts[1:])):
        sign = -1 if (n - j) % 2 else 1          # segment j is followed by n - j refocusing pulses
        k += sign * (rend.integral_to(b) - rend.integral_to(a))
    return k


def junction_k_slack(rend, raster):
    """how much the k of the export may differ from the k of the rendering because touching events disagree by the
    shape quantisation: |mismatch| * (length of the stretch next to the junction) / 2, summed"""
    tot = Fraction(0)
    for (s0, e0, g0), (s1, e1, g1) in zip(rend.items[:-1], rend.items[1:]):
        ts0, vs0 = eg.event_corners(g0, raster)
        ts1, vs1 = eg.event_corners(g1, raster)
        if s0 + ts0[-1] == s1 + ts1[0] and len(ts1) > 1:
            tot += abs(vs0[-1] - vs1[0]) * (ts1[1] - ts1[0])
        elif s0 + ts0[-1] < s1 + ts1[0]:
            # events that do not meet but are not exactly zero at the facing ends (re-read shapes: `last` restored
            # by extrapolation of rounded samples): the export ramps through the gap
            tot += (abs(vs0[-1]) + abs(vs1[0])) * (s1 + ts1[0] - s0 - ts0[-1])
    return tot


def ktraj_axis(seq):
    """the time axis of calculate_kspace's full k_traj array, which the function does not return: rebuilt the way the
    code builds it (sequence.py 321-374: corner times of the padded waveforms, raster points on ramps, 0, excitation /
    refocusing times and the marker points one / two RF rasters before, ADC sample times, total duration; all
    rounded to the 1e-10 grid and made unique)"""
    from pypulseq import eps
    total = sum(seq.block_durations.values())
    t_exc, _, t_ref, _ = seq.rf_times()
    t_adc, _ = seq.adc_times()
    gw_pp = seq.get_gradients()
    tc = []
    for pp_ in gw_pp:
        if pp_ is None:
            continue
        gm = pp_.antiderivative()
        tc.append(gm.x)
        ii = np.flatnonzero(np.abs(gm.c[0, :]) > 1e-7 * seq.system.max_slew)
        if ii.shape[0] == 0:
            continue
        starts = np.int64(np.floor((gm.x[ii] + eps) / seq.grad_raster_time))
        ends = np.int64(np.ceil((gm.x[ii + 1] - eps) / seq.grad_raster_time))
        for s0, e0 in zip(starts, ends):
            tc.append(np.arange(s0, e0 + 1) * seq.grad_raster_time)
    tc = np.concatenate(tc) if tc else np.zeros(0)
    t_acc = 1e-10
    t_acc_inv = 1 / t_acc
    rr = seq.rf_raster_time
    allt = np.array([*tc, 0, *(np.asarray(t_exc) - 2 * rr), *(np.asarray(t_exc) - rr), *t_exc,
                     *(np.asarray(t_ref) - rr), *t_ref, *t_adc, total])
    return t_acc * np.unique(np.round(t_acc_inv * allt))


def snap10(x):
    return Fraction(int(round(float(x) * 10 ** 10)), 10 ** 10)


def close_t(a, b):
    return abs(a - b) <= Fraction(1, 10 ** 12) + abs(b) / 10 ** 9


def run_case(ctx, case, rng):
    """phase 0: the sequence as built; then, per history operation through the public API (flip_grad_axis,
    mod_grad_axis, set_block, add_block, remove_duplicates) applied AFTER calculate_kspace decoded the blocks, the
    whole oracle again on the SAME object; then (reread cases) the same sequence written and read into a Sequence()
    whose system has ANOTHER gradient raster"""
    try:
        seq = eg.build_sequence(case)
    except Exception as e:
        ctx.count('gen.refused')
        return None
    blocks = list(case['blocks'])
    ok = check_seq(ctx, dict(case, phase=0), seq, blocks, rng)
    for k, op in enumerate(case.get('history', [])):
        if not ok:
            return ok
        try:
            blocks = eg.apply_op(seq, blocks, op, case)
        except Exception as e:
            ctx.count('gen.history_op_refused')
            return ok
        ctx.count('history.%s' % op['op'])
        ok = check_seq(ctx, dict(case, phase=k + 1), seq, blocks, rng)
    if ok and 'reread_raster_us' in case:
        try:
            s2 = eg.reread_sequence(seq, case)
        except Exception as e:
            ctx.count('gen.reread_refused')
            return ok
        ctx.count('reread')
        ok = check_seq(ctx, dict(case, phase='reread'), s2, None, rng)
    return ok


def check_seq(ctx, case, seq, blocks_desc, rng):
    # the events of the sequence AS IT IS NOW, decoded without any cache
    held = eg.Held(eg.fresh_view(seq))
    if not held.ok:
        ctx.count('gen.off_grid')
        return None
    for blk, ent in zip(blocks_desc or [], held.blocks):
        for j, chn in enumerate('xyz'):
            why = eg.stored_differs(blk['g'][chn], ent['g'][j], held.raster) \
                if chn in blk['g'] and ent['g'][j] is not None else None
            if why:
                # the trajectory is the integral of the gradients that were ADDED: an event changed by storage
                # (kind, timing, sign) integrates to something else
                ctx.fail('C09/event-changed-by-storage', case, {'channel': chn, 'what': why, 'given': blk['g'][chn]})
                ctx.evaluated(('seq', str(case)))
                return False
    evs = rf_events(held)
    tadc = adc_times(held)
    key = ('seq', str(case))
    try:
        k_adc, k_traj, t_exc, t_ref, t_adc = seq.calculate_kspace()
    except BaseException as e:
        ctx.fail('C09/calculate_kspace-raises', case, {'exception': repr(e)})
        ctx.evaluated(key)
        return False
    ok = True
    # times
    want_exc = [tv for (tv, kind, _) in evs if kind == 'exc']
    want_ref = [tv for (tv, kind, _) in evs if kind == 'ref']
    for nm, got, want in (('t_excitation', list(t_exc), want_exc), ('t_refocusing', list(t_ref), want_ref),
                          ('t_adc', list(t_adc), tadc)):
        if len(got) != len(want):
            ctx.fail('C09/%s-count' % nm, case, {'got': len(got), 'want': len(want),
                                                 'uses': [u for (_, _, u) in evs]})
            ok = False
            break
        for i, (g, w) in enumerate(zip(got, want)):
            if not close_t(F(float(g)), w):
                ctx.fail('C09/%s-value' % nm, case, {'index': i, 'got': float(g), 'want': float(w)})
                ok = False
                break
        if not ok:
            break
    # k at the ADC samples
    rends = [eg.Rendering(held, ch) for ch in range(3)]
    jslack = [junction_k_slack(rends[ch], held.raster) for ch in range(3)]
    kor = [[k_oracle_simple(rends[ch], evs, t) for t in tadc] for ch in range(3)]
    if ok and tadc:
        k_adc = np.asarray(k_adc)
        if k_adc.shape != (3, len(tadc)):
            ctx.fail('C09/k_traj_adc-shape', case, {'shape': list(k_adc.shape), 'n_adc': len(tadc)})
            ok = False
        for ch in range(3):
            if not ok:
                break
            scale = max([Fraction(0)] + [abs(v) for v in kor[ch]])
            tol = scale / 10 ** 9 + Fraction(1, 10 ** 9) + jslack[ch]
            for i, t in enumerate(tadc):
                g = float(k_adc[ch, i])
                if not (g == g) or abs(F(g) - kor[ch][i]) > tol:
                    ctx.fail('C09/k_traj_adc-value', case, {'channel': ch, 'sample': i, 't': float(t), 'got': g,
                                                            'want': float(kor[ch][i]), 'tol': float(tol)})
                    ok = False
                    break
    # the FULL trajectory: every finite point of k_traj (NaN entries mark excitations) on the rebuilt time axis
    grid = None
    if ok:
        k_full = np.asarray(k_traj, dtype=float)
        try:
            axis = ktraj_axis(seq)
        except BaseException:
            axis = None
        if axis is None or k_full.ndim != 2 or k_full.shape[1] != len(axis):
            ctx.count('k_traj.axis_not_rebuilt')
        else:
            grid = [snap10(t) for t in axis]
            ctx.count('k_traj.points', len(grid))
            for ch in range(3):
                if not ok:
                    break
                want = [k_oracle_simple(rends[ch], evs, t) for t in grid]
                scale = max([Fraction(0)] + [abs(v) for v in want])
                tol = scale / 10 ** 9 + Fraction(1, 10 ** 9) + jslack[ch]
                for j, t in enumerate(grid):
                    g = float(k_full[ch, j])
                    if g != g:
                        ctx.count('k_traj.nan_marker')
                        continue
                    if abs(F(g) - want[j]) > tol:
                        ctx.fail('C09/k_traj-value', case, {'channel': ch, 'column': j, 't': float(t), 'got': g,
                                                            'want': float(want[j]), 'tol': float(tol)})
                        ok = False
                        break
    # without RF the final k is the sum of the gradient areas: last column of k_traj
    if ok and not evs:
        k_traj = np.asarray(k_traj)
        for ch in range(3):
            area = Fraction(0)
            for st, en, g in rends[ch].items:
                ts, vs = eg.event_corners(g, held.raster)
                area += sum((vs[i] + vs[i + 1]) * (ts[i + 1] - ts[i]) / 2 for i in range(len(ts) - 1))
            g = float(k_traj[ch, -1]) if k_traj.shape[1] else 0.0
            tol = abs(area) / 10 ** 9 + Fraction(1, 10 ** 9) + jslack[ch]
            if not (g == g) or abs(F(g) - area) > tol:
                ctx.fail('C09/final-k-no-rf', case, {'channel': ch, 'got': g, 'sum_of_areas': float(area)})
                ok = False
                break
        ctx.count('final_k_no_rf_checked')
    after = any(any(tv <= t for (tv, kind, _) in evs if kind != 'other') for t in tadc)
    ctx.evaluated(key, nontrivial=after)
    ctx.count('blocks', len(held.blocks))
    ctx.count('adc_samples', len(tadc))
    for (_, kind, u) in evs:
        ctx.count('rf.use.%s' % u)
        ctx.count('rf.kind.%s' % kind)
    for e in held.blocks:
        if e['rf'] is not None:
            mg = e['rf']['mag']
            peak = [i for i, v in enumerate(mg) if v >= max(mg) * Fraction(99999, 100000)]
            uneven = len(peak) > 1 and peak[-1] - peak[0] + 1 != len(peak)
            ctx.count('rf.shape.%s' % ('block' if len(mg) == 2 else 'peak-set-with-holes' if uneven else 'single-peak-or-plateau'))
    ctx.count('seq.%s' % ('adc_after_rf' if after else 'no_adc_after_rf'))
    # model correspondence
    if ok and ctx.model_available:
        gsample = []
        if grid:
            idx = sorted(rng.sample(range(len(grid)), min(len(grid), 12)))
            gsample = [(grid[j], j) for j in idx if grid[j] >= 0]
        extra = sorted(set([tv for (tv, _, _) in evs] + [eg.snap(rng.uniform(0, float(held.total))) for _ in range(4)]
                           + [held.total] + [t for t, _ in gsample]))
        lines = ['kspace.full %s %s %s' % (qtok(held.raster), held.kblocks_tok(), qlist(extra))]
        outs = ctx.model(lines)
        parts = outs[0].split(' | ')
        if len(parts) != 9:
            ctx.mismatch('kspace', case, {'model': outs[0][:300]})
            return ok
        lists = []
        for p in parts:
            t = Toks(p)
            lists.append(t.list(t.q))
        mte, mtr, mta, mk = lists[0], lists[1], lists[2], lists[3:6]
        for nm, m, g in (('t_excitation', mte, list(t_exc)), ('t_refocusing', mtr, list(t_ref)), ('t_adc', mta, list(t_adc))):
            if len(m) != len(g) or any(not close_t(F(float(b)), a) for a, b in zip(m, g)):
                ctx.mismatch('kspace.' + nm, case, {'model': [float(x) for x in m[:6]], 'impl': [float(x) for x in g[:6]]})
                return ok
        if tadc:
            for ch in range(3):
                scale = max([Fraction(0)] + [abs(v) for v in mk[ch]])
                tol = scale / 10 ** 9 + Fraction(1, 10 ** 9)
                for i in range(len(tadc)):
                    if abs(mk[ch][i] - F(float(k_adc[ch, i]))) > tol:
                        ctx.mismatch('kspace.k_adc', case, {'channel': ch, 'sample': i, 'model': float(mk[ch][i]),
                                                            'impl': float(k_adc[ch, i])})
                        return ok
        # model vs implementation on a sample of the full trajectory
        if gsample:
            k_full = np.asarray(k_traj, dtype=float)
            pos = {t: i for i, t in enumerate(extra)}
            for ch in range(3):
                mv = lists[6 + ch]
                scale = max([Fraction(0)] + [abs(v) for v in mv])
                tol = scale / 10 ** 9 + Fraction(1, 10 ** 9)
                for t, j in gsample:
                    g = float(k_full[ch, j])
                    if g == g and abs(mv[pos[t]] - F(g)) > tol:
                        ctx.mismatch('kspace.k_traj', case, {'channel': ch, 'column': j, 't': float(t),
                                                             'model': float(mv[pos[t]]), 'impl': g})
                        return ok
        # model recurrence vs oracle at RF centres / random times / the end
        for ch in range(3):
            mv = lists[6 + ch]
            for tt, v in zip(extra, mv):
                w = k_oracle_simple(rends[ch], evs, tt)
                tol = abs(w) / 10 ** 9 + Fraction(1, 10 ** 9) + jslack[ch]
                if abs(v - w) > tol:
                    ctx.mismatch('kspace.model_vs_oracle', case, {'channel': ch, 't': float(tt), 'model': float(v),
                                                                  'oracle': float(w)})
                    return ok
    return ok


def corpus():
    def blk(g=None, delay=None, rf=None, adc=None):
        return {'g': g or {}, 'rf': rf, 'adc': adc, 'delay': delay}

    def rf(use, shape='block', dur=100, delay=0, cp=0.5):
        return {'shape': shape, 'use': use, 'dur': dur, 'delay': delay, 'tbw': 4, 'center_pos': cp, 'flip': 1.0}
    tr = {'k': 'trap', 'amp': 64, 'rise': 3, 'flat': 10, 'fall': 3, 'delay': 0}
    tr2 = {'k': 'trap', 'amp': -32, 'rise': 2, 'flat': 5, 'fall': 4, 'delay': 2}
    adc = {'n': 8, 'dwell': 100, 'delay': 30}
    base = {'raster_us': 10, 'max_grad': 1703040.0, 'max_slew': 7237920000.0}
    cs = []
    # spin echo: excitation, gradient, refocusing, gradient + adc
    cs.append(dict(base, blocks=[blk({'x': tr}), blk(rf=rf('excitation', 'sinc', 200, 10)), blk({'x': tr, 'y': tr2}),
                                 blk(rf=rf('refocusing', 'block', 100, 20)), blk({'x': dict(tr), 'z': tr2}, adc=adc)]))
    # other uses are ignored; a pulse without use is an excitation
    cs.append(dict(base, blocks=[blk(rf=rf(None)), blk({'x': tr}), blk(rf=rf('inversion')), blk({'x': tr2}, adc=adc),
                                 blk(rf=rf('refocusing', 'sinc', 300, 0, 0.25)), blk(rf=rf('saturation')),
                                 blk({'x': tr}, adc=adc), blk(rf=rf('refocusing')), blk({'y': tr}, adc=adc)]))
    # no RF at all
    cs.append(dict(base, blocks=[blk({'x': tr, 'y': tr2}, adc=adc), blk(delay=5), blk({'x': tr2}, adc=adc)]))
    # an extended trapezoid with corners on consecutive raster edges (times = arange(n) * raster) under an ADC
    cs.append(dict(base, blocks=[blk(rf=rf('excitation')),
                                 blk({'x': {'k': 'ext', 'delay': 0, 'tt': [0, 1, 2, 3, 4], 'vals': [0, 20, 40, 20, 0]},
                                      'y': {'k': 'ext', 'delay': 2, 'tt': [0, 1, 2], 'vals': [0, -30, 0]}},
                                     adc={'n': 8, 'dwell': 50, 'delay': 2}),
                                 blk({'x': tr2}, adc=adc)]))
    return cs


def run(ctx):
    rng = ctx.rng('sequences')
    trng = ctx.rng('times')
    big = ctx.tier == 'thorough' or ctx.escalated
    n_cases = 3000 if big else 100
    cases = corpus()
    for i in range(n_cases):
        k = rng.random()
        stream = rng.choice(['plain', 'plain', 'reread', 'history', 'history', 'gapped', 'gapped', 'adc_on_rf', 'adc_on_rf'])
        b = eg.Builder(rng, with_rf=(k < 0.85 or stream == 'adc_on_rf'), with_adc=True,
                       max_blocks=30 if big and i % 4 == 0 else 9, reread=(stream == 'reread'),
                       gapped=(stream == 'gapped'), adc_on_rf=(stream == 'adc_on_rf'))
        c = b.generate()
        c['stream'] = stream
        c['cache'] = rng.random() < 0.8
        if stream == 'history':
            c['history'] = b.gen_history()
        cases.append(c)
    for i, c in enumerate(cases):
        if ctx.out_of_time():
            ctx.notes.append('time budget reached after %d sequences' % i)
            break
        run_case(ctx, c, trng)
        ctx.count('stream.%s' % c.get('stream', 'corpus'))
        if i % 50 == 1:
            ctx.sample({'raster_us': c['raster_us'], 'n_blocks': len(c['blocks']),
                        'rf': [b['rf'] for b in c['blocks'] if b['rf']][:3], 'adc': [b['adc'] for b in c['blocks'] if b['adc']][:2]})


def replay(ctx, case):
    case = {k: v for k, v in case.items() if k != 'phase'}
    ok = run_case(ctx, case, ctx.rng('times'))
    seq = eg.build_sequence(case)
    k_adc, k_traj, t_exc, t_ref, t_adc = seq.calculate_kspace()
    return {'oracle_ok': bool(ok), 'failures': len(ctx.failures), 'mismatches': len(ctx.mismatches),
            't_excitation': [float(x) for x in t_exc], 't_refocusing': [float(x) for x in t_ref],
            't_adc_head': [float(x) for x in t_adc[:8]], 'k_adc_head': [[float(x) for x in r[:8]] for r in np.asarray(k_adc)]}
