"""C18 — scale, split and align change only what they promise."""
import copy
from fractions import Fraction
from types import SimpleNamespace

import numpy as np

from common import F, qtok, ztok, zlist, Toks
import seqmodel as sm
import gradops_lib as gl

ID = 'C18'
GEN_SECTIONS = ['GenGradOps', 'FP_gradops18', 'FP_event_lib', 'FP_get_block']
COQ_TARGETS = ['Props/C18.vo']
EXTRACT_TARGETS = ['Extract/Ex_gradops.vo']
RUNNER = 'gradops'
LEVEL = 'proof'
MANIFEST = {
    'text': "Theorems (Coq, all inputs): scale_grad multiplies the rendered waveform, amplitude/area/flat_area/first/last "
            "by the factor and leaves every other field alone; the three parts of split_gradient and the two parts of "
            "split_gradient_at sum pointwise to the input (junction times stated separately), split_gradient_at cuts "
            "exactly at the requested raster time for any delay, also inside the delay; align sets the delays to "
            "0 / D-len / (D-len)/2 with D the longest delay+length and changes nothing else, a right-aligned delay is "
            "never negative on success. Constants and patterns (raster rounding, t_eps, digits, spec order) are re-read "
            "from the source on every run; the extracted model is run against the implementation on all gradient kinds x "
            "delays x every raster cut time x factors x mixed-event alignments. mod_grad_axis/flip_grad_axis are modelled "
            "on the sequence store (Model/ModAxis.v): every block decodes to the input's decode with the gradient on that "
            "channel rescaled and nothing else changed, shared ids are refused without change, key collisions created by "
            "the rescaling are invisible to decode; the model is run on the real store of generated sequences (library, "
            "key map, cache) and the implementation is decoded before/after (cold and warm cache). For off-raster "
            "trapezoids split_gradient's parts add up to the rounded trapezoid iff the rounding keeps the total duration; "
            "the discrepancy (ramp-down displaced by total - rounded total) is proved and checked. Arguments are "
            "snapshotted; functions with an optional system are also called through the library default "
            "(Opts.set_as_default).",
    'note': 'Trusted: Coq kernel; translator patterns; extraction + driver; binary64 arithmetic is outside the model '
            '(tolerance 1e-9 relative); the non-modification of arguments is checked by the harness only (aliasing is '
            'not expressible in the model). KF-9 (arbitrary gradients in '
            'split_gradient_at) and split_gradient on a triangle are recorded findings.',
    'technique': 'Rocq/Coq proof over a Gallina model (piecewise-linear algebra, induction over corner lists / event '
                 'lists) + extraction-based correspondence + exact-Fraction rendering oracle',
}
BUDGET = {'quick': 80, 'thorough': 1500}
MISMATCH_BUDGET = 0.0
ESCALATE_BUDGET = 200
SEARCH_BUDGET = 150
RULE = ('streams: scale (all kinds x 12 factors), split3 (trapezoids on/off raster), splitat (trap/triangle/extended '
        'trapezoid x zero/non-zero delay x every raster cut time from before 0 to after the end, with jitter), align '
        '(rf with ring-down, adc, trap, ext, arbitrary, delay, trigger, output; specs in any keyword order; negative '
        'delays; invalid spec; inputs with library ids), modaxis (sequences with gradients on several axes, cold/warm '
        'cache, ids shared between axes in the same block / only in different blocks / not at all), registered (events '
        'registered with a Sequence carry library ids: outputs of scale_grad/align must not carry them and, stored with '
        'add_block and decoded with get_block, must show the scaled / re-timed events; split parts must not carry them). '
        'Oracle = exact-Fraction rendering at corner times, +-raster/8, midpoints; field-by-field equality of everything '
        'else; deepcopy snapshots of the arguments. non-trivial = the call returned parts / events (not an error)')
TRUSTED = ['binary64 arithmetic of NumPy is outside the model: sampled by correspondence (tolerance 1e-9*scale+1e-12)',
           '"inputs are not modified": checked on the implementation only',
           'mod_grad_axis model: library rows travel as shortest-decimal rationals; products are compared to 1e-12',
           'np.interp is modelled as linear interpolation with end-value extension']
ASSUMPTIONS = ['cut times exactly at the start of the gradient (t = delay) or at t <= 0 are boundary inputs: either an '
               'error or a correct split is accepted',
               'split_gradient_at on extended trapezoids assumes the C05 rule (non-zero first value => zero delay)',
               'off-raster trapezoids: the parts are compared with the raster-rounded trapezoid plus the proved '
               'displacement of the ramp-down (C18_split_discrepancy)']

MAXG = 2e6
MAXS = 2e10
FACTORS = [-1.0, 0.0, 0.5, -0.37, 2.0, 1.0 / 3.0, 1e-3, -1e3, 1.0, 0.1, -2.5, 7.0]


# ------------------------------------------------------------------------------------------------
# generators
def gen_sys(rng):
    return {'raster': rng.choice([1e-5, 1e-5, 2e-5, 4e-6]), 'max_grad': MAXG, 'max_slew': MAXS,
            'ringdown': rng.choice([0.0, 2e-5, 3e-5]), 'rf_dead': rng.choice([0.0, 1e-4]),
            'adc_dead': rng.choice([0.0, 1e-5])}


def rnd_amp(rng):
    k = rng.random()
    if k < 0.3:
        return float(rng.choice([-1, 1]) * rng.randint(1, 1000) * 1000)
    if k < 0.4:
        return float(rng.choice([1e5, -1e5, 250000.0, 1e6]))
    return rng.uniform(-1e6, 1e6)


def min_ramp(amp, raster):
    import math
    return max(1, int(math.ceil(abs(amp) / (0.8 * MAXS) / raster)))


def gen_trap(rng, sysd, triangle=None, delay=None):
    r = sysd['raster']
    amp = rnd_amp(rng)
    kr = min_ramp(amp, r) + rng.randint(0, 3)
    kf = min_ramp(amp, r) + rng.randint(0, 3)
    if triangle is None:
        triangle = rng.random() < 0.3
    kfl = 0 if triangle else rng.randint(1, 12)
    kd = rng.choice([0, 0, 1, 2, 5, rng.randint(1, 12)]) if delay is None else delay
    return {'kind': 'trap', 'ch': rng.choice(gl.CHN), 'amp': amp, 'rise': kr * r, 'flat': kfl * r, 'fall': kf * r,
            'delay': kd * r, 'k': [kd, kr, kfl, kf]}


def gen_ext(rng, sysd, zero_ends=False, delay=None):
    r = sysd['raster']
    n = rng.randint(2, 6)
    ks = [0]
    for _ in range(n - 1):
        ks.append(ks[-1] + rng.randint(1, 6))
    step = 0.8 * MAXS * r
    first_zero = zero_ends or rng.random() < 0.6
    amps = [0.0 if first_zero else rng.uniform(-5e5, 5e5)]
    for j in range(1, n):
        lim = step * (ks[j] - ks[j - 1])
        a = amps[-1] + rng.uniform(-1, 1) * min(lim, 4e5)
        a = max(-1.5e6, min(1.5e6, a))
        if rng.random() < 0.2:
            a = amps[-1]
        amps.append(a)
    if zero_ends or rng.random() < 0.5:
        # come back to zero within the slew limit
        need = max(1, int(abs(amps[-1]) / step) + 1)
        ks.append(ks[-1] + need + rng.randint(0, 2))
        amps.append(0.0)
    if all(a == 0 for a in amps):
        amps[1] = 1000.0
    if delay is None:
        kd = 0 if amps[0] != 0 else rng.choice([0, 0, 1, 3, rng.randint(1, 10)])
    else:
        kd = delay
    d = {'kind': 'ext', 'ch': rng.choice(gl.CHN), 'times': [k * r for k in ks], 'amps': amps, 'delay': kd * r,
         'k': [kd] + ks}
    if rng.random() < 0.25:
        # samples given as whole numbers in an integer array
        d['amps'] = [float(round(a)) for a in amps]
        if all(a == 0 for a in d['amps']):
            d['amps'][1] = 1000.0
        d['dtype'] = 'int'
    return d


def gen_arb(rng, sysd, zero_ends=False):
    r = sysd['raster']
    n = rng.randint(2, 12)
    step = 0.5 * MAXS * r
    w = [rng.uniform(-1, 1) * (step * 0.4 if zero_ends else 5e5)]
    for _ in range(n - 1):
        w.append(max(-1.5e6, min(1.5e6, w[-1] + rng.uniform(-1, 1) * step)))
    if zero_ends and n > 1:
        w[-1] = rng.uniform(-1, 1) * step * 0.4
    d = {'kind': 'arb', 'ch': rng.choice(gl.CHN), 'wf': w, 'delay': rng.choice([0, 0, 2, 7]) * r}
    if zero_ends:
        d['first'] = 0.0
        d['last'] = 0.0
    elif n == 1 or rng.random() < 0.5:
        d['first'] = rng.uniform(-1e5, 1e5)
        d['last'] = rng.uniform(-1e5, 1e5)
    if rng.random() < 0.25:
        d['wf'] = [float(round(a)) for a in d['wf']]
        d['dtype'] = 'int'
    return d


def gen_grad(rng, sysd):
    k = rng.random()
    if k < 0.4:
        return gen_trap(rng, sysd)
    if k < 0.75:
        return gen_ext(rng, sysd)
    return gen_arb(rng, sysd)


ERRMAP = [('At least one of the given times', 'EAllZero'), ('ascending', 'ENotAscending'),
          ('on a gradient raster', 'ERaster'), ('Slew rate violation', 'ESlew'), ('amplitude violation', 'EGradAmp'),
          ('max() ', 'EEmptyMax'), ('after the end', 'EAfterEnd'), ('not implemented', 'ENotImpl'),
          ('negative delay', 'ENegDelay'), ('Invalid alignment spec', 'EBadSpec')]


def err_class(e):
    if isinstance(e, AttributeError):
        return 'EBrokenArb'
    msg = str(e)
    for pat, cls in ERRMAP:
        if pat in msg:
            return cls
    return 'E?' + type(e).__name__ + ':' + msg[:60]


def amp_scale_of(*gs):
    m = Fraction(1)
    for g in gs:
        if g.type == 'trap':
            m = max(m, abs(F(g.amplitude)))
        else:
            for v in list(g.waveform) + [g.first, g.last]:
                m = max(m, abs(F(v)))
    return m


# ------------------------------------------------------------------------------------------------
# stream: scale_grad
def run_scale(ctx, cases):
    import pypulseq as pp
    lines, keep = [], []
    for c in cases:
        system = gl.make_system(c['sys'])
        g = gl.build_grad(dict(c['g'], id=None) if c.get('from_block') else c['g'], system)
        if c.get('from_block'):
            seq = pp.Sequence(system)
            seq.add_block(g)
            g = getattr(seq.get_block(1), 'g' + c['g']['ch'])
            if c['g'].get('id') is not None:
                g.id = c['g']['id']
        k = c['k']
        before = gl.snap(g)
        try:
            out = pp.scale_grad(g, k)
        except Exception as e:
            ctx.fail('C18/scale-raises', c, {'exception': repr(e)})
            ctx.evaluated(('scale', str(c)), nontrivial=False)
            continue
        ctx.evaluated(('scale', str(c)))
        ctx.count('scale.' + c['g']['kind'] + ('.block' if c.get('from_block') else ''))
        d = gl.same_obj(before, g)
        if d is not None:
            ctx.fail('C18/scale-modifies-input', c, d)
            continue
        if out is g:
            ctx.fail('C18/scale-returns-input', c, {})
            continue
        raster = c['sys']['raster']
        kq = F(k)
        sc = amp_scale_of(g) * max(1, abs(kq))
        # fields
        scaled = ('amplitude', 'area', 'flat_area') if g.type == 'trap' else ('waveform', 'first', 'last', 'area')
        bad = None
        for name in sorted(set(vars(before)) | set(vars(out))):
            if name == 'id':
                if hasattr(out, 'id'):
                    bad = {'field': 'id', 'what': 'id kept'}
                continue
            if not hasattr(out, name) or not hasattr(before, name):
                bad = {'field': name, 'what': 'attribute set changed'}
                break
            a, b = getattr(before, name), getattr(out, name)
            if name in scaled:
                av = [F(v) for v in np.atleast_1d(a)]
                bv = [F(v) for v in np.atleast_1d(b)]
                fsc = sc * (Fraction(1, 100) if name in ('area', 'flat_area') else 1)
                if len(av) != len(bv) or any(not gl.close(x * kq, y, fsc) for x, y in zip(av, bv)):
                    bad = {'field': name, 'before': repr(a)[:80], 'after': repr(b)[:80], 'k': k}
                    break
            elif not gl.same_value(a, b):
                bad = {'field': name, 'before': repr(a)[:80], 'after': repr(b)[:80]}
                break
        if bad:
            ctx.fail('C18/scale-field-' + bad['field'], c, bad)
            continue
        # rendering
        p0, p1 = gl.corners(g, raster), gl.corners(out, raster)
        for t in gl.sample_times([p0, p1], raster):
            if not gl.close(gl.pw_eval(p1, t), kq * gl.pw_eval(p0, t), sc):
                ctx.fail('C18/scale-waveform', c, {'t': float(t), 'out': float(gl.pw_eval(p1, t)),
                                                   'expected': float(kq * gl.pw_eval(p0, t))})
                break
        else:
            lines.append('go.scale %s %s' % (gl.enc_grad(g), qtok(kq)))
            lines.append('go.pwl %s %s' % (qtok(F(raster)), gl.enc_grad(g)))
            keep.append((c, g, out, sc, p0))
    if keep and ctx.model_available:
        outs = ctx.model(lines)
        for j, (c, g, out, sc, p0) in enumerate(keep):
            m = gl.dec_grad(Toks(outs[2 * j]))
            i = gl.grad_fields(out)
            d = gl.diff_fields(m, i, sc, 1)
            if d:
                ctx.mismatch('scale', c, d)
            t = Toks(outs[2 * j + 1])
            n = t.int()
            mp = [(t.q(), t.q()) for _ in range(n)]
            if len(mp) != len(p0) or any(not gl.close(a[0], b[0], Fraction(1, 1000)) or not gl.close(a[1], b[1], sc)
                                         for a, b in zip(mp, p0)):
                ctx.mismatch('to_pwl', c, {'model': [(float(a), float(b)) for a, b in mp][:6],
                                           'oracle': [(float(a), float(b)) for a, b in p0][:6]})


def gen_scale_cases(rng, n):
    cs = []
    for i in range(n):
        sysd = gen_sys(rng)
        g = gen_grad(rng, sysd)
        c = {'stream': 'scale', 'sys': sysd, 'g': g, 'k': rng.choice(FACTORS) if rng.random() < 0.8 else rng.uniform(-3, 3)}
        if rng.random() < 0.3:
            g['id'] = rng.randint(1, 50)
        if g['kind'] != 'trap' and rng.random() < 0.15:
            g['no_area'] = True
        if rng.random() < 0.2 and (g['kind'] == 'trap' or (g['kind'] == 'ext' and g['amps'][0] == 0 and g['amps'][-1] == 0)):
            c['from_block'] = True
        cs.append(c)
    return cs


# ------------------------------------------------------------------------------------------------
# stream: split_gradient (three parts)
def snap_times(lists, anchors=()):
    """corner times that differ by binary64 noise (< 1e-12 s) are identified (anchors first)"""
    reps = list(anchors)
    out = []
    for pts in lists:
        q = []
        for t, v in pts:
            for r in reps:
                if abs(t - r) <= Fraction(1, 10 ** 12):
                    t = r
                    break
            else:
                reps.append(t)
            q.append((t, v))
        out.append(q)
    return out


def check_sum(parts, whole, raster, junctions, sc):
    """parts/whole: corner lists.  Returns None or a failure detail."""
    sn = snap_times([whole] + parts, anchors=sorted(junctions))
    whole, parts = sn[0], sn[1:]
    for t in gl.sample_times(parts + [whole], raster, extra=junctions):
        w = gl.pw_eval(whole, t)
        vals = [gl.pw_eval(p, t) for p in parts]
        if t in junctions:
            # at a junction both neighbouring parts carry the value of the input
            live = [v for p, v in zip(parts, vals) if p and p[0][0] <= t <= p[-1][0]]
            if any(not gl.close(v, w, sc) for v in live):
                return {'t': float(t), 'junction': True, 'parts': [float(v) for v in vals], 'input': float(w)}
        elif not gl.close(sum(vals), w, sc):
            return {'t': float(t), 'parts': [float(v) for v in vals], 'input': float(w)}
    return None


def run_split3(ctx, cases):
    import pypulseq as pp
    lines, keep = [], []
    for c in cases:
        system = gl.make_system(c['sys'])
        g = gl.build_grad(c['g'], system)
        raster = c['sys']['raster']
        before = gl.snap(g)
        line = 'go.split %s %s' % (gl.enc_sys(system), gl.enc_grad(g))
        try:
            parts = gl.call_with_default(system, c.get('default_sys'), pp.split_gradient, g)
            err = None
        except Exception as e:
            parts, err = None, e
        ctx.evaluated(('split3', str(c)), nontrivial=err is None)
        ctx.count('split3.' + c['g']['kind'] + ('.offraster' if c.get('offraster') else '') +
                  ('.err' if err is not None else ''))
        kind = c['g']['kind']
        sc = amp_scale_of(before)
        # the argument may only be changed by the documented raster rounding
        rq = F(raster)
        d = gl.same_obj(before, g, ignore=('delay', 'rise_time', 'flat_time', 'fall_time') if kind == 'trap' else ())
        if d is None and kind == 'trap':
            for f in ('delay', 'rise_time', 'flat_time', 'fall_time'):
                want = round(F(getattr(before, f)) / rq) * rq
                if not gl.close(F(getattr(g, f)), want, Fraction(1, 1000)):
                    d = {'attribute': f, 'before': getattr(before, f), 'after': getattr(g, f)}
        if d is not None:
            ctx.fail('C18/split-modifies-input', c, d)
            continue
        if kind != 'trap':
            if err is None or not isinstance(err, ValueError):
                ctx.fail('C18/split-arbitrary-not-rejected', c, {'result': repr(parts)[:200], 'exception': repr(err)})
            else:
                lines.append(line)
                keep.append((c, None, err, sc))
            continue
        if c.get('expect_error'):
            if err is None:
                ctx.fail('C18/split-limit-not-checked', c, {})
            else:
                lines.append(line)
                keep.append((c, None, err, sc))
            continue
        if err is not None:
            sig = 'C18/split-triangle' if c['g']['flat'] == 0 else 'C18/split-raises'
            ctx.fail(sig, c, {'exception': repr(err)})
            lines.append(line)
            keep.append((c, None, err, sc))
            continue
        if len(parts) != 3 or any(p.type != 'grad' or p.channel != g.channel for p in parts):
            ctx.fail('C18/split-shape', c, {'result': repr(parts)[:300]})
            continue
        if c.get('offraster') and min(F(g.rise_time), F(g.flat_time), F(g.fall_time)) > 0:
            # C18_split_discrepancy: the parts miss the ROUNDED trapezoid (= the argument after the call) by the
            # displacement of the ramp-down by d = total - rounded total
            rt = gl.corners(g, raster)
            pl = [gl.corners(p, raster) for p in parts]
            tot = F(before.delay) + F(before.rise_time) + F(before.flat_time) + F(before.fall_time)
            j1r = F(g.delay) + F(g.rise_time)
            j2r = j1r + F(g.flat_time)
            dsh = tot - (j2r + F(g.fall_time))
            ramp = [(Fraction(0), F(g.amplitude)), (F(g.fall_time), Fraction(0))]
            badd = None
            for x in gl.sample_times(pl + [rt], raster):
                if min(abs(x - j1r), abs(x - j2r)) <= Fraction(1, 10 ** 12):
                    continue
                # stay away from the discontinuous ends of the displaced ramp (binary64 noise in the corner times)
                if min(abs(x - j2r - dsh), abs(x - j2r - dsh - F(g.fall_time))) <= Fraction(1, 10 ** 12):
                    continue
                lhs = sum(gl.pw_eval(p_, x) for p_ in pl) - gl.pw_eval(rt, x)
                rhs = gl.pw_eval(ramp, x - j2r - dsh) - gl.pw_eval(ramp, x - j2r)
                if not gl.close(lhs, rhs, sc * 10):
                    badd = {'t': float(x), 'parts_minus_rounded_trapezoid': float(lhs), 'expected': float(rhs),
                            'total_minus_rounded_total': float(dsh)}
                    break
            if badd:
                ctx.fail('C18/split-offraster-discrepancy', c, badd)
                continue
            ctx.count('split3.offraster.shift_%s' % ('zero' if abs(dsh) < Fraction(1, 10 ** 12) else 'nonzero'))
        if not c.get('offraster'):
            whole = gl.corners(before, raster)
            pl = [gl.corners(p, raster) for p in parts]
            j1 = F(before.delay) + F(before.rise_time)
            j2 = j1 + F(before.flat_time)
            # junction times as produced (float sums) are within 1e-15 of the exact ones: use the produced ones
            junctions = {pl[0][-1][0], pl[1][0][0], pl[1][-1][0], pl[2][0][0], j1, j2}
            if any(abs(t - j1) > Fraction(1, 10 ** 12) and abs(t - j2) > Fraction(1, 10 ** 12) for t in junctions):
                ctx.fail('C18/split-junction-time', c, {'junctions': [float(t) for t in sorted(junctions)],
                                                        'expected': [float(j1), float(j2)]})
                continue
            # render on exact junctions: move produced corner times that are within 1e-12 onto j1/j2
            def snapj(pts):
                return [((j1 if abs(t - j1) <= Fraction(1, 10 ** 12) else j2 if abs(t - j2) <= Fraction(1, 10 ** 12) else t), v)
                        for t, v in pts]
            bad = check_sum([snapj(p) for p in pl], snapj(whole), raster, {j1, j2}, sc)
            if bad:
                ctx.fail('C18/split-sum', c, bad)
                continue
        lines.append(line)
        keep.append((c, parts, None, sc))
    if keep and ctx.model_available:
        outs = ctx.model(lines)
        for (c, parts, err, sc), o in zip(keep, outs):
            t = Toks(o)
            tag = t.next()
            if err is not None:
                if tag != 'ERR':
                    ctx.mismatch('split3', c, {'impl': repr(err), 'model': o[:120]})
                else:
                    mcls = t.next()
                    if mcls != err_class(err):
                        ctx.mismatch('split3', c, {'impl': err_class(err), 'model': mcls})
                continue
            if tag != 'OK':
                ctx.mismatch('split3', c, {'impl': 'three parts', 'model': o[:120]})
                continue
            for idx, p in enumerate(parts):
                m = gl.dec_grad(t)
                d = gl.diff_fields(m, gl.grad_fields(p), sc, 1)
                if d:
                    d['part'] = idx
                    ctx.mismatch('split3', c, d)
                    break


def gen_split3_cases(rng, n):
    cs = []
    for i in range(n):
        sysd = gen_sys(rng)
        k = rng.random()
        if k < 0.72:
            g = gen_trap(rng, sysd, triangle=False)
            c = {'stream': 'split3', 'sys': sysd, 'g': g}
            if rng.random() < 0.2:
                # off raster by a non-tie fraction of a raster
                r = sysd['raster']
                for f in ('rise', 'flat', 'fall', 'delay'):
                    if rng.random() < 0.6:
                        g[f] = g[f] + rng.choice([0.2, -0.3, 0.4, 0.1]) * r
                        if g[f] < 0:
                            g[f] = 0.0
                c['offraster'] = True
        elif k < 0.8:
            g = gen_trap(rng, sysd, triangle=False)
            g['rise'] = sysd['raster']
            g['amp'] = rng.choice([-1, 1]) * rng.uniform(3, 5) * MAXS * sysd['raster']   # slew 3-5x the limit
            if abs(g['amp']) > MAXG:
                g['amp'] = g['amp'] / abs(g['amp']) * 1.9e6
                g['rise'] = sysd['raster']
            c = {'stream': 'split3', 'sys': sysd, 'g': g}
            if abs(g['amp']) / g['rise'] > 1.5 * MAXS:
                c['expect_error'] = True
        elif k < 0.9:
            c = {'stream': 'split3', 'sys': sysd, 'g': gen_ext(rng, sysd)}
        else:
            c = {'stream': 'split3', 'sys': sysd, 'g': gen_arb(rng, sysd)}
        if rng.random() < 0.15:
            c['default_sys'] = True      # system taken from the library default
        cs.append(c)
    return cs


# ------------------------------------------------------------------------------------------------
# stream: split_gradient_at
def total_k(g):
    if g['kind'] == 'trap':
        return g['k'][1] + g['k'][2] + g['k'][3]
    return g['k'][-1]


def run_splitat(ctx, cases):
    import pypulseq as pp
    lines, keep = [], []
    for c in cases:
        system = gl.make_system(c['sys'])
        g = gl.build_grad(c['g'], system)
        raster = c['sys']['raster']
        rq = F(raster)
        before = gl.snap(g)
        tp = c['tp']
        line = 'go.splitat %s %s %s' % (gl.enc_sys(system), gl.enc_grad(g), qtok(F(tp)))
        try:
            res = gl.call_with_default(system, c.get('default_sys'), pp.split_gradient_at, g, tp)
            err = None
        except Exception as e:
            res, err = None, e
        kind = c['g']['kind']
        ctx.evaluated(('splitat', str(c)), nontrivial=err is None)
        d = gl.same_obj(before, g)
        if d is not None:
            ctx.fail('C18/split-at-modifies-input', c, d)
            continue
        sc = amp_scale_of(before)
        if kind == 'arb':
            # KF-9: the arbitrary branch is unreachable/broken; one fixed reproducer only
            if err is not None or not isinstance(res, tuple):
                ctx.fail('C18/split-at-arbitrary', c, {'exception': repr(err), 'result': repr(res)[:200]})
            continue
        K = c['K']
        kd = c['g']['k'][0]
        ke = kd + total_k(c['g'])
        where = ('after-end' if K >= ke else 'at-or-before-0' if K <= 0 else 'at-start' if K == kd else
                 'in-delay' if K < kd else 'inside')
        ctx.count('splitat.%s.%s%s' % (kind, where, '.offraster' if c.get('offraster') else ''))
        if c.get('default_sys'):
            ctx.count('splitat.system_from_library_default')
        model_cmp = where in ('inside', 'in-delay') or (where == 'after-end' and K > ke)
        if c.get('offraster') or c.get('malformed'):
            if c.get('offraster'):
                rk = [round(F(getattr(before, f)) / rq) for f in ('delay', 'rise_time', 'flat_time', 'fall_time')]
                kd, ke = rk[0], sum(rk)
            if K not in (kd, ke):       # boundary decisions are taken in binary64 by the code
                lines.append(line)
                keep.append((c, res, err, sc))
            continue
        if where == 'after-end':
            if err is None:
                ctx.fail('C18/split-at-after-end-accepted', c, {'result': repr(res)[:300]})
                continue
            if model_cmp:
                lines.append(line)
                keep.append((c, res, err, sc))
            continue
        if err is not None:
            if where in ('inside', 'in-delay'):
                ctx.fail('C18/split-at-raises', c, {'exception': repr(err), 'where': where})
            continue
        if not isinstance(res, tuple) or len(res) != 2 or any(p.type != 'grad' or p.channel != g.channel for p in res):
            ctx.fail('C18/split-at-shape', c, {'result': repr(res)[:300]})
            continue
        g1, g2 = res
        cut = K * rq
        end1 = F(g1.delay) + F(g1.shape_dur)
        start2 = F(g2.delay) + F(g2.tt[0])
        tol = Fraction(1, 10 ** 12)
        if abs(end1 - cut) > tol or abs(start2 - cut) > tol or abs(F(g1.delay) + F(g1.tt[-1]) - cut) > tol:
            ctx.fail('C18/split-at-cut-time', c, {'requested': float(cut), 'first_part_ends': float(end1),
                                                  'second_part_starts': float(start2)})
            continue

        def snapc(pts):
            return [((cut if abs(t - cut) <= tol else t), v) for t, v in pts]
        whole = gl.corners(before, raster)
        bad = check_sum([snapc(gl.corners(g1, raster)), snapc(gl.corners(g2, raster))], whole, raster, {cut}, sc)
        if bad:
            ctx.fail('C18/split-at-sum', c, bad)
            continue
        if model_cmp:
            lines.append(line)
            keep.append((c, res, err, sc))
    if keep and ctx.model_available:
        outs = ctx.model(lines)
        for (c, res, err, sc), o in zip(keep, outs):
            t = Toks(o)
            tag = t.next()
            if err is not None:
                if tag != 'ERR':
                    ctx.mismatch('splitat', c, {'impl': repr(err), 'model': o[:120]})
                else:
                    mcls = t.next()
                    if mcls != err_class(err):
                        ctx.mismatch('splitat', c, {'impl': err_class(err), 'model': mcls})
                continue
            if tag == 'ONE':
                if isinstance(res, tuple):
                    ctx.mismatch('splitat', c, {'impl': 'two parts', 'model': 'one'})
                continue
            if tag != 'TWO' or not isinstance(res, tuple):
                ctx.mismatch('splitat', c, {'impl': repr(res)[:100], 'model': o[:120]})
                continue
            for idx, p in enumerate(res):
                m = gl.dec_grad(t)
                d = gl.diff_fields(m, gl.grad_fields(p), sc, 1)
                if d:
                    d['part'] = idx
                    ctx.mismatch('splitat', c, d)
                    break


def gen_splitat_cases(rng, n_grads, per_grad):
    cs = []
    for i in range(n_grads):
        sysd = gen_sys(rng)
        r = sysd['raster']
        k = rng.random()
        g = gen_trap(rng, sysd) if k < 0.55 else gen_ext(rng, sysd)
        kd = g['k'][0]
        ke = kd + total_k(g)
        allk = list(range(-1, ke + 3))
        if len(allk) > per_grad:
            must = {-1, 0, 1, kd - 1, kd, kd + 1, ke - 1, ke, ke + 1, ke + 2}
            if g['kind'] == 'trap':
                must |= {kd + g['k'][1], kd + g['k'][1] + g['k'][2], kd + g['k'][1] - 1, kd + g['k'][1] + 1}
            else:
                must |= {kd + x for x in g['k'][1:]}
            must = sorted(x for x in must if -1 <= x <= ke + 2)
            rest = [x for x in allk if x not in must]
            rng.shuffle(rest)
            allk = must + rest[:max(0, per_grad - len(must))]
        dflt = rng.random() < 0.15
        for K in allk:
            jit = rng.choice([0.0, 0.0, 0.0, 0.0, 0.2, -0.2, 0.31])
            c = {'stream': 'splitat', 'sys': sysd, 'g': g, 'K': K, 'tp': (K + jit) * r if jit else K * r}
            if dflt:
                c['default_sys'] = True  # system taken from the library default (Opts.set_as_default)
            cs.append(c)
    return cs


def gen_splitat_special(rng, n):
    """off-raster trapezoids and malformed extended trapezoids (non-zero start with a delay): model agreement only"""
    cs = []
    for i in range(n):
        sysd = gen_sys(rng)
        r = sysd['raster']
        if rng.random() < 0.5:
            g = gen_trap(rng, sysd)
            for f in ('rise', 'flat', 'fall', 'delay'):
                if rng.random() < 0.6 and g[f] > 0:
                    g[f] = g[f] + rng.choice([0.2, -0.3, 0.4, 0.1]) * r
            K = rng.randint(1, g['k'][0] + total_k(g) + 1)
            cs.append({'stream': 'splitat', 'sys': sysd, 'g': g, 'K': K, 'tp': K * r, 'offraster': True})
        else:
            g = gen_ext(rng, sysd, delay=rng.randint(2, 8))
            if g['amps'][0] == 0:
                g['amps'][0] = rng.choice([-1, 1]) * rng.uniform(1e3, 2e4)
            ke = g['k'][0] + total_k(g)
            K = rng.choice([1, g['k'][0] - 1, g['k'][0] + 1, rng.randint(1, ke - 1)])
            if K == g['k'][0]:
                K += 1
            cs.append({'stream': 'splitat', 'sys': sysd, 'g': g, 'K': K, 'tp': K * r, 'malformed': True})
    return cs


KF9_CASE = {'stream': 'splitat', 'sys': {'raster': 1e-5, 'max_grad': MAXG, 'max_slew': MAXS},
            'g': {'kind': 'arb', 'ch': 'z', 'wf': [0.0, 1000.0, 2000.0, 1000.0, 0.0], 'delay': 0.0},
            'K': 2, 'tp': 2e-5}
TRIANGLE_CASE = {'stream': 'split3', 'sys': {'raster': 1e-5, 'max_grad': MAXG, 'max_slew': MAXS},
                 'g': {'kind': 'trap', 'ch': 'x', 'amp': 100000.0, 'rise': 1e-4, 'flat': 0.0, 'fall': 1e-4,
                       'delay': 0.0, 'k': [0, 10, 0, 10]}}


# ------------------------------------------------------------------------------------------------
# stream: align
def build_event(d, system):
    import pypulseq as pp
    k = d['kind']
    if k in ('trap', 'ext', 'arb'):
        return gl.build_grad(d, system)
    if k == 'rf':
        rf = pp.make_block_pulse(flip_angle=d['flip'], duration=d['dur'], delay=d['delay'], system=system)
        if d.get('force_delay') is not None:
            rf.delay = d['force_delay']
        return rf
    if k == 'adc':
        adc = pp.make_adc(num_samples=d['num'], dwell=d['dwell'], delay=d['delay'], system=system)
        if d.get('force_delay') is not None:
            adc.delay = d['force_delay']
        return adc
    if k == 'delay':
        return pp.make_delay(d['delay'])
    if k == 'trig':
        return pp.make_trigger('physio1', delay=d['delay'], duration=d['dur'], system=system)
    if k == 'out':
        return pp.make_digital_output_pulse('osc0', delay=d['delay'], duration=d['dur'], system=system)
    raise ValueError(k)


def own_length(e):
    """duration of the event without its delay, from its fields (independent of calc_duration)"""
    t = e.type
    if t == 'rf':
        return F(e.shape_dur) + F(e.ringdown_time)
    if t == 'grad':
        return F(e.shape_dur)
    if t == 'adc':
        return F(e.num_samples) * F(e.dwell) + F(e.dead_time)
    if t == 'trap':
        return F(e.rise_time) + F(e.flat_time) + F(e.fall_time)
    if t in ('output', 'trigger'):
        return F(e.duration)
    if t == 'delay':
        return Fraction(0)
    raise ValueError(t)


def gen_align_event(rng, sysd, negative=False):
    r = sysd['raster']
    k = rng.choice(['trap', 'trap', 'ext', 'arb', 'rf', 'rf', 'adc', 'adc', 'delay', 'trig', 'out'])
    if k == 'trap':
        d = gen_trap(rng, sysd)
    elif k == 'ext':
        d = gen_ext(rng, sysd, delay=rng.choice([0, 3, 10]))
    elif k == 'arb':
        d = gen_arb(rng, sysd)
    elif k == 'rf':
        # RF on the 1 us RF raster: odd numbers of microseconds
        fine = rng.random() < 0.5
        d = {'kind': 'rf', 'flip': 0.5, 'dur': (rng.randint(100, 3000) * 1e-6) if fine else rng.randint(10, 300) * 1e-5,
             'delay': rng.choice([0.0, 1e-4, 3.5e-4, 1.27e-4, 3e-6])}
    elif k == 'adc':
        # ADC on the 100 ns / 1 us ADC raster with odd sample counts: lengths that are odd numbers of microseconds or
        # not even whole microseconds, so that the free space in the block is not a multiple of 2 us
        if rng.random() < 0.5:
            d = {'kind': 'adc', 'num': rng.choice([16, 64, 100]), 'dwell': rng.choice([1e-5, 4e-6, 2.5e-6]),
                 'delay': rng.choice([0.0, 2e-5, 1.3e-4])}
        else:
            d = {'kind': 'adc', 'num': rng.choice([1, 3, 33, 101, 127, 255, rng.randint(1, 300)]),
                 'dwell': rng.choice([5e-6, 1e-6, 3e-6, 2.5e-6, 1.3e-6, 7e-7, rng.randint(1, 99) * 1e-7]),
                 'delay': rng.choice([0.0, 2e-5, 7e-6, 1.5e-6, rng.randint(0, 500) * 1e-7])}
    elif k == 'delay':
        d = {'kind': 'delay', 'delay': rng.randint(1, 400) * 1e-5 if rng.random() < 0.5 else rng.randint(1, 40000) * 1e-7}
    else:
        d = {'kind': k, 'delay': rng.choice([0.0, 5e-5, 3e-6]),
             'dur': rng.randint(1, 100) * 1e-5 if rng.random() < 0.5 else rng.randint(1, 999) * 1e-6}
    if negative and k in ('rf', 'adc') and rng.random() < 0.7:
        d['force_delay'] = -rng.randint(1, 30) * 1e-5
    return d


def gen_align_cases(rng, n):
    cs = []
    for i in range(n):
        sysd = gen_sys(rng)
        neg = rng.random() < 0.12
        groups = []
        specs = ['left', 'center', 'right']
        rng.shuffle(specs)
        for sp in specs[:rng.randint(1, 3)]:
            single = rng.random() < 0.25
            evs = [gen_align_event(rng, sysd, neg) for _ in range(1 if single else rng.randint(1, 4))]
            groups.append({'spec': sp, 'single': single, 'events': evs})
        c = {'stream': 'align', 'sys': sysd, 'groups': groups}
        if rng.random() < 0.4:
            c['ids'] = rng.choice(['some', 'all'])
        if rng.random() < 0.04:
            groups[-1]['spec'] = rng.choice(['middle', 'centre', 'Left'])
        cs.append(c)
    return cs


SPEC_IDX = {'left': 0, 'center': 1, 'right': 2}


def run_align(ctx, cases):
    import pypulseq as pp
    lines, keep = [], []
    for c in cases:
        system = gl.make_system(c['sys'])
        kwargs, flat = {}, []
        for grp in c['groups']:
            evs = [build_event(d, system) for d in grp['events']]
            kwargs[grp['spec']] = evs[0] if grp['single'] else evs
            flat += [(grp['spec'], e) for e in evs]
        if c.get('ids'):
            # some inputs carry a library id (as after `ev.id = seq.register_*_event(ev)`)
            for j, (_, e) in enumerate(flat):
                if j % 2 == 0 or c['ids'] == 'all':
                    e.id = 100 + j
            ctx.count('align.inputs_with_library_id')
        before = [gl.snap(e) for _, e in flat]
        try:
            out = pp.align(**kwargs)
            err = None
        except Exception as e:
            out, err = None, e
        ctx.evaluated(('align', str(c)), nontrivial=err is None)
        ctx.count('align.n%d%s' % (len(flat), '.err' if err is not None else ''))
        for s, _ in flat:
            ctx.count('align.spec.' + (s if s in SPEC_IDX else 'invalid'))
        for (_, e), b in zip(flat, before):
            ctx.count('align.kind.' + e.type)
            d = gl.same_obj(b, e)
            if d is not None:
                ctx.fail('C18/align-modifies-input', c, d)
                break
        else:
            lens = [own_length(e) for _, e in flat]
            delays = [F(e.delay) for _, e in flat]
            line = 'go.align %d %s' % (len(flat), ' '.join(
                '%d %s %s %s %s' % (SPEC_IDX.get(s, 5), qtok(l), qtok(dl), ztok(j),
                                    ('1 ' + ztok(e.id)) if hasattr(e, 'id') else '0')
                for j, ((s, e), l, dl) in enumerate(zip(flat, lens, delays))))
            invalid = any(s not in SPEC_IDX for s, _ in flat)
            negtotal = any(l + dl < 0 for l, dl in zip(lens, delays))
            if negtotal and not invalid:
                # malformed input (an event ending before t = 0): calc_duration clamps at 0; model agreement only
                ctx.count('align.negative-total.model-only')
                Dn = max([Fraction(0)] + [l + dl for l, dl in zip(lens, delays)])
                edge = any(s == 'right' and abs(Dn - max(Fraction(0), l + dl) + dl) <= Fraction(1, 10 ** 9)
                           for (s, _), l, dl in zip(flat, lens, delays))
                if not edge:      # the sign of a right-aligned delay of ~0 is decided in binary64 by the code
                    lines.append(line)
                    keep.append((c, out, err))
                continue
            D = max([Fraction(0)] + [l + dl for l, dl in zip(lens, delays)])
            want = [Fraction(0) if s == 'left' else (D - l) / 2 if s == 'center' else D - l
                    for (s, _), l in zip(flat, lens)] if not invalid else []
            tol = Fraction(1, 10 ** 12)
            if any(s == 'center' and (w * 10 ** 6).denominator != 1 for (s, _), w in zip(flat, want)):
                ctx.count('align.centre_delay_not_a_whole_microsecond')
            must_fail = invalid or any(s == 'right' and w < -Fraction(1, 10 ** 9) for (s, _), w in zip(flat, want))
            near = (not invalid) and any(s == 'right' and abs(w) <= Fraction(1, 10 ** 9) and w != 0
                                         for (s, _), w in zip(flat, want))
            if err is not None:
                if not must_fail and not near:
                    ctx.fail('C18/align-raises', c, {'exception': repr(err)})
                    continue
                if not isinstance(err, ValueError):
                    ctx.fail('C18/align-raises-' + type(err).__name__, c, {'exception': repr(err)})
                    continue
            else:
                if must_fail:
                    ctx.fail('C18/align-negative-delay-returned' if not invalid else 'C18/align-invalid-spec-accepted',
                             c, {'delays': [float(getattr(o, 'delay', 0)) for o in out]})
                    continue
                if len(out) != len(flat):
                    ctx.fail('C18/align-count', c, {'returned': len(out), 'given': len(flat)})
                    continue
                bad = None
                for j, (o, b, w, (s, e)) in enumerate(zip(out, before, want, flat)):
                    if o is e:
                        bad = ('C18/align-returns-input', {'index': j})
                        break
                    if abs(F(o.delay) - w) > tol:
                        bad = ('C18/align-delay-' + s, {'index': j, 'kind': e.type, 'delay': float(o.delay),
                                                        'expected': float(w), 'common_duration': float(D)})
                        break
                    if hasattr(o, 'id'):
                        bad = ('C18/align-keeps-library-id', {'output_index': j, 'id': repr(o.id), 'kind': e.type})
                        break
                    dd = gl.same_obj(b, o, ignore=('delay', 'id'))
                    if dd is not None:
                        bad = ('C18/align-changes-other-field', dict(dd, index=j, kind=e.type))
                        break
                    if s == 'right' and o.delay < 0:
                        bad = ('C18/align-negative-delay-returned', {'index': j, 'delay': float(o.delay)})
                        break
                if bad:
                    ctx.fail(bad[0], c, bad[1])
                    continue
            if not near:
                lines.append(line)
                keep.append((c, out, err))
    if keep and ctx.model_available:
        outs = ctx.model(lines)
        for (c, out, err), o in zip(keep, outs):
            t = Toks(o)
            tag = t.next()
            if err is not None:
                if tag != 'ERR' or t.next() != err_class(err):
                    ctx.mismatch('align', c, {'impl': repr(err), 'model': o[:100]})
                continue
            if tag != 'OK':
                ctx.mismatch('align', c, {'impl': 'returned', 'model': o[:100]})
                continue
            t.q()
            n = t.int()
            for j in range(n):
                t.q()
                md = t.q()
                t.z()
                mid = t.opt(t.z)
                if abs(md - F(out[j].delay)) > Fraction(1, 10 ** 12):
                    ctx.mismatch('align', c, {'index': j, 'model': float(md), 'impl': float(out[j].delay)})
                    break
                if (mid is None) != (not hasattr(out[j], 'id')):
                    ctx.mismatch('align', c, {'index': j, 'model_id': mid, 'impl_id': getattr(out[j], 'id', None)})
                    break


# ------------------------------------------------------------------------------------------------
# stream: mod_grad_axis / flip_grad_axis (implementation, oracle, and the store model of Model/ModAxis.v)
def gen_bridged_pair(rng, sysd, ch):
    """two consecutive blocks holding the two halves of one gradient on channel ch"""
    r = sysd['raster']
    v = rng.choice([-1, 1]) * rng.uniform(1e3, 5e5)
    n1 = min_ramp(v, r) + rng.randint(0, 3)
    n2 = min_ramp(v, r) + rng.randint(0, 3)
    if rng.random() < 0.6:
        pa = rng.randint(0, 4)            # plateau samples before the cut
        pb = rng.randint(0, 4)
        ka = [0, n1] + ([n1 + pa] if pa else [])
        kb = ([0, pb] if pb else [0]) + [pb + n2]
        a = {'kind': 'ext', 'ch': ch, 'times': [k * r for k in ka], 'amps': [0.0, v] + ([v] if pa else []),
             'delay': rng.choice([0, 0, 2]) * r}
        b = {'kind': 'ext', 'ch': ch, 'times': [k * r for k in kb], 'amps': ([v, v] if pb else [v]) + [0.0], 'delay': 0.0}
    else:
        n1, n2 = max(n1, 2), max(n2, 2)
        a = {'kind': 'arb', 'ch': ch, 'wf': [v * (i + 0.5) / n1 for i in range(n1)], 'first': 0.0, 'last': v,
             'delay': rng.choice([0, 0, 2]) * r}
        b = {'kind': 'arb', 'ch': ch, 'wf': [v * (1 - (i + 0.5) / n2) for i in range(n2)], 'first': v, 'last': 0.0,
             'delay': 0.0}
    a['bridge'] = 'first-half'
    blk_a, blk_b = [a], [b]
    if rng.random() < 0.5:
        other = rng.choice([c_ for c_ in gl.CHN if c_ != ch])
        blk_b.append(dict(gen_trap(rng, sysd), ch=other))
    return [blk_a, blk_b]


def gen_modaxis_cases(rng, n):
    cs = []
    for i in range(n):
        sysd = gen_sys(rng)
        sysd['ringdown'] = 0.0
        sysd['rf_dead'] = 0.0
        sysd['adc_dead'] = 0.0
        pool = []
        for _ in range(rng.randint(2, 6)):
            k = rng.random()
            g = gen_trap(rng, sysd) if k < 0.5 else gen_ext(rng, sysd, zero_ends=True) if k < 0.8 else \
                gen_arb(rng, sysd, zero_ends=True)
            pool.append(g)
        # mirror images on the same channel: a flip then turns one library row into another existing row
        for g in list(pool):
            if rng.random() < 0.35:
                h = dict(g)
                if h['kind'] == 'trap':
                    h['amp'] = -h['amp']
                elif h['kind'] == 'ext':
                    h['amps'] = [-a for a in h['amps']]
                else:
                    h['wf'] = [-a for a in h['wf']]
                pool.append(h)
        share = rng.random() < 0.2
        blocks = []
        for b in range(rng.randint(1, 6)):
            evs = []
            chans = [ch for ch in gl.CHN if rng.random() < 0.7]
            for ch in chans:
                cand = [p for p in pool if p['ch'] == ch]
                if share and rng.random() < 0.5:
                    g = dict(rng.choice(pool))
                    g['ch'] = ch
                elif cand:
                    g = dict(rng.choice(cand))
                else:
                    continue
                evs.append(g)
            # at most one gradient per channel
            seen, evs2 = set(), []
            for g in evs:
                if g['ch'] not in seen:
                    seen.add(g['ch'])
                    evs2.append(g)
            extra = rng.choice(['none', 'rf', 'adc', 'delay'])
            if extra == 'rf':
                evs2.append({'kind': 'rf', 'flip': 0.3, 'dur': 1e-3, 'delay': 0.0})
            elif extra == 'adc':
                evs2.append({'kind': 'adc', 'num': 32, 'dwell': 1e-5, 'delay': 2e-5})
            elif extra == 'delay' or not evs2:
                evs2.append({'kind': 'delay', 'delay': 5e-3})
            blocks.append(evs2)
        flip = rng.random() < 0.3
        axis = rng.choice(gl.CHN)
        # planted sharing of one library id between two axes: in the same block, or only in different blocks where the
        # block holding it on one axis has NO gradient on the other axis (e.g. identical x and y spoilers)
        plant = rng.choice(['none', 'none', 'same', 'different', 'different'])
        if plant != 'none':
            g = dict(rng.choice(pool))
            a_ax = axis
            b_ax = rng.choice([ch for ch in gl.CHN if ch != a_ax])
            c_ax = [ch for ch in gl.CHN if ch not in (a_ax, b_ax)][0]
            if rng.random() < 0.5:
                a_ax, b_ax = b_ax, a_ax          # the flipped axis is the one of the lonely occurrence / of the pair
            third = [dict(p, ch=c_ax) for p in pool if p['ch'] == c_ax]
            if plant == 'same':
                blk = [dict(g, ch=a_ax), dict(g, ch=b_ax)]
                blocks.insert(rng.randint(0, len(blocks)), blk)
            else:
                blk_a = [dict(g, ch=a_ax)] + ([dict(rng.choice(third))] if third and rng.random() < 0.5 else [])
                blk_b = [dict(g, ch=b_ax)] + ([dict(rng.choice(third))] if third and rng.random() < 0.5 else [])
                blocks.insert(rng.randint(0, len(blocks)), blk_a)
                blocks.insert(rng.randint(0, len(blocks)), blk_b)
        # gradients connected over a block boundary: the first part ends away from zero at the end of its block
        # (last != 0), the second part starts there with zero delay (first != 0); either sign
        bridged = 0
        for _ in range(rng.choice([0, 0, 1, 1, 2])):
            pos = [i for i in range(len(blocks) + 1)
                   if i == 0 or not any(e.get('bridge') == 'first-half' for e in blocks[i - 1])]
            blocks[rng.choice(pos):0] = gen_bridged_pair(rng, sysd, axis if rng.random() < 0.7 else rng.choice(gl.CHN))
            bridged += 1
        cs.append({'stream': 'modaxis', 'sys': sysd, 'blocks': blocks, 'axis': axis, 'flip': flip, 'plant': plant,
                   'bridged': bridged,
                   'mod': -1 if flip else rng.choice([-1, 2, 0.5, -0.25, 0, 3, 1]), 'cache': rng.random() < 0.6,
                   'warm': rng.random() < 0.7, 'twice': rng.random() < 0.2})
    return cs


def block_render(b, raster):
    return {ch: (None if getattr(b, 'g' + ch, None) is None else gl.corners(getattr(b, 'g' + ch), raster))
            for ch in gl.CHN}


def lib_close(impl, mod):
    """gradient library of the implementation vs the model's (rows to 1e-12 relative: the model multiplies the
    shortest-decimal value of each stored double exactly)"""
    def rows_close(a, b):
        return len(a) == len(b) and all(abs(float(x) - float(y)) <= 1e-12 * max(abs(float(x)), abs(float(y)), 1e-30)
                                        or float(x) == float(y) for x, y in zip(a, b))
    if [i for i, _ in impl['data']] != [i for i, _ in mod['data']]:
        return 'data ids %s vs model %s' % ([i for i, _ in impl['data']], [i for i, _ in mod['data']])
    for (i, a), (_, b) in zip(impl['data'], mod['data']):
        if not rows_close(a, b):
            return 'data[%d] %s vs model %s' % (i, a, [float(x) for x in b])
    if sorted(impl['type']) != sorted(mod['type']):
        return 'types differ'
    if [i for _, i in impl['keymap']] != [i for _, i in mod['keymap']]:
        return 'keymap ids (in order) %s vs model %s' % ([i for _, i in impl['keymap']], [i for _, i in mod['keymap']])
    for (a, i), (b, _) in zip(impl['keymap'], mod['keymap']):
        if not rows_close(a, b):
            return 'keymap key of id %d: %s vs model %s' % (i, a, [float(x) for x in b])
    if impl['next'] != mod['next']:
        return 'next_free_ID %d vs model %d' % (impl['next'], mod['next'])
    return None


def compare_modaxis_model(ctx, jobs):
    lines = [l for _, ml, _, _ in jobs for l in ml]
    outs = ctx.model(lines)
    k = 0
    for c, ml, mafter, err in jobs:
        for j in range(len(ml)):
            o = outs[k]
            k += 1
            if j >= len(mafter):
                break
            t = Toks(o)
            tag = t.next()
            mcls = t.next() if tag == 'ERR' else None
            last = j == len(mafter) - 1
            ierr = err if last else None
            icls = None if ierr is None else ('MAShared' if isinstance(ierr, RuntimeError) else
                                              'MAEmpty' if isinstance(ierr, IndexError) else
                                              'MAKey' if isinstance(ierr, KeyError) else 'MAAxis')
            if mcls != icls:
                ctx.mismatch('modaxis', c, {'call': j, 'impl': repr(ierr), 'model': o[:40]})
                break
            mlib = sm.p_lib(t)
            ncache = t.int()
            d = lib_close(mafter[j][0], mlib)
            if d:
                ctx.mismatch('modaxis', c, {'call': j, 'grad_library': d})
                break
            if mcls is None and (ncache != 0 or mafter[j][1] != 0):
                ctx.mismatch('modaxis', c, {'call': j, 'cache_entries_model': ncache, 'cache_entries_impl': mafter[j][1]})
                break
            after = t.list(lambda: t.opt(lambda: sm.p_dblock(t)))
            expect = t.list(lambda: t.opt(lambda: sm.p_dblock(t)))
            if mcls is None and after != expect:
                # run-time instance of Theorem C18_mod_grad_axis_decodes_scaled
                ctx.mismatch('modaxis-decode', c, {'call': j, 'what': 'model decode after != scaled decode before'})
                break
        else:
            continue
        k += len(ml) - (j + 1)


def run_modaxis(ctx, cases):
    import pypulseq as pp
    import seqmodel as sm_
    model_jobs = []
    try:
        _run_modaxis(ctx, cases, pp, model_jobs)
    finally:
        if model_jobs and ctx.model_available:
            compare_modaxis_model(ctx, model_jobs)


def _run_modaxis(ctx, cases, pp, model_jobs):
    for c in cases:
        system = gl.make_system(c['sys'])
        raster = c['sys']['raster']
        seq = pp.Sequence(system, use_block_cache=c['cache'])
        try:
            for evs in c['blocks']:
                seq.add_block(*[build_event(d, system) for d in evs])
        except Exception as e:
            ctx.count('modaxis.skipped_add_raise')
            continue
        nb = len(c['blocks'])
        before = [copy.deepcopy(seq.get_block(i + 1)) for i in range(nb)]
        if not c['warm'] and c['cache']:
            seq.block_cache.clear()
        durs = dict(seq.block_durations)
        evtab = {k: tuple(int(x) for x in v) for k, v in seq.block_events.items()}
        col = gl.CH[c['axis']]
        sel = {v[2 + col] for v in evtab.values()} - {0}
        oth = {v[2 + j] for v in evtab.values() for j in range(3) if j != col} - {0}
        shared = bool(sel & oth)
        reps = 2 if c['twice'] else 1
        err = None
        mlines, mafter = [], []
        try:
            for _ in range(reps):
                if ctx.model_available:
                    mlines.append('ma.run %s %d %d %s %s' % (sm.core_tokens(seq), col, 1 if c['flip'] else 0,
                                                             qtok(sm.F(c['mod'])), zlist(range(1, nb + 1))))
                try:
                    if c['flip']:
                        seq.flip_grad_axis(c['axis'])
                    else:
                        seq.mod_grad_axis(c['axis'], c['mod'])
                finally:
                    mafter.append((sm.lib_dump(seq.grad_library), len(seq.block_cache)))
                    if len(seq.grad_library.keymap) < len(seq.grad_library.data):
                        ctx.count('modaxis.key_collision_after_call')
        except Exception as e:
            err = e
        if mlines:
            model_jobs.append((c, mlines, mafter, err))
        m = F(c['mod']) ** reps
        ctx.evaluated(('modaxis', str(c)), nontrivial=err is None and bool(sel))
        ctx.count('modaxis.%s%s%s' % ('shared' if shared else 'plain', '.cache' if c['cache'] else '',
                                      '.warm' if c['warm'] and c['cache'] else ''))
        if shared:
            # does a block that plays the shared id on ANOTHER axis also play a gradient on the selected axis?
            coexist = any(v[2 + col] != 0 and any(v[2 + j] in (sel & oth) for j in range(3) if j != col)
                          for v in evtab.values())
            ctx.count('modaxis.shared.%s' % ('other-axis-use-in-a-block-with-the-axis' if coexist else
                                             'other-axis-use-only-in-blocks-without-the-axis'))
        if shared:
            if not isinstance(err, RuntimeError):
                ctx.fail('C18/mod-axis-shared-id-not-refused', c, {'exception': repr(err)})
                continue
            m = Fraction(1)      # refusal: nothing may have changed
            sel = set()
        elif err is not None:
            ctx.fail('C18/mod-axis-raises', c, {'exception': repr(err)})
            continue
        try:
            after = [seq.get_block(i + 1) for i in range(nb)]
        except Exception as e:
            ctx.fail('C18/mod-axis-decode-raises', c, {'exception': repr(e)})
            continue
        if dict(seq.block_durations) != durs or {k: tuple(int(x) for x in v) for k, v in seq.block_events.items()} != evtab:
            ctx.fail('C18/mod-axis-changes-block-table', c, {})
            continue
        bad = None
        for i, (b0, b1) in enumerate(zip(before, after)):
            for name in sorted(set(vars(b0)) | set(vars(b1))):
                v0, v1 = getattr(b0, name, None), getattr(b1, name, None)
                if name == 'g' + c['axis'] and v0 is not None and not shared:
                    if v1 is None:
                        bad = ('C18/mod-axis-gradient-lost', {'block': i + 1})
                        break
                    p0, p1 = gl.corners(v0, raster), gl.corners(v1, raster)
                    sc = amp_scale_of(v0) * max(1, abs(m))
                    for t in gl.sample_times([p0, p1], raster):
                        if not gl.close(gl.pw_eval(p1, t), m * gl.pw_eval(p0, t), sc):
                            bad = ('C18/mod-axis-waveform', {'block': i + 1, 't': float(t), 'after': float(gl.pw_eval(p1, t)),
                                                            'expected': float(m * gl.pw_eval(p0, t))})
                            break
                    if bad:
                        break
                    scaled = ('amplitude', 'area', 'flat_area') if v0.type == 'trap' else ('waveform', 'first', 'last')
                    dd = gl.same_obj(v0, v1, ignore=scaled)
                    if dd is not None:
                        bad = ('C18/mod-axis-other-field', dict(dd, block=i + 1))
                        break
                    for f in scaled:
                        a0 = [F(x) for x in np.atleast_1d(getattr(v0, f))]
                        a1 = [F(x) for x in np.atleast_1d(getattr(v1, f))]
                        fsc = sc * (Fraction(1, 100) if 'area' in f else 1)
                        if len(a0) != len(a1) or any(not gl.close(x * m, y, fsc) for x, y in zip(a0, a1)):
                            bad = ('C18/mod-axis-field-' + f, {'block': i + 1})
                            break
                    if bad:
                        break
                elif not gl.same_value(v0, v1):
                    bad = ('C18/mod-axis-touches-other-event', {'block': i + 1, 'attribute': name})
                    break
            if bad:
                break
        if bad:
            ctx.fail(bad[0], c, bad[1])
            continue
        if shared or err is not None:
            continue
        if c.get('bridged'):
            ctx.count('modaxis.with_gradients_connected_over_a_block_boundary')
        # every field of the decoded event on the axis equals scale_grad of the original decoded event
        for i, (b0, b1) in enumerate(zip(before, after)):
            v0, v1 = getattr(b0, 'g' + c['axis'], None), getattr(b1, 'g' + c['axis'], None)
            if v0 is None or bad:
                continue
            ref = pp.scale_grad(v0, float(m))
            for name in sorted(vars(ref)):
                a, b = getattr(ref, name), getattr(v1, name, None)
                if isinstance(a, (str, int)) and not isinstance(a, bool) or a is None:
                    ok = a == b
                else:
                    xa, xb = np.atleast_1d(np.asarray(a, dtype=float)), np.atleast_1d(np.asarray(b, dtype=float))
                    tol = 1e-9 * max(1.0, float(np.max(np.abs(xa))) if xa.size else 1.0) + 1e-7 * float(amp_scale_of(v0)) * abs(float(m)) * (name == 'waveform')
                    ok = xa.shape == xb.shape and bool(np.all(np.abs(xa - xb) <= tol))
                if not ok:
                    bad = ('C18/mod-axis-differs-from-scale-grad-' + name,
                           {'block': i + 1, 'scale_grad': repr(a)[:80], 'decoded_after': repr(b)[:80], 'factor': float(m)})
                    break
        if bad:
            ctx.fail(bad[0], c, bad[1])
            continue
        # the rescaled sequence must accept its own blocks again (block-boundary continuity uses first / last)
        for i in range(nb):
            try:
                seq.set_block(i + 1, after[i])
            except Exception as e:
                bad = ('C18/mod-axis-set-block-of-own-block-raises', {'block': i + 1, 'exception': repr(e)[:200]})
                break
            again = seq.get_block(i + 1)
            for ch in gl.CHN:
                g0, g1 = getattr(after[i], 'g' + ch, None), getattr(again, 'g' + ch, None)
                if (g0 is None) != (g1 is None):
                    bad = ('C18/mod-axis-set-block-changes-block', {'block': i + 1, 'channel': ch})
                    break
                if g0 is not None:
                    p0, p1 = gl.corners(g0, raster), gl.corners(g1, raster)
                    sc = amp_scale_of(g0)
                    if len(p0) != len(p1) or any(not gl.close(x[1], y[1], sc * 1000) or abs(x[0] - y[0]) > Fraction(1, 10 ** 12)
                                                 for x, y in zip(p0, p1)):
                        bad = ('C18/mod-axis-set-block-changes-block', {'block': i + 1, 'channel': ch})
                        break
            if bad:
                break
        if bad:
            ctx.fail(bad[0], c, bad[1])


# ------------------------------------------------------------------------------------------------
# stream: events registered with a Sequence (they carry library ids); outputs go to add_block and are decoded again
def gen_zero_ended(rng, sysd, ch):
    k = rng.random()
    g = gen_trap(rng, sysd) if k < 0.5 else gen_ext(rng, sysd, zero_ends=True) if k < 0.8 else \
        gen_arb(rng, sysd, zero_ends=True)
    return dict(g, ch=ch)


def gen_registered_cases(rng, n):
    cs = []
    for i in range(n):
        sysd = gen_sys(rng)
        op = rng.choice(['scale', 'scale', 'align', 'align', 'align', 'splitat', 'split3'])
        c = {'stream': 'registered', 'op': op, 'sys': sysd}
        if op == 'scale':
            c['g'] = gen_zero_ended(rng, sysd, rng.choice(gl.CHN))
            c['k'] = rng.choice(FACTORS) if rng.random() < 0.8 else rng.uniform(-3, 3)
        elif op == 'align':
            evs = []
            if rng.random() < 0.5:
                evs.append({'kind': 'rf', 'flip': 0.5, 'dur': rng.randint(10, 300) * 1e-5, 'delay': rng.choice([0.0, 1e-4])})
            if rng.random() < 0.5:
                evs.append({'kind': 'adc', 'num': rng.choice([16, 64]), 'dwell': rng.choice([1e-5, 4e-6]),
                            'delay': rng.choice([0.0, 2e-5])})
            for ch in gl.CHN:
                if rng.random() < 0.6:
                    evs.append(gen_zero_ended(rng, sysd, ch))
            if not evs or rng.random() < 0.3:
                evs.append({'kind': 'delay', 'delay': rng.randint(1, 400) * 1e-5})
            rng.shuffle(evs)
            c['events'] = [(rng.choice(['left', 'center', 'right']), e) for e in evs]
        elif op == 'splitat':
            g = gen_trap(rng, sysd) if rng.random() < 0.6 else gen_ext(rng, sysd)
            c['g'] = g
            ke = g['k'][0] + total_k(g)
            c['K'] = rng.randint(1, max(1, ke - 1))
        else:
            c['g'] = gen_trap(rng, sysd, triangle=False)
        cs.append(c)
    return cs


def run_registered(ctx, cases):
    import pypulseq as pp
    for c in cases:
        system = gl.make_system(c['sys'])
        raster = c['sys']['raster']
        seq = pp.Sequence(system)
        op = c['op']
        ctx.count('registered.' + op)
        try:
            if op == 'align':
                evs = [build_event(d, system) for _, d in c['events']]
                gl.register_events(seq, evs)
                kwargs = {}
                for (sp, _), e in zip(c['events'], evs):
                    kwargs.setdefault(sp, []).append(e)
                ins = evs
                outs = list(pp.align(**kwargs))
            else:
                g = gl.build_grad(c['g'], system)
                gl.register_events(seq, [g])
                ins = [g]
                if op == 'scale':
                    outs = [pp.scale_grad(g, c['k'])]
                elif op == 'splitat':
                    outs = list(pp.split_gradient_at(g, c['K'] * raster, system))
                else:
                    outs = list(pp.split_gradient(g, system))
        except Exception as e:
            ctx.evaluated(('registered', str(c)), nontrivial=False)
            if op in ('scale', 'align'):
                ctx.fail('C18/registered-%s-raises' % op, c, {'exception': repr(e)})
            continue
        ctx.evaluated(('registered', str(c)))
        st = gl.stale_id(ins, outs)
        if st is not None:
            # the result is a new event; with the id of the input, add_block stores the INPUT event instead
            ctx.fail('C18/%s-keeps-library-id' % ('split' if op.startswith('split') else op), c,
                     {'output_index': st[0], 'id': repr(st[1]), 'kind': getattr(outs[st[0]], 'type', '?')})
            continue
        if op.startswith('split'):
            continue            # the parts start/end away from zero: not addable on their own
        try:
            seq.add_block(*outs)
        except Exception as e:
            ctx.fail('C18/registered-%s-add-block-raises' % op, c, {'exception': repr(e)})
            continue
        sc = Fraction(1)
        for o in outs:
            if getattr(o, 'type', None) in ('grad', 'trap'):
                sc = max(sc, amp_scale_of(o))
        d = gl.stored_differs(seq, 1, outs, raster, sc)
        if d is not None:
            ctx.fail('C18/%s-stored-block' % op, c, d)


# ------------------------------------------------------------------------------------------------
def corpus():
    s = {'raster': 1e-5, 'max_grad': MAXG, 'max_slew': MAXS}
    t = {'kind': 'trap', 'ch': 'x', 'amp': 100000.0, 'rise': 2e-5, 'flat': 1e-3, 'fall': 2e-5, 'delay': 5e-5,
         'k': [5, 2, 100, 2]}
    e = {'kind': 'ext', 'ch': 'y', 'times': [0.0, 1e-4, 3e-4, 4e-4], 'amps': [0.0, 1e4, 2e4, 0.0], 'delay': 0.0,
         'k': [0, 0, 10, 30, 40]}
    cs = [
        {'stream': 'scale', 'sys': s, 'g': e, 'k': 2.0},                                    # FIX-6
        {'stream': 'scale', 'sys': s, 'g': dict(t, id=3), 'k': -1.0},
        {'stream': 'splitat', 'sys': s, 'g': t, 'K': 15, 'tp': 15e-5},                      # FIX-7
        {'stream': 'splitat', 'sys': s, 'g': t, 'K': 2, 'tp': 2e-5},                        # FIX-8
        {'stream': 'splitat', 'sys': s, 'g': t, 'K': 6, 'tp': 6e-5},
        {'stream': 'splitat', 'sys': s, 'g': t, 'K': 109, 'tp': 109e-5},
        {'stream': 'splitat', 'sys': s, 'g': e, 'K': 20, 'tp': 2e-4},
        {'stream': 'split3', 'sys': s, 'g': t},
        {'stream': 'align', 'sys': dict(s, ringdown=2e-5, rf_dead=1e-4, adc_dead=0.0), 'groups': [
            {'spec': 'center', 'single': False, 'events': [
                {'kind': 'trap', 'ch': 'x', 'amp': 1e5, 'rise': 1e-4, 'flat': 2e-4, 'fall': 1e-4, 'delay': 1e-4},
                {'kind': 'trap', 'ch': 'y', 'amp': 1e5, 'rise': 1e-4, 'flat': 1e-3, 'fall': 1e-4, 'delay': 0.0}]}]},  # FIX-10
        {'stream': 'modaxis', 'sys': dict(s, ringdown=0.0, rf_dead=0.0, adc_dead=0.0), 'blocks': [
            [dict(t, delay=0.0), dict(e)], [dict(t, ch='z', amp=5e4, delay=0.0)]], 'axis': 'x', 'flip': True, 'mod': -1,
         'cache': True, 'warm': True, 'twice': False},                                      # FIX-11
        # fixed: align kept the library id of registered events, add_block then stored the input with its old delay
        {'stream': 'registered', 'op': 'align', 'sys': dict(s, ringdown=0.0, rf_dead=0.0, adc_dead=0.0), 'events': [
            ['right', {'kind': 'trap', 'ch': 'y', 'amp': 1e5, 'rise': 1e-4, 'flat': 8e-4, 'fall': 1e-4, 'delay': 0.0}],
            ['right', {'kind': 'trap', 'ch': 'z', 'amp': 5e4, 'rise': 1e-4, 'flat': 28e-4, 'fall': 1e-4, 'delay': 0.0}],
            ['right', {'kind': 'adc', 'num': 64, 'dwell': 1e-5, 'delay': 0.0}]]},
    ]
    return cs


RUNNERS_BY_STREAM = {'registered': run_registered, 'scale': run_scale, 'split3': run_split3, 'splitat': run_splitat, 'align': run_align,
                     'modaxis': run_modaxis}


def run_cases(ctx, cases, chunk=400):
    by = {}
    for c in cases:
        by.setdefault(c['stream'], []).append(c)
    for s, cs in by.items():
        for j in range(0, len(cs), chunk):
            if ctx.out_of_time():
                ctx.notes.append('time budget reached in stream %s after %d cases' % (s, j))
                break
            RUNNERS_BY_STREAM[s](ctx, cs[j:j + chunk])


def run(ctx):
    big = ctx.tier == 'thorough'
    rounds = 25 if big else 1
    run_cases(ctx, corpus() + [KF9_CASE, TRIANGLE_CASE])
    # the thorough tier (also used, time-boxed, when the source of a transcribed function changed) repeats the quick
    # mix of ALL streams with fresh random streams, so that a time budget never starves the later streams
    for rnd in range(rounds):
        if ctx.out_of_time():
            ctx.notes.append('time budget reached after %d of %d rounds' % (rnd, rounds))
            break
        sfx = '' if rnd == 0 else '#%d' % rnd
        cases = []
        cases += gen_modaxis_cases(ctx.rng('modaxis' + sfx), 200)
        cases += gen_registered_cases(ctx.rng('registered' + sfx), 200)
        cases += gen_scale_cases(ctx.rng('scale' + sfx), 400)
        cases += gen_split3_cases(ctx.rng('split3' + sfx), 300)
        cases += gen_splitat_cases(ctx.rng('splitat' + sfx), 130, 24 if not big else 40)
        cases += gen_splitat_special(ctx.rng('splitat-special' + sfx), 120)
        cases += gen_align_cases(ctx.rng('align' + sfx), 450)
        if rnd == 0:
            for i, c in enumerate(cases):
                if i % 531 == 7:
                    ctx.sample(c)
        run_cases(ctx, cases)


def replay(ctx, case):
    n0 = len(ctx.failures)
    RUNNERS_BY_STREAM[case['stream']](ctx, [case])
    return {'stream': case['stream'], 'oracle_failures': [f['signature'] for f in ctx.failures[n0:]],
            'mismatches': ctx.mismatches[-3:]}
