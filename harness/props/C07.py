"""C07 — block durations and the block timeline are consistent everywhere."""
import copy
import math
import os
import re
import tempfile
import warnings
from fractions import Fraction
from types import SimpleNamespace

import numpy as np

import timinggen as tg
from common import D, F, Toks, qtok

ID = 'C07'
GEN_SECTIONS = ['GenTiming', 'FP_timeline', 'FP_get_block']
COQ_TARGETS = ['Props/C07.vo']
EXTRACT_TARGETS = ['Extract/Ex_timing.vo']
RUNNER = 'timing'
LEVEL = 'proof'
MANIFEST = {
    'text': "Theorems (Coq, all event lists / block lists): the duration accumulated by set_block (end-time table re-read "
            "from block.py on every run) is the latest end time over its arguments with the end times of the property text, "
            "equals calc_duration of the same events (table re-read from calc_duration.py) and is returned unchanged by "
            "calc_duration of the decoded block, for own-system events; the curr_dur accumulators of adc_times, rf_times and "
            "waveforms (and the cumsum-minus-own-duration start of their time_range variants) visit exactly the prefix sums "
            "of the stored durations; duration(), TotalDuration and the calculate_kspace total are that same sum; the "
            "[BLOCKS] integer times the block raster reproduces an on-raster duration and re-read durations give the same prefix "
            "sums; the time_range variants of adc_times / rf_times / waveforms return a contiguous segment of the full result at "
            "the same block starts; OwnArgs follows from the constructors' guarantees; for every history of set_block / add_block "
            "and read() on one object the two block tables keep the same keys in the same order and duration() equals "
            "sum(block_durations) (false for a merging read: witness). The extracted model and an "
            "exact-Fraction oracle are run against add_block/set_block histories, write+read round trips and every "
            "consumer's time axis on ~450 (quick) sequences over 8 raster families.",
    'note': 'Trusted: Coq kernel; translator patterns (block.py, calc_duration.py, sequence.py accumulation statements, '
            'write_seq.py); extraction + driver; binary64 sums are outside the model (tolerance 1e-9*scale+1e-12, three '
            'orders below the smallest raster); RF centre (calc_rf_center) and the corner times inside one gradient are taken '
            'from the implementation — only the block offsets are claimed here (waveform content is C08).',
    'technique': 'Rocq/Coq proof over a Gallina model with source-derived end-time tables + extraction-based correspondence',
}
BUDGET = {'quick': 80, 'thorough': 1500}
ESCALATE_BUDGET = 150
SEARCH_BUDGET = 120
MISMATCH_BUDGET = 0.0
RULE = ('sequences of 1-9 blocks of compatible raster-aligned events (block/sinc RF with use tags, trapezoids incl. triangles, '
        'extended trapezoids also with tt[0]>0, arbitrary gradients, ADCs, triggers, labels, delays, plain-float delays) on 5 '
        'raster families (8 in total, three with pairwise different rasters) with random dead/ring-down times; 50% of the histories '
        'overwrite 1-3 blocks with set_block AFTER decoding consumers warmed the block cache (new events, or the same events / the '
        'same pre-registered ids / a pure delay with only the padding changed); event counters of duration(); 30% of the sequences are created with set_block under gapped, non-ascending block numbers '
        '(timeline = insertion order); padded '
        'sequences are written and re-read. Oracle (exact Fractions): stored duration == latest end over the input events == '
        'pp.calc_duration(*events) == pp.calc_duration(get_block); duration() total and count; every ADC sample time, RF '
        'centre time and gradient corner time of waveforms_and_times / rf_times / adc_times (also with time_range windows that start in the first block, at 0 and at random, incl. waveforms(time_range)) and '
        'the t_* outputs of calculate_kspace == prefix sum of the durations + the in-block time; TotalDuration and the '
        '[BLOCKS] column of the written file; durations after re-reading, also into an object created for another block raster (x2, /2, x1.5, x4) and written again: the new file\'s [BLOCKS] integers x its BlockDurationRaster and TotalDuration must still be the stored durations; a USED object (other / more blocks, gapped numbers, decoded once) reads the file and must then be indistinguishable from a fresh object that read it (block tables, duration(), sum(block_durations), time axes, time_range windows, calculate_kspace, rewritten file text); block_events / block_durations of every object must carry the same keys in the same order with duration() == sum(block_durations). One case in nine is a file of the older format revision 1.3.1 / 1.3.2 written by the harness (blocks reference [DELAYS] entries shorter or longer than the events; trapezoids, ADCs, block pulses): stored duration must be the latest of the delay entry and every event end computed from the numbers in the file, and all the other checks apply to the loaded object. Correspondence: the block-table model over the same history,  set_block_duration, calc_duration, '
        'starts, adc/rf times, gradient piece ends and the [BLOCKS] integers of the extracted Coq model. '
        'non-trivial = at least 2 blocks with >= 2 timed events each or an overwritten block')
TRUSTED = ['calc_rf_center and the in-event time vectors (rf.t, grad.tt) are taken from the implementation',
           'binary64 accumulation error is absorbed by the tolerance 1e-9*scale + 1e-12 s']
ASSUMPTIONS = ['all generated times are integer multiples of their raster (the property quantifies over raster-aligned '
               'delays and lengths)']


INT_US = ('siemens', 'ge', 'g20', 'b10g5', 'b20g10')     # raster families whose event times are whole microseconds


def tol(x):
    return abs(Fraction(x)) * Fraction(1, 10 ** 9) + Fraction(1, 10 ** 12)


def close(a, b, scale=None):
    return abs(Fraction(a) - Fraction(b)) <= tol(scale if scale is not None else b)


def nearest_dist(sorted_arr, x):
    if len(sorted_arr) == 0:
        return float('inf')
    j = int(np.searchsorted(sorted_arr, x))
    c = [abs(sorted_arr[k] - x) for k in (j - 1, j) if 0 <= k < len(sorted_arr)]
    return min(c)


WARM = ['get_block', 'get_block', 'waveforms', 'check_timing', 'calc_duration', 'none']


def gen_case(rng):
    import pypulseq as pp
    s = tg.gen_system(rng)
    opts = tg.make_opts(s)
    nb = rng.randint(1, 9)
    padded = rng.random() < 0.6
    blocks = [tg.gen_block(rng, s, opts, pad=padded or rng.random() < 0.3, p_rf=0.45, p_g=0.45, p_adc=0.4, p_empty=0.12, p_solo=0.25)
              for _ in range(nb)]
    for b in blocks:
        # events handed over by pre-registered library id (set_block then takes the id and registers nothing)
        b['ids'] = rng.random() < 0.3
    case = {'sys': s, 'alt': None, 'blocks': blocks, 'set_blocks': [], 'padded': padded}
    if rng.random() < 0.3:
        # blocks created with set_block under arbitrary (gapped, non-ascending) block numbers: the timeline is the
        # order in which the blocks were put into the sequence, not the numerical order of their ids
        order = rng.sample(range(1, nb + 6), nb)
        if nb >= 2 and order == sorted(order):
            order[0], order[-1] = order[-1], order[0]
        case['order'] = order
    if rng.random() < 0.5:
        for _ in range(rng.randint(1, 3)):
            idx = rng.randint(1, nb)
            warm = [rng.choice(WARM) for _ in range(rng.randint(1, 2))]
            if rng.random() < 0.5:
                # same events, only the padding delay (hence only the duration) changes
                cur = blocks[idx - 1]
                for e2 in case['set_blocks']:
                    if e2[0] == idx and 'events' in e2[1]:
                        cur = e2[1]
                built = [tg.build_event(e, opts, opts) for e in cur['events'] if e['k'] not in ('delay', 'label')]
                d = F(pp.calc_duration(*built)) if built else Fraction(0)
                br = F(s['block'])
                k = max(1, math.ceil(d / br - Fraction(1, 10 ** 6))) + rng.choice([2, 3, 20])
                case['set_blocks'].append([idx, {'repad': tg.fl(k * br)}, warm])
            else:
                case['set_blocks'].append([idx, tg.gen_block(rng, s, opts, pad=padded or rng.random() < 0.3, p_empty=0.1), warm])
    if not padded and rng.random() < 0.5:
        # a plain float as block argument (explicit delay), raster-aligned
        b = rng.choice(blocks)
        b['float'] = tg.fl(rng.randint(1, 400) * F(s['block']))
    return case


def final_blocks(case):
    fb = [copy.deepcopy(b) for b in case['blocks']]
    for ent in case['set_blocks']:
        idx, b = ent[0], ent[1]
        if 'repad' in b:
            nb_ = copy.deepcopy(fb[idx - 1])
            nb_['events'] = [e for e in nb_['events'] if e['k'] != 'delay'] + [{'k': 'delay', 'delay': b['repad'], 'alt': False, 'set': {}}]
            nb_.pop('float', None)
            fb[idx - 1] = nb_
        else:
            fb[idx - 1] = copy.deepcopy(b)
    return fb


def give_ids(seq, evs):
    """register the events first and hand them to add_block / set_block by id"""
    for e in evs:
        if isinstance(e, float) or hasattr(e, 'id'):
            continue
        if e.type == 'rf':
            e.id = seq.register_rf_event(e)[0]
        elif e.type == 'grad':
            e.id = seq.register_grad_event(e)[0]
        elif e.type == 'trap':
            e.id = seq.register_grad_event(e)
        elif e.type == 'adc':
            e.id = seq.register_adc_event(e)


def warm_up(seq, actions):
    """consumers that decode blocks (and fill the block cache) before a block is overwritten"""
    import pypulseq as pp
    for a in actions:
        try:
            if a == 'get_block':
                for i in seq.block_events:
                    seq.get_block(i)
            elif a == 'waveforms':
                seq.waveforms_and_times()
            elif a == 'check_timing':
                seq.check_timing()
            elif a == 'calc_duration':
                for i in seq.block_events:
                    pp.calc_duration(seq.get_block(i))
        except Exception:  # noqa: BLE001
            pass


def build(case):
    import pypulseq as pp
    opts = tg.make_opts(case['sys'])
    seq = pp.Sequence(opts)
    inputs = {}
    with warnings.catch_warnings():
        warnings.simplefilter('ignore')
        for i, b in enumerate(case['blocks']):
            evs = [tg.build_event(e, opts, opts) for e in b['events']]
            if b.get('ids'):
                give_ids(seq, evs)
            if b.get('float') is not None:
                evs.append(float(b['float']))
            if case.get('order'):
                seq.set_block(case['order'][i], *evs)
                inputs[case['order'][i]] = evs
            else:
                seq.add_block(*evs)
                inputs[i + 1] = evs
        for ent in case['set_blocks']:
            idx, b = ent[0], ent[1]
            if case.get('order'):
                idx = case['order'][idx - 1]           # position in the timeline -> block number
            warm_up(seq, ent[2] if len(ent) > 2 else [])
            if 'repad' in b:
                # the very same event objects (with their ids when they have some) and another explicit delay
                evs = [e for e in inputs[idx] if not isinstance(e, float) and e.type != 'delay']
                evs.append(SimpleNamespace(type='delay', delay=float(b['repad'])))
            else:
                evs = [tg.build_event(e, opts, opts) for e in b['events']]
                if b.get('ids'):
                    give_ids(seq, evs)
            seq.set_block(idx, *evs)
            inputs[idx] = evs
    return seq, inputs


def input_arg(e):
    """model argument (exact rationals) of an input event / float"""
    if isinstance(e, float):
        return 'D ' + qtok(F(e))
    t = e.type
    if t == 'rf':
        d = {'kind': 'rf', 'delay': F(e.delay), 'shape_dur': F(e.shape_dur), 'ringdown_time': F(e.ringdown_time),
             'dead_time': F(e.dead_time), 't_last': F(e.t[-1])}
    elif t == 'grad':
        d = {'kind': 'grad', 'delay': F(e.delay), 'shape_dur': F(e.shape_dur), 't_last': F(e.tt[-1]), 't_first': F(e.tt[0])}
    elif t == 'trap':
        d = {'kind': 'trap', 'delay': F(e.delay), 'rise_time': F(e.rise_time), 'flat_time': F(e.flat_time), 'fall_time': F(e.fall_time)}
    elif t == 'adc':
        d = {'kind': 'adc', 'delay': F(e.delay), 'dwell': F(e.dwell), 'num_samples': int(e.num_samples), 'dead_time': F(e.dead_time)}
    elif t == 'delay':
        d = {'kind': 'delay', 'delay': F(e.delay)}
    elif t in ('output', 'trigger'):
        d = {'kind': 'trig', 'delay': F(e.delay), 'duration': F(e.duration)}
    else:
        d = {'kind': 'label'}
    return 'E ' + tg.ev_tok(d)


def input_end(e):
    """latest end of one input event per the property text (exact)"""
    if isinstance(e, float):
        return F(e)
    t = e.type
    if t == 'rf':
        return F(e.delay) + F(e.shape_dur) + F(e.ringdown_time)
    if t == 'grad':
        return F(e.delay) + F(e.shape_dur)
    if t == 'trap':
        return F(e.delay) + F(e.rise_time) + F(e.flat_time) + F(e.fall_time)
    if t == 'adc':
        return F(e.delay) + int(e.num_samples) * F(e.dwell) + F(e.dead_time)
    if t == 'delay':
        return F(e.delay)
    if t in ('output', 'trigger'):
        return F(e.delay) + F(e.duration)
    return None


def expected_axes(seq, ds, starts):
    """independent rendering of the time points every consumer must produce (exact)"""
    gr = F(seq.grad_raster_time)
    adc, rfx, rfr = [], [], []
    wave = {'gx': [], 'gy': [], 'gz': []}     # list of pieces (lists of times)
    for d, st in zip(ds, starts):
        a = d['adc']
        if a is not None:
            adc += [st + a['delay'] + (Fraction(2 * k + 1, 2)) * a['dwell'] for k in range(a['num_samples'])]
        r = d['rf']
        if r is not None:
            t = st + r['delay'] + r['center']
            if r['use'] == 0:
                rfx.append(t)
            elif r['use'] == 1:
                rfr.append(t)
        b = seq.get_block(d['id'])
        for ch in ('gx', 'gy', 'gz'):
            g = d[ch]
            if g is None:
                continue
            if g['kind'] == 'trap':
                t0 = st + g['delay']
                if abs(g['flat_time']) > tg.EPS:
                    wave[ch].append([t0, t0 + g['rise_time'], t0 + g['rise_time'] + g['flat_time'],
                                     t0 + g['rise_time'] + g['flat_time'] + g['fall_time']])
                elif abs(g['rise_time']) > tg.EPS and abs(g['fall_time']) > tg.EPS:
                    wave[ch].append([t0, t0 + g['rise_time'], t0 + g['rise_time'] + g['fall_time']])
            else:
                tt = [F(v) for v in getattr(b, ch).tt]
                if g['regular']:
                    wave[ch].append([st + g['delay']] + [st + g['delay'] + v for v in tt] + [st + g['delay'] + tt[-1] + gr / 2])
                else:
                    wave[ch].append([st + g['delay'] + v for v in tt])
    axes = {}
    for ch, pieces in wave.items():
        ax = []
        for p in pieces:
            if ax and not (ax[-1] + tg.EPS < p[0]):
                p = p[1:]           # a piece that starts where the previous one ended shares that point
            ax += p
        axes[ch] = ax
    return adc, rfx, rfr, axes, wave


def cmp_list(name, got, exp, fails, scale):
    if len(got) != len(exp):
        fails.append((name + '-count', {'got': len(got), 'expected': len(exp)}))
        return
    for i, (a, b) in enumerate(zip(got, exp)):
        if not close(F(a), b, scale):
            fails.append((name, {'index': i, 'got': float(a), 'expected': float(b), 'diff': float(F(a) - b)}))
            return


def file_facts(path):
    txt = open(path).read()
    m = re.search(r'^TotalDuration\s+(\S+)', txt, flags=re.M)
    total = Fraction(m.group(1)) if m else None
    m = re.search(r'^BlockDurationRaster\s+(\S+)', txt, flags=re.M)
    bdr = Fraction(m.group(1)) if m else None
    cols = {}
    sec = txt.split('[BLOCKS]')[1].split('[')[0]
    for line in sec.strip().split('\n'):
        p = line.split()
        if len(p) >= 8 and not line.lstrip().startswith('#'):
            cols[int(p[0])] = int(p[1])
    return total, bdr, cols


def evaluate(ctx, case, do_kspace=False):
    import pypulseq as pp
    exp_end = None
    try:
        if case.get('legacy'):
            # a file of the older format revision (blocks reference [DELAYS], no duration column), written by the harness
            text, exp_end = tg.legacy_text(case)
            with tempfile.TemporaryDirectory(prefix='pvC07l') as dl:
                lf = os.path.join(dl, 'legacy.seq')
                open(lf, 'w').write(text)
                seq = pp.Sequence(tg.make_opts(case['sys']))
                with warnings.catch_warnings():
                    warnings.simplefilter('ignore')
                    seq.read(lf)
            inputs = {}
        else:
            seq, inputs = build(case)
    except Exception as e:  # noqa: BLE001
        ctx.fail('C07/does-not-build' + ('-legacy' if case.get('legacy') else ''), case, {'exception': repr(e)})
        return None
    fails = []
    ids = list(seq.block_events)
    stored = {i: F(seq.block_durations[i]) for i in ids}
    scale = sum(stored.values()) + Fraction(1, 1000)
    # 1. stored duration == latest end over the input events == calc_duration (events) == calc_duration (decoded block)
    cd_in, cd_dec = {}, {}
    if exp_end is not None and ids != sorted(exp_end):
        fails.append(('legacy-block-ids', {'got': ids, 'expected': sorted(exp_end)}))
    for i in ids:
        if exp_end is not None:
            # event-level oracle computed from the numbers in the file: latest of the delay entry and every event end
            if i in exp_end and not close(stored[i], exp_end[i], scale):
                fails.append(('legacy-stored-vs-max-end', {'block': i, 'stored': float(stored[i]), 'expected': float(exp_end[i]),
                                                           'version': case['version']}))
            cd_dec[i] = F(pp.calc_duration(seq.get_block(i)))
            if not close(cd_dec[i], stored[i], scale):
                fails.append(('calc_duration-decoded-vs-stored', {'block': i, 'calc': float(cd_dec[i]), 'stored': float(stored[i])}))
            continue
        ends = [x for x in (input_end(e) for e in inputs[i]) if x is not None]
        exp = max(ends + [Fraction(0)])
        if not close(stored[i], exp, scale):
            fails.append(('stored-vs-max-end', {'block': i, 'stored': float(stored[i]), 'expected': float(exp)}))
        evs = [e for e in inputs[i] if not isinstance(e, float)]
        cd_in[i] = F(pp.calc_duration(*evs)) if evs else Fraction(0)
        exp_ev = max([x for x in (input_end(e) for e in evs) if x is not None] + [Fraction(0)])
        if not close(cd_in[i], exp_ev, scale):
            fails.append(('calc_duration-events', {'block': i, 'calc': float(cd_in[i]), 'expected': float(exp_ev)}))
        cd_dec[i] = F(pp.calc_duration(seq.get_block(i)))
        if not close(cd_dec[i], stored[i], scale):
            fails.append(('calc_duration-decoded-vs-stored', {'block': i, 'calc': float(cd_dec[i]), 'stored': float(stored[i])}))
    totals_agree(seq, 'built-object', fails)
    # 2. duration()
    total = sum(stored.values())
    dur, nblk, evcount = seq.duration()
    if nblk != len(ids) or not close(F(dur), total, scale):
        fails.append(('duration()', {'got': [float(dur), nblk], 'expected': [float(total), len(ids)]}))
    # 3. time axes
    starts, acc = [], Fraction(0)
    for i in ids:
        starts.append(acc)
        acc += stored[i]
    ds = [tg.decode(seq, i) for i in ids]
    ds_model = ds
    adc, rfx, rfr, axes, wave = expected_axes(seq, ds, starts)
    try:
        wd, tfp_e, tfp_r, t_adc, _ = seq.waveforms_and_times()
        cmp_list('adc_times', list(t_adc), adc, fails, scale)
        cmp_list('rf_times-excitation', list(tfp_e[0]), rfx, fails, scale)
        cmp_list('rf_times-refocusing', list(tfp_r[0]), rfr, fails, scale)
        for j, ch in enumerate(('gx', 'gy', 'gz')):
            cmp_list('waveforms-' + ch, list(wd[j][0]), axes[ch], fails, scale)
    except Exception as e:  # noqa: BLE001
        fails.append(('waveforms_and_times-raises', {'exception': repr(e)}))
        wd = None
    tr_results = []
    # time_range variants: every block that overlaps the window is returned, on the SAME time axis as without a window
    if float(total) > 0:
        r = ctx_rng(case)
        T = float(total)
        first = float(stored[ids[0]])
        a = T * r.uniform(0.05, 0.6)
        wins = [[0.0, T * r.uniform(0.2, 1.0)], [min(first, T) * r.choice([1e-3, 0.3]), T * r.uniform(0.3, 1.0)],
                [0.0, first * 0.5], [a, a + T * r.uniform(0.05, 0.4)], [a, T]]
        ftol = float(tol(scale))
        for a, b in wins[:5 if len(ids) >= 2 else 3]:
            try:
                ta, _ = seq.adc_times(time_range=[a, b])
                te, _, tr_, _ = seq.rf_times(time_range=[a, b])
                wdt = seq.waveforms(time_range=[a, b])
                series = [('adc', list(ta), adc), ('rf-exc', list(te), rfx), ('rf-ref', list(tr_), rfr)]
                for j, ch in enumerate(('gx', 'gy', 'gz')):
                    series.append(('wave-' + ch, list(np.real(wdt[j][0])), axes[ch]))
                for name, got, full in series:
                    gv = np.sort(np.asarray(got, dtype=float))
                    fv = np.sort(np.asarray([float(x) for x in full], dtype=float))
                    inside = fv[(fv > a + 4 * ftol) & (fv < b - 4 * ftol)]
                    miss = [x for x in inside if nearest_dist(gv, x) > ftol]
                    if miss:
                        fails.append(('time_range-' + name + '-missing', {'time': miss[0], 'range': [a, b]}))
                    shifted = [g for g in gv if nearest_dist(fv, g) > ftol]
                    if shifted:
                        fails.append(('time_range-' + name + '-shifted', {'time': shifted[0], 'range': [a, b]}))
                tr_results.append({'a': a, 'b': b, 'adc': list(ta), 'rfx': list(te), 'rfr': list(tr_),
                                   'wave': [list(np.real(wdt[j][0])) for j in range(3)]})
                ctx.count('time_range.windows')
            except Exception as e:  # noqa: BLE001
                fails.append(('time_range-raises', {'exception': repr(e), 'range': [a, b]}))
    # calculate_kspace time outputs
    if do_kspace:
        try:
            with warnings.catch_warnings():
                warnings.simplefilter('ignore')
                _, _, kx, kr, ka = seq.calculate_kspace()
            cmp_list('kspace-t_excitation', list(kx), rfx, fails, scale)
            cmp_list('kspace-t_refocusing', list(kr), rfr, fails, scale)
            cmp_list('kspace-t_adc', list(ka), adc, fails, scale)
            ctx.count('kspace.checked')
        except Exception as e:  # noqa: BLE001
            ctx.count('kspace.raises:' + type(e).__name__)
    # 4./5. file
    cols = None
    if case['padded']:
        with tempfile.TemporaryDirectory(prefix='pvC07') as dname:
            fn = os.path.join(dname, 'a.seq')
            try:
                with warnings.catch_warnings():
                    warnings.simplefilter('ignore')
                    seq.write(fn, create_signature=False)
                ftotal, bdr, cols = file_facts(fn)
                br = F(seq.block_duration_raster)
                if ftotal is None or abs(ftotal - total) > abs(total) * Fraction(6, 10 ** 10) + Fraction(1, 10 ** 12):
                    fails.append(('TotalDuration', {'file': str(ftotal), 'expected': float(total)}))
                if sorted(cols) != sorted(ids):
                    fails.append(('BLOCKS-ids', {'file': sorted(cols), 'expected': sorted(ids)}))
                else:
                    for i in ids:
                        if not close(cols[i] * br, stored[i], scale):
                            fails.append(('BLOCKS-duration', {'block': i, 'column': cols[i], 'stored': float(stored[i])}))
                            break
                s2 = pp.Sequence(tg.make_opts(case['sys']))
                with warnings.catch_warnings():
                    warnings.simplefilter('ignore')
                    s2.read(fn)
                ids2 = list(s2.block_events)
                if case['sys']['family'] not in INT_US:
                    # the 1.4 file format stores ADC / gradient delays as whole microseconds: event times of these
                    # raster families are not representable, so the re-read events are not the same events (C01's topic)
                    ctx.count('file.reread_skipped_non_integer_us')
                elif ids2 != ids:
                    fails.append(('reread-ids', {'got': ids2}))
                else:
                    for i in ids:
                        if not close(F(s2.block_durations[i]), stored[i], scale):
                            fails.append(('reread-duration', {'block': i, 'got': s2.block_durations[i], 'stored': float(stored[i])}))
                            break
                        c2 = F(pp.calc_duration(s2.get_block(i)))
                        if not close(c2, stored[i], scale):
                            fails.append(('reread-calc_duration', {'block': i, 'calc': float(c2), 'stored': float(stored[i])}))
                            break
                    d2, n2, _ = s2.duration()
                    if n2 != len(ids) or not close(F(d2), total, scale):
                        fails.append(('reread-duration()', {'got': [float(d2), n2]}))
                    ta2, _ = s2.adc_times()
                    cmp_list('reread-adc_times', list(ta2), adc, fails, scale)
                ctx.count('file.checked')
                # the same file loaded into an object that was created for ANOTHER block raster, and written again: the
                # durations, the BlockDurationRaster of the new file and its [BLOCKS] integers must still describe them
                if bdr is None:
                    # a sequence loaded from a legacy file carries no raster definitions, and write() adds none: the new
                    # file can only be read back with the same system (observation, reported; not a C07 clause)
                    ctx.count('file.written_without_BlockDurationRaster')
                else:
                    r2 = ctx_rng(case)
                    foreign = dict(case['sys'])
                    foreign['block'] = float(F(case['sys']['block']) * r2.choice([2, Fraction(1, 2), Fraction(3, 2), 4]))
                    s3 = pp.Sequence(tg.make_opts(foreign))
                    fn2 = os.path.join(dname, 'b.seq')
                    with warnings.catch_warnings():
                        warnings.simplefilter('ignore')
                        s3.read(fn)
                        if list(s3.block_events) == ids:
                            for i in ids:
                                if not close(F(s3.block_durations[i]), stored[i], scale):
                                    fails.append(('foreign-read-duration', {'block': i, 'got': s3.block_durations[i],
                                                                            'stored': float(stored[i]), 'object_raster': foreign['block']}))
                                    break
                            d3, n3, _ = s3.duration()
                            if n3 != len(ids) or not close(F(d3), total, scale):
                                fails.append(('foreign-read-duration()', {'got': [float(d3), n3], 'expected': float(total)}))
                        else:
                            fails.append(('foreign-read-ids', {'got': list(s3.block_events)}))
                        s3.write(fn2, create_signature=False)
                    ftotal3, bdr3, cols3 = file_facts(fn2)
                    if bdr3 is None or ftotal3 is None or abs(ftotal3 - total) > abs(total) * Fraction(6, 10 ** 10) + Fraction(1, 10 ** 12):
                        fails.append(('foreign-rewrite-TotalDuration', {'file': str(ftotal3), 'expected': float(total)}))
                    else:
                        for i in ids:
                            if i not in cols3 or not close(cols3[i] * bdr3, stored[i], scale):
                                fails.append(('foreign-rewrite-BLOCKS-duration', {
                                    'block': i, 'column': cols3.get(i), 'file_raster': float(bdr3), 'stored': float(stored[i]),
                                    'object_raster': foreign['block']}))
                                break
                    ctx.count('file.foreign_raster_roundtrip')
                # a USED object (already holding other / more blocks under other numbers, decoded once) reads the file:
                # afterwards it must be indistinguishable from a fresh object that read the same file, and all the places
                # that derive a total must agree with each other
                if ctx.tier != 'quick' or ctx_rng(case).random() < 0.6:
                    fails += reused_object_read(ctx, case, fn, s2, dname)
            except AssertionError as e:
                fails.append(('write-asserts', {'exception': repr(e)}))
            except Exception as e:  # noqa: BLE001
                fails.append(('file-raises', {'exception': repr(e)}))
    for name, detail in fails[:3]:
        ctx.fail('C07/' + name, case, detail)
    timed = [sum(1 for e in b['events'] if e['k'] != 'label') for b in final_blocks(case)]
    ctx.evaluated(('c07', repr(case['blocks']), repr(case['set_blocks']), repr(case['sys']), repr(case.get('lblocks'))),
                  nontrivial=sum(1 for t in timed if t >= 2) >= 2 or bool(case['set_blocks']) or bool(case.get('legacy')))
    ctx.count('family.' + case['sys']['family'])
    ctx.count('blocks.%s' % ('1' if len(ids) == 1 else '2-4' if len(ids) <= 4 else '5-9'))
    ctx.count('history.' + ('overwritten' if case['set_blocks'] else 'append-only'))
    ctx.count('padded.' + str(case['padded']))
    ctx.count('format.' + ('legacy-%d.%d.%d' % tuple(case['version']) if case.get('legacy') else '1.4'))
    ctx.count('numbering.' + ('arbitrary' if case.get('order') else 'add_block'))
    for d in ds:
        for k in ('rf', 'gx', 'gy', 'gz', 'adc'):
            if d[k] is not None:
                ctx.count('event.' + (d[k]['kind'] if k != 'rf' else 'rf'))
    return {'seq': seq, 'inputs': inputs, 'ids': ids, 'stored': stored, 'cd_in': cd_in, 'ds': ds, 'starts': starts, 'adc': adc,
            'rfx': rfx, 'rfr': rfr, 'wave': wave, 'wd': wd, 'cols': cols, 'total': total, 'scale': scale, 'failed': bool(fails),
            'ds_model': ds_model, 'legacy': bool(case.get('legacy')), 'tr': tr_results, 'evcount': [int(v) for v in evcount]}


TABLES = []      # pending block-table comparisons (filled by reused_object_read, drained by compare_tables)


def compare_tables(ctx):
    items, TABLES[:] = list(TABLES), []
    if not items or not ctx.model_available:
        return
    for t, out in zip(items, ctx.model([t['line'] for t in items])):
        parts = [Toks(x) for x in out.split('|')]
        mkeys = parts[0].list(parts[0].z)
        n = parts[1].int()
        mdurs = [(parts[1].z(), parts[1].q()) for _ in range(n)]
        mdur = parts[2].opt(parts[2].q)
        msum = parts[3].q()
        if mkeys != t['keys'] or mdurs != t['durs'] or (mdur is None) != (t['duration'] is None) or \
                (mdur is not None and not close(mdur, t['duration'], t['sum'])) or not close(msum, t['sum'], t['sum']):
            ctx.mismatch('block_tables', t['case'], {
                'model_keys': mkeys[:10], 'impl_keys': t['keys'][:10], 'model_n': len(mdurs), 'impl_n': len(t['durs']),
                'model_totals': [None if mdur is None else float(mdur), float(msum)],
                'impl_totals': [None if t['duration'] is None else float(t['duration']), float(t['sum'])]})


def totals_agree(seq, label, fails):
    """every place of one object that derives the block list / a total duration"""
    ev_ids, du_ids = list(seq.block_events), list(seq.block_durations)
    if ev_ids != du_ids:
        fails.append((label + '/block-tables-differ', {'block_events': ev_ids[:12], 'block_durations': du_ids[:12]}))
        return False
    d, n, _ = seq.duration()
    tot = sum(seq.block_durations.values())
    if n != len(du_ids) or abs(F(d) - F(tot)) > tol(F(tot)):
        fails.append((label + '/duration()-vs-sum(block_durations)', {'duration()': [float(d), n], 'sum': float(tot), 'blocks': len(du_ids)}))
        return False
    return True


def reused_object_read(ctx, case, fn, fresh, dname):
    import pypulseq as pp
    fails = []
    r = ctx_rng(case)
    opts = tg.make_opts(case['sys'])
    used = pp.Sequence(opts)
    nfile = len(fresh.block_events)
    extra = r.randint(1, 4)
    numbers = r.choice(['add', 'add', 'gapped'])
    with warnings.catch_warnings():
        warnings.simplefilter('ignore')
        for k in range(nfile + extra):
            b = tg.gen_block(r, case['sys'], opts, pad=True, p_rf=0.3, p_g=0.4, p_adc=0.3)
            evs = [tg.build_event(e, opts, opts) for e in b['events']]
            if numbers == 'add':
                used.add_block(*evs)
            else:
                used.set_block(3 * k + 2 + (nfile if k % 2 else 0), *evs)
        warm_up(used, [r.choice(WARM), 'get_block'])
        before = [(int(k), F(v)) for k, v in used.block_durations.items()]
        used.read(fn)
    # input and implementation side of the block-table model comparison (run in batch by compare_model)
    from common import ztok
    filetab = [(int(k), F(v)) for k, v in fresh.block_durations.items()]
    ops = ['S %s %s' % (ztok(k), qtok(v)) for k, v in before] + \
          ['R %d %s' % (len(filetab), ' '.join('%s %s' % (ztok(k), qtok(v)) for k, v in filetab))]
    try:
        idur = F(used.duration()[0])
    except Exception:  # noqa: BLE001
        idur = None
    TABLES.append({'line': 'timing.tables %d %s' % (len(ops), ' '.join(ops)), 'keys': [int(k) for k in used.block_events],
                   'durs': [(int(k), F(v)) for k, v in used.block_durations.items()], 'duration': idur,
                   'sum': F(sum(used.block_durations.values())), 'case': case})
    label = 'reused-object-read'
    if not totals_agree(used, label, fails):
        return fails
    totals_agree(fresh, 'fresh-read', fails)
    if list(used.block_events) != list(fresh.block_events):
        fails.append((label + '/block-ids', {'used': list(used.block_events)[:12], 'fresh': list(fresh.block_events)[:12]}))
        return fails
    if dict(used.block_durations) != dict(fresh.block_durations):
        fails.append((label + '/block_durations', {'used': list(used.block_durations.items())[:6], 'fresh': list(fresh.block_durations.items())[:6]}))
        return fails
    try:
        with warnings.catch_warnings():
            warnings.simplefilter('ignore')
            wu, eu, ru, au, _ = used.waveforms_and_times()
            wf, ef, rf_, af, _ = fresh.waveforms_and_times()
            same = np.array_equal(au, af) and np.array_equal(eu, ef) and np.array_equal(ru, rf_) and \
                all(np.array_equal(a, b) for a, b in zip(wu, wf))
            if not same:
                fails.append((label + '/time-axes', {'adc_equal': bool(np.array_equal(au, af))}))
            T = float(sum(fresh.block_durations.values()))
            if T > 0:
                first = float(next(iter(fresh.block_durations.values())))
                for a, b in ([0.0, T * r.uniform(0.2, 1.0)], [first * 0.5, T], [T * 0.4, T * 0.9]):
                    au2, _ = used.adc_times(time_range=[a, b])
                    af2, _ = fresh.adc_times(time_range=[a, b])
                    wu2 = used.waveforms(time_range=[a, b])
                    wf2 = fresh.waveforms(time_range=[a, b])
                    if not (np.array_equal(au2, af2) and all(np.array_equal(x, y) for x, y in zip(wu2, wf2))):
                        fails.append((label + '/time_range', {'range': [a, b], 'n_used': len(au2), 'n_fresh': len(af2)}))
                        break
                    # the windowed ADC times are a part of the un-windowed ones of the same object
                    if len(au2) and not set(np.round(au2, 12)).issubset(set(np.round(au, 12))):
                        fails.append((label + '/time_range-vs-full', {'range': [a, b]}))
                        break
            if len(fresh.block_events) <= 5 and r.random() < 0.3:
                ku = used.calculate_kspace()
                kf = fresh.calculate_kspace()
                if not (np.array_equal(ku[4], kf[4]) and np.array_equal(ku[1].shape, kf[1].shape)):
                    fails.append((label + '/calculate_kspace', {'t_adc_equal': bool(np.array_equal(ku[4], kf[4])),
                                                                'k_traj_shapes': [list(ku[1].shape), list(kf[1].shape)]}))
            fu, ff = os.path.join(dname, 'u.seq'), os.path.join(dname, 'f.seq')
            used.write(fu, create_signature=False)
            fresh.write(ff, create_signature=False)
        tu, _, cu = file_facts(fu)
        tf, _, cf = file_facts(ff)
        if tu != tf or cu != cf:
            fails.append((label + '/rewritten-file', {'TotalDuration': [str(tu), str(tf)], 'blocks_equal': cu == cf}))
        elif open(fu).read() != open(ff).read():
            fails.append((label + '/rewritten-file-text', {}))
    except Exception as e:  # noqa: BLE001
        fails.append((label + '/raises', {'exception': repr(e)}))
    ctx.count('file.reused_object_read')
    return fails


def ctx_rng(case):
    import hashlib
    import random
    h = hashlib.sha256(repr((case['sys'], len(case['blocks']))).encode()).digest()
    return random.Random(int.from_bytes(h[:8], 'big'))


def compare_model(ctx, items):
    lines, index = [], []
    for ci, (case, it) in enumerate(items):
        g = qtok(F(it['seq'].grad_raster_time))
        for i in ([] if it['legacy'] else it['ids']):
            args = [input_arg(e) for e in it['inputs'][i]]
            lines.append('timing.setdur %s %d %s' % (g, len(args), ' '.join(args)))
            index.append((ci, 'setdur', i))
            evs = [a for a in args if a.startswith('E')]
            lines.append('timing.calcdur %d %s' % (len(evs), ' '.join(evs)))
            index.append((ci, 'calcdur', i))
        lines.append('timing.timeline %s %s' % (tg.sys_tok(tg.sys_fr(it['seq'])), tg.blocks_tok(it['ds_model'])))
        index.append((ci, 'timeline', None))
        lines.append('timing.counts %s' % tg.blocks_tok(it['ds_model']))
        index.append((ci, 'counts', None))
        for wi, w in enumerate(it['tr']):
            if wi not in (0, 3) and ctx.tier == 'quick':     # model evaluation of exact rationals is the slow part
                continue
            lines.append('timing.tr %s %s %s %s' % (tg.sys_tok(tg.sys_fr(it['seq'])), tg.blocks_tok(it['ds_model']), qtok(F(w['a'])), qtok(F(w['b']))))
            index.append((ci, 'tr', wi))
    outs = ctx.model(lines)
    bad = set()
    for (ci, what, i), o in zip(index, outs):
        case, it = items[ci]
        if ci in bad:
            continue
        sc = it['scale']
        if what == 'setdur':
            v = Toks(o).q()
            if not close(v, it['stored'][i], sc):
                ctx.mismatch('set_block_duration', case, {'block': i, 'model': float(v), 'impl': float(it['stored'][i])})
                bad.add(ci)
        elif what == 'counts':
            t = Toks(o)
            mc = t.list(t.z)
            if mc != it['evcount']:
                ctx.mismatch('event_count', case, {'model': mc, 'impl': it['evcount']})
                bad.add(ci)
        elif what == 'tr':
            w = it['tr'][i]
            parts = [Toks(p) for p in o.split('|')]
            madc = parts[1].list(parts[1].q)
            n = parts[2].int()
            mrf = [(parts[2].z(), parts[2].q()) for _ in range(n)]
            detail = None
            if len(madc) != len(w['adc']) or any(not close(a, F(b), sc) for a, b in zip(madc, w['adc'])):
                detail = {'what': 'adc_times', 'model_n': len(madc), 'impl_n': len(w['adc'])}
            mx = [t for u, t in mrf if u == 0]
            mr = [t for u, t in mrf if u == 1]
            if detail is None and (len(mx) != len(w['rfx']) or len(mr) != len(w['rfr'])
                                   or any(not close(a, F(b), sc) for a, b in zip(mx, w['rfx']))
                                   or any(not close(a, F(b), sc) for a, b in zip(mr, w['rfr']))):
                detail = {'what': 'rf_times', 'model_n': [len(mx), len(mr)], 'impl_n': [len(w['rfx']), len(w['rfr'])]}
            if detail is None:
                ftol = float(tol(sc))
                for j, p in enumerate(parts[3:6]):
                    n = p.int()
                    ax = np.sort(np.asarray(w['wave'][j], dtype=float))
                    for _ in range(n):
                        a, b = p.q(), p.q()
                        if nearest_dist(ax, float(a)) > ftol or nearest_dist(ax, float(b)) > ftol:
                            detail = {'what': 'wave-axis-%d' % j, 'first': float(a), 'last': float(b)}
                            break
                    if detail is None and n == 0 and len(ax) > 0:
                        detail = {'what': 'wave-axis-%d' % j, 'model_pieces': 0, 'impl_points': len(ax)}
                    if detail:
                        break
            if detail:
                detail['range'] = [w['a'], w['b']]
                ctx.mismatch('time_range', case, detail)
                bad.add(ci)
        elif what == 'calcdur':
            v = Toks(o).q()
            if not close(v, it['cd_in'][i], sc):
                ctx.mismatch('calc_duration', case, {'block': i, 'model': float(v), 'impl': float(it['cd_in'][i])})
                bad.add(ci)
        else:
            parts = [Toks(p) for p in o.split('|')]
            if len(parts) != 11:
                ctx.mismatch('timeline', case, {'model': o[:200]})
                bad.add(ci)
                continue
            detail = None
            dur, tot = parts[0].q(), parts[1].q()
            starts = parts[2].list(parts[2].q)
            trs = parts[3].list(parts[3].q)
            adc = parts[4].list(parts[4].q)
            n = parts[5].int()
            rfs = [(parts[5].z(), parts[5].q()) for _ in range(n)]
            pieces = {}
            for ch, p in zip(('gx', 'gy', 'gz'), parts[6:9]):
                n = p.int()
                pieces[ch] = [(p.q(), p.q()) for _ in range(n)]
            cols = parts[9].list(parts[9].z)
            idur, _, _ = it['seq'].duration()
            if not close(dur, F(idur), sc) or not close(tot, it['total'], sc):
                detail = {'what': 'total', 'model': [float(dur), float(tot)], 'impl': float(idur)}
            elif len(starts) != len(it['starts']) or any(not close(a, b, sc) for a, b in zip(starts, it['starts'])) \
                    or any(not close(a, b, sc) for a, b in zip(trs, it['starts'])):
                detail = {'what': 'starts'}
            elif it['wd'] is not None:
                wd = it['wd']
                _, tfe, tfr, t_adc, _ = it['seq'].waveforms_and_times()
                if len(adc) != len(t_adc) or any(not close(a, F(b), sc) for a, b in zip(adc, t_adc)):
                    detail = {'what': 'adc_times', 'model_n': len(adc), 'impl_n': len(t_adc)}
                mx = [t for u, t in rfs if u == 0]
                mr = [t for u, t in rfs if u == 1]
                if detail is None and (len(mx) != len(tfe[0]) or len(mr) != len(tfr[0])
                                       or any(not close(a, F(b), sc) for a, b in zip(mx, tfe[0]))
                                       or any(not close(a, F(b), sc) for a, b in zip(mr, tfr[0]))):
                    detail = {'what': 'rf_times'}
                if detail is None:
                    for j, ch in enumerate(('gx', 'gy', 'gz')):
                        ax = [F(v) for v in wd[j][0]]
                        exp = [(p[0], p[-1]) for p in it['wave'][ch]]
                        if len(pieces[ch]) != len(exp) or any(not close(a[0], b[0], sc) or not close(a[1], b[1], sc)
                                                              for a, b in zip(pieces[ch], exp)):
                            detail = {'what': 'wave-pieces-' + ch, 'model': [[float(a), float(b)] for a, b in pieces[ch]][:4]}
                            break
                        for a, b in pieces[ch]:
                            if not any(close(a, x, sc) for x in ax) or not any(close(b, x, sc) for x in ax):
                                detail = {'what': 'wave-axis-' + ch, 'first': float(a), 'last': float(b)}
                                break
            if detail is None and it['cols'] is not None:
                if [it['cols'].get(i) for i in it['ids']] != cols:
                    detail = {'what': 'blocks-column', 'model': cols, 'file': [it['cols'].get(i) for i in it['ids']]}
            if detail:
                ctx.mismatch('timeline', case, detail)
                bad.add(ci)


def corpus():
    s = {'family': 'siemens', 'block': 1e-5, 'rf': 1e-6, 'grad': 1e-5, 'adc': 1e-7, 'rf_dead': 1e-4, 'rf_ring': 3e-5, 'adc_dead': 2e-5}
    rf = {'k': 'rfs', 'dur': 1e-3, 'delay': 1e-4, 'flip': 0.5, 'use': 'excitation', 'alt': False, 'set': {}}
    rf2 = {'k': 'rfb', 'dur': 2e-3, 'delay': 1.3e-4, 'flip': 3.1, 'use': 'refocusing', 'alt': False, 'set': {}}
    trap = {'k': 'trap', 'ch': 'x', 'amp': 1e4, 'rise': 1e-4, 'flat': 6.4e-4, 'fall': 1e-4, 'delay': 3e-5, 'alt': False, 'set': {}}
    tri = {'k': 'trap', 'ch': 'y', 'amp': 1e4, 'rise': 1e-4, 'flat': 0.0, 'fall': 2e-4, 'delay': 0.0, 'alt': False, 'set': {}}
    adc = {'k': 'adc', 'n': 64, 'dwell': 1e-5, 'delay': 1.3e-4, 'alt': False, 'set': {}}
    arb = {'k': 'arb', 'ch': 'z', 'w': [0.0, 1e3, 2e3, 1e3, 0.0], 'delay': 2e-5, 'alt': False, 'set': {}}
    dl = lambda d: {'k': 'delay', 'delay': d, 'alt': False, 'set': {}}   # noqa: E731
    return [{'sys': s, 'alt': None, 'padded': True, 'set_blocks': [[2, {'events': [copy.deepcopy(tri), dl(5e-4)]}]],
             'blocks': [{'events': [rf, dl(1.13e-3)]}, {'events': [trap, adc, dl(9e-4)]}, {'events': [rf2, arb, dl(2.2e-3)]},
                        {'events': [copy.deepcopy(adc), copy.deepcopy(trap), dl(1e-3)]}]}]


def run(ctx):
    n = {'quick': 420, 'thorough': 15000}[ctx.tier]
    rng = ctx.rng('sequences')
    import itertools
    lrng = ctx.rng('legacy')
    cases = itertools.chain(corpus(), (tg.gen_legacy(lrng) if k % 9 == 4 else gen_case(rng) for k in range(n)))     # lazily
    pending = []
    for i, case in enumerate(cases):
        if ctx.out_of_time():
            ctx.notes.append('time budget reached after %d cases' % i)
            break
        it = evaluate(ctx, case, do_kspace=(i % 8 == 0 and len(case['blocks']) <= 5))
        if it is None:
            continue
        if i % 120 == 1:
            ctx.sample({'family': case['sys']['family'], 'blocks': len(case['blocks']), 'overwritten': [x[0] for x in case['set_blocks']],
                        'stored': [float(v) for v in it['stored'].values()], 'n_adc_samples': len(it['adc'])})
        if ctx.model_available and not it['failed']:
            pending.append((case, it))
        if len(pending) >= 60:
            compare_model(ctx, pending)
            compare_tables(ctx)
            pending = []
    if pending and ctx.model_available:
        compare_model(ctx, pending)
    compare_tables(ctx)


def replay(ctx, case):
    it = evaluate(ctx, case, do_kspace=True)
    if it is None:
        return {'note': 'case does not build'}
    if ctx.model_available and not it['failed']:
        compare_model(ctx, [(case, it)])
    compare_tables(ctx)
    return {'stored': {k: float(v) for k, v in it['stored'].items()}, 'total': float(it['total']),
            'starts': [float(v) for v in it['starts']]}
