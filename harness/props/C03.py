"""C03 — the [SIGNATURE] hash is the MD5 of exactly the preceding file content."""
import hashlib
import os
import tempfile

import seqgen

ID = 'C03'
GEN_SECTIONS = ['GenSignature']
COQ_TARGETS = ['Props/C03.vo']
LEVEL = 'proof'
MANIFEST = {
    'text': "Theorems (Coq, every byte string body that does not contain the section tag, every digest function): the reader's split of a signed file returns exactly (hashed content, 'md5', digest); the bytes in front of the newline preceding [SIGNATURE] are exactly the hashed content; write(create_signature=True) returns the digest it wrote, write(create_signature=False) writes no section. The literal signature block is re-read from write_seq.py on every run. On the implementation every generated file (all four flag combinations) has its MD5 recomputed over the bytes before '\\n[SIGNATURE]' and compared with the Hash line, the return value and signature_value after write and after read; the extracted model re-parses the real files.",
    'note': "Trusted: Coq kernel; translator pattern for the signature block; hashlib.md5, text-mode newlines and utf-8 encoding are runtime behaviour covered by sampling only; the theorem's hypothesis (body free of '[SIGNATURE]') is checked on every generated file.",
    'technique': 'Rocq/Coq proof (list/byte-string reasoning over an abstract digest) + byte-level oracle on written files',
}
BUDGET = {'quick': 150, 'thorough': 1500}
MISMATCH_BUDGET = 0.0
RULE = ('random timing-valid sequences (1-12 blocks, all event kinds, random system) written with every combination of '
        'create_signature x remove_duplicates; oracle on the bytes of the file: MD5 of everything before "\\n[SIGNATURE]" equals '
        'the Hash line, the return value of write() and signature_value after write and after read; no section and None '
        'without signature. The extracted Coq model re-derives the file from (body, hash) and re-parses the real file '
        '(body length, type, hash compared). distinct = distinct file contents; non-trivial = signed files')
TRUSTED = ['hashlib.md5, text-mode newline handling and utf-8 encoding are runtime behaviour (sampled)',
           'a digest consisting only of characters float() accepts would be parsed as a number by the reader '
           '(probability ~3e-7 per file; hypothesis `clean h` of the theorem does not exclude it, the oracle would report it)']
ASSUMPTIONS = ['the body written by write() never contains the text "[SIGNATURE]" (checked on every generated file by the model function no_sub)']

MARK = b'\n[SIGNATURE]\n'


def one_case(ctx, rng, n):
    import pypulseq as pp
    seq, stored = seqgen.random_sequence(rng, n_blocks=rng.randint(1, 8))
    if not stored:
        return None
    sigflag = rng.random() < 0.8
    dedup = rng.random() < 0.7
    case = {'index': n, 'create_signature': sigflag, 'remove_duplicates': dedup, 'blocks': len(stored)}
    with tempfile.TemporaryDirectory(prefix='pvC03') as d:
        fn = os.path.join(d, 'a.seq')
        try:
            ret = seq.write(fn, create_signature=sigflag, remove_duplicates=dedup)
        except AssertionError:
            ctx.count('skipped.write_assertion')
            return None
        data = open(fn, 'rb').read()
        s2 = pp.Sequence()
        s2.read(fn)
    ctx.evaluated(hashlib.sha1(data).hexdigest(), nontrivial=sigflag)
    ctx.count('signed' if sigflag else 'unsigned')
    ctx.count('dedup' if dedup else 'nodedup')
    pos = data.find(MARK)
    if not sigflag:
        if pos != -1 or ret is not None or b'[SIGNATURE]' in data or b'Hash ' in data:
            ctx.fail('C03/unsigned-has-signature', case, {'ret': ret, 'pos': pos})
        if getattr(s2, 'signature_value', '') not in ('', None):
            ctx.fail('C03/unsigned-read-sets-hash', case, {'signature_value': s2.signature_value})
        return (case, data, None)
    if pos == -1:
        ctx.fail('C03/no-section', case, {})
        return None
    body = data[:pos]
    h = hashlib.md5(body).hexdigest()
    tail = data[pos + len(MARK):].decode()
    hash_lines = [l for l in tail.split('\n') if l.startswith('Hash ')]
    type_lines = [l for l in tail.split('\n') if l.startswith('Type ')]
    bad = None
    if len(hash_lines) != 1 or hash_lines[0][5:].strip() != h:
        bad = ('C03/hash-line', {'hash_line': hash_lines, 'md5_of_preceding': h})
    elif ret != h:
        bad = ('C03/return-value', {'ret': ret, 'md5_of_preceding': h})
    elif seq.signature_value != h or seq.signature_type != 'md5':
        bad = ('C03/stored-after-write', {'value': seq.signature_value, 'type': seq.signature_type})
    elif str(s2.signature_value) != h or s2.signature_type != 'md5':
        bad = ('C03/stored-after-read', {'value': str(s2.signature_value), 'type': s2.signature_type, 'expected': h})
    elif not data.endswith(b'\n') or type_lines != ['Type md5']:
        bad = ('C03/trailer-format', {'type_lines': type_lines})
    elif data.count(MARK) != 1:
        bad = ('C03/multiple-sections', {'count': data.count(MARK)})
    if bad:
        ctx.fail(bad[0], case, bad[1])
        return None
    if n % 40 == 0:
        ctx.sample({'case': case, 'file_bytes': len(data), 'hash': h, 'tail': tail[-60:]})
    return (case, data, h)


def run(ctx):
    rng = ctx.rng('files')
    n_cases = {'quick': 150, 'thorough': 3000}[ctx.tier]
    pend = []
    for n in range(n_cases):
        if ctx.out_of_time():
            ctx.notes.append('time budget reached after %d files' % n)
            break
        r = one_case(ctx, rng, n)
        if r and ctx.model_available:
            pend.append(r)
        if len(pend) >= 50:
            flush(ctx, pend)
            pend = []
    if pend:
        flush(ctx, pend)


def flush(ctx, pend):
    lines = []
    for case, data, h in pend:
        lines.append('sig.split ' + data.hex())
        pos = data.find(MARK)
        body = data[:pos] if h else data
        lines.append('sig.clean ' + (body.hex() or '-'))
        if h:
            lines.append('sig.sign %s %s' % (h.encode().hex(), body.hex() or '-'))
    outs = ctx.model(lines)
    i = 0
    for case, data, h in pend:
        sp, cl = outs[i], outs[i + 1]
        i += 2
        if cl != '1':
            ctx.mismatch('clean', case, {'what': 'body contains the section tag (theorem hypothesis violated)'})
        if h is None:
            if sp != '0':
                ctx.mismatch('split', case, {'what': 'model finds a signature in an unsigned file', 'model': sp[:80]})
            continue
        sg = outs[i]
        i += 1
        pos = data.find(MARK)
        want = '1 %d %s %s' % (pos, b'md5'.hex(), h.encode().hex())
        if sp != want:
            ctx.mismatch('split', case, {'model': sp[:120], 'impl': want[:120]})
        if sg != data.hex():
            ctx.mismatch('sign', case, {'what': 'model sign(hash, body) differs from the file bytes',
                                        'first_diff': next((k for k in range(min(len(sg), len(data.hex()))) if sg[k] != data.hex()[k]), -1) // 2})


def replay(ctx, case):
    rng = ctx.rng('files')
    r = None
    for n in range(case['index'] + 1):
        r = one_case(ctx, rng, n)
    return {'case': case, 'result': 'see failures'}
