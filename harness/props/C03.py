"""C03 — the [SIGNATURE] hash is the MD5 of exactly the preceding file content."""
import hashlib
import os
import tempfile

import seqgen

ID = 'C03'
GEN_SECTIONS = ['GenSignature']
COQ_TARGETS = ['Props/C03.vo']
LEVEL = 'proof'
MANIFEST = {
    'text': "Theorems (Coq, every byte string body that does not contain the section tag, every digest function): the reader's split of a signed file returns exactly (hashed content, 'md5', digest); the bytes in front of the newline preceding [SIGNATURE] are exactly the hashed content; write(create_signature=True) returns the digest it wrote, write(create_signature=False) writes no section. The literal signature block is re-read from write_seq.py on every run. On the implementation every generated file (all four flag combinations) has its MD5 recomputed over the bytes before '\\n[SIGNATURE]' and compared with the Hash line, the return value and signature_value after write and after read; the extracted model re-parses the real files and recomputes the digest with its own MD5 (Model/Md5.v: RFC 1321 over byte lists; theorems: RFC test suite, 32 characters 0-9a-f for every content, whole-block padding, write contract with MD5 and no hypothesis on the digest).",
    'note': "Trusted: Coq kernel; translator pattern for the signature block; MD5 itself is modelled (Model/Md5.v) and compared with the implementation's Hash on every file up to 40 kB (hashlib.md5 is the reference only above that); the encoding of the written text is runtime behaviour covered by sampling only (the digest is taken over the bytes on disk since repair 8506280); the theorem's hypothesis (body free of '[SIGNATURE]') is checked on every generated file.",
    'technique': 'Rocq/Coq proof (list/byte-string reasoning over an abstract digest, then instantiated with an executable MD5 model validated on the RFC 1321 suite) + byte-level oracle on written files',
}
BUDGET = {'quick': 150, 'thorough': 1500}
MISMATCH_BUDGET = 0.0
RULE = ('random timing-valid sequences (1-12 blocks, all event kinds, random system) written with every combination of '
        'create_signature x remove_duplicates; oracle on the bytes of the file: MD5 of everything before "\\n[SIGNATURE]" equals '
        'the Hash line, the return value of write() and signature_value after write and after read; no section and None '
        'without signature; 0-2 follow-up writes with fresh flags on the same object and on the object that read the file; '
        'three files above 1 MiB per run (oracle only). The extracted Coq model re-derives the file from (body, hash) and re-parses the real file '
        '(body length, type, hash compared) and recomputes the digest with the model MD5 for files up to 40 kB. distinct = distinct file contents; non-trivial = signed files')
TRUSTED = ['hashlib.md5 only for files above 40 kB (below, the digest is recomputed by the extracted Coq MD5); text-mode newline handling and utf-8 encoding are runtime behaviour (sampled)',
           'a digest consisting only of characters float() accepts would be parsed as a number by the reader '
           '(probability ~3e-7 per file; hypothesis `clean h` of the theorem does not exclude it, the oracle would report it)']
ASSUMPTIONS = ['the body written by write() never contains the text "[SIGNATURE]" (checked on every generated file by the model function no_sub)']

MARK = b'\n[SIGNATURE]\n'
MD5_MODEL_MAX = 40000      # bytes; the extracted MD5 over inductive integers takes about 50 us per byte


def verify_write(ctx, case, seq, ret, data, sigflag, s2):
    """the property's predicate on one written file; returns the md5 (signed), '' (unsigned ok) or None (failed)"""
    pos = data.find(MARK)
    if not sigflag:
        if pos != -1 or ret is not None or b'[SIGNATURE]' in data or b'Hash ' in data:
            ctx.fail('C03/unsigned-has-signature', case, {'ret': ret, 'pos': pos})
            return None
        if s2 is not None and getattr(s2, 'signature_value', '') not in ('', None):
            ctx.fail('C03/unsigned-read-sets-hash', case, {'signature_value': s2.signature_value})
            return None
        return ''
    if pos == -1:
        ctx.fail('C03/no-section', case, {'ret': ret})
        return None
    body = data[:pos]
    h = hashlib.md5(body).hexdigest()
    tail = data[pos + len(MARK):].decode()
    hash_lines = [l for l in tail.split('\n') if l.startswith('Hash ')]
    type_lines = [l for l in tail.split('\n') if l.startswith('Type ')]
    bad = None
    if len(hash_lines) != 1 or hash_lines[0][5:].strip() != h:
        bad = ('C03/hash-line', {'hash_line': hash_lines, 'md5_of_preceding': h})
    elif ret != h:
        bad = ('C03/return-value', {'ret': ret, 'md5_of_preceding': h})
    elif seq.signature_value != h or seq.signature_type != 'md5':
        bad = ('C03/stored-after-write', {'value': seq.signature_value, 'type': seq.signature_type})
    elif s2 is not None and (str(s2.signature_value) != h or s2.signature_type != 'md5'):
        bad = ('C03/stored-after-read', {'value': str(s2.signature_value), 'type': s2.signature_type, 'expected': h})
    elif not data.endswith(b'\n') or type_lines != ['Type md5']:
        bad = ('C03/trailer-format', {'type_lines': type_lines})
    elif data.count(MARK) != 1:
        bad = ('C03/multiple-sections', {'count': data.count(MARK)})
    if bad:
        ctx.fail(bad[0], case, bad[1])
        return None
    return h


def big_sequence(rng):
    """one block with a long free-form gradient: the written file exceeds 1 MiB (buffered / chunked I/O paths)"""
    import numpy as np
    import pypulseq as pp
    system = pp.Opts()
    n = rng.choice([90000, 160000, 250000])
    nrng = np.random.default_rng(rng.randrange(1 << 30))
    w = np.cumsum(nrng.uniform(-1, 1, n)) * 10.0
    g = pp.make_arbitrary_grad('x', w, first=0.0, last=0.0, system=system, max_grad=1e15, max_slew=1e15)
    seq = pp.Sequence(system)
    seq.add_block(g)
    return seq, [1]


READERS = []       # Sequence objects that have read (signed or unsigned) files earlier in this run


def reader(ctx, rng, big=False):
    """(object that will read the next file, fresh?): 40% of the reads go into an object that has read another file
    before (and so may carry another file's hash), the rest into a fresh Sequence"""
    import pypulseq as pp
    if READERS and not big and rng.random() < 0.4:
        ctx.count('reader.used')
        return rng.choice(READERS), False
    ctx.count('reader.fresh')
    s = pp.Sequence()
    if not big:
        READERS.append(s)
        del READERS[:-6]
    return s, True


def one_case(ctx, rng, n, big=False):
    import pypulseq as pp
    if n == 0:
        del READERS[:]
    if big:
        seq, stored = big_sequence(rng)
    else:
        seq, stored = seqgen.random_sequence(rng, n_blocks=rng.randint(1, 8))
    if not stored:
        return None
    sigflag = rng.random() < 0.8
    dedup = rng.random() < 0.7
    twins = (not big) and rng.random() < 0.15
    if twins:
        # events that differ below the precision of the file: written without duplicate removal they stay two library
        # entries, the default read() merges them (the signature it stores must still be the file's)
        a = rng.choice([1e5, -2.5e5, 123456.789])
        for amp in (a, a * (1 + 1e-10)):
            seq.add_block(pp.make_trapezoid('x', amplitude=amp, rise_time=1e-4, flat_time=5e-4, fall_time=1e-4, system=pp.Opts(max_grad=1e9, max_slew=1e12)))
        sigflag, dedup = True, False
    follow = [(rng.choice(['same', 'reread']), rng.random() < 0.5, rng.random() < 0.7) for _ in range(rng.choice([0, 1, 2]))]
    case = {'index': n, 'big': big, 'create_signature': sigflag, 'remove_duplicates': dedup, 'blocks': len(stored), 'near_twin_events': twins,
            'follow_up_writes': follow}
    # file names with and without the .seq suffix (write() appends it when missing), definitions with non-ASCII text
    name = rng.choice(['a.seq', 'a.seq', 'scan', 'scan.v2', 'b.SEQ.seq', 'name with space.seq'])
    if rng.random() < 0.3 or n in (1, 2, 3):
        # also characters that str.splitlines() / universal-newline reading treat as line ends (the hashed bytes are the
        # bytes on disk, whatever they are); n = 1: the reproducer of the defect repaired by 8506280 (carriage return)
        seq.set_definition('Name', 'cr\rx' if n == 1 else rng.choice([
            'M\u00fcller \u00b5T/m 30\u00b0', 'caf\u00e9', '\u6d4b\u8bd5 seq', 'plain ascii name', 'page 1\x0cpage 2', 'a\x0bb',
            'x\x1cy', 'nel\x85x', 'ls\u2028x', 'cr\rx']))
    timing_faulty = rng.random() < 0.12
    if timing_faulty:
        # a writable sequence whose check_timing() reports errors (events designed for a system without dead times,
        # stored in a sequence whose system has them): write() only warns, the signature contract is unchanged
        seq.system = pp.Opts(rf_dead_time=100e-6, rf_ringdown_time=30e-6, adc_dead_time=20e-6,
                             grad_raster_time=seq.system.grad_raster_time, rf_raster_time=seq.system.rf_raster_time,
                             adc_raster_time=seq.system.adc_raster_time, block_duration_raster=seq.system.block_duration_raster)
        ctx.count('timing_faulty')
    case['timing_faulty'] = timing_faulty
    case['file_name'] = name
    with tempfile.TemporaryDirectory(prefix='pvC03') as d:
        fn = os.path.join(d, name)
        try:
            # the flag as callers may compute it: a bool, a NumPy bool or an int
            flag_arg = sigflag
            if rng.random() < 0.3:
                flag_arg = (__import__('numpy').bool_(sigflag) if rng.random() < 0.5 else int(sigflag))
                ctx.count('flag.%s' % type(flag_arg).__name__)
            ret = seq.write(fn, create_signature=flag_arg, remove_duplicates=dedup)
        except AssertionError:
            ctx.count('skipped.write_assertion')
            return None
        produced = sorted(os.listdir(d))
        want = name if name.endswith('.seq') else name + '.seq'
        if produced != [want]:
            ctx.fail('C03/files-produced', case, {'produced': produced, 'expected': [want]})
            return None
        fn = os.path.join(d, want)
        ctx.count('name.' + ('with_suffix' if name.endswith('.seq') else 'without_suffix'))
        data = open(fn, 'rb').read()
        s2, fresh = reader(ctx, rng, big)
        ropts = {}
        if rng.random() < 0.3 and not twins:
            ropts['remove_duplicates'] = False
        if rng.random() < 0.15:
            ropts['detect_rf_use'] = True
        case['read_options'] = ropts
        s2.read(fn, **ropts)
        if not fresh and not sigflag:
            # the statement says nothing about what an object that already carries a signature holds after reading an
            # UNSIGNED file (the implementation keeps the old value): only the file and the return value are checked
            s2 = None
        ctx.evaluated(hashlib.sha1(data).hexdigest(), nontrivial=sigflag)
        ctx.count('signed' if sigflag else 'unsigned')
        ctx.count('dedup' if dedup else 'nodedup')
        if big:
            ctx.count('big_file_bytes_%dMiB' % (len(data) >> 20))
        h = verify_write(ctx, case, seq, ret, data, sigflag, s2)
        if h is None:
            return None
        # history: the same object (which now carries, or does not carry, a signature) and the object that read the file
        # are written again with fresh flags; every one of these writes must satisfy the same statement
        for k, (who, sf, dd) in enumerate(follow):
            obj = seq if who == 'same' or s2 is None else s2
            fn2 = os.path.join(d, 'f%d.seq' % k)
            if who == 'same' and rng.random() < 0.5:
                fn2 = fn        # over the file written first, with other content: same path, new hash
                obj.add_block(pp.make_delay(1e-3 * (k + 2)))
                ctx.count('follow_up.same_path')
            try:
                ret2 = obj.write(fn2, create_signature=sf, remove_duplicates=dd)
            except AssertionError:
                ctx.count('skipped.write_assertion')
                continue
            data2 = open(fn2, 'rb').read()
            s3, fresh3 = reader(ctx, rng)
            s3.read(fn2, **({'remove_duplicates': False} if rng.random() < 0.3 else {}))
            if not fresh3 and not sf:
                s3 = None
            ctx.count('follow_up.%s.%s_after_%s' % (who, 'signed' if sf else 'unsigned', 'signed' if sigflag else 'unsigned'))
            ctx.evaluated(('follow', n, k, hashlib.sha1(data2).hexdigest()), nontrivial=True)
            c2 = dict(case, failing_write={'index': k, 'object': who, 'create_signature': sf, 'remove_duplicates': dd})
            if verify_write(ctx, c2, obj, ret2, data2, sf, s3) is None:
                return None
    if n % 40 == 0:
        ctx.sample({'case': case, 'file_bytes': len(data), 'hash': h})
    if big:
        return None          # oracle only: multi-megabyte byte lists are not sent to the model
    return (case, data, h or None)


def run(ctx):
    rng = ctx.rng('files')
    n_cases = {'quick': 150, 'thorough': 3000}[ctx.tier]
    pend = []
    brng = ctx.rng('bigfiles')
    for n in range({'quick': 3, 'thorough': 30}[ctx.tier]):
        one_case(ctx, brng, 100000 + n, big=True)
    for n in range(n_cases):
        if ctx.out_of_time():
            ctx.notes.append('time budget reached after %d files' % n)
            break
        r = one_case(ctx, rng, n)
        if r and ctx.model_available:
            pend.append(r)
        if len(pend) >= 50:
            flush(ctx, pend)
            pend = []
    if pend:
        flush(ctx, pend)


def flush(ctx, pend):
    lines = []
    for case, data, h in pend:
        lines.append('sig.split ' + data.hex())
        pos = data.find(MARK)
        body = data[:pos] if h else data
        lines.append('sig.clean ' + (body.hex() or '-'))
        if h:
            lines.append('sig.sign %s %s' % (h.encode().hex(), body.hex() or '-'))
            if len(body) <= MD5_MODEL_MAX:
                # the model's own MD5 (Model/Md5.v) over the hashed content: must be the Hash the implementation wrote
                lines.append('sig.md5 ' + (body.hex() or '-'))
    outs = ctx.model(lines)
    i = 0
    for case, data, h in pend:
        sp, cl = outs[i], outs[i + 1]
        i += 2
        if cl != '1':
            ctx.mismatch('clean', case, {'what': 'body contains the section tag (theorem hypothesis violated)'})
        if h is None:
            if sp != '0':
                ctx.mismatch('split', case, {'what': 'model finds a signature in an unsigned file', 'model': sp[:80]})
            continue
        sg = outs[i]
        i += 1
        pos = data.find(MARK)
        want = '1 %d %s %s' % (pos, b'md5'.hex(), h.encode().hex())
        if sp != want:
            ctx.mismatch('split', case, {'model': sp[:120], 'impl': want[:120]})
        if len(data[:pos]) <= MD5_MODEL_MAX:
            md = outs[i]
            i += 1
            ctx.count('md5.model_digests')
            try:
                md_txt = bytes.fromhex(md).decode()
            except ValueError:
                md_txt = md[:80]
            if md_txt != h:
                ctx.mismatch('md5', case, {'what': 'MD5 of the model (Model/Md5.v) over the bytes before the section differs from '
                                                   'the Hash the implementation wrote', 'model': md_txt, 'impl': h, 'bytes': pos})
        else:
            ctx.count('md5.skipped_large')
        if sg != data.hex():
            ctx.mismatch('sign', case, {'what': 'model sign(hash, body) differs from the file bytes',
                                        'first_diff': next((k for k in range(min(len(sg), len(data.hex()))) if sg[k] != data.hex()[k]), -1) // 2})


def replay(ctx, case):
    if case.get('big'):
        brng = ctx.rng('bigfiles')
        for n in range(case['index'] - 100000 + 1):
            one_case(ctx, brng, 100000 + n, big=True)
        return {'case': case, 'result': 'see failures'}
    rng = ctx.rng('files')
    r = None
    for n in range(case['index'] + 1):
        r = one_case(ctx, rng, n)
    return {'case': case, 'result': 'see failures'}
