"""C08 — exported gradient waveforms equal an event-by-event rendering."""
import bisect
import copy
import importlib
import random
from fractions import Fraction

import numpy as np

import exportgen as eg
from common import F, qtok, qlist, Toks, stable_hash, jsonable

ID = 'C08'
GEN_SECTIONS = ['GenExport']
COQ_TARGETS = ['Props/C08.vo']
EXTRACT_TARGETS = ['Extract/Ex_export.vo']
RUNNER = 'export'
LEVEL = 'proof'
MANIFEST = {
    'text': "Theorems (Coq, all block lists of all lengths): stated on EVENTS - whenever the gradients of a channel are "
            "timing valid and connect as add_block demands (input-level condition Connected, relative times only), the "
            "export succeeds, is strictly increasing, equals the rendering of the active event at every time and is "
            "zero where no event is active; proved via: for every edge-consistent list of pieces the joined "
            "corner list of Sequence.waveforms() evaluates, at every time inside a piece, to that piece (= the "
            "per-event rendering: trapezoid formula / interpolated corner list shifted by delay and block start) "
            "and to zero where no event is active; its times are spaced by at least eps (the code's own "
            "monotonicity check never fires) hence strictly increasing; block starts are the prefix sums of the "
            "stored durations; time_range selects exactly the blocks overlapping the range. The thresholds (eps, "
            "teps) and the shape of every transcribed statement are re-read from the source on every run; the "
            "extracted model is run against waveforms()/waveforms(time_range) on random edge-consistent sequences "
            "and the rendering predicate is evaluated with exact Fractions on the implementation's output "
            "(dense times incl. +-raster/8 around every corner) and on get_gradients() callables.",
    'note': 'Trusted: Coq kernel; translator patterns; extraction (ExtrOcamlBasic) + driver; binary64/NumPy '
            'arithmetic and scipy PPoly evaluation are outside the model (sampled); times are snapped to the 1 ns '
            'grid they were generated on before they reach the model/oracle.',
    'technique': 'Rocq/Coq proof over a Gallina model (induction over the block/piece list) + extraction-based '
                 'correspondence + exact-rational oracle',
}
BUDGET = {'quick': 80, 'thorough': 1500}
MISMATCH_BUDGET = 0.0
RULE = ('random edge-consistent sequences of 1-8 (quick) / 1-30 (thorough) blocks: trapezoids, triangles, extended '
        'trapezoids and raster-sampled arbitrary gradients on 3 channels connected across blocks with non-zero '
        'edges of both signs, gradient delays, pure delay blocks, optional RF/ADC; per sequence: waveforms() '
        '(strict monotonicity, value at every dense time vs independent exact renderer, zero outside events), '
        'get_gradients() callables at the same times, 3 random time_range selections (incl. exact block '
        'boundaries), model correspondence of every corner list. Streams: plain; history (after the first export '
        'round set_block replaces 1-3 blocks by edge-consistent content of ANOTHER duration / add_block appends, the '
        'whole oracle is repeated on the same object after every operation); reread (written, read into a Sequence() '
        'whose system has another gradient raster, exported from the re-read object; arbitrary gradients whose last '
        'sample differs from `last`); long (1-10 s of delay in front, events exactly one / two raster steps after '
        'the previous event of the channel); twins (an extended trapezoid and an arbitrary gradient with IDENTICAL '
        'normalised amplitude arrays = one deduplicated shape, both orders, with delays); gapped (self-contained '
        'blocks stored with set_block under arbitrary positive, gapped, non-ascending block numbers, partly written '
        'and re-read). History operations also include flip_grad_axis / mod_grad_axis / remove_duplicates / read of '
        'another file on the live object (use_block_cache True and False); the events every export is compared with '
        'are those of a cache-free deep copy. Per round also get_gradients(time_range=...) restricted like the '
        'waveform, waveforms(append_RF=True), get_gradients(gradient_offset / trajectory_delay). '
        'distinct = distinct sequence states; non-trivial = at '
        'least one non-zero junction between blocks or a gradient with a delay')
TRUSTED = ['binary64 arithmetic of NumPy and scipy.interpolate.PPoly are outside the model: sampled',
           'get_block is taken as the definition of the events held by the sequence (C06 checks it)']
ASSUMPTIONS = ['times lie on the 1 ns grid (generated as multiples of 50 ns); stored shapes are quantised to 1e-7 of '
               'their maximum (C14), so the oracle allows the measured disagreement of touching events at a junction']


def seq_module():
    return importlib.import_module('pypulseq.Sequence.sequence')


def to_lists(arr):
    ts = [F(float(v)) for v in arr[0]]
    vs = [F(float(v)) for v in arr[1]]
    return ts, vs


def export_defect(held, ch, ts, vs, rend, times, tol_extra=Fraction(0)):
    """the property's predicate on one exported corner list; returns None or (short signature, detail)"""
    for a, b in zip(ts[:-1], ts[1:]):
        if not a < b:
            return 'not-increasing', {'channel': ch, 't0': float(a), 't1': float(b)}
    scale = max(rend.max_abs(), Fraction(1))
    # binary64 noise of absolute times (a few ulp of the total duration) times the steepest ramp
    tol = scale / 10 ** 9 + tol_extra + rend.max_slope() * held.total / 10 ** 15
    for t in times:
        want, spread = rend.value(t)
        got = eg.eval_export(ts, vs, t)
        lim = tol + spread + rend.slack_at(t)
        if abs(got - want) > lim:
            return 'value', {'channel': ch, 't': float(t), 'exported': float(got), 'rendered': float(want),
                             'tol': float(lim)}
    return None


def check_export(ctx, case, held, ch, ts, vs, rend, sig_prefix, times, tol_extra=Fraction(0)):
    bad = export_defect(held, ch, ts, vs, rend, times, tol_extra)
    if bad:
        ctx.fail(sig_prefix + '/' + bad[0], case, bad[1])
        return False
    return True


def compare_model_wave(ctx, case, stream, out_line, impl_waves):
    parts = out_line.split(' | ')
    if len(parts) != 3:
        ctx.mismatch(stream, case, {'model': out_line[:200]})
        return
    for ch in range(3):
        t = Toks(parts[ch])
        tag = t.next()
        iw = impl_waves[ch]
        if iw is None:      # implementation raised
            if tag == 'OK':
                ctx.mismatch(stream, case, {'channel': ch, 'model': 'OK', 'impl': 'raised'})
            continue
        if tag != 'OK':
            ctx.mismatch(stream, case, {'channel': ch, 'model': tag, 'impl_len': len(iw[0])})
            continue
        mt = t.list(t.q)
        mv = t.list(t.q)
        its, ivs = iw
        if len(mt) != len(its):
            ctx.mismatch(stream, case, {'channel': ch, 'model_len': len(mt), 'impl_len': len(its)})
            continue
        scale = max([Fraction(1)] + [abs(v) for v in mv])
        for i in range(len(mt)):
            if abs(mt[i] - its[i]) > Fraction(1, 10 ** 12) + abs(mt[i]) / 10 ** 9 or \
                    abs(mv[i] - ivs[i]) > scale / 10 ** 9:
                ctx.mismatch(stream, case, {'channel': ch, 'index': i, 'model': [float(mt[i]), float(mv[i])],
                                            'impl': [float(its[i]), float(ivs[i])]})
                break


def pick_ranges(rng, seq, held, n=3):
    """time ranges: random, and exact block boundaries as the implementation's own cumsum gives them"""
    bd = np.array(list(seq.block_durations.values()))
    cs = np.cumsum(bd)
    tot = float(cs[-1])
    out = []
    for _ in range(n):
        k = rng.random()
        if k < 0.4:
            a, c = sorted([rng.uniform(-0.1 * tot, 1.0 * tot), rng.uniform(0, 1.2 * tot)])
            # keep away from block boundaries (binary64 cumsum vs exact decision)
            a = round(a * 1e9) * 1e-9 + 0.37e-9
            c = round(c * 1e9) * 1e-9 + 0.37e-9
            if a > c:
                a, c = c, a
        elif k < 0.8:
            i = rng.randrange(len(cs))
            j = rng.randrange(i, len(cs))
            a = float(cs[i]) if rng.random() < 0.5 else float(cs[i] - bd[i])
            c = float(cs[j]) if rng.random() < 0.5 else float(cs[j] - bd[j])
            if a > c:
                a, c = c, a
        else:
            a = float(rng.choice(list(cs)))
            c = a
        if a <= tot:      # begin beyond the last block end: IndexError in the code (model: ERRI), not claimed
            out.append((a, c))
    return out


def check_round(ctx, case, seq, blocks_desc, rng, n_ranges=3):
    """the whole C08 oracle + model correspondence on the sequence object as it is now.  `case` is what is recorded
    on a failure (full description incl. history and the phase reached); blocks_desc (or None) describes the events
    that were put into the sequence, block by block."""
    # the events of the sequence AS IT IS NOW, decoded without any cache (both cache settings must export these)
    held = eg.Held(eg.fresh_view(seq))
    if not held.ok:
        ctx.count('gen.off_grid')
        return None
    nblk = len(held.blocks)
    # the events the sequence holds must be the events that were added (kind and timing)
    for bi, (blk, ent) in enumerate(zip(blocks_desc or [], held.blocks)):
        for j, chn in enumerate('xyz'):
            if chn in blk['g'] and ent['g'][j] is not None:
                why = eg.stored_differs(blk['g'][chn], ent['g'][j], held.raster)
                if why:
                    ctx.fail('C08/event-changed-by-storage', case, {'block': bi + 1, 'channel': chn, 'what': why,
                                                                    'given': blk['g'][chn]})
                    ctx.evaluated(('seq', str(case)))
                    return False
            elif (chn in blk['g']) != (ent['g'][j] is not None):
                ctx.fail('C08/event-lost-by-storage', case, {'block': bi + 1, 'channel': chn})
                ctx.evaluated(('seq', str(case)))
                return False
    try:
        waves = seq.waveforms()
    except BaseException as e:  # `raise Warning(...)` of the monotonicity check included
        ctx.fail('C08/waveforms-raises', case, {'exception': repr(e)})
        ctx.evaluated(('seq', str(case)))
        return False
    impl = []
    ok = True
    junction = False
    delayed = False
    for ch in range(3):
        ts, vs = to_lists(waves[ch])
        impl.append((ts, vs))
        rend = eg.Rendering(held, ch)
        for (s0, e0, g0), (s1, e1, g1) in zip(rend.items[:-1], rend.items[1:]):
            c0 = eg.event_corners(g0, held.raster)
            c1 = eg.event_corners(g1, held.raster)
            if s0 + c0[0][-1] == s1 + c1[0][0] and c0[1][-1] != 0:
                junction = True
        delayed |= any(g['delay'] > 0 for _, _, g in rend.items)
        times = eg.dense_times(held, rend)
        ok &= check_export(ctx, case, held, ch, ts, vs, rend, 'C08/waveforms', times)
        ctx.count('corners', len(ts))
        ctx.count('dense_times', len(times))
    # get_gradients(): PPoly callables (float evaluation)
    if ok:
        try:
            pps = seq.get_gradients()
        except BaseException as e:
            ctx.fail('C08/get_gradients-raises', case, {'exception': repr(e)})
            ok = False
            pps = None
        if pps is not None:
            for ch in range(3):
                rend = eg.Rendering(held, ch)
                if pps[ch] is None:
                    if rend.items:
                        ctx.fail('C08/get_gradients-none', case, {'channel': ch})
                        ok = False
                    continue
                times = eg.dense_times(held, rend)
                tf = np.array([float(t) for t in times])
                got = pps[ch](tf)
                scale = float(max(rend.max_abs(), 1))
                for t, gv in zip(times, got):
                    want, spread = rend.value(t)
                    if not abs(float(gv) - float(want)) <= 1e-9 * scale + float(rend.slack_at(t)) + float(spread) + 1e-12 \
                            + float(rend.max_slope() * held.total) * 1e-15:
                        ctx.fail('C08/get_gradients-value', case, {'channel': ch, 't': float(t), 'pp': float(gv),
                                                                   'rendered': float(want)})
                        ok = False
                        break
    # the other public options of the export functions: append_RF must leave the gradient channels alone,
    # gradient_offset adds a constant inside the waveform, trajectory_delay shifts the time axis
    if ok:
        try:
            try:
                w4 = seq.waveforms(append_RF=True)
            except Warning:
                # back-to-back RF pulses (ring-down 0, delay 0): the 0.1-raster guard points of the RF CHANNEL overlap
                # and the monotonicity check of that channel fires; not a statement about the gradient channels
                w4 = None
                ctx.count('append_RF.rf_channel_not_monotonic')
            if w4 is not None and (len(w4) != 4 or any(not np.array_equal(np.asarray(w4[ch]), np.asarray(waves[ch]))
                                                       for ch in range(3))):
                ctx.fail('C08/append_RF-changes-gradients', case, {'len': len(w4)})
                ok = False
            off = rng.choice([1000.0, -2500.5, 40000.0])
            dl = rng.choice([1e-6, 7e-6, -3e-6, 5e-5])
            ppo = seq.get_gradients(gradient_offset=off)
            ppd = seq.get_gradients(trajectory_delay=dl)
        except BaseException as e:
            ctx.fail('C08/export-option-raises', case, {'exception': repr(e)})
            ok = False
        if ok:
            sdl = eg.snap(dl)
            for ch in range(3):
                rend = eg.Rendering(held, ch)
                ts_ch = impl[ch][0]
                scale = float(max(rend.max_abs(), 1))
                lim0 = 1e-9 * (scale + abs(off)) + float(rend.max_slope() * held.total) * 1e-15 + 1e-12
                if not ts_ch:
                    if ppd[ch] is not None or ppo[ch] is None:
                        ctx.fail('C08/export-option-empty-channel', case, {'channel': ch})
                        ok = False
                        break
                    tt = [Fraction(0), held.total / 2, held.total]
                    if any(abs(float(v) - off) > lim0 for v in ppo[ch](np.array([float(t) for t in tt]))):
                        ctx.fail('C08/gradient_offset-value', case, {'channel': ch, 'offset': off})
                        ok = False
                        break
                    continue
                times = [t for t in eg.dense_times(held, rend) if ts_ch[0] + eg.TEDGE < t < ts_ch[-1] - eg.TEDGE]
                if not times:
                    continue
                go = ppo[ch](np.array([float(t) for t in times]))
                gd = ppd[ch](np.array([float(t - sdl) for t in times]))
                for t, a1, a2 in zip(times, go, gd):
                    want, spread = rend.value(t)
                    lim = lim0 + float(rend.slack_at(t)) + float(spread)
                    if not abs(float(a1) - float(want) - off) <= lim:
                        ctx.fail('C08/gradient_offset-value', case, {'channel': ch, 't': float(t), 'pp': float(a1),
                                                                     'rendered': float(want), 'offset': off})
                        ok = False
                        break
                    if not abs(float(a2) - float(want)) <= lim + float(rend.max_slope()) * 1e-18:
                        ctx.fail('C08/trajectory_delay-value', case, {'channel': ch, 't': float(t), 'pp': float(a2),
                                                                      'rendered': float(want), 'delay': dl})
                        ok = False
                        break
                if not ok:
                    break
    # time_range selections
    range_cases = []
    if ok:
        for (a, c) in pick_ranges(rng, seq, held, n_ranges):
            sa, sc = eg.snap(a) if abs(F(a) - eg.snap(a)) < Fraction(1, 10 ** 13) else F(a), \
                     eg.snap(c) if abs(F(c) - eg.snap(c)) < Fraction(1, 10 ** 13) else F(c)
            sel = [i for i, e in enumerate(held.blocks) if e['start'] + e['dur'] >= sa and e['start'] <= sc]
            strict = [i for i, e in enumerate(held.blocks) if e['start'] + e['dur'] > sa and e['start'] < sc]
            # a block that only TOUCHES the range is selected or not depending on binary64 rounding of
            # cumsum(bd) - bd: both answers are accepted for such blocks (never for overlapping ones)
            cands = [sel]
            if strict != sel:
                lo_t = [i for i in sel if strict and i < strict[0]] if strict else []
                hi_t = [i for i in sel if strict and i > strict[-1]] if strict else []
                cands += [[i for i in sel if i not in lo_t], [i for i in sel if i not in hi_t], strict]
                if not strict:
                    cands += [[i] for i in sel] + [sel[:k] for k in range(1, len(sel))] + [sel[k:] for k in range(1, len(sel))]
            try:
                wr = seq.waveforms(time_range=[a, c])
            except BaseException as e:
                ctx.fail('C08/time_range-raises', case, {'range': [a, c], 'exception': repr(e)})
                ok = False
                break
            ctx.count('range.blocks_selected.%s' % ('0' if not sel else '1' if len(sel) == 1 else
                                                    'all' if len(sel) == nblk else 'some'))
            rimpl = [to_lists(wr[ch]) for ch in range(3)]
            chosen = None
            first_bad = None
            for cand in cands:
                bad = None
                for ch in range(3):
                    ts, vs = rimpl[ch]
                    rsel = eg.Rendering(held, ch, block_subset=set(cand))
                    times = eg.dense_times(held, eg.Rendering(held, ch))
                    bad = export_defect(held, ch, ts, vs, rsel, times)
                    if bad:
                        break
                if bad is None:
                    chosen = cand
                    break
                first_bad = first_bad or bad
            rcase = dict(case, time_range=[a, c])
            if chosen is None:
                ctx.fail('C08/time_range/' + first_bad[0], rcase, first_bad[1])
                ok = False
                break
            if chosen != sel:
                ctx.count('range.touching_block_dropped_by_rounding')
            # the same restriction through get_gradients(time_range=...): piecewise polynomials of exactly the
            # selected blocks (zero outside them)
            try:
                ppr = seq.get_gradients(time_range=[a, c])
            except BaseException as e:
                ctx.fail('C08/get_gradients-time_range-raises', rcase, {'exception': repr(e)})
                ok = False
                break
            for ch in range(3):
                rsel = eg.Rendering(held, ch, block_subset=set(chosen))
                if ppr[ch] is None:
                    if rsel.items:
                        ctx.fail('C08/get_gradients-time_range-none', rcase, {'channel': ch})
                        ok = False
                    continue
                times = eg.dense_times(held, eg.Rendering(held, ch))
                # keep clear of the teps padding ramps at a cut through a non-zero junction
                ends = [fr for fr in (rimpl[ch][0][:1] + rimpl[ch][0][-1:])]
                times = [t for t in times if all(abs(t - e) > Fraction(1, 10 ** 9) or t == e for e in ends)]
                got = ppr[ch](np.array([float(t) for t in times]))
                scale = float(max(rsel.max_abs(), 1))
                for t, gv in zip(times, got):
                    want, spread = rsel.value(t)
                    if t in ends and want != 0:
                        continue      # PPoly breakpoint of the padding: left/right value differ there
                    if not abs(float(gv) - float(want)) <= 1e-9 * scale + float(rsel.slack_at(t)) + float(spread) + 1e-12 \
                            + float(rsel.max_slope() * held.total) * 1e-15:
                        ctx.fail('C08/get_gradients-time_range-value', rcase,
                                 {'channel': ch, 't': float(t), 'pp': float(gv), 'rendered': float(want)})
                        ok = False
                        break
                if not ok:
                    break
            if not ok:
                break
            for ch in range(3):
                ts, vs = rimpl[ch]
                # every corner of the restricted export is a corner of the full export
                fts, fvs = impl[ch]
                rfull = eg.Rendering(held, ch)
                for t, v in zip(ts, vs):
                    k = bisect.bisect_left(fts, t - eg.TEDGE)
                    if k >= len(fts) or abs(fts[k] - t) > eg.TEDGE or \
                            abs(fvs[k] - v) > abs(v) / 10 ** 9 + Fraction(1, 10 ** 9) + rfull.slack_at(t):
                        ctx.fail('C08/time_range-not-part-of-full', rcase, {'channel': ch, 't': float(t), 'v': float(v)})
                        ok = False
                        break
            if chosen != sel:
                continue          # model decides exactly: a rounding-dependent selection is oracle-only
            range_cases.append(((sa, sc), rimpl))
            if not ok:
                break
    ctx.evaluated(('seq', str(case)), nontrivial=junction or delayed)
    ctx.count('blocks', nblk)
    ctx.count('seq.junction' if junction else 'seq.no_junction')
    for e in held.blocks:
        for g in e['g']:
            ctx.count('event.%s' % ('none' if g is None else 'trap' if g['k'] == 'trap' else
                                    'arb' if g['arb'] else 'ext'))
    # model correspondence
    if ok and ctx.model_available:
        lines = ['export.wave %s %s' % (qtok(held.raster), held.blocks_tok())]
        for (sa, sc), _ in range_cases:
            lines.append('export.range %s %s %s %s' % (qtok(held.raster), qtok(sa), qtok(sc), held.blocks_tok()))
        outs = ctx.model(lines)
        compare_model_wave(ctx, case, 'wave', outs[0], impl)
        for ((sa, sc), rimpl), o in zip(range_cases, outs[1:]):
            compare_model_wave(ctx, dict(case, time_range=[float(sa), float(sc)]), 'range', o, rimpl)
    return ok




def run_case(ctx, case, rng_unused=None):
    """phase 0: the sequence as built; then, per history operation (set_block with another duration / add_block after
    an export), the whole oracle again on the SAME object; then (reread cases) the sequence written and read into a
    Sequence() whose system has another gradient raster."""
    rng = random.Random(stable_hash(jsonable({k: v for k, v in case.items() if k not in ('phase', 'time_range')})))
    try:
        seq = eg.build_sequence(case)
    except Exception as e:  # the generator produced something a constructor / add_block refuses
        ctx.count('gen.refused')
        ctx.notes.append('generator case refused: %r' % (e,)) if len(ctx.notes) < 3 else None
        return None
    blocks = list(case['blocks'])
    ok = check_round(ctx, dict(case, phase=0), seq, blocks, rng)
    if not ok:
        return ok
    for k, op in enumerate(case.get('history', [])):
        try:
            blocks = eg.apply_op(seq, blocks, op, case)
        except Exception as e:
            ctx.count('gen.history_op_refused')
            return ok
        ctx.count('history.%s' % op['op'])
        ok = check_round(ctx, dict(case, phase=k + 1), seq, blocks, rng, n_ranges=4)
        if not ok:
            return ok
    if 'reread_raster_us' in case:
        try:
            s2 = eg.reread_sequence(seq, case)
        except Exception as e:
            ctx.count('gen.reread_refused')
            ctx.notes.append('write/read refused: %r' % (e,)) if len(ctx.notes) < 3 else None
            return ok
        ctx.count('reread')
        ok = check_round(ctx, dict(case, phase='reread'), s2, None, rng)
    return ok


def render_correspondence(ctx, rng, n):
    """the Coq specification renderer `render` agrees with the independent Python renderer (same predicate)"""
    if not ctx.model_available:
        return
    lines, wants, cases = [], [], []
    for _ in range(n):
        b = eg.Builder(rng)
        case = b.generate()
        try:
            seq = eg.build_sequence(case)
        except Exception:
            continue
        held = eg.Held(seq)
        if not held.ok:
            continue
        for e in held.blocks:
            for g in e['g']:
                if g is None:
                    continue
                ts, _ = eg.event_corners(g, held.raster)
                ss = sorted(set(ts + [t + held.raster / 8 for t in ts] + [t - held.raster / 8 for t in ts]
                                + [(a + c) / 2 for a, c in zip(ts[:-1], ts[1:])]))
                lines.append('export.render %s %s %s' % (qtok(held.raster), held.grad_tok(g)[2:], qlist(ss)))
                wants.append([eg.event_value(g, held.raster, s) or Fraction(0) for s in ss])
                cases.append({'grad': str(g)[:300]})
    if not lines:
        return
    outs = ctx.model(lines)
    for o, w, c in zip(outs, wants, cases):
        t = Toks(o)
        try:
            got = t.list(t.q)
        except Exception:
            ctx.mismatch('render', c, {'model': o[:200]})
            continue
        if len(got) != len(w) or any(abs(a - b) > (abs(b) + 1) / 10 ** 12 for a, b in zip(got, w)):
            ctx.mismatch('render', c, {'model': [float(x) for x in got[:8]], 'oracle': [float(x) for x in w[:8]]})
    ctx.count('render.events', len(lines))


def corpus():
    """fixed cases: junction with non-zero edge of each sign, delayed gradient after a gap, triangle, arb->ext"""
    def blk(g=None, delay=None):
        return {'g': g or {}, 'rf': None, 'adc': None, 'delay': delay}
    cs = []
    cs.append({'raster_us': 10, 'max_grad': 1703040.0, 'max_slew': 7237920000.0, 'blocks': [
        blk({'x': {'k': 'ext', 'delay': 0, 'tt': [0, 2, 5], 'vals': [0, 50, 20]}}),
        blk({'x': {'k': 'ext', 'delay': 0, 'tt': [0, 3, 6], 'vals': [20, -40, 0]},
             'y': {'k': 'trap', 'amp': 32, 'rise': 2, 'flat': 0, 'fall': 3, 'delay': 1}}),
        blk(delay=7),
        blk({'x': {'k': 'trap', 'amp': -64, 'rise': 3, 'flat': 4, 'fall': 3, 'delay': 5}}),
    ]})
    cs.append({'raster_us': 10, 'max_grad': 1703040.0, 'max_slew': 7237920000.0, 'blocks': [
        blk({'z': {'k': 'arb', 'delay': 2, 'w': [5, 15, 25, 32, 32, -10], 'first': 0, 'last': -20}}),
        blk({'z': {'k': 'arb', 'delay': 0, 'w': [-25, -32, -20], 'first': -20, 'last': -16}}),
        blk({'z': {'k': 'ext', 'delay': 0, 'tt': [0, 4], 'vals': [-16, 0]}}),
    ]})
    # regression (fixed defect, /repo 3807129): an extended trapezoid whose corners are exactly one raster apart was
    # stored as a raster-sampled arbitrary gradient, shifted by half a raster and one raster longer than its block
    cs.append({'raster_us': 10, 'max_grad': 1703040.0, 'max_slew': 7237920000.0, 'blocks': [
        blk({'x': {'k': 'ext', 'delay': 0, 'tt': [0, 1, 2], 'vals': [0, -50, 0]},
             'y': {'k': 'ext', 'delay': 3, 'tt': [0, 1, 2, 3], 'vals': [0, 40, 40, 10]}}),
        blk({'x': {'k': 'trap', 'amp': 20, 'rise': 1, 'flat': 2, 'fall': 1, 'delay': 0},
             'y': {'k': 'ext', 'delay': 0, 'tt': [0, 1], 'vals': [10, 0]}}),
    ]})
    return cs


def run(ctx):
    rng = ctx.rng('sequences')
    rrng = ctx.rng('ranges')
    big = ctx.tier == 'thorough' or ctx.escalated
    n_cases = 2500 if big else 110
    cases = corpus()
    for i in range(n_cases):
        stream = rng.choice(['plain', 'history', 'history', 'reread', 'long', 'long', 'twins', 'twins', 'gapped', 'gapped'])
        b = eg.Builder(rng, with_rf=rng.random() < 0.2, with_adc=rng.random() < 0.2,
                       max_blocks=30 if big and i % 4 == 0 else 8, reread=(stream == 'reread'),
                       long=(stream == 'long'), twins=(stream == 'twins'), gapped=(stream == 'gapped'))
        c = b.generate()
        c['stream'] = stream
        c['cache'] = rng.random() < 0.8
        if stream == 'history' or (stream in ('long', 'twins') and rng.random() < 0.3):
            c['history'] = b.gen_history()
        if c.get('history') is not None and rng.random() < 0.15:
            ob = eg.Builder(rng, max_blocks=4)
            c['history'].append({'op': 'read', 'case': ob.generate()})
        if stream == 'gapped' and rng.random() < 0.4:
            c['reread_raster_us'] = rng.choice([c['raster_us'], 10 if c['raster_us'] == 20 else 20])
        cases.append(c)
    for i, c in enumerate(cases):
        if ctx.out_of_time():
            ctx.notes.append('time budget reached after %d sequences' % i)
            break
        run_case(ctx, c)
        ctx.count('stream.%s' % c.get('stream', 'corpus'))
        if i % 40 == 3:
            ctx.sample({'raster_us': c['raster_us'], 'n_blocks': len(c['blocks']), 'first_block': c['blocks'][0]})
    render_correspondence(ctx, ctx.rng('render'), 120 if big else 12)


def replay(ctx, case):
    c = dict(case)
    tr = c.pop('time_range', None)
    c.pop('phase', None)
    ok = run_case(ctx, c)
    res = {'oracle_ok': bool(ok), 'failures': len(ctx.failures), 'mismatches': len(ctx.mismatches)}
    if tr is not None:
        seq = eg.build_sequence(c)
        w = seq.waveforms(time_range=tr)
        res['time_range'] = tr
        res['restricted'] = [[list(map(float, a[0])), list(map(float, a[1]))] for a in w]
    return res
