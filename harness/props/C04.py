"""C04 — gradient constructors never return an event beyond the hardware limits."""
import copy
import math
from fractions import Fraction

import numpy as np

from common import F, qtok, qlist, Toks

ID = 'C04'
GEN_SECTIONS = ['GenUnits', 'GenLimits', 'GenTrap', 'FP_limits_ctors', 'FP_trap']
COQ_TARGETS = ['Props/C04.vo']
EXTRACT_TARGETS = ['Extract/Ex_limits.vo']
RUNNER = 'limits'
LEVEL = 'proof'
MANIFEST = {
    'text': ('Theorems (Coq, all argument lists / waveforms / systems / overrides): an event returned by make_extended_trapezoid '
             'has strictly increasing times, every corner within max_grad+eps and every segment within max_slew(1+eps), which '
             'lies inside the relative slack 1e-6 for limits >= 1e-3; an event returned by make_arbitrary_grad has all samples '
             'and raster steps within the limits and, with default edges, edge segments within the slew limit; the edge '
             'amplitude statement is refuted with kernel-checked witnesses (known finding: first/last are never checked). '
             'convert.py is translated expression by expression on every run: round trip, strict monotonicity, "a limit in unit '
             'u admits exactly the amplitudes that are within it when expressed in u", and what Opts stores, for any pi>0 and '
             'gamma. The make_trapezoid and make_extended_trapezoid_area parts are proved in C11/C12. Every gradient-returning '
             'function (make_trapezoid, make_extended_trapezoid(_area), make_arbitrary_grad, add_gradients, rotate, '
             'split_gradient(_at), RF slice gradients) is called on random and at/just-beyond-limit arguments, random systems, '
             'units and overrides; every returned event is rendered with exact rationals and checked for well-formedness and '
             'the limits; the two modelled constructors are compared with the extracted model (error class and all fields).'),
    'note': ('Trusted: Coq kernel; translator for convert.py/opts.py and the comparison forms of the two constructors; extraction + '
             'driver; binary64 arithmetic outside the model (the code\'s eps slack 1e-9 separates exact and float decisions; '
             'no generated value lies within 1e-12 relative of a threshold). add_gradients/rotate/split_* are covered by the '
             'oracle on their outputs plus the theorems about the constructors they call (and C16-C18), not by their own model '
             'here. Known finding C04/make_arbitrary_grad/edge recorded.'),
    'technique': 'Rocq/Coq proof over transcribed constructors + translated unit conversion; exact-rational oracle on every returned event',
}
BUDGET = {'quick': 120, 'thorough': 1800}
MISMATCH_BUDGET = 0.0
RULE = ('per constructor: structured valid-mostly arguments (values at 0.5/0.9/1.0/1.001/1.2 x the limit, both signs, zero, random '
        'raster-aligned timing, overrides absent/zero/positive, systems with random limits in random unit spellings and rasters '
        '4/5/10/20 us) plus malformed streams (off-raster, non-ascending, length mismatch, conflicting arguments); oracle: every '
        'returned event rendered as exact corner list, strictly increasing times, rise/fall > 0, flat >= 0, |value| <= '
        'G(1+1e-6), |slope| <= S(1+1e-6) with G,S the overrides if given else the system limits. distinct = distinct argument '
        'tuples; non-trivial = the call returned an event with a non-zero waveform or was rejected for a limit')
TRUSTED = ['binary64 arithmetic inside the constructors (outside the model; eps slack separates decisions)']
ASSUMPTIONS = ['limits >= 1e-3 Hz/m (the code uses an absolute slack eps = 1e-9 on amplitudes)']

REL = Fraction(1, 10 ** 6)
RASTERS = [4e-6, 5e-6, 10e-6, 20e-6]


# ---------------------------------------------------------------------------------------------------
def rand_system(rng, units=True):
    import pypulseq as pp
    gamma = rng.choice([42.576e6, 42.576e6, 10.7084e6, 40.078e6])
    raster = rng.choice(RASTERS)
    mg_mT = rng.choice([20, 30, 40, 45, 80]) * rng.choice([1, 1, 0.5])
    ms_T = rng.choice([50, 100, 170, 200])
    if units and rng.random() < 0.7:
        gu = rng.choice(['Hz/m', 'mT/m', 'rad/ms/mm'])
        su = rng.choice(['Hz/m/s', 'mT/m/ms', 'T/m/s', 'rad/ms/mm/ms'])
    else:
        gu, su = 'Hz/m', 'Hz/m/s'
    g_hz = mg_mT * 1e-3 * gamma
    s_hz = ms_T * gamma
    gv = {'Hz/m': g_hz, 'mT/m': mg_mT, 'rad/ms/mm': g_hz * 2 * math.pi * 1e-6}[gu]
    sv = {'Hz/m/s': s_hz, 'mT/m/ms': ms_T, 'T/m/s': ms_T, 'rad/ms/mm/ms': s_hz * 2 * math.pi * 1e-9}[su]
    sys_ = pp.Opts(max_grad=gv, grad_unit=gu, max_slew=sv, slew_unit=su, gamma=gamma, grad_raster_time=raster,
                   rf_raster_time=1e-6, rf_dead_time=rng.choice([0, 100e-6]), rf_ringdown_time=rng.choice([0, 20e-6]))
    desc = {'gamma': gamma, 'raster': raster, 'max_grad': gv, 'grad_unit': gu, 'max_slew': sv, 'slew_unit': su}
    return sys_, desc


def system_from_desc(d):
    import pypulseq as pp
    return pp.Opts(max_grad=d['max_grad'], grad_unit=d['grad_unit'], max_slew=d['max_slew'], slew_unit=d['slew_unit'],
                   gamma=d['gamma'], grad_raster_time=d['raster'], rf_raster_time=1e-6,
                   rf_dead_time=d.get('rf_dead_time', 0), rf_ringdown_time=d.get('rf_ringdown_time', 0))


def is_arbitrary(ev, raster):
    tt = np.asarray(ev.tt, dtype=float)
    if len(tt) < 2:
        return False
    return abs(tt[0] - raster / 2) < 1e-12 and bool(np.all(np.abs(np.diff(tt) - raster) < 1e-12))


def corners(ev, raster):
    """exact corner list (relative to the start of the event's own time axis) and structural problems"""
    bad = []
    if ev.type == 'trap':
        r, fl, fa = F(ev.rise_time), F(ev.flat_time), F(ev.fall_time)
        a = F(ev.amplitude)
        if r <= 0:
            bad.append('rise_time <= 0')
        if fa <= 0:
            bad.append('fall_time <= 0')
        if fl < 0:
            bad.append('flat_time < 0')
        pts = [(Fraction(0), Fraction(0)), (r, a)]
        if fl > 0:
            pts.append((r + fl, a))
        pts.append((r + fl + fa, Fraction(0)))
        if F(ev.delay) < 0:
            bad.append('delay < 0')
        return pts, bad
    tt = [F(t) for t in np.asarray(ev.tt, dtype=float)]
    ww = [F(w) for w in np.asarray(ev.waveform, dtype=float)]
    if len(tt) != len(ww):
        bad.append('len(tt) != len(waveform)')
    pts = list(zip(tt, ww))
    if is_arbitrary(ev, raster):
        pts = [(Fraction(0), F(ev.first))] + pts + [(F(raster) * len(ww), F(ev.last))]
    return pts, bad


def check_event(ev, raster, G, S, edges=True):
    """returns list of (kind, detail): kind in wf / amp / slew / edge-amp / edge-slew"""
    pts, bad = corners(ev, raster)
    out = [('wf', b) for b in bad]
    arb = ev.type == 'grad' and is_arbitrary(ev, raster)
    Gm = F(G) * (1 + REL)
    Sm = F(S) * (1 + REL)
    n = len(pts)
    for i in range(n):
        t, v = pts[i]
        edge = arb and (i == 0 or i == n - 1)
        if abs(v) > Gm:
            out.append(('edge-amp' if edge else 'amp', {'t': float(t), 'value': float(v), 'limit': float(G)}))
        if i + 1 < n:
            t1, v1 = pts[i + 1]
            if not t1 > t:
                if ev.type == 'trap' and t1 == t:
                    continue      # reported as wf already
                out.append(('wf', 'times not strictly increasing at index %d' % i))
                continue
            edge_seg = arb and (i == 0 or i + 1 == n - 1)
            if abs(v1 - v) > Sm * (t1 - t):
                out.append(('edge-slew' if edge_seg else 'slew',
                            {'t': float(t), 'slope': float(abs(v1 - v) / (t1 - t)), 'limit': float(S)}))
    if not edges:
        out = [o for o in out if not o[0].startswith('edge')]
    return out


def report(ctx, site, case, ev, raster, G, S):
    probs = check_event(ev, raster, G, S)
    if not probs:
        return True
    kinds = sorted(set(k for k, _ in probs))
    if all(k.startswith('edge') for k in kinds):
        sig = 'C04/%s/edge' % site
    elif site == 'add_gradients' and case.get('n') == 1 and 'wf' not in kinds:
        sig = 'C04/add_gradients/single-input'      # a one-element list is returned as a copy, unchecked
    else:
        sig = 'C04/%s/%s' % (site, kinds[0])
    ctx.fail(sig, case, {'problems': probs[:4]})
    return False


def sys_changed(ctx, site, case, sys_, snap):
    """constructors must leave the system object they are given (and the library default) untouched"""
    now = dict(vars(sys_))
    diff = {k: [snap.get(k), now.get(k)] for k in set(snap) | set(now) if snap.get(k) != now.get(k)}
    if diff:
        ctx.fail('C04/%s/system-modified' % site, case, {'changed': {k: [repr(a), repr(b)] for k, (a, b) in diff.items()}})
        return True
    return False


def default_snapshot():
    import pypulseq as pp
    return dict(vars(pp.Opts.default))


def nonzero(ev):
    if ev.type == 'trap':
        return ev.amplitude != 0
    return bool(np.any(np.asarray(ev.waveform) != 0))


# ---------------------------------------------------------------------------------------------------
EXT_ERR = [
    ('Times and amplitudes must have the same length', 'ELen'),
    ('At least one of the given times must be non-zero', 'EAllZero'),
    ('Times must be in ascending order', 'ENotAscending'),
    ('The last time point must be on a gradient raster', 'ELastRaster'),
    ('it must connect to previous block', 'EConnectPrev'),
    ('All time points must be on a gradient raster', 'ENotOnRaster'),
    ('Slew rate violation', 'ESlew'),
    ('Gradient amplitude violation', 'EGrad'),
    ('empty sequence', 'EShort'),
    ('iterable argument is empty', 'EShort'),
    ('zero-size array', 'EShort'),
]


def classify(exc):
    m = str(exc)
    for frag, code in EXT_ERR:
        if frag in m:
            return code
    return 'OTHER:' + type(exc).__name__ + ':' + m[:60]


def level(rng, lim):
    return lim * rng.choice([0, 0.3, 0.5, 0.9, 0.999, 1.0, 1.0, 1.001, 1.2, rng.uniform(0, 1.1)]) * rng.choice([1, -1])


def gen_ext(rng):
    sys_, sd = rand_system(rng)
    r = sd['raster']
    G, S = sys_.max_grad, sys_.max_slew
    n = rng.randint(2, 7)
    k = 0 if rng.random() < 0.7 else rng.randint(1, 10)
    ks = [k]
    for _ in range(n - 1):
        ks.append(ks[-1] + rng.choice([1, 2, 5, 10, 20, 50]))
    times = [kk * r for kk in ks]
    mg = rng.choice([0, 0, 0, 0.5 * G, 2 * G, -1.0])
    ms = rng.choice([0, 0, 0, 0.5 * S, 2 * S, -1.0])
    Ge = mg if mg > 0 else G
    Se = ms if ms > 0 else S
    mode = rng.choice(['slew', 'slew', 'amp', 'mixed'])
    amps = [0.0 if (k > 0 or rng.random() < 0.6) else level(rng, Ge)]
    for i in range(1, n):
        dt = times[i] - times[i - 1]
        if mode == 'amp':
            a = level(rng, Ge)
        else:
            step = Se * dt * rng.choice([0, 0.5, 0.9, 0.999, 1.0, 1.0, 1.001, 1.3]) * rng.choice([1, -1])
            a = amps[-1] + step
            if mode == 'slew' and abs(a) > Ge * 0.95:
                a = amps[-1] - step if abs(amps[-1] - step) <= Ge * 0.95 else amps[-1]
        amps.append(a)
    skip = rng.random() < 0.3
    mal = rng.random()
    kind = 'valid-mostly'
    if mal < 0.05:
        times[rng.randrange(n)] += 0.3 * r
        kind = 'off-raster'
    elif mal < 0.09:
        i = rng.randrange(1, n)
        times[i] = times[i - 1] if rng.random() < 0.5 else times[i - 1] - r
        kind = 'non-ascending'
    elif mal < 0.12:
        amps = amps[:-1]
        kind = 'length'
    elif mal < 0.14:
        times = [0.0] * n
        kind = 'all-zero'
    elif mal < 0.18 and k > 0:
        amps[0] = 0.2 * Ge
        kind = 'connect'
    elif mal < 0.2:
        times, amps = times[:1], amps[:1]
        kind = 'short'
    return {'site': 'ext', 'kind': kind, 'sys': sd, 'times': times, 'amps': amps, 'max_grad': mg, 'max_slew': ms, 'skip': skip}


def run_ext(ctx, case):
    import pypulseq as pp
    sys_ = system_from_desc(case['sys'])
    snap = dict(vars(sys_))
    r = case['sys']['raster']
    try:
        g = pp.make_extended_trapezoid('x', amplitudes=np.array(case['amps'], dtype=float), times=np.array(case['times'], dtype=float),
                                       system=sys_, max_grad=case['max_grad'], max_slew=case['max_slew'], skip_check=case['skip'])
        res = ('OK', g)
    except Exception as e:  # noqa: BLE001
        res = ('ERR', classify(e))
    sys_changed(ctx, 'make_extended_trapezoid', case, sys_, snap)
    G = case['max_grad'] if case['max_grad'] > 0 else sys_.max_grad
    S = case['max_slew'] if case['max_slew'] > 0 else sys_.max_slew
    ok = True
    if res[0] == 'OK':
        ok = report(ctx, 'make_extended_trapezoid', case, res[1], r, G, S)
    line = 'lim.ext %s %s %s %s %s %s %s %d' % (
        qtok(F(sys_.max_grad)), qtok(F(sys_.max_slew)), qtok(F(r)), qlist(F(t) for t in case['times']),
        qlist(F(a) for a in case['amps']), qtok(F(case['max_grad'])), qtok(F(case['max_slew'])), 1 if case['skip'] else 0)
    return res, line, ok


def cmp_grad(res, t, scale):
    """compare implementation result with the model's output tokens"""
    tag = t.next()
    if tag == 'ERR':
        code = t.next()
        if res[0] != 'ERR' or res[1] != code:
            return {'model': 'ERR ' + code, 'impl': res[0] if res[0] == 'OK' else res[1]}
        return None
    if res[0] != 'OK':
        return {'model': 'OK', 'impl': res[1]}
    g = res[1]
    delay = t.q()
    tt = t.list(t.q)
    ww = t.list(t.q)
    first, last = t.q(), t.q()
    tol_t = Fraction(1, 10 ** 12)
    tol_v = Fraction(scale) * Fraction(1, 10 ** 9) + Fraction(1, 10 ** 12)
    if abs(delay - F(g.delay)) > tol_t:
        return {'field': 'delay', 'model': float(delay), 'impl': float(g.delay)}
    itt = [F(x) for x in np.asarray(g.tt, dtype=float)]
    iww = [F(x) for x in np.asarray(g.waveform, dtype=float)]
    if len(itt) != len(tt) or len(iww) != len(ww):
        return {'field': 'length', 'model': [len(tt), len(ww)], 'impl': [len(itt), len(iww)]}
    for a, b in zip(tt, itt):
        if abs(a - b) > tol_t:
            return {'field': 'tt', 'model': float(a), 'impl': float(b)}
    for a, b in zip(ww, iww):
        if abs(a - b) > tol_v:
            return {'field': 'waveform', 'model': float(a), 'impl': float(b)}
    if abs(first - F(g.first)) > tol_v or abs(last - F(g.last)) > tol_v:
        return {'field': 'first/last', 'model': [float(first), float(last)], 'impl': [float(g.first), float(g.last)]}
    return None


def gen_arb(rng, kf=False):
    sys_, sd = rand_system(rng)
    r = sd['raster']
    G, S = sys_.max_grad, sys_.max_slew
    n = rng.randint(1, 12) if rng.random() < 0.1 else rng.randint(2, 12)
    mg = rng.choice([None, None, 0, 0.5 * G, 2 * G])
    ms = rng.choice([None, None, 0, 0.5 * S, 2 * S])
    Ge = mg if mg else G
    Se = ms if ms else S
    w = [level(rng, Ge) * 0.8 if rng.random() < 0.5 else 0.0]
    if rng.random() < 0.15 and n >= 5:
        # a flat waveform with ONE isolated step between 1x and 2x the slew limit (central differences would halve it)
        base = rng.choice([0.0, 0.3 * Ge, -0.3 * Ge])
        k0 = rng.randint(2, n - 2)
        stepv = Se * r * rng.choice([1.2, 1.5, 1.9, 0.9]) * rng.choice([1, -1])
        w = [base] * k0 + [base + stepv] * (n - k0)
        n = 0
    for _ in range(n - 1):
        step = Se * r * rng.choice([0, 0.5, 0.9, 0.999, 1.0, 1.001, 1.3, rng.uniform(0, 1)]) * rng.choice([1, -1])
        a = w[-1] + step
        if abs(a) > Ge * rng.choice([1.0, 1.0, 1.0, 1.3]):
            a = w[-1] - step
        w.append(a)
    # edges: explicit values that continue the waveform within half a slew step (never a violation), or default edges of a
    # waveform whose extrapolation stays within the amplitude limit; the violating variants are the known-finding stream
    first = last = None
    if rng.random() < 0.5 and n >= 1:
        first = w[0] - rng.uniform(-0.45, 0.45) * Se * r
        first = max(-Ge, min(Ge, first))
        last = w[-1] + rng.uniform(-0.45, 0.45) * Se * r
        last = max(-Ge, min(Ge, last))
    n = len(w)
    case = {'site': 'arb', 'kind': 'valid-mostly', 'sys': sd, 'wave': w, 'first': first, 'last': last,
            'delay': rng.choice([0.0, 10 * r]), 'max_grad': mg, 'max_slew': ms}
    if first is None and n >= 2:
        # keep the default-edge extrapolation inside the amplitude limit (the other case is the known finding)
        f0 = 1.5 * w[0] - 0.5 * w[1]
        l0 = 1.5 * w[-1] - 0.5 * w[-2]
        if abs(f0) > Ge or abs(l0) > Ge:
            case['first'], case['last'] = max(-Ge, min(Ge, f0)), max(-Ge, min(Ge, l0))
    return case


def run_arb(ctx, case):
    import pypulseq as pp
    sys_ = system_from_desc(case['sys'])
    snap = dict(vars(sys_))
    r = case['sys']['raster']
    try:
        g = pp.make_arbitrary_grad('y', np.array(case['wave'], dtype=float), first=case['first'], last=case['last'],
                                   delay=case['delay'], max_grad=case['max_grad'], max_slew=case['max_slew'], system=sys_)
        res = ('OK', g)
    except Exception as e:  # noqa: BLE001
        res = ('ERR', classify(e))
    sys_changed(ctx, 'make_arbitrary_grad', case, sys_, snap)
    G = case['max_grad'] if case['max_grad'] else sys_.max_grad
    S = case['max_slew'] if case['max_slew'] else sys_.max_slew
    ok = True
    if res[0] == 'OK':
        ok = report(ctx, 'make_arbitrary_grad', case, res[1], r, G, S)

    def opt(v):
        return '0' if v is None else '1 ' + qtok(F(v))
    line = 'lim.arb %s %s %s %s %s %s %s %s %s' % (
        qtok(F(sys_.max_grad)), qtok(F(sys_.max_slew)), qtok(F(r)), qlist(F(a) for a in case['wave']),
        opt(case['first']), opt(case['last']), qtok(F(case['delay'])), opt(case['max_grad']), opt(case['max_slew']))
    return res, line, ok


# ---------------------------------------------------------------------------------------------------
def gen_trap(rng):
    sys_, sd = rand_system(rng)
    r = sd['raster']
    G, S = sys_.max_grad, sys_.max_slew
    kw = {}
    if rng.random() < 0.3:
        kw['max_grad'] = G * rng.choice([0.5, 0.8])
    if rng.random() < 0.3:
        kw['max_slew'] = S * rng.choice([0.5, 0.8])
    Ge, Se = kw.get('max_grad', G), kw.get('max_slew', S)
    mode = rng.choice(['area', 'area_dur', 'area_flat', 'amp_dur', 'amp_flat', 'flatarea_flat'])
    tramp = math.ceil(Ge / Se / r) * r
    sgn = rng.choice([1, -1])
    ramps = {}
    if rng.random() < 0.5:
        ramps['rise_time'] = tramp * rng.choice([1, 1, 2, 0.5]) if rng.random() < 0.8 else r * rng.randint(1, 5)
        if rng.random() < 0.5:
            ramps['fall_time'] = tramp * rng.choice([1, 2, 0.5, 1.5])
            ramps['fall_time'] = max(r, round(ramps['fall_time'] / r) * r)
        ramps['rise_time'] = max(r, round(ramps['rise_time'] / r) * r)
    if mode == 'area':
        kw.update(area=sgn * Ge * tramp * rng.choice([0.001, 0.1, 0.5, 1, 1.01, 3, 10]))
    elif mode == 'area_dur':
        dur = r * rng.randint(2, 400)
        kw.update(area=sgn * Ge * dur * rng.choice([0.01, 0.3, 0.6, 0.9, 1.0, 1.2]), duration=dur)
        if 'rise_time' in ramps and rng.random() < 0.5:
            kw.update(ramps)
    elif mode == 'area_flat':
        ft = r * rng.randint(0, 300)
        kw.update(area=sgn * Ge * (ft + tramp) * rng.choice([0.01, 0.5, 0.9, 1.0, 1.1]), flat_time=ft)
        kw.update(ramps if ramps else {'rise_time': max(r, round(tramp / r) * r)})
    elif mode == 'amp_dur':
        dur = r * rng.randint(1, 400)
        kw.update(amplitude=sgn * Ge * rng.choice([0.1, 0.5, 0.999, 1.0, 1.001, 1.2]), duration=dur)
        if 'rise_time' in ramps and rng.random() < 0.5:
            kw.update(ramps)
    elif mode == 'amp_flat':
        kw.update(amplitude=sgn * Ge * rng.choice([0.1, 0.5, 0.999, 1.0, 1.001, 1.2]), flat_time=r * rng.randint(0, 300))
        if rng.random() < 0.6:
            kw.update(ramps)
    else:
        ft = r * rng.randint(1, 300)
        kw.update(flat_area=sgn * Ge * ft * rng.choice([0.1, 0.5, 0.999, 1.0, 1.001, 1.2]), flat_time=ft)
        if rng.random() < 0.6:
            kw.update(ramps)
    if rng.random() < 0.3:
        kw['delay'] = r * rng.randint(0, 30)
    return {'site': 'trap', 'kind': mode, 'sys': sd, 'kw': kw}


def run_trap(ctx, case):
    import pypulseq as pp
    sys_ = system_from_desc(case['sys'])
    snap = dict(vars(sys_))
    kw = dict(case['kw'])
    try:
        g = pp.make_trapezoid(channel='z', system=sys_, **kw)
    except Exception:  # noqa: BLE001
        ctx.count('trap.rejected')
        sys_changed(ctx, 'make_trapezoid', case, sys_, snap)
        return None
    sys_changed(ctx, 'make_trapezoid', case, sys_, snap)
    G = kw.get('max_grad') or sys_.max_grad
    S = kw.get('max_slew') or sys_.max_slew
    report(ctx, 'make_trapezoid', case, g, case['sys']['raster'], G, S)
    return g


def gen_eta(rng):
    sys_, sd = rand_system(rng)
    G, S, r = sys_.max_grad, sys_.max_slew, sd['raster']
    gs = G * rng.choice([0, 0, 0.3, -0.3, 0.99, -0.99, rng.uniform(-0.99, 0.99)])
    ge = G * rng.choice([0, 0, 0.3, -0.3, 0.99, -0.99, rng.uniform(-0.99, 0.99)])
    tr = G / S
    area = G * tr * rng.choice([0, 0.01, 0.3, 1, 2.5, 8]) * rng.choice([1, -1])
    return {'site': 'eta', 'kind': 'eta', 'sys': sd, 'gs': gs, 'ge': ge, 'area': area}


def run_eta(ctx, case):
    import pypulseq as pp
    sys_ = system_from_desc(case['sys'])
    snap = dict(vars(sys_))
    try:
        g, _, _ = pp.make_extended_trapezoid_area(channel='x', grad_start=case['gs'], grad_end=case['ge'], area=case['area'], system=sys_)
    except Exception:  # noqa: BLE001
        ctx.count('eta.rejected')
        return None
    sys_changed(ctx, 'make_extended_trapezoid_area', case, sys_, snap)
    report(ctx, 'make_extended_trapezoid_area', case, g, case['sys']['raster'], sys_.max_grad, sys_.max_slew)
    return g


def some_grad(rng, sys_, r, ch, frac=None):
    """a valid gradient on channel ch within a fraction of the limits"""
    import pypulseq as pp
    G, S = sys_.max_grad, sys_.max_slew
    f = frac if frac is not None else rng.choice([0.2, 0.5, 0.7, 1.0])
    kind = rng.choice(['trap', 'trap', 'ext', 'arb'])
    delay = r * rng.choice([0, 0, 3, 10])
    tramp = math.ceil(G / S / r) * r
    if kind == 'trap':
        return pp.make_trapezoid(ch, amplitude=f * G * rng.choice([1, -1]), flat_time=r * rng.randint(0, 40), rise_time=tramp,
                                 fall_time=tramp * rng.choice([1, 2]), delay=delay, system=sys_)
    if kind == 'ext':
        a = f * G * rng.choice([1, -1])
        times = np.array([0, tramp, 2 * tramp + r * rng.randint(0, 20), 4 * tramp + r * 40])
        return pp.make_extended_trapezoid(ch, amplitudes=np.array([0, a, a * rng.choice([1, 0.5]), 0]), times=times + delay, system=sys_)
    n = rng.randint(4, 30)
    w = f * G * np.sin(np.linspace(0, math.pi, n + 2)[1:-1]) * rng.choice([1, -1])
    # interior steps within 0.9 S r; the two half-raster edge segments (0 -> w[0], w[-1] -> 0) within 0.45 S r
    scale = min(1.0, 0.9 * S * r / (np.max(np.abs(np.diff(w))) + 1e-30), 0.45 * S * r / (max(abs(w[0]), abs(w[-1])) + 1e-30))
    return pp.make_arbitrary_grad(ch, w * scale, first=0.0, last=0.0, delay=delay, system=sys_)


def run_split(ctx, rng, k):
    import pypulseq as pp
    sys_, sd = rand_system(rng)
    snap = dict(vars(sys_))
    dsnap = default_snapshot()
    r = sd['raster']
    G, S = sys_.max_grad, sys_.max_slew
    tramp = math.ceil(G / S / r) * r
    amp = G * rng.choice([0.5, 0.999, 1.0]) * rng.choice([1, -1])
    flat = r * rng.randint(0, 40)
    delay = r * rng.choice([0, 0, 5, 12])
    g = pp.make_trapezoid('x', amplitude=amp, flat_time=flat, rise_time=tramp, fall_time=tramp * rng.choice([1, 2]), delay=delay, system=sys_)
    case = {'site': 'split', 'kind': 'split', 'sys': sd, 'amp': amp, 'flat': flat, 'delay': delay, 'rise': tramp, 'fall': float(g.fall_time)}
    ctx.count('stream.split')
    parts = []
    try:
        if rng.random() < 0.4:
            parts = list(pp.split_gradient(copy.deepcopy(g), system=sys_))
            case['fn'] = 'split_gradient'
        else:
            total = delay + tramp + flat + float(g.fall_time)
            tp = r * rng.randint(1, max(1, int(round(total / r)) - 1))
            case['fn'], case['time_point'] = 'split_gradient_at', tp
            parts = list(pp.split_gradient_at(copy.deepcopy(g), tp, system=sys_))
    except Exception as e:  # noqa: BLE001
        ctx.count('split.raised')
        case['raised'] = repr(e)[:100]
    sys_changed(ctx, case.get('fn', 'split'), case, sys_, snap)
    ctx.evaluated(('split', k, case.get('fn'), amp, flat, delay, case.get('time_point')), nontrivial=bool(parts))
    for p in parts:
        report(ctx, case['fn'], case, p, r, G, S)


def run_rotate(ctx, rng, k):
    import pypulseq as pp
    sys_, sd = rand_system(rng)
    snap = dict(vars(sys_))
    dsnap = default_snapshot()
    r = sd['raster']
    axis = rng.choice('xyz')
    others = [c for c in 'xyz' if c != axis]
    evs = []
    desc = []
    for ch in 'xyz':
        if rng.random() < 0.7:
            f = rng.choice([0.3, 0.6, 0.7, 1.0])
            evs.append(some_grad(rng, sys_, r, ch, f))
            desc.append((ch, f, evs[-1].type))
    angle = rng.choice([0, math.pi / 2, math.pi, math.pi / 4, -math.pi / 4, rng.uniform(-math.pi, math.pi), 1e-7])
    case = {'site': 'rotate', 'kind': 'rotate', 'sys': sd, 'axis': axis, 'angle': angle, 'events': desc}
    ctx.count('stream.rotate')
    try:
        out = pp.rotate(*copy.deepcopy(evs), angle=angle, axis=axis, system=sys_)
    except Exception as e:  # noqa: BLE001
        ctx.count('rotate.raised')
        ctx.evaluated(('rotate', k), nontrivial=False)
        return
    sys_changed(ctx, 'rotate', case, sys_, snap)
    ctx.evaluated(('rotate', k, axis, angle, tuple(desc)), nontrivial=len(evs) > 0)
    for g in out:
        if getattr(g, 'type', None) in ('trap', 'grad'):
            report(ctx, 'rotate', case, g, r, sys_.max_grad, sys_.max_slew)


def run_add(ctx, rng, k):
    import pypulseq as pp
    sys_, sd = rand_system(rng)
    snap = dict(vars(sys_))
    dsnap = default_snapshot()
    r = sd['raster']
    n = rng.randint(1, 3)
    f = rng.choice([0.3, 0.5, 0.7, 1.0])
    same = rng.random() < 0.3
    grads = []
    for i in range(n):
        g = some_grad(rng, sys_, r, 'y', f)
        if same and grads and grads[0].type == 'trap':
            g = pp.scale_grad(grads[0], rng.choice([1.0, 0.5, -0.3]))
        grads.append(g)
    kw = {}
    if rng.random() < 0.4:
        kw['max_grad'] = sys_.max_grad * rng.choice([0.6, 1.5])
    if rng.random() < 0.4:
        kw['max_slew'] = sys_.max_slew * rng.choice([0.6, 1.5])
    case = {'site': 'add', 'kind': 'add', 'sys': sd, 'n': n, 'frac': f, 'kw': kw, 'types': [g.type for g in grads]}
    ctx.count('stream.add')
    try:
        out = pp.add_gradients(copy.deepcopy(grads), system=sys_, **kw)
    except Exception:  # noqa: BLE001
        ctx.count('add.raised')
        ctx.evaluated(('add', k), nontrivial=True)
        return
    sys_changed(ctx, 'add_gradients', case, sys_, snap)
    ctx.evaluated(('add', k, n, f, tuple(sorted(kw.items()))), nontrivial=True)
    report(ctx, 'add_gradients', case, out, r, kw.get('max_grad', sys_.max_grad), kw.get('max_slew', sys_.max_slew))


def run_rfgz(ctx, rng, k):
    import pypulseq as pp
    sys_, sd = rand_system(rng)
    snap = dict(vars(sys_))
    dsnap = default_snapshot()
    sd['rf_dead_time'], sd['rf_ringdown_time'] = sys_.rf_dead_time, sys_.rf_ringdown_time
    r = sd['raster']
    maker = rng.choice(['sinc', 'gauss', 'arb'])
    dur = rng.choice([1e-3, 2e-3, 0.4e-3, 4e-3])
    thick = rng.choice([1e-3, 3e-3, 5e-3, 0.2e-3, 20e-3])
    tbw = rng.choice([2, 4, 8])
    kw = {}
    if rng.random() < 0.4:
        kw['max_grad'] = sys_.max_grad * rng.choice([0.5, 2.0])
    if rng.random() < 0.4:
        kw['max_slew'] = sys_.max_slew * rng.choice([0.5, 2.0])
    case = {'site': 'rfgz', 'kind': maker, 'sys': sd, 'duration': dur, 'thickness': thick, 'tbw': tbw, 'kw': kw}
    ctx.count('stream.rfgz.' + maker)
    try:
        if maker == 'sinc':
            out = pp.make_sinc_pulse(math.pi / 2, duration=dur, slice_thickness=thick, time_bw_product=tbw, return_gz=True, system=sys_, **kw)
        elif maker == 'gauss':
            out = pp.make_gauss_pulse(math.pi / 2, duration=dur, slice_thickness=thick, time_bw_product=tbw, return_gz=True, system=sys_, **kw)
        else:
            n = int(round(dur / sys_.rf_raster_time))
            sig = np.hanning(n) + 0j
            out = pp.make_arbitrary_rf(sig, math.pi / 3, bandwidth=tbw / dur, slice_thickness=thick, return_gz=True, system=sys_, **kw)
    except Exception:  # noqa: BLE001
        ctx.count('rfgz.raised')
        ctx.evaluated(('rfgz', k), nontrivial=True)
        return
    sys_changed(ctx, 'rf_maker', case, sys_, snap)
    import pypulseq as _pp
    if dict(vars(_pp.Opts.default)) != dsnap:
        ctx.fail('C04/rf_maker/default-system-modified', case, {})
    # a constructor called afterwards on the SAME system object must still be held to the system's limits
    try:
        g2 = pp.make_trapezoid('x', area=sys_.max_grad * 2e-4, system=sys_)
        report(ctx, 'make_trapezoid_after_rf_maker', case, g2, r, snap['max_grad'], snap['max_slew'])
    except Exception:  # noqa: BLE001
        pass
    ctx.evaluated(('rfgz', k, maker, dur, thick, tbw, tuple(sorted(kw.items()))), nontrivial=True)
    for g in out[1:]:
        if getattr(g, 'type', None) == 'trap':
            report(ctx, 'rf_slice_gradient', case, g, r, kw.get('max_grad', sys_.max_grad), kw.get('max_slew', sys_.max_slew))


def run_default_system(ctx, rng, k):
    """the library default is replaced by a TIGHTER system (Opts.set_as_default); constructors called WITHOUT a system
    argument must hold their results to the current default, not to the one that was current at import time"""
    import pypulseq as pp
    old = pp.Opts.default
    gamma = 42.576e6
    mg_mT, ms_T = rng.choice([8, 10, 20]), rng.choice([40, 60, 100])
    raster = rng.choice([10e-6, 20e-6])
    new = pp.Opts(max_grad=mg_mT, grad_unit='mT/m', max_slew=ms_T, slew_unit='T/m/s', grad_raster_time=raster)
    G, S, r = new.max_grad, new.max_slew, raster
    sd = {'gamma': gamma, 'raster': r, 'max_grad': G, 'grad_unit': 'Hz/m', 'max_slew': S, 'slew_unit': 'Hz/m/s'}
    case = {'site': 'default', 'kind': 'set_as_default', 'sys': sd, 'index': k}
    ctx.count('stream.default_system')
    # amplitudes/slopes that the import-time default (40 mT/m, 170 T/m/s) would admit but the new default must not
    big = 30e-3 * gamma * rng.choice([1, -1])
    tramp_old = math.ceil(abs(big) / (150 * gamma) / r) * r
    calls = []
    try:
        new.set_as_default()
        calls = [
            ('make_trapezoid', lambda: pp.make_trapezoid('x', amplitude=big, flat_time=20 * r, rise_time=tramp_old)),
            ('make_trapezoid', lambda: pp.make_trapezoid('y', area=big * 40 * r)),
            ('make_extended_trapezoid', lambda: pp.make_extended_trapezoid('x', amplitudes=np.array([0, big, big, 0.0]),
                                                                            times=np.array([0, tramp_old, tramp_old + 20 * r, 2 * tramp_old + 20 * r]))),
            ('make_arbitrary_grad', lambda: pp.make_arbitrary_grad('z', big * np.sin(np.linspace(0, math.pi, 400)[1:-1]), first=0.0, last=0.0)),
            ('make_extended_trapezoid_area', lambda: pp.make_extended_trapezoid_area(channel='x', grad_start=0.0, grad_end=0.0, area=big * 60 * r)[0]),
            ('split_gradient_at', lambda: pp.split_gradient_at(
                pp.make_trapezoid('x', amplitude=big, flat_time=20 * r, rise_time=tramp_old, system=old), tramp_old + 10 * r)),
            ('add_gradients', lambda: pp.add_gradients([pp.make_trapezoid('x', amplitude=big / 2, flat_time=20 * r, rise_time=tramp_old, system=old),
                                                         pp.make_trapezoid('x', amplitude=big / 2, flat_time=30 * r, rise_time=tramp_old, system=old)])),
            ('rotate', lambda: pp.rotate(pp.make_trapezoid('x', amplitude=big, flat_time=20 * r, rise_time=tramp_old, system=old),
                                         pp.make_trapezoid('y', amplitude=big, flat_time=30 * r, rise_time=tramp_old, system=old),
                                         angle=math.pi / 4, axis='z')),
        ]
        for site, f in calls:
            try:
                out = f()
            except Exception:  # noqa: BLE001
                ctx.count('default.%s.raised' % site)
                continue
            outs = out if isinstance(out, (list, tuple)) else [out]
            for g in outs:
                if getattr(g, 'type', None) in ('trap', 'grad'):
                    report(ctx, site + '@default', dict(case, call=site), g, r, G, S)
    finally:
        old.set_as_default()
    ctx.evaluated(('default', k, mg_mT, ms_T, raster, big))


UNITS = ['Hz/m', 'mT/m', 'rad/ms/mm', 'Hz/m/s', 'mT/m/ms', 'T/m/s', 'rad/ms/mm/ms']


def phys_factor(u, gamma):
    """Hz/m (or Hz/m/s) per unit, from the physical definitions (independent of convert.py)"""
    two_pi = Fraction(math.pi) * 2
    return {'Hz/m': Fraction(1), 'mT/m': F(gamma) / 1000, 'rad/ms/mm': Fraction(10 ** 6) / two_pi,
            'Hz/m/s': Fraction(1), 'mT/m/ms': F(gamma), 'T/m/s': F(gamma), 'rad/ms/mm/ms': Fraction(10 ** 9) / two_pi}[u]


def run_units(ctx, rng, count):
    import pypulseq as pp
    lines, cases = [], []
    for k in range(count):
        gamma = rng.choice([42.576e6, 10.7084e6, -42.576e6, 40.078e6])
        u = rng.choice(UNITS)
        x = rng.choice([1.0, 40.0, 170.0, rng.uniform(0.1, 500.0)])
        case = {'site': 'units', 'kind': u, 'gamma': gamma, 'x': x}
        is_grad = u in UNITS[:3]
        o = pp.Opts(max_grad=x, grad_unit=u, gamma=gamma) if is_grad else pp.Opts(max_slew=x, slew_unit=u, gamma=gamma)
        got = F(o.max_grad if is_grad else o.max_slew)
        want = phys_factor(u, abs(gamma)) * F(x)
        ctx.evaluated(('units', u, gamma, x))
        ctx.count('stream.units')
        if abs(got - want) > abs(want) * Fraction(1, 10 ** 12):
            ctx.fail('C04/units/opts', case, {'stored': float(got), 'physical': float(want)})
            continue
        # same physical limit spelled in Hz/m constrains the same way: accept/reject of at/beyond-limit trapezoids
        if is_grad:
            o = pp.Opts(max_grad=x, grad_unit=u, gamma=gamma, max_slew=1e30)
            o2 = pp.Opts(max_grad=float(want), grad_unit='Hz/m', gamma=gamma, max_slew=1e30)
            for fac in (0.999, 1.001):
                res = []
                for oo in (o, o2):
                    try:
                        pp.make_trapezoid('x', amplitude=float(want) * fac, flat_time=1e-3, rise_time=1e-3, system=oo)
                        res.append(True)
                    except Exception:  # noqa: BLE001
                        res.append(False)
                if res[0] != res[1] or res[0] != (fac < 1):
                    ctx.fail('C04/units/decision', case, {'factor': fac, 'accepted_unit': res[0], 'accepted_hz': res[1]})
        # convert() against the model, all target units of the same family
        fam = UNITS[:3] if is_grad else UNITS[3:]
        for v in fam:
            val = pp.convert.convert(from_value=x, from_unit=u, to_unit=v, gamma=abs(gamma))
            lines.append('lim.conv %s %s %s %d %d' % (qtok(Fraction(math.pi)), qtok(F(abs(gamma))), qtok(F(x)), UNITS.index(u), UNITS.index(v)))
            cases.append((case, v, val))
            # round trip on the implementation
            back = pp.convert.convert(from_value=val, from_unit=v, to_unit=u, gamma=abs(gamma))
            if abs(back - x) > 1e-12 * abs(x):
                ctx.fail('C04/units/roundtrip', case, {'to': v, 'back': back})
    if ctx.model_available and lines:
        outs = ctx.model(lines)
        for (case, v, val), o in zip(cases, outs):
            try:
                m = Toks(o).q()
            except Exception:  # noqa: BLE001
                ctx.mismatch('units', case, {'model': o[:100]})
                continue
            if abs(m - F(val)) > abs(m) * Fraction(1, 10 ** 12):
                ctx.mismatch('units', case, {'to': v, 'model': float(m), 'impl': val})


# ---------------------------------------------------------------------------------------------------
KF_CASES = [
    # known finding C04/make_arbitrary_grad/edge (KF-13): explicit first far from the first sample
    {'site': 'arb', 'kind': 'kf-explicit-edge', 'sys': {'gamma': 42.576e6, 'raster': 1e-5, 'max_grad': 1703040.0, 'grad_unit': 'Hz/m',
                                                          'max_slew': 7237920000.0, 'slew_unit': 'Hz/m/s'},
     'wave': [1.6e6, 1.6e6, 1.6e6], 'first': 0.0, 'last': 0.0, 'delay': 0.0, 'max_grad': None, 'max_slew': None},
    # default (extrapolated) edge beyond max_grad
    {'site': 'arb', 'kind': 'kf-default-edge', 'sys': {'gamma': 42.576e6, 'raster': 1e-5, 'max_grad': 1703040.0, 'grad_unit': 'Hz/m',
                                                         'max_slew': 7237920000.0, 'slew_unit': 'Hz/m/s'},
     'wave': [1.70e6, 1.65e6, 1.60e6], 'first': None, 'last': 0.0, 'delay': 0.0, 'max_grad': None, 'max_slew': None},
]


def kf_edge_via_callers(ctx):
    """the same unchecked half-raster edge, reached through add_gradients (raster path) and rotate"""
    import pypulseq as pp
    sys_ = pp.Opts(max_grad=40, grad_unit='mT/m', max_slew=100, slew_unit='T/m/s')
    G, S, r = sys_.max_grad, sys_.max_slew, sys_.grad_raster_time
    w = 0.5 * G * np.sin(np.linspace(0, math.pi, 22)[1:-1])
    w = w * min(1.0, 0.45 * S * r / abs(w[0]))
    ga = pp.make_arbitrary_grad('x', w, first=0.0, last=0.0, system=sys_)       # edge slope 0.9 S: within the limit
    tramp = math.ceil(G / S / r) * r
    sd = {'gamma': sys_.gamma, 'raster': r, 'max_grad': G, 'grad_unit': 'Hz/m', 'max_slew': S, 'slew_unit': 'Hz/m/s'}
    tr = pp.make_trapezoid('x', amplitude=0.3 * G, rise_time=tramp, flat_time=1e-4, system=sys_)
    out = pp.add_gradients([ga, tr], system=sys_)
    report(ctx, 'add_gradients', {'site': 'add', 'kind': 'kf-edge', 'sys': sd, 'note': 'arbitrary (edge 0.9 S) + trapezoid ramp 0.3 S'},
           out, r, G, S)
    tz = pp.make_trapezoid('z', amplitude=0.7 * G, rise_time=tramp, flat_time=1e-4, system=sys_)
    for g in pp.rotate(ga, tz, angle=-math.pi / 4, axis='y', system=sys_):
        report(ctx, 'rotate', {'site': 'rotate', 'kind': 'kf-edge', 'sys': sd, 'note': 'arbitrary x (edge 0.9 S), trapezoid z 0.7 S, -45 deg about y'},
               g, r, G, S)
    out = pp.add_gradients([tr], system=sys_, max_grad=0.2 * G)
    report(ctx, 'add_gradients', {'site': 'add', 'kind': 'kf-single', 'n': 1, 'sys': sd, 'note': 'one trapezoid at 0.3 G, max_grad override 0.2 G'},
           out, r, 0.2 * G, S)
    ctx.evaluated(('kf', 'callers'))
    ctx.count('stream.known-finding.callers')


def batch_model(ctx, pend, scale_of):
    if not pend or not ctx.model_available:
        return
    outs = ctx.model([p[1] for p in pend])
    for (case, _, res), o in zip(pend, outs):
        bad = cmp_grad(res, Toks(o), scale_of(case))
        if bad:
            ctx.mismatch(case['site'], case, bad)


def run(ctx):
    n = {'quick': 1, 'thorough': 25}[ctx.tier]
    rng = ctx.rng('ctor')
    pend = []
    for c in KF_CASES:
        res, line, ok = run_arb(ctx, c)
        ctx.evaluated(('kf', c['kind']))
        ctx.count('stream.arb.known-finding')
    kf_edge_via_callers(ctx)
    for i in range(700 * n):
        if ctx.out_of_time():
            ctx.notes.append('time budget reached in ext/arb stream after %d' % i)
            break
        if i % 2 == 0:
            case = gen_ext(rng)
            res, line, ok = run_ext(ctx, case)
            key = ('ext', tuple(case['times']), tuple(case['amps']), case['max_grad'], case['max_slew'], case['skip'])
        else:
            case = gen_arb(rng)
            res, line, ok = run_arb(ctx, case)
            key = ('arb', tuple(case['wave']), case['first'], case['last'], case['max_grad'], case['max_slew'])
        nontriv = (res[0] == 'OK' and nonzero(res[1])) or (res[0] == 'ERR' and res[1] in ('ESlew', 'EGrad'))
        ctx.evaluated(key, nontrivial=nontriv)
        ctx.count('stream.%s.%s' % (case['site'], case['kind']))
        ctx.count('%s.outcome.%s' % (case['site'], res[0] if res[0] == 'OK' else res[1].split(':')[0]))
        if i % 150 < 2:
            ctx.sample({k: v for k, v in case.items()})
        if ok:
            pend.append((case, line, res))
        if len(pend) >= 400:
            batch_model(ctx, pend, lambda c: max([1.0] + [abs(v) for v in c.get('amps', c.get('wave', []))]))
            pend = []
    batch_model(ctx, pend, lambda c: max([1.0] + [abs(v) for v in c.get('amps', c.get('wave', []))]))
    rng = ctx.rng('trap')
    for i in range(600 * n):
        if ctx.out_of_time():
            break
        case = gen_trap(rng)
        g = run_trap(ctx, case)
        ctx.evaluated(('trap', tuple(sorted(case['kw'].items())), tuple(sorted(case['sys'].items()))), nontrivial=g is not None)
        ctx.count('stream.trap.' + case['kind'])
        if i % 200 == 0:
            ctx.sample(case)
    rng = ctx.rng('eta')
    for i in range(60 * n):
        if ctx.out_of_time():
            break
        case = gen_eta(rng)
        g = run_eta(ctx, case)
        ctx.evaluated(('eta', case['gs'], case['ge'], case['area'], tuple(sorted(case['sys'].items()))), nontrivial=g is not None)
        ctx.count('stream.eta')
    rng = ctx.rng('ops')
    for i in range(150 * n):
        if ctx.out_of_time():
            break
        run_split(ctx, rng, i)
        run_rotate(ctx, rng, i)
        run_add(ctx, rng, i)
        if i % 3 == 0:
            run_rfgz(ctx, rng, i)
    drng = ctx.rng('default')
    for i in range(12 * n):
        run_default_system(ctx, drng, i)
    run_units(ctx, ctx.rng('units'), 60 * n)


def replay(ctx, case):
    site = case.get('site')
    if site == 'ext':
        res, line, ok = run_ext(ctx, case)
    elif site == 'arb':
        res, line, ok = run_arb(ctx, case)
    elif site == 'trap':
        g = run_trap(ctx, case)
        return {'returned': g is not None}
    elif site == 'eta':
        g = run_eta(ctx, case)
        return {'returned': g is not None}
    else:
        return {'note': 'composite case (%s): re-run ./check C04 with the same VERIF_SEED' % site}
    if ctx.model_available and ok:
        batch_model(ctx, [(case, line, res)], lambda c: max([1.0] + [abs(v) for v in c.get('amps', c.get('wave', []))]))
    return {'impl': res[0] if res[0] == 'OK' else res[1], 'oracle_ok': ok}
