"""C14 — shape compression is lossless to 5e-8 and never ambiguous."""
import math
import os
import tempfile
from fractions import Fraction

import numpy as np

from common import F, qlist, qtok, Toks

ID = 'C14'
GEN_SECTIONS = ['GenShape', 'GenTimeShape']
COQ_TARGETS = ['Props/C14.vo']
LEVEL = 'proof'
MANIFEST = {
    'text': "Theorems (Coq, all arrays of all lengths): the marker-based run-length decoder inverts the encoder for every integer derivative sequence, the error-feedback quantiser reconstructs every sample within 5e-8, the full compress/decompress pair (both force flags, raw/compressed decision) round-trips within 5e-8 and never stores more than the input; time points (Model/TimeShape.v, tolerance read from block.py): a time vector with any point on the gradient raster is never taken for raster samples, raster-centred samples always are, an explicit time shape decodes to exactly the points handed over and a vector judged regular to within tolerance x raster of them. Constants (1e-7, <=4, -2/+2) are re-read from the source on every run; the extracted model is run against compress_shape/decompress_shape on ~1500 (quick) / 60000 (thorough) arrays and the 5e-8 bound is evaluated exactly on the implementation's output, also through sequence+file; the regular/explicit decision of every stored gradient of the in-memory stream (including vectors moved off the cell centres by 0.5e-6 .. 1e-3 raster) is compared with the extracted model.",
    'note': 'Trusted: Coq kernel; translator patterns for compress_shape.py/decompress_shape.py; extraction (ExtrOcamlBasic) + driver; binary64/NumPy arithmetic is outside the model (sampled by correspondence, tie-prone inputs oracle-only); printing/parsing of shape tokens sampled through the file stream.',
    'technique': 'Rocq/Coq proof over a Gallina model (induction over runs / samples) + extraction-based correspondence',
}
BUDGET = {'quick': 150, 'thorough': 1500}
MISMATCH_BUDGET = 0.0
RULE = ('arrays drawn from 9 streams (uniform random, constant, piecewise linear with integer / fractional '
        'slopes in quanta, count/value collision runs, short 0-6, pre-quantised, rounding ties, large magnitude, '
        'via sequence+file; plus an in-memory stream: families of near-twin shapes (differences 3e-8 .. 1e-6 of full scale) and extended trapezoids on 1-20 us rasters stored in one Sequence and compared with what was handed over, before and after write+read); each array goes through compress_shape/decompress_shape of the implementation '
        '(oracle: length, 5e-8 bound with exact Fractions, compressed not longer) and, unless tie-prone, through '
        'the extracted Coq model (packed length and every decoded sample compared). distinct = distinct arrays; '
        'non-trivial = length > 4 and actually stored compressed, or a collision/short-branch case')
TRUSTED = ['binary64 arithmetic of NumPy (x/1e-7, np.round, cumsum) is outside the model: sampled by correspondence',
           'text printing/parsing of %.9g tokens in write_seq/read_seq (file stream): sampled']
ASSUMPTIONS = ['model rounds exact rationals; cases whose scaled samples/differences lie within 1e-6 of a .5 tie '
               'are checked by the oracle only (the binary64 product may fall on the other side of the tie)']

Q7 = Fraction(1, 10 ** 7)
BOUND = Fraction(5, 10 ** 8)


def gen_case(rng, tier, i):
    big = tier == 'thorough'
    kind = rng.choice(['uniform', 'const', 'pl_int', 'pl_frac', 'collision', 'short', 'preq', 'ties', 'large',
                       'collision', 'pl_int'])
    nmax = 2000 if big else 300
    n = rng.randint(5, nmax) if rng.random() < 0.8 else rng.randint(5, 40)
    if kind == 'uniform':
        x = [rng.uniform(-1, 1) for _ in range(n)]
    elif kind == 'const':
        x = [rng.choice([0.0, 1.0, -1.0, rng.uniform(-1, 1)])] * n
    elif kind in ('pl_int', 'pl_frac'):
        # piecewise linear, slopes in quanta (time shapes are integer-valued ramps: slope 1e7 quanta)
        x = []
        v = rng.choice([0, rng.randint(-10 ** 7, 10 ** 7)])
        while len(x) < n:
            seg = rng.randint(1, max(2, n // 3))
            if kind == 'pl_int':
                sl = rng.choice([0, 1, -1, 2, 10 ** 7, 2 * 10 ** 7, rng.randint(-5, 5), rng.randint(-10 ** 5, 10 ** 5)])
            else:
                sl = rng.choice([0.25, -0.25, 1 / 3, 0.1, 2.75, rng.uniform(-3, 3)])
            for _ in range(seg):
                v += sl
                x.append(v * 1e-7)
        x = x[:n]
    elif kind == 'collision':
        # derivative sequences (in quanta) whose run counts equal neighbouring values
        d = []
        prev_r = None
        while len(d) < n:
            r = rng.randint(2, 9)
            val = rng.choice([(r - 2) * 10 ** 7, 0, rng.randint(0, 7) * 10 ** 7, rng.randint(-3, 3)])
            if prev_r is not None and rng.random() < 0.4:
                val = (prev_r - 2) * 10 ** 7          # a run whose VALUE equals the count field of the run before it
            prev_r = r
            d += [val] * r
            if rng.random() < 0.5:
                d.append(rng.choice([(r - 2) * 10 ** 7, rng.randint(0, 7) * 10 ** 7, rng.randint(-3, 3)]))
        d = d[:n]
        x = list(np.cumsum(np.array(d, dtype=float)) * 1e-7)
    elif kind == 'short':
        n = rng.randint(0, 6)
        x = [rng.choice([0.0, 1.0, rng.uniform(-1, 1), 0.5])] * n if rng.random() < 0.5 else \
            [rng.uniform(-1, 1) for _ in range(n)]
    elif kind == 'preq':
        x = [rng.randint(-10 ** 7, 10 ** 7) * 1e-7 for _ in range(n)]
        if rng.random() < 0.5:
            x = sorted(x)
    elif kind == 'ties':
        x = [(rng.randint(-1000, 1000) + 0.5) * 1e-7 for _ in range(n)]
    else:  # large
        sc = rng.choice([10.0, 1e3, 1e5])
        x = [rng.uniform(-sc, sc) for _ in range(n)] if rng.random() < 0.5 else [float(k) for k in range(n)]
    force = rng.random() < 0.25 and len(x) > 0   # compress_shape(force) indexes x[0]: empty+force is rejected
    return {'kind': kind, 'force': force, 'x': [float(v) for v in x]}


def tie_prone(xs):
    prev = Fraction(0)
    for v in xs:
        s = F(v) * 10 ** 7
        for q in (s, s - prev):
            fr = q - math.floor(q)
            if abs(fr - Fraction(1, 2)) < Fraction(1, 10 ** 6):
                return True
        prev = s
    return False


def impl_roundtrip(case):
    from pypulseq.compress_shape import compress_shape
    from pypulseq.decompress_shape import decompress_shape
    x = np.array(case['x'], dtype=float)
    c = compress_shape(x, force_compression=case['force'])
    y = decompress_shape(c, force_decompression=case['force'])
    return int(c.num_samples), np.asarray(c.data, dtype=float), np.asarray(y, dtype=float)


def oracle(ctx, case, ns, data, y):
    x = case['x']
    n = len(x)
    sig = None
    detail = {}
    if len(y) != n or ns != n:
        sig, detail = 'C14/length', {'len_x': n, 'len_y': len(y), 'num_samples': ns}
    else:
        scale = max([1.0] + [abs(v) for v in x])
        slack = Fraction(scale) * Fraction(1, 10 ** 12) * max(1, n // 100)
        worst = Fraction(0)
        wi = -1
        for i in range(n):
            e = abs(F(y[i]) - F(x[i]))
            if e > worst:
                worst, wi = e, i
        if worst > BOUND + slack:
            sig, detail = 'C14/bound', {'index': wi, 'error': float(worst), 'x': x[wi], 'y': float(y[wi])}
        elif not case['force'] and len(data) > n:
            sig, detail = 'C14/longer', {'len_data': len(data), 'len_x': n}
    if sig:
        ctx.fail(sig + '/' + case['kind'] if False else sig, case, detail)
    return sig is None


def compare_model(ctx, cases, results):
    lines = ['shape.roundtrip %d %s' % (1 if c['force'] else 0, qlist(F(v) for v in c['x'])) for c in cases]
    outs = ctx.model(lines)
    for c, (ns, data, y), o in zip(cases, results, outs):
        t = Toks(o)
        tag = t.next()
        if tag != 'OK':
            ctx.mismatch('roundtrip', c, {'model': o[:200], 'impl_len': len(y)})
            continue
        plen = t.int()
        my = t.list(t.q)
        bad = None
        if plen != len(data):
            bad = {'packed_len_model': plen, 'packed_len_impl': len(data)}
        elif len(my) != len(y):
            bad = {'len_model': len(my), 'len_impl': len(y)}
        else:
            scale = max([1.0] + [abs(v) for v in c['x']])
            tol = Fraction(scale) * Fraction(1, 10 ** 9)
            for i, (a, b) in enumerate(zip(my, y)):
                if abs(a - F(b)) > tol:
                    bad = {'index': i, 'model': float(a), 'impl': float(b)}
                    break
        if bad:
            ctx.mismatch('roundtrip', c, bad)


def file_stream(ctx, rng, count):
    """shapes stored in a sequence, written to a file and read back (oracle only)"""
    import pypulseq as pp
    for k in range(count):
        sysr = rng.choice([10e-6, 20e-6, 4e-6])
        system = pp.Opts(max_grad=40, grad_unit='mT/m', max_slew=200, slew_unit='T/m/s', grad_raster_time=sysr)
        n = rng.randint(1, 24) * 5
        kind = rng.choice(['smooth', 'steps', 'rand'])
        amp = rng.uniform(1e3, 3e5)
        if kind == 'smooth':
            w = np.sin(np.linspace(0, math.pi, n + 2)[1:-1]) * amp
        elif kind == 'steps':
            w = np.repeat(np.array([rng.uniform(-1, 1) for _ in range((n + 3) // 4)]), 4)[:n] * amp * 0.02
            w = np.cumsum(w) * 0.2
        else:
            w = np.cumsum(np.array([rng.uniform(-1, 1) for _ in range(n)])) * amp * 0.01
        w = np.asarray(w, dtype=float)
        w[-1] = 0.0
        try:
            g = pp.make_arbitrary_grad('x', w, first=0.0, last=0.0, system=system,
                                       max_slew=1e15, max_grad=1e15)
        except Exception as e:
            ctx.count('file.skipped_maker_raise')
            continue
        seq = pp.Sequence(system)
        try:
            seq.add_block(g)
        except Exception:
            ctx.count('file.skipped_add_raise')
            continue
        case = {'kind': 'file', 'raster': sysr, 'w': [float(v) for v in w]}
        with tempfile.TemporaryDirectory(prefix='pvC14') as d:
            fn = os.path.join(d, 'a.seq')
            seq.write(fn, create_signature=False)
            s2 = pp.Sequence()
            s2.read(fn)
        b0 = seq.get_block(1).gx
        b1 = s2.get_block(1).gx
        full = max(abs(v) for v in w) or 1.0
        ctx.evaluated(('file', tuple(case['w'])))
        ctx.count('stream.file')
        if len(b1.waveform) != len(w):
            ctx.fail('C14/file-length', case, {'len': len(b1.waveform), 'expected': len(w)})
            continue
        # 5e-8 of full scale (+ 6-significant-digit amplitude rounding of the format, relative 5e-6)
        for nm, bb in (('stored', b0), ('reread', b1)):
            lim = 5e-8 * full + (5.1e-6 * full if nm == 'reread' else 1e-9 * full)
            err = float(np.max(np.abs(np.asarray(bb.waveform) - w)))
            if err > lim:
                ctx.fail('C14/file-bound-' + nm, case, {'error': err, 'limit': lim})
                break
        # shape-level comparison free of the amplitude rounding: normalised shapes
        s0 = np.asarray(b0.waveform) / (np.max(np.abs(b0.waveform)) or 1.0)
        s1 = np.asarray(b1.waveform) / (np.max(np.abs(b1.waveform)) or 1.0)
        if float(np.max(np.abs(s0 - s1))) > 1e-7 + 1e-9:
            ctx.fail('C14/file-shape', case, {'error': float(np.max(np.abs(s0 - s1)))})


def file_stream_rich(ctx, rng, count):
    """several shapes of every kind in one sequence (RF magnitude/phase/time shapes, gradient waveform and time shapes,
    near-equal shapes that merge in duplicate removal and renumber the later ids), written on one gradient raster and
    read back by an object created with another: every decoded sample array and time array must match the original
    within the bound (time arrays: exactly the same instants)"""
    import pypulseq as pp
    for k in range(count):
        r = rng.choice([10e-6, 20e-6, 5e-6])
        system = pp.Opts(max_grad=1e12, max_slew=1e15, grad_raster_time=r)
        seq = pp.Sequence(system)
        kinds = []
        nblk = rng.randint(3, 7)
        for b in range(nblk):
            kind = rng.choice(['sinc', 'sinc', 'block', 'ext', 'ext1', 'arb', 'arb', 'twins', 'twinarb'])
            kinds.append(kind)
            if kind == 'sinc':
                # same envelope at different flip angles: the normalised magnitude shapes are equal up to rounding noise
                evs = [pp.make_sinc_pulse(rng.choice([0.3, 0.7, 1.1, 1.5707963]), duration=rng.choice([4e-4, 1e-3]), time_bw_product=4, system=system)]
            elif kind == 'block':
                evs = [pp.make_block_pulse(rng.choice([0.5, 1.0]), duration=rng.choice([2e-4, 5e-4, 1e-3]), system=system)]
            elif kind == 'ext':
                n = sorted(rng.sample(range(1, 60), rng.randint(2, 5)))
                amps = [0.0] + [rng.uniform(-1e5, 1e5) for _ in n[:-1]] + [0.0]
                evs = [pp.make_extended_trapezoid(rng.choice('xyz'), amplitudes=np.array(amps), times=np.array([0] + n) * r, system=system)]
            elif kind == 'ext1':
                # corners one raster apart, including at the start
                amps = [0.0, rng.uniform(-3e4, 3e4), rng.uniform(-3e4, 3e4), 0.0]
                evs = [pp.make_extended_trapezoid(rng.choice('xyz'), amplitudes=np.array(amps), times=np.array([0, 1, 2, 3]) * r, system=system)]
            elif kind == 'arb':
                n = rng.randint(5, 40)
                w = np.cumsum(np.array([rng.uniform(-1, 1) for _ in range(n)])) * 1e3
                w[-1] = 0.0
                evs = [pp.make_arbitrary_grad(rng.choice('xyz'), w, first=0.0, last=0.0, system=system)]
            elif kind == 'twinarb':
                # two raster-sampled shapes equal up to noise far below the 9-digit rounding (they merge, the ids of
                # every later amplitude shape shift by one)
                n = rng.randint(20, 60)
                kk = (np.arange(n) + 0.5) / n
                base = np.sin(math.pi * kk) * rng.choice([1e5, -4e4])
                evs = [pp.make_arbitrary_grad('x', base, first=0.0, last=0.0, system=system),
                       pp.make_arbitrary_grad('y', base * (1 + 1e-13 * np.cos(7 * math.pi * kk)), first=0.0, last=0.0, system=system)]
            else:
                # two 4-point shapes differing far below the 9-digit rounding: they merge and later ids are renumbered
                base = np.array([0.0, 1e5, 5e4, 0.0])
                evs = [pp.make_extended_trapezoid('x', amplitudes=base, times=np.array([0, 10, 20, 30]) * r, system=system),
                       pp.make_extended_trapezoid('y', amplitudes=base * (1 + 1e-13), times=np.array([0, 10, 20, 30]) * r, system=system)]
            try:
                dur = pp.calc_duration(*evs)
                evs.append(pp.make_delay(math.ceil(dur / 1e-4 - 1e-9) * 1e-4))     # block duration on the block raster
                seq.add_block(*evs)
            except Exception:  # noqa: BLE001
                ctx.count('file_rich.skipped_add_raise')
        if not seq.block_events:
            continue
        case = {'kind': 'file-rich', 'raster': r, 'blocks': kinds, 'index': k}
        # history in memory: decode every block, remove duplicates in place (ids are renumbered), decode again
        if rng.random() < 0.5:
            import copy as _copy
            sb = _copy.deepcopy(seq)
            before = {i: sb.get_block(i) for i in sb.block_events}
            try:
                sb.remove_duplicates(in_place=True)
                after = {i: sb.get_block(i) for i in sb.block_events}
            except Exception as e:  # noqa: BLE001
                ctx.fail('C14/dedup-history-raises', case, {'exception': repr(e)[:200]})
                after = None
            if after is not None:
                for i in before:
                    bad = None
                    for ch in ('gx', 'gy', 'gz'):
                        g0, g1 = getattr(before[i], ch), getattr(after[i], ch)
                        if g0 is None or g0.type != 'grad':
                            continue
                        if g1 is None or len(g1.waveform) != len(g0.waveform):
                            bad = ch + ' length'
                        else:
                            full = float(np.max(np.abs(g0.waveform))) or 1.0
                            if float(np.max(np.abs(np.asarray(g0.waveform) - np.asarray(g1.waveform)))) > (1.1e-7 + 5.1e-6) * full:
                                bad = ch + ' waveform'
                    if bad:
                        ctx.fail('C14/dedup-history', dict(case, block=int(i)), {'what': bad})
                        break
        with tempfile.TemporaryDirectory(prefix='pvC14r') as d:
            fn = os.path.join(d, 'a.seq')
            dedup_on_write = rng.random() < 0.6
            case['remove_duplicates_on_write'] = dedup_on_write
            try:
                seq.write(fn, create_signature=False, remove_duplicates=dedup_on_write)
            except AssertionError:
                ctx.count('file_rich.skipped_write_assertion')
                continue
            s2 = pp.Sequence()            # default system: 10 us gradient raster
            try:
                s2.read(fn)
            except Exception as e:  # noqa: BLE001
                ctx.fail('C14/file-rich-raises', case, {'exception': repr(e)[:200], 'where': 'read'})
                continue
        ctx.evaluated(('file-rich', k, r, tuple(kinds)))
        ctx.count('stream.file_rich')
        for i in seq.block_events:
            try:
                b0, b1 = seq.get_block(i), s2.get_block(i)
            except Exception as e:  # noqa: BLE001
                ctx.fail('C14/file-rich-raises', dict(case, block=int(i)), {'exception': repr(e)[:200]})
                break
            bad = None
            if (b0.rf is None) != (b1.rf is None):
                bad = 'rf presence'
            elif b0.rf is not None:
                if len(b0.rf.signal) != len(b1.rf.signal) or len(b0.rf.t) != len(b1.rf.t):
                    bad = 'rf length %d/%d vs %d/%d' % (len(b0.rf.signal), len(b0.rf.t), len(b1.rf.signal), len(b1.rf.t))
                else:
                    full = float(np.max(np.abs(b0.rf.signal))) or 1.0
                    if float(np.max(np.abs(b0.rf.signal - b1.rf.signal))) > (1.1e-7 + 5.1e-6) * full:
                        bad = 'rf signal'
                    elif float(np.max(np.abs(np.asarray(b0.rf.t) - np.asarray(b1.rf.t)))) > 1e-12:
                        bad = 'rf time shape'
            for ch in ('gx', 'gy', 'gz'):
                g0, g1 = getattr(b0, ch), getattr(b1, ch)
                if bad or (g0 is None and g1 is None):
                    continue
                if (g0 is None) != (g1 is None) or g0.type != g1.type:
                    bad = ch + ' presence/type'
                elif g0.type == 'grad':
                    if len(g0.waveform) != len(g1.waveform) or len(g0.tt) != len(g1.tt):
                        bad = '%s length %d/%d vs %d/%d' % (ch, len(g0.waveform), len(g0.tt), len(g1.waveform), len(g1.tt))
                    else:
                        full = float(np.max(np.abs(g0.waveform))) or 1.0
                        if float(np.max(np.abs(np.asarray(g0.waveform) - np.asarray(g1.waveform)))) > (1.1e-7 + 5.1e-6) * full:
                            bad = ch + ' waveform'
                        elif float(np.max(np.abs(np.asarray(g0.tt) - np.asarray(g1.tt)))) > 1e-12:
                            bad = ch + ' time shape'
            if bad:
                ctx.fail('C14/file-rich', dict(case, block=int(i)), {'what': bad})
                break


def file_stream_long(ctx, rng, count):
    """shapes with a million samples and more (headers with 7-digit counts), through sequence + file"""
    import pypulseq as pp
    for k in range(count):
        n = rng.choice([1000000, 1000003, 1234567])
        system = pp.Opts(max_grad=1e12, max_slew=1e15)
        nrng = np.random.default_rng(rng.randrange(1 << 30))
        w = np.cumsum(nrng.uniform(-1, 1, n)) * 1e-2
        w = w / (np.max(np.abs(w)) or 1.0)
        seq = pp.Sequence(system)
        seq.add_block(pp.make_arbitrary_grad('x', w * 1e5, first=0.0, last=0.0, system=system))
        case = {'kind': 'file-long', 'n': n, 'index': k}
        ctx.evaluated(('file-long', k, n))
        ctx.count('stream.file_long')
        with tempfile.TemporaryDirectory(prefix='pvC14l') as d:
            fn = os.path.join(d, 'a.seq')
            try:
                seq.write(fn, create_signature=False)
                s2 = pp.Sequence()
                s2.read(fn)
                g1 = s2.get_block(1).gx
            except Exception as e:  # noqa: BLE001
                ctx.fail('C14/file-long-raises', case, {'exception': repr(e)[:200]})
                continue
        if len(g1.waveform) != n:
            ctx.fail('C14/file-long-length', case, {'len': len(g1.waveform)})
            continue
        s1 = np.asarray(g1.waveform) / (np.max(np.abs(g1.waveform)) or 1.0)
        err = float(np.max(np.abs(s1 - w)))
        # 5e-8 plus the cumulative-sum rounding of a million additions and the 6-digit amplitude (removed by normalising)
        if err > 5e-8 + 1e-9:
            ctx.fail('C14/file-long-bound', case, {'error': err})


PREV_LOADED = []
DECISIONS = []


def memory_stream(ctx, rng, count):
    """shapes inside ONE sequence object, compared with what the caller handed over (not with another decode):
    families of near-twin raster shapes that differ by a few 1e-8 .. 1e-6 of full scale (each must come back as itself
    within 5e-8, never as its sibling), extended trapezoids with corners one raster apart and irregular corners, on
    gradient rasters from 1 us to 20 us (the time points must come back exactly); then the same comparison after
    write + read.  Amplitudes are exactly 1 so that the stored shape IS the waveform."""
    import pypulseq as pp
    del PREV_LOADED[:]
    for k in range(count):
        r = rng.choice([10e-6, 1e-6, 4e-6, 20e-6, 10e-6, 6.4e-6, 2.5e-6, 0.5e-6])
        system = pp.Opts(max_grad=1e12, max_slew=1e16, grad_raster_time=r, rf_raster_time=1e-6, block_duration_raster=r)
        seq = pp.Sequence(system, use_block_cache=rng.random() < 0.6)
        stored = {}
        kinds = []
        for b in range(rng.randint(2, 5)):
            kind = rng.choice(['twinfam', 'twinfam', 'ext1', 'ext', 'smoothfam', 'offcentre'])
            evs = []
            if kind == 'offcentre':
                # raster samples whose time points are moved off the cell centres by a fraction of the raster around the
                # 1e-6 tolerance of the regular/explicit decision (either side of it, one point or all of them)
                n = rng.randint(4, 20)
                w = np.round(np.array([rng.uniform(-1, 1) for _ in range(n)]), 7)
                w[rng.randrange(n)] = 1.0
                g = pp.make_arbitrary_grad(rng.choice('xyz'), w, first=0.0, last=0.0, system=system)
                d = rng.choice([0.5e-6, 0.9e-6, 1.1e-6, 2e-6, 1e-3]) * rng.choice([1, -1])
                tt = np.array(g.tt, dtype=float)
                if rng.random() < 0.5:
                    j = rng.randrange(1, n)
                    tt[j] = tt[j] + d * r
                else:
                    tt[1:] = tt[1:] + d * r
                g.tt = tt
                evs.append(g)
            elif kind in ('twinfam', 'smoothfam'):
                n = rng.randint(6, 40)
                if kind == 'twinfam':
                    base = np.round(np.array([rng.uniform(-1, 1) for _ in range(n)]), 7)
                else:
                    base = np.round(np.sin(math.pi * (np.arange(n) + 0.5) / n) * 0.9, 7)
                j = rng.randrange(n)
                base[j] = 1.0
                d = rng.choice([3e-8, 6e-8, 6e-8, 1.2e-7, 4e-7, 1e-6, 1e-11, 1e-12])   # the last two merge at 9 digits
                for ch in rng.sample('xyz', rng.choice([2, 3])):
                    pat = np.array([rng.choice([-1.0, 0.0, 1.0]) for _ in range(n)])
                    pat[j] = 0.0
                    w = np.clip(base + d * pat, -1.0, 1.0)
                    w[j] = 1.0
                    evs.append(pp.make_arbitrary_grad(ch, w, first=0.0, last=0.0, system=system))
            elif kind == 'ext1':
                amps = [0.0, rng.uniform(-1, 1), rng.uniform(-1, 1), 0.0]
                m = max(abs(a) for a in amps) or 1.0
                amps = [a / m for a in amps]
                t0 = rng.choice([0, 0, 3])
                evs.append(pp.make_extended_trapezoid(rng.choice('xyz'), amplitudes=np.array(amps),
                                                      times=np.array([t0, t0 + 1, t0 + 2, t0 + 3]) * r, system=system))
            else:
                n = sorted(rng.sample(range(1, 40), rng.randint(2, 5)))
                amps = [0.0] + [rng.uniform(-1, 1) for _ in n[:-1]] + [0.0]
                amps[1] = 1.0
                evs.append(pp.make_extended_trapezoid(rng.choice('xyz'), amplitudes=np.array(amps), times=np.array([0] + n) * r,
                                                      system=system))
            kinds.append(kind)
            try:
                dur = pp.calc_duration(*evs)
                blk = evs + [pp.make_delay(math.ceil(dur / r - 1e-9) * r + 10 * r)]
                seq.add_block(*blk)
                stored[list(seq.block_events.keys())[-1]] = evs
            except Exception as e:  # noqa: BLE001
                ctx.count('memory.skipped_add_raise')
        if not stored:
            continue
        case = {'kind': 'memory', 'index': k, 'raster': r, 'blocks': kinds}
        ctx.evaluated(('memory', k, r, tuple(kinds)))
        ctx.count('stream.memory')
        ctx.count('memory.raster_%gus' % (r * 1e6))

        def compare(obj, where, rr=None):
            rr = rr or r
            for i, evs in stored.items():
                try:
                    blk = obj.get_block(i)
                except Exception as e:  # noqa: BLE001
                    ctx.fail('C14/memory-raises', dict(case, block=int(i), where=where), {'exception': repr(e)[:200]})
                    return False
                for e in evs:
                    g = getattr(blk, 'g' + e.channel)
                    bad = None
                    if g is None or g.type != 'grad' or len(g.waveform) != len(e.waveform) or len(g.tt) != len(e.tt):
                        bad = {'what': 'presence/length', 'got': None if g is None else [len(g.waveform), len(g.tt)],
                               'want': [len(e.waveform), len(e.tt)]}
                    else:
                        dw = float(np.max(np.abs(np.asarray(g.waveform) - np.asarray(e.waveform))))
                        dt = float(np.max(np.abs(np.asarray(g.tt) - np.asarray(e.tt))))
                        if dw > 5e-8 + 2e-9:
                            bad = {'what': 'sample differs from the one handed over by more than 5e-8 of full scale', 'max_abs_diff': dw}
                        elif dt > 1e-6 * rr:
                            bad = {'what': 'time points differ from the ones handed over', 'max_abs_diff': dt,
                                   'got_head': [float(v) for v in g.tt[:4]], 'want_head': [float(v) for v in e.tt[:4]]}
                    if bad:
                        ctx.fail('C14/memory-%s' % where, dict(case, block=int(i), channel=e.channel), bad)
                        return False
            return True
        # the regular / explicit decision of every stored gradient, against the model (Model/TimeShape.v)
        for i, evs in stored.items():
            row = seq.block_events[i]
            for e in evs:
                gid = int(row[2 + 'xyz'.index(e.channel)])
                try:
                    impl_regular = int(seq.grad_library.data[gid][2]) == 0
                except Exception:  # noqa: BLE001
                    continue
                DECISIONS.append((dict(case, block=int(i), channel=e.channel), r, [float(v) for v in e.tt], impl_regular))
        if not compare(seq, 'stored'):
            continue
        # history on the same object: the last block has been decoded; overwrite it with a gradient whose shape is new to
        # the library (every shape of this family is new), decode again: it must be the new one
        if rng.random() < 0.6:
            last_id = list(seq.block_events.keys())[-1]
            n = rng.randint(6, 30)
            w = np.round(np.array([rng.uniform(-1, 1) for _ in range(n)]), 7)
            w[rng.randrange(n)] = 1.0
            ev = pp.make_arbitrary_grad(rng.choice('xyz'), w, first=0.0, last=0.0, system=system)
            try:
                seq.get_block(last_id)
                seq.set_block(last_id, ev, pp.make_delay(math.ceil(pp.calc_duration(ev) / r - 1e-9) * r + 10 * r))
                stored[last_id] = [ev]
                ctx.count('memory.overwrite_last')
            except Exception:  # noqa: BLE001
                ctx.count('memory.skipped_overwrite_raise')
            if not compare(seq, 'overwritten'):
                continue
        with tempfile.TemporaryDirectory(prefix='pvC14m') as d:
            fn = os.path.join(d, 'm.seq')
            try:
                seq.write(fn, create_signature=False, remove_duplicates=rng.random() < 0.5)
            except AssertionError:
                ctx.count('memory.skipped_write_assertion')
                continue
            # writing (with or without duplicate removal) must leave the object as it was: decode it again
            if not compare(seq, 'after-write'):
                continue
            s2 = pp.Sequence(system, use_block_cache=rng.random() < 0.5)
            ropts = {'remove_duplicates': False} if rng.random() < 0.5 else {}
            case['read_options'] = ropts
            try:
                s2.read(fn, **ropts)
            except Exception as e:  # noqa: BLE001
                ctx.fail('C14/memory-raises', dict(case, where='read'), {'exception': repr(e)[:200]})
                continue
        compare(s2, 'reread')
        # the object loaded in the PREVIOUS case still holds that case's shapes, whatever was read elsewhere since
        if PREV_LOADED:
            pobj, pstored, pcase, pr = PREV_LOADED.pop()
            keep_stored, keep_case = stored, case
            stored, case = pstored, dict(pcase, rechecked_after_index=k)
            compare(pobj, 'earlier-object-after-later-read', pr)
            stored, case = keep_stored, keep_case
        PREV_LOADED.append((s2, dict(stored), dict(case), r))


def flush_decisions(ctx):
    if not DECISIONS or not ctx.model_available:
        del DECISIONS[:]
        return
    lines = ['shape.ttreg %s %s' % (qtok(F(r)), qlist(F(v) for v in tt)) for _, r, tt, _ in DECISIONS]
    outs = ctx.model(lines)
    for (case, r, tt, impl), o in zip(DECISIONS, outs):
        ctx.count('timeshape.decisions')
        ctx.count('timeshape.%s' % ('regular' if impl else 'explicit'))
        if o.strip() not in ('0', '1'):
            ctx.mismatch('timeshape', case, {'model': o[:100]})
            continue
        # the implementation evaluates |tt/raster - 1/2 - k| < 1e-6 in binary64: only vectors within 1e-9 of the threshold
        # may legitimately come out on the other side
        k = np.arange(len(tt))
        margin = np.min(np.abs(np.abs(np.asarray(tt) / r - 0.5 - k) - 1e-6)) if len(tt) else 1.0
        if (o.strip() == '1') != impl:
            if margin < 1e-9:
                ctx.benign_divergence('timeshape', case, {'margin': float(margin)})
            else:
                ctx.mismatch('timeshape', case, {'model_regular': o.strip() == '1', 'impl_regular': impl, 'raster': r,
                                                 'tt_head': tt[:4]})
    del DECISIONS[:]


def corpus():
    cs = []
    cs.append({'kind': 'corpus', 'force': False, 'x': [0.0] * 2 + [3.0, 3.0 + 7e-7] + [3.0 + 7e-7] * 3})
    cs.append({'kind': 'corpus', 'force': False, 'x': [float(k) for k in range(12)]})
    cs.append({'kind': 'corpus', 'force': True, 'x': [0.5]})
    cs.append({'kind': 'corpus', 'force': True, 'x': [0.25, 0.25]})
    cs.append({'kind': 'corpus', 'force': False, 'x': []})
    cs.append({'kind': 'corpus', 'force': False, 'x': [1.0, 1.0, 1.0, 1.0, 1.0]})
    # counts equal to following literal: run of 5 then derivative 3.0 (=count 3)
    d = [2e7] * 5 + [3e7] + [0.0] * 2 + [0.0 + 1] + [1e7] * 3
    cs.append({'kind': 'corpus', 'force': False, 'x': [float(v) for v in np.cumsum(d) * 1e-7]})
    return cs


def run(ctx):
    rng = ctx.rng('arrays')
    n_cases = {'quick': 1500, 'thorough': 60000}[ctx.tier]
    batch, results = [], []
    cases = corpus() + [gen_case(rng, ctx.tier, i) for i in range(n_cases)]
    pending = []
    for i, c in enumerate(cases):
        if ctx.out_of_time():
            ctx.notes.append('time budget reached after %d arrays' % i)
            break
        try:
            ns, data, y = impl_roundtrip(c)
        except Exception as e:
            ctx.fail('C14/raises', c, {'exception': repr(e)})
            continue
        ok = oracle(ctx, c, ns, data, y)
        compressed = len(data) != len(c['x']) or c['force']
        nontrivial = compressed or c['kind'] in ('short', 'collision')
        ctx.evaluated(('arr', c['force'], tuple(c['x'])), nontrivial=nontrivial)
        ctx.count('stream.' + c['kind'])
        ctx.count('stored.' + ('compressed' if compressed else 'raw'))
        ctx.count('len.%s' % ('0-4' if len(c['x']) <= 4 else '5-40' if len(c['x']) <= 40 else '41-300' if len(c['x']) <= 300 else '>300'))
        if i % 400 == 5:
            ctx.sample({'kind': c['kind'], 'force': c['force'], 'n': len(c['x']), 'x_head': c['x'][:8],
                        'packed_len': len(data)})
        if ok and ctx.model_available:
            if tie_prone(c['x']):
                ctx.count('corr.tie_prone_oracle_only')
            else:
                pending.append((c, (ns, data, y)))
        if len(pending) >= 500:
            compare_model(ctx, [p[0] for p in pending], [p[1] for p in pending])
            pending = []
    if pending and ctx.model_available:
        compare_model(ctx, [p[0] for p in pending], [p[1] for p in pending])
    file_stream(ctx, ctx.rng('file'), {'quick': 40, 'thorough': 1500}[ctx.tier])
    file_stream_rich(ctx, ctx.rng('file-rich'), {'quick': 60, 'thorough': 2000}[ctx.tier])
    file_stream_long(ctx, ctx.rng('file-long'), {'quick': 1, 'thorough': 6}[ctx.tier])
    memory_stream(ctx, ctx.rng('memory'), {'quick': 120, 'thorough': 3000}[ctx.tier])
    flush_decisions(ctx)


def replay(ctx, case):
    if case.get('kind') == 'file-rich':
        rng = ctx.rng('file-rich')
        file_stream_rich(ctx, rng, case['index'] + 1)
        return {'note': 'file-rich stream regenerated up to the recorded index'}
    if case.get('kind') == 'memory':
        memory_stream(ctx, ctx.rng('memory'), case['index'] + 1)
        return {'note': 'memory stream regenerated up to the recorded index'}
    if case.get('kind') == 'file':
        return {'note': 'file-stream case; re-run ./check C14'}
    ns, data, y = impl_roundtrip(case)
    ok = oracle(ctx, case, ns, data, y)
    res = {'num_samples': ns, 'packed_len': len(data), 'y_head': [float(v) for v in y[:10]], 'oracle_ok': ok}
    if ctx.model_available and not tie_prone(case['x']):
        compare_model(ctx, [case], [(ns, data, y)])
    return res
