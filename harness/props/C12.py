"""C12 — make_extended_trapezoid_area: exact area, end points, no shorter ramp pair."""
import math
import signal
import sys
from fractions import Fraction as Fr

from common import Toks, qtok, ztok

ID = 'C12'
GEN_SECTIONS = ['GenExtTrapArea', 'FP_exttraparea']
COQ_TARGETS = ['Props/C12.vo']
EXTRACT_TARGETS = ['Extract/Ex_exttraparea.vo']
RUNNER = 'exttraparea'
LEVEL = 'proof'
MANIFEST = {
    'text': "Theorems (Coq, over Q/Z, for ALL (grad_start, grad_end, area) and all systems, on a Gallina model that follows the "
            "repaired make_extended_trapezoid_area.py statement by statement incl. the rescan after the binary search and the "
            "checks of make_extended_trapezoid it runs into): whenever the model returns a gradient its first/last amplitudes are "
            "grad_start/grad_end and the times start at 0, all corner times are integer multiples of the raster and strictly "
            "increasing, the enclosed area EQUALS the requested area (the analytic plateau amplitude solves the area equation), "
            "every amplitude/slope is within the system limits with the code's slack and the plateau within 99% (+1e-8); "
            "`find_solution d = None` implies that NO two-ramp gradient of duration d with raster corner times satisfies the "
            "area equation within the limits the code enforces; UNCONDITIONALLY (both search phases, end points within 99% of "
            "max_grad) the returned duration is the least duration >= min_duration for which _find_solution succeeds (proved via "
            "the area bound |area| <= d*raster*(max_grad+1e-8) behind `shortest_conceivable`), hence no two-ramp gradient within "
            "99% of the limits (nor within the code's +1e-8 limits from the lower search bound upwards) has fewer raster steps; "
            "the algorithm BEFORE repair 7df2246 (model function eta_old) is refuted by a vm_compute witness (18 steps returned, "
            "8+8 exists). The raster-sampled form (convert_to_arbitrary=True, model eta_arb: points_to_waveform + "
            "make_arbitrary_grad + first/last assignment) has first = grad_start, last = grad_end, one sample per raster step at "
            "the raster centres equal to the corner list evaluated there, and the sum of its samples times the raster EQUALS the "
            "requested area. TOTAL CORRECTNESS (eta_total): for in-domain inputs, systems whose limits exceed ~1e-6 and fuel "
            "covering log2 of the computable bound d_feasible, every duration >= d_feasible has a solution, the doubling loop and "
            "the binary search end on a solution and the construction passes every check: a gradient IS returned. "
            "Safety factors (0.99), tolerances (1e-8), eps and the shape of every transcribed expression are re-read "
            "from the source on every run. On the implementation every generated case (random systems, rasters 2.5/4/5/6.4/10/"
            "12.5/20 us, both signs, limit / equal / opposite / zero ends, areas from 0 to many times the one-ramp area, dead-zone "
            "neighbourhoods, a directed family of inputs on which doubling+bisection over the two-ramp feasibility predicate is "
            "fooled, one-raster-step ramps) is checked with exact Fractions: end points, raster, area to 1e-8, limits, and a "
            "brute-force search of ALL shorter two-ramp gradients; the convert_to_arbitrary=True form of the same call is checked "
            "too (first/last, samples = corner list at the raster centres, area, limits, duration); the extracted model is compared on the returned duration, "
            "validity class, selection cost, and on `_find_solution` (captured closure) for the probed and random durations.",
    'note': "Trusted: Coq kernel; translator patterns for make_extended_trapezoid_area.py / make_extended_trapezoid.py; extraction "
            "(ExtrOcamlBasic) + driver; binary64/NumPy arithmetic is outside the model (decisions that differ only because a value "
            "sits within 1e-9 of a threshold or a rounding tie are counted as benign divergences when the implementation's own "
            "output satisfies the oracle and the divergence is explained by a per-duration difference). Termination is "
            "proved for the model with explicit fuel >= log2(d_feasible) (eta_total); totality of the arbitrary form is not proved "
            "separately (its theorems have the form `eta_arb = OK o -> ...`). "
            "The minimality theorem needs |grad_start|, |grad_end| <= 0.99 max_grad + 1e-8 (the property's domain) for the "
            "area bound of the rescan.",
    'technique': 'Rocq/Coq proof over a Gallina model (field/lra for the area equation and the area bound, induction over the '
                 'searches) + extraction-based correspondence + exhaustive exact-rational minimality oracle + directed generation',
}
BUDGET = {'quick': 62, 'thorough': 1500}
MISMATCH_BUDGET = 0.0
ESCALATE_BUDGET = 150     # s, thorough-size correspondence after an edit of the transcribed source
SEARCH_BUDGET = 150
RULE = ('systems: max_grad = 100*k Hz/m in [1e5, 3e6], max_slew chosen so that ramp-to-limit takes 2.5..60 rasters, raster in '
        '{2.5,4,5,6.4,10,12.5,20} us; ends drawn from {0, +-99% limit, random, equal, opposite, tiny}; areas from {0, tiny, fraction '
        'of the one-ramp area, area of the direct ramp, area of a rastered max-slew triangle/trapezoid +- small relative offsets '
        '(dead-zone neighbourhood), up to 7x (quick) / 150x (thorough) the one-ramp area}, both signs; families: `cross` (ends of '
        'equal sign near the limit, waveform crossing zero, optimum above the linear range, slope within 1e-3 of the limit), '
        '`fooled` (directed search with a binary64 two-ramp feasibility table for areas on which exhaustive-then-doubling+bisection '
        'misses the least feasible duration), `onestep` (long ramp near the slew limit + one-raster-step ramp), thorough: '
        'systematic scan of the cross family over every duration between the end of the linear range and five times it. All numbers '
        'are short decimals handed to the implementation as the nearest double and to the model exactly. One case in five (and four corpus cases) goes through the library-default-system path: the system is installed with '
        'Opts.set_as_default() (after a decoy default), the `system` argument is omitted, the previous default is restored. A boundary stream (one end '
        'between 99% and 100.5% of max_grad) is correspondence-only. Oracle = exact Fractions on the returned event. distinct = '
        'distinct argument tuples; non-trivial = returned duration beyond the lower search bound (a real search happened)')
TRUSTED = ['binary64 arithmetic of NumPy/Python (products, ceil, round, comparisons with eps) is outside the model: sampled by '
           'correspondence; threshold/tie cases are classified as benign only if the implementation output passes the oracle']
ASSUMPTIONS = ['generated cases keep every ceil() argument of the ramp-time computation at least 1e-9 away from an integer '
               '(or exactly 0), so the rastered ramp counts agree between binary64 and exact arithmetic',
               'theorem eta_minimal assumes |grad_start|, |grad_end| <= 0.99 max_grad + 1e-8 (the domain of the property) and '
               'max_slew > 0; eta_total assumes in_domain, sys_ok (the 1e-8 tolerances fit between 99% and 100% of the limits) '
               'and fuel >= log2 of d_feasible']

FUEL_D, FUEL_B = 12, 200      # doubling fuel 12: up to 4096 x the ramp-to-zero duration (the generator stays far below)
MAX_FIND_D = 6000            # longest duration handed to the model's find_solution
IMPL_TIMEOUT = 20          # seconds; a search that never terminates is reported as a failure, not waited for
GUARD = Fr(1, 10 ** 9)


# ------------------------------------------------------------------------------------------------
# cases: all numbers are decimal strings; the implementation gets float(Fraction(s)), the model Fraction(s)
def fr(s):
    return s if isinstance(s, Fr) else Fr(s)


def dstr(f):
    """exact decimal string of a Fraction with a power-of-ten denominator (or p/q fallback)"""
    f = Fr(f)
    if f.denominator == 1:
        return str(f.numerator)
    return '%d/%d' % (f.numerator, f.denominator)


def sig_round(x, digits):
    """x (Fraction or float) rounded to `digits` significant decimal digits, as a Fraction"""
    x = Fr(x)
    if x == 0:
        return Fr(0)
    e = math.floor(math.log10(abs(float(x))))
    q = Fr(10) ** (e - digits + 1)
    return Fr(round(x / q)) * q


# gradient rasters: whole microseconds and rasters that are NOT a whole number of microseconds (6.4, 2.5, 12.5 us)
RASTERS = [Fr(4, 10 ** 6), Fr(5, 10 ** 6), Fr(10, 10 ** 6), Fr(20, 10 ** 6), Fr(10, 10 ** 6),
           Fr(64, 10 ** 7), Fr(25, 10 ** 7), Fr(125, 10 ** 7)]


def make_system(rng):
    R = rng.choice(RASTERS)
    MG = 100 * rng.randint(1000, 30000)
    nr = rng.choice([rng.uniform(2.5, 12), rng.uniform(5, 30), rng.uniform(20, 60)])
    MS = 100 * max(1, round(float(Fr(99, 100) * MG / (Fr(nr) * R * Fr(99, 100))) / 100))
    return MG, MS, R


def ceil_args_safe(MG, MS, R, gs, ge):
    """guard band: every non-zero argument of np.ceil in _calc_ramp_time is >= 1e-9 away from an integer"""
    mg = Fr(99, 100) * MG
    ms = Fr(99, 100) * MS
    for x in (gs - ge, gs, ge, gs - mg, gs + mg, ge - mg, ge + mg):
        a = abs(x) / ms / R
        if a == 0:
            continue
        if abs(a - round(a)) < GUARD * max(1, a):
            return False
    return True


def gen_case(rng, tier, boundary=False):
    big = tier == 'thorough'
    for _ in range(100):
        MG, MS, R = make_system(rng)
        mg = Fr(99, 100) * MG
        ms = Fr(99, 100) * MS

        def end():
            k = rng.choice(['zero', 'limit+', 'limit-', 'rand', 'rand', 'rand', 'tiny', 'half'])
            if k == 'zero':
                return Fr(0)
            if k == 'limit+':
                return mg
            if k == 'limit-':
                return -mg
            if k == 'tiny':
                return Fr(rng.randint(-300, 300)) if rng.random() < 0.7 else Fr(rng.randint(-3000, 3000), 10)
            if k == 'half':
                return Fr(rng.choice([-1, 1]) * (MG // 2))
            return Fr(round(rng.uniform(-1, 1) * float(mg)))
        gs = end()
        rel = rng.choice(['free', 'free', 'free', 'equal', 'opposite'])
        ge = gs if rel == 'equal' else -gs if rel == 'opposite' else end()
        if boundary:
            over = Fr(rng.choice([9901, 9950, 9999, 10000, 10001, 10050]), 10000) * MG * rng.choice([-1, 1])
            if rng.random() < 0.5:
                gs = over
            else:
                ge = over
            ge_in, gs_in = abs(ge) <= mg, abs(gs) <= mg
            if not (ge_in or gs_in):
                continue
        if not ceil_args_safe(MG, MS, R, gs, ge):
            continue
        a1 = mg * mg / (2 * ms)                         # area reachable by one ramp 0 -> limit
        kind = rng.choice(['zero', 'tiny', 'frac', 'frac', 'direct', 'shape', 'shape', 'shape', 'multi', 'multi'])
        sgn = rng.choice([-1, 1])
        if kind == 'zero':
            A = Fr(0)
        elif kind == 'tiny':
            A = sgn * a1 * Fr(rng.uniform(1e-6, 1e-2))
        elif kind == 'frac':
            A = sgn * a1 * Fr(rng.uniform(0.01, 2.0))
        elif kind == 'direct':
            # area of the direct ramp gs -> ge (rastered), scaled around it
            nd = max(2, math.ceil(abs(gs - ge) / ms / R))
            A = (gs + ge) / 2 * nd * R * Fr(rng.choice([1, 1, 0.5, 0.9, 1.1, 1.5, -1]))
        elif kind == 'shape':
            # area of a rastered maximum-slew triangle / trapezoid through a random intermediate amplitude,
            # moved by a small relative offset: neighbourhood of the feasibility boundaries (dead zones)
            gm = Fr(rng.uniform(-1, 1)) * mg
            if rng.random() < 0.3:
                gm = rng.choice([-1, 1]) * mg
            nu = max(1, math.ceil(abs(gm - gs) / ms / R))
            ndn = max(1, math.ceil(abs(gm - ge) / ms / R))
            nf = rng.choice([0, 0, 0, 1, 2, rng.randint(0, 40)])
            A = ((gs + gm) / 2 * nu + gm * nf + (gm + ge) / 2 * ndn) * R
            A = A * (1 + Fr(rng.choice([0, 1e-7, -1e-7, 1e-5, -1e-5, 1e-3, -1e-3, 1e-2, -1e-2, 0.05, -0.05])))
        else:
            top = 150 if big else 7
            A = sgn * a1 * Fr(rng.choice([rng.uniform(1, 4), rng.uniform(2, 12 if big else 6), rng.uniform(4, top)]))
        A = sig_round(A, 6)
        case = {'kind': ('boundary-' if boundary else '') + kind, 'rel': rel, 'MG': str(MG), 'MS': str(MS), 'R': dstr(R),
                'gs': dstr(gs), 'ge': dstr(ge), 'A': dstr(A)}
        return case
    raise RuntimeError('generator starved')


def _finish_case(kind, rel, MG, MS, R, gs, ge, A):
    return {'kind': kind, 'rel': rel, 'MG': str(MG), 'MS': str(MS), 'R': dstr(R), 'gs': dstr(gs), 'ge': dstr(ge),
            'A': dstr(sig_round(A, 7))}


def cross_case(MG, MS, R, s, f, lam, which, d0, delta, sigma, offset):
    """End points of equal sign near the limit (gs = s f mg, the other end lam times that), and the area of the
    two-ramp gradient of d0 raster steps that leaves the end points towards zero and beyond with slope sigma * 99% max_slew
    (split d0//2 + delta): the optimum lies above the ramp-to-zero duration that bounds the linear search, in the region
    where odd/even durations alternate between feasible and infeasible (dead spaces of the binary search)."""
    mg = Fr(99, 100) * MG
    ms = Fr(99, 100) * MS
    g = Fr(round(s * f * float(mg)))
    g2 = Fr(round(float(g) * lam))
    gs, ge = (g, g2) if which == 0 else (g2, g)
    nu = max(1, min(d0 - 1, d0 // 2 + delta))
    nd = d0 - nu
    c1 = gs - s * Fr(sigma) * ms * R * nu
    c2 = ge - s * Fr(sigma) * ms * R * nd
    gm = max(c1, c2) if s > 0 else min(c1, c2)
    gm = max(-mg, min(mg, gm))
    A = ((gs + gm) / 2 * nu + (gm + ge) / 2 * nd) * R * (1 + Fr(offset))
    return gs, ge, A


def doubling_binary_search(lin, feasible):
    """generic model of 'double the upper bound until feasible, then bisect (lower, upper]' started at the end `lin` of an
    exhaustive range; returns the duration it would report for the feasibility predicate"""
    hi = lin
    for _ in range(20):
        hi *= 2
        if feasible(hi):
            break
    lo = hi // 2
    while lo != hi - 1:
        t = (hi + lo) // 2
        if feasible(t):
            hi = t
        else:
            lo = t
    return hi


def fooled_optima(lin, top):
    """even optimum durations d0 in (lin, top] for which a doubling + bisection search is fooled when the feasible set is
    {d >= d0} minus the single gap d0 + 1 (the odd/even alternation right above the optimum)"""
    out = []
    for d0 in range(lin + 1, top + 1):
        if d0 % 2 == 0 and doubling_binary_search(lin, lambda d: d >= d0 and d != d0 + 1) != d0:
            out.append(d0)
    return out


def gen_cross(rng, tier, force_mode=None):
    for _ in range(400):
        MG, MS, R = make_system(rng)
        mg, ms = Fr(99, 100) * MG, Fr(99, 100) * MS
        if float(mg / (ms * R)) > 9 and rng.random() < 0.75:
            continue        # the gaps between feasible durations are widest when the ramp-to-limit time is a few rasters
        s = rng.choice([-1, 1])
        f = rng.choice([0.99, rng.uniform(0.3, 0.99), rng.uniform(0.8, 0.99)])
        lam = rng.choice([1.0, 1.0, 1.0, rng.uniform(0.4, 1.0), rng.uniform(0.9, 1.0)])
        lin = max(2, math.ceil(f * float(mg) / float(ms * R)))
        if lin > 40:
            continue
        mode = force_mode or rng.choice(['any', 'near', 'probe', 'probe'])
        if mode == 'any':
            d0 = rng.randint(lin + 1, 5 * lin + 4)
        elif mode == 'near':
            d0 = rng.randint(lin + 1, 3 * lin + 1)
        else:
            # an optimum right below a gap that lies on the path of a doubling + bisection search
            cand = fooled_optima(lin, 4 * lin + 2)
            if not cand:
                continue
            d0 = rng.choice(cand)
            lam = 1.0
            if f < 0.75:
                f = rng.uniform(0.75, 0.99)
                lin2 = max(2, math.ceil(f * float(mg) / float(ms * R)))
                if lin2 != lin:
                    continue
        # slope so close to the limit that one more raster step (larger excursion needed, same split) is infeasible
        sigma = rng.choice([0.97, 0.99, 1 - 0.5 / (d0 + 1), 1 - 0.2 / (d0 + 1), 1 - 0.05 / (d0 + 1), 1 - 0.01 / (d0 + 1)])
        if mode == 'probe':
            sigma = rng.choice([1 - 0.2 / (d0 + 1), 1 - 0.05 / (d0 + 1), 1 - 0.01 / (d0 + 1)])
        gs, ge, A = cross_case(MG, MS, R, s, f, lam, rng.randint(0, 1), d0,
                               0 if mode == 'probe' else rng.choice([0, 0, 0, 1, -1]), sigma,
                               rng.choice([0, 0, 1e-6, -1e-6]) if mode == 'probe' else
                               rng.choice([0, 0, 1e-6, -1e-6, -1e-4, 1e-4, -1e-3, -1e-2]))
        if not ceil_args_safe(MG, MS, R, gs, ge):
            continue
        return _finish_case('cross', 'equal' if gs == ge else 'same-sign', MG, MS, R, gs, ge, A)
    raise RuntimeError('generator starved')


def scan_cross(rng, n_systems):
    """systematic scan of the cross family (thorough tier): equal ends, every total duration between the end of the
    linear search and five times it, both signs, several end-point levels and slopes"""
    out = []
    for _ in range(n_systems):
        for _try in range(100):
            MG, MS, R = make_system(rng)
            mg, ms = Fr(99, 100) * MG, Fr(99, 100) * MS
            if 2.5 <= float(mg / (ms * R)) <= 9:
                break
        for f in (0.35, 0.5, 0.65, 0.8, 0.9, 0.947, 0.99):
            lin = max(2, math.ceil(f * float(mg) / float(ms * R)))
            for s in (-1, 1):
                for d0 in range(lin + 1, 5 * lin + 3):
                    for sigma in (0.97, 0.9995):
                        gs, ge, A = cross_case(MG, MS, R, s, f, 1.0, 0, d0, 0, sigma, 0)
                        if ceil_args_safe(MG, MS, R, gs, ge):
                            out.append(_finish_case('scan-cross', 'equal', MG, MS, R, gs, ge, A))
    return out


def two_ramp_feasible_table(mg, ms, R, gs, ge, A, dmax):
    """binary64 predictor used ONLY to steer the generator (never to judge): table t[d] = 'there is a split ru + rd = d
    whose corner amplitude solves the area equation within the 99% limits', d = 0 .. dmax"""
    import numpy as np
    d = np.arange(dmax + 1, dtype=float)[:, None]
    ru = np.arange(dmax + 1, dtype=float)[None, :]
    rd = d - ru
    with np.errstate(divide='ignore', invalid='ignore'):
        ga = (2 * A / R - ru * gs - rd * ge) / d
        ok = (ru >= 1) & (rd >= 1) & (np.abs(ga) <= mg) & (np.abs(ga - gs) <= ms * R * ru) & (np.abs(ga - ge) <= ms * R * rd)
    return ok.any(axis=1)


def gen_fooled(rng, tier):
    """directed search for inputs on which 'exhaustive search up to the ramp-to-zero duration, then doubling + bisection'
    over the two-ramp feasibility predicate does NOT land on the least feasible duration: dead spaces above the linear
    range (end points near the limit, small/medium areas that fall between the ranges reachable by short durations)"""
    for _ in range(60):
        MG, MS, R = make_system(rng)
        mg, ms = Fr(99, 100) * MG, Fr(99, 100) * MS
        if float(mg / (ms * R)) > 12 and rng.random() < 0.8:
            continue
        s = rng.choice([-1, 1])
        f = rng.choice([0.99, rng.uniform(0.5, 0.99), rng.uniform(0.85, 0.99)])
        gs = Fr(round(s * f * float(mg)))
        rel = rng.choice(['equal', 'equal', 'same-sign', 'free'])
        if rel == 'equal':
            ge = gs
        elif rel == 'same-sign':
            ge = Fr(round(float(gs) * rng.uniform(0.4, 1.0)))
            if rng.random() < 0.5:
                gs, ge = ge, gs
        else:
            ge = Fr(round(rng.uniform(-1, 1) * float(mg)))
        if not ceil_args_safe(MG, MS, R, gs, ge):
            continue
        fmg, fms, fR, fgs, fge = float(mg), float(ms), float(R), float(gs), float(ge)
        lin = max(2, math.ceil(max(abs(fgs), abs(fge)) / (fms * fR)), math.ceil(abs(fgs - fge) / (fms * fR)))
        mn = max(2, math.ceil(abs(fgs - fge) / (fms * fR)))
        scale = max(abs(fgs), abs(fge)) * lin * fR
        found = None
        dmax = 8 * lin + 4
        for _a in range(40):
            A = rng.uniform(-2.5, 2.5) * scale
            if two_ramp_feasible_table(fmg, fms, fR, fgs, fge, A, lin)[mn:].any():
                continue                      # already solved inside the exhaustive range
            tab = two_ramp_feasible_table(fmg, fms, fR, fgs, fge, A, dmax)
            dmin = next((d for d in range(mn, 8 * lin + 4) if tab[d]), None)
            if dmin is None or dmin <= lin:
                continue
            if doubling_binary_search(lin, lambda d: d <= dmax and bool(tab[d]) or d > dmax) != dmin:
                found = A
                break
        if found is None:
            continue
        return _finish_case('fooled', rel, MG, MS, R, gs, ge, Fr(found))
    return gen_cross(rng, tier)


def gen_onestep(rng, tier):
    """a long ramp close to the slew limit followed (or preceded) by a ONE-raster-step ramp: the only feasible split of the
    shortest duration has a single-step ramp at one end"""
    for _ in range(200):
        MG, MS, R = make_system(rng)
        mg, ms = Fr(99, 100) * MG, Fr(99, 100) * MS
        step = ms * R
        n_long = rng.randint(2, max(3, min(60, int(2 * float(mg / step)) - 1)))
        sigma = Fr(rng.choice([0.95, 0.98, 0.995, 0.999]))
        sdir = rng.choice([-1, 1])
        # long ramp from g0 to gm, then one step from gm to g1
        span = sigma * step * n_long
        if span >= 2 * mg:
            continue
        lo = -mg if sdir > 0 else -mg + span
        hi = mg - span if sdir > 0 else mg
        g0 = Fr(round(rng.uniform(float(lo), float(hi))))
        gm = g0 + sdir * span
        g1 = gm + rng.choice([-1, 1]) * Fr(rng.uniform(0.05, 0.98)) * step
        g1 = Fr(round(max(-mg, min(mg, g1))))
        if abs(gm) > mg or g1 == gm:
            continue
        A = ((g0 + gm) / 2 * n_long + (gm + g1) / 2 * 1) * R * (1 + Fr(rng.choice([0, 0, -1e-6, 1e-6, -1e-4])))
        gs, ge = (g0, g1) if rng.random() < 0.5 else (g1, g0)       # single step last / first
        if not ceil_args_safe(MG, MS, R, gs, ge):
            continue
        return _finish_case('onestep', 'last' if gs == g0 else 'first', MG, MS, R, gs, ge, A)
    raise RuntimeError('generator starved')


def corpus(tier='quick'):
    """the fixed zoo of tests/test_make_extended_trapezoid_area.py on a default-like system (limits rounded to
    multiples of 100 so that 99% of them is exactly representable) and on the true default system (non-limit entries)"""
    cs = []
    MG, MS = 1703000, 7237920000
    lim = Fr(99, 100) * MG
    zoo = [(0, 0, 1), (0, 0, 10), (0, 0, 100), (0, 0, 10000), (0, 1000, 100), (-1000, 1000, 100), (-1000, 0, 100),
           (0, 0, -1), (0, 0, -10), (0, 0, -100), (0, 0, -10000), (0, 1000, -100), (-1000, 1000, -100), (-1000, 0, -100),
           (0, lim, 10000), (0, lim, -10000), (0, -lim, 1000), (0, -lim, -1000), (lim, 0, 100), (lim, 0, -100),
           (-lim, 0, 1), (-lim, 0, -1), (0, 100000, 1), (0, 100000, -1), (0, -100000, 1), (0, -100000, -1),
           (0, 90000, Fr('0.45')), (0, 90000, Fr('-0.45')), (0, -90000, Fr('0.45')), (0, -90000, Fr('-0.45')),
           (lim, lim, 1), (lim, lim, -1), (lim, -lim, 0), (0, 0, 0)]
    if tier == 'quick':
        # the 600-raster cases cost seconds in the exact model (the rescan is quadratic): one of them stays in the quick tier
        zoo = [z for z in zoo if abs(Fr(z[2])) < 10000 or z == (0, 0, 10000)]
    for gs, ge, A in zoo:
        cs.append({'kind': 'corpus', 'rel': 'zoo', 'MG': str(MG), 'MS': str(MS), 'R': '1/100000',
                   'gs': dstr(Fr(gs)), 'ge': dstr(Fr(ge)), 'A': dstr(Fr(A))})
    # dead space ABOVE the linear range (found by an independent author on the unrepaired source: 18 steps returned,
    # the ramp pair 8 + 8 exists); Opts(max_grad=10 mT/m, max_slew=200 T/m/s); repaired in /repo by 7df2246
    for gs, A in (('-3991189/10', '-497/50'), ('3991189/10', '497/50')):
        cs.append({'kind': 'corpus', 'rel': 'dead-space-above-linear-range', 'MG': '425760', 'MS': '8515200000',
                   'R': '1/100000', 'gs': gs, 'ge': gs, 'A': A})
    # one-step second ramp after a long ramp near the slew limit (shortest pair 21 + 1), default system
    for gs, ge, A in (('-700000', '845000', '3833/200'), ('700000', '-845000', '-3833/200'), ('845000', '-700000', '3833/200')):
        cs.append({'kind': 'corpus', 'rel': 'one-step-ramp', 'MG': '1703040', 'MS': '7237920000', 'R': '1/100000',
                   'gs': gs, 'ge': ge, 'A': A})
    # raster that is not a whole number of microseconds
    for gs, ge, A in (('0', '0', '13/10'), ('-500000', '850000', '-4/5'), ('-380000', '-380000', '-6')):
        cs.append({'kind': 'corpus', 'rel': 'raster-6.4us', 'MG': '1277300', 'MS': '4257600000', 'R': '64/10000000',
                   'gs': gs, 'ge': ge, 'A': A})
    # library default system: set_as_default(other scanner) + omitted `system` (other raster, weaker / stronger limits)
    for MGd, MSd, Rd, gs, ge, A in (('425700', '8515200000', '1/100000', '0', '0', '3'),
                                    ('2554500', '6386400000', '64/10000000', '0', '0', '120'),
                                    ('851500', '2128800000', '1/50000', '-300000', '500000', '40'),
                                    ('3400000', '12000000000', '1/250000', '1000000', '-2000000', '-25')):
        cs.append({'kind': 'corpus', 'rel': 'library-default-system', 'MG': MGd, 'MS': MSd, 'R': Rd, 'gs': gs, 'ge': ge,
                   'A': A, 'dflt': True})
    # both ends negative with different magnitudes, small negative area
    for gs, ge, A in (('-842985', '-1601671', '-180'), ('-1601671', '-842985', '-180'), ('-842985', '-1601671', '-60')):
        cs.append({'kind': 'corpus', 'rel': 'both-negative', 'MG': '1703000', 'MS': '7237920000', 'R': '1/100000',
                   'gs': gs, 'ge': ge, 'A': A})
    for gs, ge, A in [z for z in zoo if abs(Fr(z[2])) <= 100 and abs(Fr(z[0])) < lim and abs(Fr(z[1])) < lim]:
        cs.append({'kind': 'corpus', 'rel': 'zoo-default', 'MG': '1703040', 'MS': '7237920000', 'R': '1/100000',
                   'gs': dstr(Fr(gs)), 'ge': dstr(Fr(ge)), 'A': dstr(Fr(A))})
    return cs


def case_vals(c):
    return Fr(c['MG']), Fr(c['MS']), Fr(c['R']), Fr(c['gs']), Fr(c['ge']), Fr(c['A'])


def in_domain(c):
    MG, MS, R, gs, ge, A = case_vals(c)
    return abs(gs) <= Fr(99, 100) * MG and abs(ge) <= Fr(99, 100) * MG


# ------------------------------------------------------------------------------------------------
# implementation driver
def impl_run(c, want_closure=True, arbitrary=False):
    """-> dict(cls, tt, wave, area, probes=[(d, result)], closure)"""
    import pypulseq as pp
    from pypulseq.make_extended_trapezoid_area import make_extended_trapezoid_area
    MG, MS, R, gs, ge, A = case_vals(c)
    system = pp.Opts(grad_raster_time=float(R))
    system.max_grad = float(MG)
    system.max_slew = float(MS)
    probes = []
    box = {}

    def prof(frame, event, arg):
        co = frame.f_code
        if co.co_name == '_find_solution' and co.co_filename.endswith('make_extended_trapezoid_area.py'):
            if event == 'call':
                if 'fs' not in box and frame.f_back is not None:
                    box['fs'] = frame.f_back.f_locals.get('_find_solution')
            elif event == 'return':
                probes.append((int(frame.f_locals.get('duration', -1)), arg))
    res = {'probes': probes, 'closure': None}
    old_default = None

    def on_alarm(signum, frame):
        raise TimeoutError('make_extended_trapezoid_area did not return within %d s' % IMPL_TIMEOUT)
    old_handler = signal.signal(signal.SIGALRM, on_alarm)
    signal.setitimer(signal.ITIMER_REAL, IMPL_TIMEOUT)
    sys.setprofile(prof if want_closure else None)
    try:
        if c.get('dflt'):
            # LIBRARY DEFAULT SYSTEM: the case's system is installed with set_as_default() (after a decoy with very different
            # limits and raster was the default for a moment) and the `system` argument is OMITTED; the call must behave
            # exactly like passing that system explicitly.  The previous default is restored in the finally below.
            old_default = pp.Opts.default
            pp.Opts(max_grad=123400.0, grad_unit='Hz/m', max_slew=2.5e8, slew_unit='Hz/m/s',
                    grad_raster_time=50e-6).set_as_default()
            system.set_as_default()
            g, tt, w = make_extended_trapezoid_area(area=float(A), channel='x', grad_start=float(gs), grad_end=float(ge),
                                                    convert_to_arbitrary=arbitrary)
        else:
            g, tt, w = make_extended_trapezoid_area(area=float(A), channel='x', grad_start=float(gs), grad_end=float(ge),
                                                    system=system, convert_to_arbitrary=arbitrary)
        if arbitrary:
            res['shape_dur'] = float(g.shape_dur)
        res.update(cls='OK', tt=[float(v) for v in tt], wave=[float(v) for v in w], area=float(g.area),
                   first=float(g.first), last=float(g.last), g_tt=[float(v) for v in g.tt],
                   g_wave=[float(v) for v in g.waveform], delay=float(g.delay))
    except ValueError as e:
        msg = str(e)
        res['cls'] = ('ESlew' if 'Slew rate violation' in msg else 'EAmp' if 'amplitude violation' in msg else
                      'EArea' if 'Could not find a solution' in msg else
                      'ERaster' if 'raster' in msg else 'ETimes' if 'imes' in msg else 'ValueError')
        res['msg'] = msg[:200]
    except Exception as e:  # noqa: BLE001
        res['cls'] = type(e).__name__
        res['msg'] = repr(e)[:200]
    finally:
        sys.setprofile(None)
        if old_default is not None:
            old_default.set_as_default()
        signal.setitimer(signal.ITIMER_REAL, 0)
        signal.signal(signal.SIGALRM, old_handler)
    res['closure'] = box.get('fs')
    return res


# ------------------------------------------------------------------------------------------------
# oracle: the property's predicate, exact Fractions on the returned event
def shorter_two_ramp(MG, MS, R, gs, ge, A, D, guard=GUARD):
    """first (d, ru) with d < D such that the polyline (0,gs) (ru R, ga) (d R, ge) encloses exactly A with
    |ga| <= 99% max_grad and both slopes <= 99% max_slew (limits shrunk by the guard band), or None"""
    mgL = Fr(99, 100) * MG * (1 - guard)
    srL = Fr(99, 100) * MS * (1 - guard) * R          # slope limit per raster step
    a2 = 2 * A / R
    den = 1
    for x in (a2, gs, ge, mgL, srL):
        den = den * x.denominator // math.gcd(den, x.denominator)
    ia2, igs, ige, img, isr = (int(x * den) for x in (a2, gs, ge, mgL, srL))
    for d in range(2, D):
        # N = d * ga  (scaled):  a2 - (ru gs + rd ge)
        lim_g = img * d
        dgs, dge = d * igs, d * ige
        base = ia2 - d * ige
        step = igs - ige
        for ru in range(1, d):
            N = base - ru * step
            if abs(N) > lim_g:
                continue
            if abs(N - dgs) > isr * ru * d:
                continue
            if abs(N - dge) > isr * (d - ru) * d:
                continue
            return (d, ru)
    return None


def oracle(ctx, c, res, record=True):
    """returns (ok, D).  Demands what the property states for in-domain arguments."""
    MG, MS, R, gs, ge, A = case_vals(c)
    fgs, fge, fA = Fr(float(gs)), Fr(float(ge)), Fr(float(A))   # what the implementation actually received
    fR = Fr(float(R))

    def bad(sig, detail):
        if record:
            ctx.fail('C12/' + sig, c, detail)
        return False, None
    if res['cls'] != 'OK':
        return bad('raises', {'class': res['cls'], 'msg': res.get('msg')})
    tt, w = res['tt'], res['wave']
    if len(tt) != len(w) or len(tt) < 2:
        return bad('shape', {'len_tt': len(tt), 'len_w': len(w)})
    # end points
    if Fr(w[0]) != fgs or Fr(w[-1]) != fge or tt[0] != 0.0 or res['first'] != w[0] or res['last'] != w[-1]:
        return bad('endpoints', {'w0': w[0], 'wn': w[-1], 't0': tt[0], 'gs': float(gs), 'ge': float(ge)})
    # raster: every corner time is an integer multiple of the raster (binary64 noise allowed), strictly increasing
    ks = []
    for t in tt:
        k = round(Fr(t) / fR)
        if abs(Fr(t) - k * fR) > fR * Fr(1, 10 ** 6):
            return bad('off-raster', {'t': t, 'raster': float(R)})
        ks.append(k)
    if any(b <= a for a, b in zip(ks, ks[1:])):
        return bad('times-not-increasing', {'tt': tt})
    # area of the returned polyline (exact arithmetic on the returned doubles) within 1e-8 of the request
    fw = [Fr(v) for v in w]
    ft = [Fr(v) for v in tt]
    area = sum((ft[i + 1] - ft[i]) * (fw[i + 1] + fw[i]) for i in range(len(ft) - 1)) / 2
    slack = Fr(1, 10 ** 12) * max(1, abs(fA))
    if abs(area - fA) > Fr(1, 10 ** 8) + slack:
        return bad('area', {'area': float(area), 'requested': float(A), 'error': float(area - fA)})
    if abs(Fr(res['area']) - fA) > Fr(1, 10 ** 8) + slack:
        return bad('area-attr', {'grad.area': res['area'], 'requested': float(A)})
    # system limits
    tolr = 1 + Fr(1, 10 ** 9)
    for v in fw:
        if abs(v) > MG * tolr:
            return bad('max-grad', {'amp': float(v), 'max_grad': float(MG)})
    for i in range(len(ft) - 1):
        sl = abs(fw[i + 1] - fw[i]) / (ft[i + 1] - ft[i])
        if sl > MS * tolr:
            return bad('max-slew', {'slew': float(sl), 'max_slew': float(MS), 'segment': i})
    D = ks[-1]
    # no shorter two-ramp gradient (exact, exhaustive over all raster splits of all shorter durations)
    hit = shorter_two_ramp(MG, MS, fR, fgs, fge, fA, D)
    if hit is not None:
        d, ru = hit
        ga = (2 * fA / fR - (ru * fgs + (d - ru) * fge)) / d
        return bad('shorter-two-ramp', {'returned_rasters': D, 'shorter_rasters': d, 'ramp_up': ru, 'ramp_down': d - ru,
                                        'amp': float(ga)})
    return True, D


# ------------------------------------------------------------------------------------------------
# correspondence
def args_tok(c):
    MG, MS, R, gs, ge, A = case_vals(c)
    return ' '.join(qtok(x) for x in (MG, MS, R, gs, ge, A))


def model_run_line(c):
    return 'eta.run %s %d %d' % (args_tok(c), FUEL_D, FUEL_B)


def parse_run(o):
    t = Toks(o)
    tag = t.next()
    if tag != 'OK':
        return {'cls': t.next()}
    r = {'cls': 'OK', 'D': t.z(), 'up': t.z(), 'flat': t.z(), 'down': t.z(), 'amp': t.q(), 'cost': t.q(), 'area': t.q(),
         'min_d': t.z(), 'lin_max': t.z()}
    r['tt'] = t.list(t.q)
    r['wave'] = t.list(t.q)
    return r


def impl_solution_cost(c, sol):
    """selection cost slew_rate1 + slew_rate2 of an implementation solution tuple, exact on its own amplitude"""
    MG, MS, R, gs, ge, A = case_vals(c)
    ru, fl, rd, ga = sol
    ga = Fr(float(ga))
    return abs(Fr(float(gs)) - ga) / (ru * R) + abs(Fr(float(ge)) - ga) / (rd * R)


def near_threshold(c, d, sol):
    """is the validity of the implementation's / model's chosen candidate at duration d decided within 1e-7 (relative)
    of a limit, or does a rounding tie / branch threshold of the maximum-slew candidates occur at d?"""
    MG, MS, R, gs, ge, A = case_vals(c)
    mg, ms = Fr(99, 100) * MG, Fr(99, 100) * MS
    band = Fr(1, 10 ** 7)
    eps = Fr(1, 10 ** 9)
    for sg in (1, -1):
        # ramp_up_time = round(x); branch test  sg*grad_start + ramp_up_time*max_slew*raster > max_grad + eps
        x = (d * ms * R - sg * (gs - ge)) / (2 * ms * R)
        fl = math.floor(x)
        if abs(x - fl - Fr(1, 2)) < band:
            r0s = (fl, fl + 1)                      # binary64 may round the tie either way
        else:
            r0s = (fl if x - fl < Fr(1, 2) else fl + 1,)
        decisions = {sg * gs + r0 * ms * R > mg + eps for r0 in r0s}
        if len(decisions) == 2:
            return 'round-tie'                      # the tie decides which maximum-slew candidate is built
        for r0 in r0s:
            if abs(sg * gs + r0 * ms * R - mg - eps) < band * mg:
                return 'branch-threshold'
    if sol is not None:
        ru, fl, rd = sol[0], sol[1], sol[2]
        ga = -(ru * R * gs + rd * R * ge - 2 * A) / ((ru + 2 * fl + rd) * R)
        s1 = abs(gs - ga) / (ru * R)
        s2 = abs(ge - ga) / (rd * R)
        if abs(abs(ga) - mg) < band * mg or abs(s1 - ms) < band * ms or abs(s2 - ms) < band * ms:
            return 'limit-threshold'
    return None


def compare_find(ctx, c, closure, durations, oracle_ok):
    """_find_solution of the implementation (captured closure) against find_solution of the model"""
    got = {}
    if not durations:
        return got
    line = 'eta.find %s %d %s' % (args_tok(c), len(durations), ' '.join(ztok(d) for d in durations))
    t = Toks(ctx.model([line])[0])
    for d in durations:
        m = None
        if t.bool():
            m = (t.z(), t.z(), t.z(), t.q(), t.q())
        try:
            s = closure(int(d))
        except Exception as e:  # noqa: BLE001
            ctx.mismatch('find', c, {'duration': d, 'impl_exception': repr(e)[:200]})
            continue
        got[d] = s
        ctx.count('find.' + ('none' if s is None else 'some'))
        diff = None
        if (s is None) != (m is None):
            diff = {'duration': d, 'impl': None if s is None else list(s), 'model': None if m is None else
                    [m[0], m[1], m[2], float(m[3])]}
        elif s is not None:
            ic = impl_solution_cost(c, s)
            if abs(ic - m[4]) > Fr(1, 10 ** 9) * max(abs(m[4]), Fr(c['MS'])):
                diff = {'duration': d, 'impl_cost': float(ic), 'model_cost': float(m[4]), 'impl': list(s),
                        'model': [m[0], m[1], m[2], float(m[3])]}
            elif s[0] + s[1] + s[2] != d or s[0] < 1 or s[2] < 1 or s[1] < 0:
                diff = {'duration': d, 'impl_bad_triple': list(s)}
        if diff:
            why = near_threshold(c, d, s if s is not None else (m[0], m[1], m[2]))
            if why is None and s is not None and m is not None:
                why = near_threshold(c, d, (m[0], m[1], m[2]))
            if why and oracle_ok:
                ctx.benign_divergence('find', c, dict(diff, reason=why))
                ctx.count('benign.find.' + why)
            else:
                ctx.mismatch('find', c, diff)
    return got


def compare_run(ctx, c, res, mres, oracle_ok, D):
    """validity class, returned duration and selection cost"""
    diff = None
    if res['cls'] != mres['cls']:
        diff = {'impl_class': res['cls'], 'model_class': mres['cls'], 'impl_msg': res.get('msg')}
    elif res['cls'] == 'OK':
        R = Fr(c['R'])
        Di = D if D is not None else round(Fr(res['tt'][-1]) / R)
        if Di != mres['D']:
            diff = {'impl_rasters': Di, 'model_rasters': mres['D']}
        else:
            # selection cost of the returned triple (tie-break independent)
            tt, w = res['tt'], res['wave']
            ks = [round(Fr(t) / R) for t in tt]
            ru, rd = ks[1] - ks[0], ks[-1] - ks[-2]
            ic = abs(Fr(w[0]) - Fr(w[1])) / (ru * R) + abs(Fr(w[-1]) - Fr(w[-2])) / (rd * R)
            if abs(ic - mres['cost']) > Fr(1, 10 ** 9) * max(abs(mres['cost']), Fr(c['MS'])):
                diff = {'impl_cost': float(ic), 'model_cost': float(mres['cost']), 'impl_tt': tt, 'impl_w': w,
                        'model': [mres['up'], mres['flat'], mres['down'], float(mres['amp'])]}
    if diff is None:
        return True
    # a divergence of the end result is benign only if (i) the implementation's own output satisfies the oracle (or the
    # case is outside the property's domain), (ii) it is EXPLAINED by per-duration differences: the model's find_solution
    # disagrees (None vs solution) with the implementation's on at least one duration the implementation probed, and
    # (iii) every such disagreement is decided within the float-vs-exact band of a limit, branch threshold or rounding tie.
    # Equal per-duration results with a different end result are a search-logic mismatch.
    probed = {}
    for d, sol in res['probes']:
        if 1 <= d <= MAX_FIND_D:
            probed[d] = sol
    why = None
    if probed and oracle_ok:
        ds = sorted(probed)
        t = Toks(ctx.model(['eta.find %s %d %s' % (args_tok(c), len(ds), ' '.join(ztok(d) for d in ds))])[0])
        reasons = []
        for d in ds:
            m = None
            if t.bool():
                m = (t.z(), t.z(), t.z(), t.q(), t.q())
            if (m is None) != (probed[d] is None):
                reasons.append(near_threshold(c, d, probed[d] if probed[d] is not None else (m[0], m[1], m[2])))
        if reasons and all(reasons):
            why = reasons[0]
        elif not reasons and 'impl_cost' in diff:
            # same duration, other selection cost: a candidate at that duration sits on a threshold
            why = near_threshold(c, mres['D'], (mres['up'], mres['flat'], mres['down'])) or \
                near_threshold(c, mres['D'], probed.get(mres['D']))
    if why:
        ctx.benign_divergence('run', c, dict(diff, reason=why))
        ctx.count('benign.run.' + why)
    else:
        ctx.mismatch('run', c, diff)
    return False


# ------------------------------------------------------------------------------------------------
# convert_to_arbitrary=True: the raster-sampled form of the same gradient
def pwl_eval(ft, fw, x):
    """exact value at x of the polyline through (ft[i], fw[i]) (x inside the support)"""
    for i in range(len(ft) - 1):
        if ft[i] <= x <= ft[i + 1]:
            return fw[i] + (fw[i + 1] - fw[i]) * (x - ft[i]) / (ft[i + 1] - ft[i])
    raise ValueError('outside the support')


def oracle_arb(ctx, c, res, ares, D, record=True):
    """the property's predicate on make_extended_trapezoid_area(..., convert_to_arbitrary=True): starts at grad_start, ends at
    grad_end (first / last of the sampled event), samples on the raster (centres), sample values = the corner list of the
    irregular form rendered at the raster centres, enclosed area to 1e-8, system limits, same duration"""
    MG, MS, R, gs, ge, A = case_vals(c)
    fgs, fge, fA, fR = Fr(float(gs)), Fr(float(ge)), Fr(float(A)), Fr(float(R))

    def bad(sig, detail):
        if record:
            ctx.fail('C12/arb-' + sig, c, detail)
        return False
    if ares['cls'] != 'OK':
        return bad('raises', {'class': ares['cls'], 'msg': ares.get('msg')})
    w, tt = ares['wave'], ares['tt']
    etol = Fr(1, 10 ** 9) * max(1, abs(fgs), abs(fge))        # binary64 noise only
    if abs(Fr(ares['first']) - fgs) > etol or abs(Fr(ares['last']) - fge) > etol:
        return bad('endpoints', {'first': ares['first'], 'last': ares['last'], 'grad_start': float(gs), 'grad_end': float(ge)})
    if len(w) != D or len(tt) != D:
        return bad('duration', {'samples': len(w), 'rasters_of_corner_form': D})
    if abs(Fr(ares['shape_dur']) - D * fR) > fR * Fr(1, 10 ** 6):
        return bad('duration', {'shape_dur': ares['shape_dur'], 'rasters_of_corner_form': D})
    ft = [Fr(v) for v in res['tt']]
    fw = [Fr(v) for v in res['wave']]
    scale = max([1] + [abs(v) for v in fw])
    tol = Fr(1, 10 ** 9) * scale
    for k in range(D):
        centre = (k + Fr(1, 2)) * fR
        if abs(Fr(tt[k]) - centre) > fR * Fr(1, 10 ** 6):
            return bad('off-raster', {'k': k, 't': tt[k], 'raster': float(R)})
        want = pwl_eval(ft, fw, min(max(centre, ft[0]), ft[-1]))
        if abs(Fr(w[k]) - want) > tol:
            return bad('sample', {'k': k, 'sample': w[k], 'corner_list_value': float(want)})
    slack = Fr(1, 10 ** 12) * max(1, abs(fA))
    area = sum(Fr(v) for v in w) * fR
    if abs(area - fA) > Fr(1, 10 ** 8) + slack or abs(Fr(ares['area']) - fA) > Fr(1, 10 ** 8) + slack:
        return bad('area', {'area_of_samples': float(area), 'grad.area': ares['area'], 'requested': float(A)})
    tolr = 1 + Fr(1, 10 ** 9)
    for k in range(D):
        if abs(Fr(w[k])) > MG * tolr:
            return bad('max-grad', {'k': k, 'sample': w[k]})
        if k and abs(Fr(w[k]) - Fr(w[k - 1])) / fR > MS * tolr:
            return bad('max-slew', {'k': k, 'slew': float(abs(Fr(w[k]) - Fr(w[k - 1])) / fR)})
    return True


def compare_arb(ctx, c, ares, D):
    """extracted eta_arb against the implementation: class, duration, first / last, every sample, area"""
    t = Toks(ctx.model(['eta.arb %s %d %d' % (args_tok(c), FUEL_D, FUEL_B)])[0])
    tag = t.next()
    if tag != 'OK':
        mcls = t.next()
        if ares['cls'] != mcls:
            ctx.mismatch('arb', c, {'impl_class': ares['cls'], 'model_class': mcls})
        return
    md, mfirst, mlast, marea, mdur = t.z(), t.q(), t.q(), t.q(), t.q()
    mw = t.list(t.q)
    if ares['cls'] != 'OK':
        ctx.mismatch('arb', c, {'impl_class': ares['cls'], 'model_class': 'OK', 'impl_msg': ares.get('msg')})
        return
    if D is not None and md != D:
        return          # a duration divergence is already judged by compare_run
    bad = None
    scale = max([Fr(1)] + [abs(v) for v in mw])
    if len(mw) != len(ares['wave']):
        bad = {'samples_model': len(mw), 'samples_impl': len(ares['wave'])}
    elif abs(mfirst - Fr(ares['first'])) > Fr(1, 10 ** 9) * scale or abs(mlast - Fr(ares['last'])) > Fr(1, 10 ** 9) * scale:
        bad = {'first_model': float(mfirst), 'first_impl': ares['first'], 'last_model': float(mlast), 'last_impl': ares['last']}
    elif abs(marea - Fr(ares['area'])) > Fr(1, 10 ** 9) * max(1, abs(marea)) + Fr(1, 10 ** 12):
        bad = {'area_model': float(marea), 'area_impl': ares['area']}
    else:
        for k, (x, y) in enumerate(zip(mw, ares['wave'])):
            # the tie-broken triple may differ between model and implementation at equal cost: compare only if the corner
            # amplitudes agree (first sample determines the first slope)
            if abs(x - Fr(y)) > Fr(1, 10 ** 9) * scale:
                bad = {'k': k, 'sample_model': float(x), 'sample_impl': y}
                break
    if bad:
        ctx.mismatch('arb', c, bad)


# ------------------------------------------------------------------------------------------------
def three_segment_shorter(c, D):
    """informational (NOT part of the property): is there a shorter ramp-flat-ramp gradient?  small D only"""
    MG, MS, R, gs, ge, A = case_vals(c)
    gs, ge, A, R = Fr(float(gs)), Fr(float(ge)), Fr(float(A)), Fr(float(R))
    mg, ms = Fr(99, 100) * MG * (1 - GUARD), Fr(99, 100) * MS * (1 - GUARD)
    for d in range(2, D):
        for ru in range(1, d):
            for rd in range(1, d - ru):
                fl = d - ru - rd
                ga = (2 * A / R - ru * gs - rd * ge) / (ru + 2 * fl + rd)
                if abs(ga) <= mg and abs(ga - gs) <= ms * ru * R and abs(ga - ge) <= ms * rd * R:
                    return True
    return False


def res_ramps(res, R):
    """(first ramp, last ramp) of a returned corner form, in raster steps"""
    ks = [round(Fr(t) / Fr(float(R))) for t in res['tt']]
    return ks[1] - ks[0], ks[-1] - ks[-2]


def process(ctx, c, rng, n_find):
    dom = in_domain(c)
    res = impl_run(c)
    if dom:
        ok, D = oracle(ctx, c, res)
    else:
        ok, D = True, None          # outside the property's domain: correspondence only
    MG, MS, R, gs, ge, A = case_vals(c)
    ctx.count('stream.' + c['kind'])
    ctx.count('ends.' + c['rel'])
    ctx.count('domain.' + ('in' if dom else 'out'))
    ctx.count('system.' + ('library_default_omitted' if c.get('dflt') else 'explicit'))
    ctx.count('class.' + res['cls'])
    ctx.count('raster_us.%g' % float(R * 10 ** 6))
    nontrivial = False
    if res['cls'] == 'OK':
        Di = D if D is not None else round(Fr(res['tt'][-1]) / R)
        ctx.count('corners.%d' % len(res['tt']))
        ctx.count('rasters.%s' % ('<=4' if Di <= 4 else '5-30' if Di <= 30 else '31-120' if Di <= 120 else '121-400' if Di <= 400 else '>400'))
        ctx.count('probes.%s' % ('1' if len(res['probes']) == 1 else '2-10' if len(res['probes']) <= 10 else '>10'))
        first_probe = res['probes'][0][0] if res['probes'] else None
        nontrivial = first_probe is not None and Di > first_probe
        if res['probes']:
            lin_probes = [p for p in res['probes']]
            # phase: binary search happened iff probed durations are not consecutive
            ds = [p[0] for p in lin_probes]
            binary = any(b != a + 1 for a, b in zip(ds, ds[1:]))
            ctx.count('phase.' + ('binary' if binary else 'linear'))
        if dom and ok and Di <= 14 and rng.random() < 0.3:
            ctx.count('info.shorter_three_segment_%s' % ('exists' if three_segment_shorter(c, Di) else 'none'))
    ctx.evaluated(('c12', c['MG'], c['MS'], c['R'], c['gs'], c['ge'], c['A'], bool(c.get('dflt'))), nontrivial=nontrivial)
    # the raster-sampled form (convert_to_arbitrary=True) of the same call
    do_arb = dom and ok and res['cls'] == 'OK' and D <= 400 and \
        (c['kind'] in ('onestep', 'corpus') or min(res_ramps(res, R)) == 1 or rng.random() < 0.2)
    ares = None
    if do_arb:
        ares = impl_run(c, want_closure=False, arbitrary=True)
        ctx.count('arb.' + ('one_step_ramp' if min(res_ramps(res, R)) == 1 else 'longer_ramps'))
        oracle_arb(ctx, c, res, ares, D)
    if not ctx.model_available:
        return res, ok
    if res['cls'] == 'TimeoutError':
        ctx.count('model.skipped_after_impl_timeout')
        return res, ok
    mres = parse_run(ctx.model([model_run_line(c)])[0])
    same = compare_run(ctx, c, res, mres, ok, D)
    if ares is not None and same and ((D <= 120 and min(res_ramps(res, R)) == 1) or (D <= 60 and rng.random() < 0.15)):
        # tie-broken triples can differ at equal cost; the sample comparison is meaningful when the corner forms agree
        if mres.get('cls') == 'OK' and abs(mres['amp'] - Fr(res['wave'][1])) <= Fr(1, 10 ** 9) * max(1, abs(mres['amp'])) \
                and mres['up'] == res_ramps(res, R)[0]:
            compare_arb(ctx, c, ares, D)
            ctx.count('arb.model_compared')
        else:
            ctx.count('arb.model_skipped_other_tie_break')
    if mres.get('cls') == 'OK' and mres['D'] > mres['lin_max'] and \
            (ctx.tier == 'thorough' or c['kind'] in ('cross', 'scan-cross', 'fooled', 'corpus', 'shape', 'onestep')):
        # evidence that the generator reaches dead spaces ABOVE the linear range: the search without the rescan
        # (model function eta_old = the source before repair 7df2246) would have returned a longer gradient
        old = parse_run(ctx.model(['eta.old %s %d %d' % (args_tok(c), FUEL_D, FUEL_B)])[0])
        ctx.count('rescan.' + ('shortened_result' if old.get('cls') == 'OK' and old['D'] > mres['D'] else 'no_effect'))
    if res.get('closure') is not None and n_find > 0:
        ds = sorted({d for d, _ in res['probes']})
        if len(ds) > 3:
            ds = sorted(rng.sample(ds, 3))
        top = max([2] + [d for d, _ in res['probes']])
        extra = {rng.randint(1, max(3, min(2 * top, top + 60))) for _ in range(n_find)}
        if res['cls'] == 'OK':
            extra |= {Di - 1, Di + 1, Di + 2, Di + rng.randint(3, 12)}
        ds = sorted(d for d in set(ds) | extra if 1 <= d <= MAX_FIND_D)
        got = compare_find(ctx, c, res['closure'], ds, ok)
        if res['cls'] == 'OK' and any(s is None for d, s in got.items() if d > Di):
            ctx.count('dead_zone_seen_behind_result')
    elif res.get('closure') is None:
        ctx.count('find.closure_unavailable')
    return res, ok


def run(ctx):
    rng = ctx.rng('cases')
    brng = ctx.rng('boundary')
    frng = ctx.rng('find')
    xrng = ctx.rng('cross')
    orng = ctx.rng('onestep')
    n_cases = {'quick': 200, 'thorough': 7000}[ctx.tier]
    n_cross = {'quick': 30, 'thorough': 1500}[ctx.tier]
    n_one = {'quick': 20, 'thorough': 800}[ctx.tier]
    n_bound = {'quick': 15, 'thorough': 500}[ctx.tier]
    zrng = ctx.rng('fooled')
    drng = ctx.rng('default-system')
    n_fooled = {'quick': 20, 'thorough': 1500}[ctx.tier]
    # cases are generated lazily, in a shuffled order of families (neither the time budget nor the cost of the directed
    # generator may starve a family)
    plan = [lambda: gen_case(rng, ctx.tier)] * n_cases + [lambda: gen_cross(xrng, ctx.tier)] * n_cross + \
        [lambda: gen_onestep(orng, ctx.tier)] * n_one + [lambda: gen_fooled(zrng, ctx.tier)] * n_fooled + \
        [lambda: gen_case(brng, ctx.tier, boundary=True)] * n_bound
    if ctx.tier == 'thorough':
        plan += [(lambda c=c: c) for c in scan_cross(ctx.rng('scan'), 4)]
    ctx.rng('order').shuffle(plan)
    plan = [(lambda c=c: c) for c in corpus(ctx.tier)] + plan
    for i, mk in enumerate(plan):
        if ctx.out_of_time():
            ctx.notes.append('time budget reached after %d cases' % i)
            break
        c = mk()
        if c['kind'] != 'corpus' and drng.random() < 0.2:
            c = dict(c, dflt=True)          # one case in five goes through the library-default-system path
        res, ok = process(ctx, c, frng, n_find=2)
        if i % 97 == 40 and res['cls'] == 'OK':
            ctx.sample({'case': c, 'tt': res['tt'], 'waveform': res['wave'], 'probed_durations': [d for d, _ in res['probes']][:30]})
    nb = len(ctx.benign)
    if nb > max(3, 0.01 * max(1, ctx.model_cases)):
        ctx.mismatch('benign-over-budget', {'benign': nb, 'model_cases': ctx.model_cases},
                     {'note': 'more float-vs-exact divergences than the 1% budget', 'first': ctx.benign[:3]})


def replay(ctx, case):
    res = impl_run(case)
    if in_domain(case):
        ok, D = oracle(ctx, case, res)
    else:
        ok, D = True, None
    out = {'impl_class': res['cls'], 'impl_msg': res.get('msg'), 'tt': res.get('tt'), 'waveform': res.get('wave'),
           'oracle_ok': ok, 'rasters': D, 'probed': [(d, None if s is None else list(s)) for d, s in res['probes']][:40]}
    if ctx.model_available:
        mres = parse_run(ctx.model([model_run_line(case)])[0])
        out['model'] = {k: (float(v) if isinstance(v, Fr) else v) for k, v in mres.items() if k not in ('tt', 'wave')}
        compare_run(ctx, case, res, mres, ok, D)
        if res.get('closure') is not None:
            compare_find(ctx, case, res['closure'], sorted({d for d, _ in res['probes'] if d <= MAX_FIND_D})[:12], ok)
    return out
