"""C16 — add_gradients is the pointwise sum of its inputs."""
import copy
from fractions import Fraction

import numpy as np

from common import F, qtok, qlist, Toks

ID = 'C16'
GEN_SECTIONS = ['GenAddGrad']
COQ_TARGETS = ['Props/C16.vo']
EXTRACT_TARGETS = ['Extract/Ex_addgrad.vo']
RUNNER = 'addgrad'
LEVEL = 'proof'
MANIFEST = {
    'text': "Theorems (Coq, any number of inputs, over the piecewise-linear library Base/PWL.v): (1) the equal-timing "
            "trapezoid path returns the trapezoid whose rendering is the sum of the input renderings plus the "
            "code's eps*unit-trapezoid; (2) the extended-trapezoid path (union of corner times, interpolation of "
            "every input on the common grid, summation) renders at EVERY time to the sum of the input renderings "
            "for every input list one block can hold (C05 rules: timings on the raster, non-zero start only with "
            "zero delay, non-zero end only at the block end; proved to imply the StartsOk/EndsOk hypotheses); (3) "
            "the raster path equals, at EVERY raster centre, the sum of the input renderings (points_to_waveform "
            "samples identified with eval at the centres); duration = longest input duration on all three paths, "
            "first/last sums, single input = identity; on each path add_gradients raises exactly when the sum "
            "exceeds max_grad+eps / max_slew(1+eps) of the limits the code forwards, and a returned "
            "extended-trapezoid sum is within them at every time. The extracted model is run against add_gradients "
            "on ~1500 (quick) generated input lists (1-4 gradients, all kind mixes, incl. pieces of split gradients "
            "meeting at a non-zero value of either sign); the pointwise-sum predicate is evaluated with exact "
            "Fractions on the implementation's own inputs and output at all corner times, +-raster/8 and midpoints.",
    'note': 'Trusted: Coq kernel; translator patterns for add_gradients.py and the makers; extraction '
            '(ExtrOcamlBasic) + driver; binary64/NumPy arithmetic outside the model (sampled by correspondence, '
            'guard band around the limit thresholds); input aliasing checked by snapshot only; pieces that meet at '
            'a non-zero junction (the tt[0]+=eps convention) are covered by oracle + correspondence, not by theorem.',
    'technique': 'Rocq/Coq proof over a Gallina model (induction over the input list / corner lists) + '
                 'extraction-based correspondence',
}
BUDGET = {'quick': 80, 'thorough': 1500}
MISMATCH_BUDGET = 0.0
RULE = ('input lists of 1-4 gradients on channel x drawn from 9 streams x 2 call modes (equal-timing trapezoids, unequal '
        'trapezoids, trapezoid+extended, extended only, mixes with arbitrary gradients, cancelling pairs, '
        'limit-override cases, near-limit sums, library-default-system calls (one case in five: set_as_default + omitted '
        '`system` argument, previous default restored), junction = pieces made by split_gradient_at / split_gradient / by hand '
        'from trapezoids and extended trapezoids of both signs, meeting at a shared corner at a non-zero value); times are integer multiples of the raster of a random system, '
        'amplitudes integers; a gradient starts/ends away from zero only at time 0 / at the common end (the '
        'block rule). Oracle per case: exact rendering of inputs and result compared at every corner time, '
        '+-raster/8 and midpoints (raster centres on the sampled path), first/last, duration=max, inputs '
        'unchanged, raise iff the exact sum exceeds the effective limits (guard band 1e-6). Model comparison: '
        'path taken, error class, every corner/sample of the result. distinct = distinct input lists; '
        'non-trivial = at least 2 inputs')
TRUSTED = ['binary64 arithmetic of NumPy (np.interp, np.unique, cumsum, round) is outside the model: sampled by '
           'correspondence', 'aliasing of the returned event with its inputs: snapshot comparison only']
ASSUMPTIONS = ['the model receives the intended decimal times (k*raster) and integer amplitudes exactly; the '
               'implementation receives the nearest doubles',
               'limit decisions within 1e-6 (relative) of a threshold are not compared (guard band)']

US = Fraction(1, 10 ** 6)


# ------------------------------------------------------------------------------------------------
# generator: a case is JSON: sys (max_grad, max_slew integers, raster in us), ov (overrides), grads in raster units
def gen_trap(rng, S, amax, kmax):
    amp = rng.choice([rng.randint(-amax, amax), rng.randint(-amax, amax), rng.randint(-amax // 50 - 1, amax // 50 + 1)])
    if amp == 0:
        amp = rng.choice([1, -1]) * rng.randint(1, amax)
    rmin = max(1, -(-abs(amp) // max(1, int(S['ms'] * S['r'] * 1e-6))))
    rise = rmin + rng.randint(0, 6)
    fall = rmin + rng.randint(0, 6) if rng.random() < 0.6 else rise
    flat = rng.choice([0, rng.randint(1, kmax), rng.randint(1, 8)])
    delay = rng.choice([0, 0, rng.randint(0, kmax), rng.randint(0, 6)])
    return {'k': 'trap', 'amp': amp, 'rise': rise, 'flat': flat, 'fall': fall, 'delay': delay}


def gen_ext(rng, S, amax, kmax):
    n = rng.randint(2, 6)
    step = max(1, int(S['ms'] * S['r'] * 1e-6))  # max amplitude change per raster
    delay = rng.choice([0, 0, rng.randint(0, kmax), rng.randint(0, 6)])
    tt = [0]
    wf = [0]
    for _ in range(n):
        dk = rng.randint(1, max(2, kmax // 2))
        lim = min(amax, step * dk)
        v = wf[-1] + rng.randint(-lim, lim)
        v = max(-amax, min(amax, v))
        need = -(-abs(v - wf[-1]) // step)
        dk = max(dk, need, 1)
        tt.append(tt[-1] + dk)
        wf.append(v)
    # bring back to zero
    need = max(1, -(-abs(wf[-1]) // step))
    tt.append(tt[-1] + need + rng.randint(0, 3))
    wf.append(0)
    return {'k': 'ext', 'delay': delay, 'tt': tt, 'wf': wf}


def gen_arb(rng, S, amax, kmax):
    n = rng.randint(3, max(4, 2 * kmax))
    step = max(1, int(S['ms'] * S['r'] * 1e-6) // 2)
    delay = rng.choice([0, 0, rng.randint(0, kmax), rng.randint(0, 6)])
    wf = []
    v = 0
    for i in range(n):
        # stay able to return to zero
        rem = n - i
        v += rng.randint(-step, step)
        v = max(-amax, min(amax, v))
        lim = step * rem
        v = max(-lim, min(lim, v))
        wf.append(v)
    return {'k': 'arb', 'delay': delay, 'wf': wf, 'first': 0, 'last': 0}


def g_end(g):
    if g['k'] == 'trap':
        return g['delay'] + g['rise'] + g['flat'] + g['fall']
    if g['k'] == 'ext':
        return g['delay'] + g['tt'][-1]
    return g['delay'] + len(g['wf'])


def negate(g):
    h = copy.deepcopy(g)
    if h['k'] == 'trap':
        h['amp'] = -h['amp']
    else:
        h['wf'] = [-v for v in h['wf']]
        if h['k'] == 'arb':
            h['first'], h['last'] = -h['first'], -h['last']
    return h


# ---- pieces that meet at a shared corner at a non-zero value of either sign -------------------------------------
def abs_corners(g):
    """corner list (absolute raster index, value) of a trap / ext dict"""
    if g['k'] == 'trap':
        d = g['delay']
        c = [(d, 0), (d + g['rise'], g['amp'])]
        if g['flat'] > 0:
            c.append((d + g['rise'] + g['flat'], g['amp']))
        c.append((d + g['rise'] + g['flat'] + g['fall'], 0))
        return c
    return [(g['delay'] + t, v) for t, v in zip(g['tt'], g['wf'])]


def hand_split(g, k):
    """cut a trap / ext dict at the absolute raster index k (strictly inside): two ext dicts that meet at k"""
    c = abs_corners(g)
    vk = None
    for (a, v), (b, w) in zip(c, c[1:]):
        if a <= k <= b:
            vk = Fraction(v) + (Fraction(w) - Fraction(v)) * Fraction(k - a, b - a)
            break
    vk = int(vk) if vk.denominator == 1 else float(vk)
    left = [(t, v) for t, v in c if t < k] + [(k, vk)]
    right = [(k, vk)] + [(t, v) for t, v in c if t > k]
    mk = lambda cs: {'k': 'ext', 'delay': cs[0][0], 'tt': [t - cs[0][0] for t, _ in cs], 'wf': [v for _, v in cs]}
    return mk(left), mk(right)


def obj_to_dict(o, rq):
    """an extended-trapezoid event of the implementation as a case dict (times in raster units)"""
    rr = lambda x: int(round(F(x) / rq))
    wf = [float(v) for v in o.waveform]
    wf = [int(v) if v == int(v) else v for v in wf]
    return {'k': 'ext', 'delay': rr(o.delay), 'tt': [rr(t) for t in o.tt], 'wf': wf}


def impl_pieces(g, S, how, k):
    """the pieces split_gradient_at / split_gradient of the implementation make from a trap / ext dict"""
    import pypulseq as pp
    case = {'sys': S, 'grads': [g]}
    system, objs = build_objs(case)
    rq = Fraction(S['r'], 10 ** 6)
    if how == 'split3':
        parts = pp.split_gradient(objs[0], system=system)
    else:
        parts = pp.split_gradient_at(objs[0], float(k * rq), system=system)
    return [obj_to_dict(o, rq) for o in parts]


def gen_junction(rng, S, amax, kmax):
    base = rng.choice([gen_trap, gen_trap, gen_ext])(rng, S, amax, kmax)
    if rng.random() < 0.5:          # both signs, well away from zero
        base = negate(base)
    if base['k'] == 'ext' and rng.random() < 0.5:
        # hand-built: a plateau at +-A in the middle so that a cut there meets at +-A
        a = rng.choice([1, -1]) * rng.randint(max(1, amax // 4), amax)
        step = max(1, int(S['ms'] * S['r'] * 1e-6))
        ramp = max(1, -(-abs(a) // step)) + rng.randint(0, 3)
        base = {'k': 'ext', 'delay': rng.choice([0, rng.randint(0, 6)]),
                'tt': [0, ramp, ramp + rng.randint(2, 8), 2 * ramp + rng.randint(9, 12)], 'wf': [0, a, a, 0]}
    c = abs_corners(base)
    lo, hi = c[0][0], c[-1][0]
    how = rng.choice(['hand', 'hand', 'impl_at', 'impl_at', 'split3'])
    pieces = None
    if hi - lo >= 2:
        k = rng.choice([rng.randint(lo + 1, hi - 1), rng.choice([t for t, _ in c[1:-1]] or [lo + 1])])
        if how != 'hand' and (how != 'split3' or base['k'] == 'trap'):
            try:
                pieces = impl_pieces(copy.deepcopy(base), S, how, k)
            except Exception:
                pieces = None
        if pieces is None:
            pieces = list(hand_split(base, k))
        # sometimes cut one piece again (three pieces, two junctions)
        if rng.random() < 0.3:
            j = rng.randrange(len(pieces))
            cj = abs_corners(pieces[j])
            if cj[-1][0] - cj[0][0] >= 2:
                k2 = rng.randint(cj[0][0] + 1, cj[-1][0] - 1)
                pieces[j:j + 1] = list(hand_split(pieces[j], k2))
    else:
        pieces = [base]
    # an unrelated gradient on top (its corners fall inside the pieces' segments); never drop a piece: the sum
    # of an incomplete set of pieces has a jump and is not a legal input
    if rng.random() < 0.35 and len(pieces) <= 3:
        pieces.append(rng.choice([gen_trap, gen_ext, gen_arb])(rng, S, amax // 3 + 1, kmax))
    rng.shuffle(pieces)
    return pieces


def gen_case(rng, tier, i):
    r = rng.choice([10, 10, 20, 4])
    mg = rng.choice([1000000, 1500000, 2500000, rng.randint(400000, 3500000)])
    ms = rng.choice([5000000000, 8000000000, rng.randint(2000000000, 12000000000)])
    S = {'mg': mg, 'ms': ms, 'r': r}
    kmax = rng.choice([6, 12, 30]) if tier == 'quick' else rng.choice([6, 12, 30, 80])
    stream = rng.choice(['trap_equal', 'traps', 'trap_ext', 'ext', 'with_arb', 'with_arb', 'cancel', 'override',
                         'near_limit', 'mixed', 'junction', 'junction'])
    n = rng.choice([1, 2, 2, 3, 3, 4])
    amax = int(mg * rng.choice([0.2, 0.3, 0.45, 0.7]))
    grads = []
    if stream == 'trap_equal':
        t0 = gen_trap(rng, S, amax, kmax)
        grads = [dict(t0, amp=rng.choice([1, -1]) * rng.randint(1, max(1, abs(t0['amp'])))) for _ in range(n)]
        grads[0] = t0
    elif stream == 'traps':
        grads = [gen_trap(rng, S, amax, kmax) for _ in range(n)]
    elif stream == 'trap_ext':
        grads = [rng.choice([gen_trap, gen_ext])(rng, S, amax, kmax) for _ in range(n)]
    elif stream == 'ext':
        grads = [gen_ext(rng, S, amax, kmax) for _ in range(n)]
    elif stream in ('with_arb', 'mixed'):
        grads = [rng.choice([gen_trap, gen_ext, gen_arb])(rng, S, amax, kmax) for _ in range(n)]
        if stream == 'with_arb' and n > 1 and not any(g['k'] == 'arb' for g in grads):
            grads[rng.randrange(n)] = gen_arb(rng, S, amax, kmax)
    elif stream == 'cancel':
        g = rng.choice([gen_trap, gen_ext, gen_arb])(rng, S, amax, kmax)
        grads = [g, negate(g)]
        if rng.random() < 0.5:
            grads.append(rng.choice([gen_trap, gen_ext])(rng, S, amax, kmax))
        rng.shuffle(grads)
    elif stream in ('override', 'near_limit'):
        kind = rng.choice(['traps_eq', 'traps', 'ext', 'arb'])
        n = max(2, n)
        if kind == 'traps_eq':
            t0 = gen_trap(rng, S, amax, kmax)
            grads = [dict(t0) for _ in range(n)]
        elif kind == 'traps':
            grads = [gen_trap(rng, S, amax, kmax) for _ in range(n)]
        elif kind == 'ext':
            grads = [rng.choice([gen_trap, gen_ext])(rng, S, amax, kmax) for _ in range(n)]
        else:
            grads = [gen_arb(rng, S, amax, kmax)] + [rng.choice([gen_trap, gen_ext, gen_arb])(rng, S, amax, kmax)
                                                     for _ in range(n - 1)]
    if stream == 'junction':
        grads = gen_junction(rng, S, amax, kmax)
        return {'stream': stream, 'sys': S, 'ov': {'mg': 0, 'ms': 0}, 'grads': grads, 'dflt': rng.random() < 0.2}
    # shared corner times: sometimes align delays
    if len(grads) > 1 and rng.random() < 0.3:
        d = grads[0]['delay']
        for g in grads[1:]:
            if rng.random() < 0.6:
                g['delay'] = d
    # gradients that start / end away from zero, only where the block rule allows it
    tend = max(g_end(g) for g in grads)
    for g in grads:
        if g['k'] == 'trap':
            continue
        step = max(1, int(S['ms'] * S['r'] * 1e-6) // 2)
        if g['delay'] == 0 and rng.random() < 0.3:
            v = rng.randint(-min(amax, 3 * step), min(amax, 3 * step))
            if g['k'] == 'ext':
                g['wf'][0] = v
                g['tt'] = [0] + [t + 4 for t in g['tt'][1:]]
            else:
                g['first'] = v
                g['wf'][0] = v + rng.randint(-step // 2, step // 2)
        if g_end(g) == tend and rng.random() < 0.3:
            v = rng.randint(-min(amax, 3 * step), min(amax, 3 * step))
            if g['k'] == 'ext':
                g['wf'][-1] = v
            else:
                g['last'] = v
                g['wf'][-1] = v + rng.randint(-step // 2, step // 2)
    tend2 = max(g_end(g) for g in grads)
    if tend2 != tend:   # lengthening the first ext segment moved an end: undo non-zero lasts elsewhere
        for g in grads:
            if g['k'] == 'ext' and g_end(g) != tend2:
                g['wf'][-1] = 0
            if g['k'] == 'arb' and g_end(g) != tend2:
                g['last'] = 0
    ov = {'mg': 0, 'ms': 0}
    if stream == 'override':
        ov = {'mg': rng.choice([0, int(mg * rng.choice([0.3, 0.5, 0.8, 1.5, 3]))]),
              'ms': rng.choice([0, int(ms * rng.choice([0.3, 0.6, 1.5, 3]))])}
        if ov['mg'] == 0 and ov['ms'] == 0:
            ov['mg'] = int(mg * 0.5)
    if rng.random() < 0.05:
        ov = {'mg': rng.choice([-1, 0]), 'ms': rng.choice([-5, 0])}
    return {'stream': stream, 'sys': S, 'ov': ov, 'grads': grads, 'dflt': rng.random() < 0.2}


def corpus():
    S = {'mg': 1000000, 'ms': 5000000000, 'r': 10}
    t = {'k': 'trap', 'amp': 600000, 'rise': 20, 'flat': 30, 'fall': 20, 'delay': 0}
    cs = [
        # defect 12: override ignored on the trapezoid path (sum 1.2e6 > override 1e6 but system 2e6)
        {'stream': 'corpus', 'sys': {'mg': 2000000, 'ms': 5000000000, 'r': 10}, 'ov': {'mg': 1000000, 'ms': 0},
         'grads': [dict(t), dict(t)]},
        {'stream': 'corpus', 'sys': {'mg': 2000000, 'ms': 5000000000, 'r': 10}, 'ov': {'mg': 1000000, 'ms': 0},
         'grads': [dict(t), dict(t, delay=5)]},
        {'stream': 'corpus', 'sys': S, 'ov': {'mg': 0, 'ms': 0}, 'grads': [dict(t)]},
        {'stream': 'corpus', 'sys': S, 'ov': {'mg': 0, 'ms': 0}, 'grads': [dict(t, amp=300000), dict(t, amp=-300000)]},
        {'stream': 'corpus', 'sys': S, 'ov': {'mg': 0, 'ms': 0},
         'grads': [dict(t, amp=300000), dict(t, amp=200000, delay=10, flat=0)]},
        {'stream': 'corpus', 'sys': S, 'ov': {'mg': 0, 'ms': 0},
         'grads': [dict(t, amp=300000), {'k': 'ext', 'delay': 0, 'tt': [0, 10, 30, 70], 'wf': [100000, 200000, -50000, 0]}]},
        {'stream': 'corpus', 'sys': S, 'ov': {'mg': 0, 'ms': 0},
         'grads': [dict(t, amp=300000, delay=2), {'k': 'arb', 'delay': 0, 'wf': [10000, 30000, 50000, 40000, 20000, 5000],
                                                 'first': 0, 'last': 0}]},
        {'stream': 'corpus', 'sys': S, 'ov': {'mg': 0, 'ms': 0},
         'grads': [{'k': 'ext', 'delay': 3, 'tt': [0, 10, 20], 'wf': [0, 200000, 0]},
                   {'k': 'arb', 'delay': 1, 'wf': [10000, 30000, 50000, 40000, 20000, 5000], 'first': 0, 'last': 0},
                   dict(t, amp=-100000, delay=0)]},
        # first/last selection by exact float equality (2e-05 + 1.2e-05 != 3.2e-05): both inputs end at 32 us
        {'stream': 'corpus', 'sys': {'mg': 1000000, 'ms': 5000000000, 'r': 4}, 'ov': {'mg': 0, 'ms': 0},
         'grads': [{'k': 'arb', 'delay': 5, 'wf': [-3728, -6430, 2653], 'first': 0, 'last': 0},
                   {'k': 'arb', 'delay': 0, 'wf': [2621, 4544, -4180, -6977, -4147, -3904, 4092, 757],
                    'first': 0, 'last': 1851}]},
        # library default system (set_as_default + omitted `system`): within a strong default but above the
        # import-time default limits (all three paths), above a weak default but within the import-time one, and a
        # 20 us raster on the sampled path
        {'stream': 'corpus', 'dflt': True, 'sys': {'mg': 3400000, 'ms': 8000000000, 'r': 10}, 'ov': {'mg': 0, 'ms': 0},
         'grads': [dict(t, amp=1200000, rise=50, fall=50, flat=100), dict(t, amp=1200000, rise=50, fall=50, flat=100)]},
        {'stream': 'corpus', 'dflt': True, 'sys': {'mg': 3400000, 'ms': 8000000000, 'r': 10}, 'ov': {'mg': 0, 'ms': 0},
         'grads': [dict(t, amp=1200000, rise=50, fall=50, flat=100),
                   dict(t, amp=1200000, rise=50, fall=50, flat=60, delay=20)]},
        {'stream': 'corpus', 'dflt': True, 'sys': {'mg': 400000, 'ms': 5000000000, 'r': 10}, 'ov': {'mg': 0, 'ms': 0},
         'grads': [dict(t, amp=300000), dict(t, amp=300000, delay=5)]},
        {'stream': 'corpus', 'dflt': True, 'sys': {'mg': 400000, 'ms': 5000000000, 'r': 10}, 'ov': {'mg': 0, 'ms': 0},
         'grads': [dict(t, amp=300000), dict(t, amp=300000)]},
        {'stream': 'corpus', 'dflt': True, 'sys': {'mg': 3400000, 'ms': 8000000000, 'r': 20}, 'ov': {'mg': 0, 'ms': 0},
         'grads': [dict(t, amp=1200000, rise=30, fall=30, flat=20, delay=2),
                   {'k': 'arb', 'delay': 0, 'wf': [100000, 300000, 500000, 700000, 800000, 800000, 600000, 300000, 100000],
                    'first': 0, 'last': 0}]},
        {'stream': 'corpus', 'dflt': True, 'sys': {'mg': 400000, 'ms': 5000000000, 'r': 20}, 'ov': {'mg': 0, 'ms': 0},
         'grads': [dict(t, amp=300000, delay=2),
                   {'k': 'arb', 'delay': 0, 'wf': [20000, 60000, 100000, 140000, 160000, 160000, 120000, 60000, 20000],
                    'first': 0, 'last': 0}]},
    ]
    return cs


# ------------------------------------------------------------------------------------------------
# implementation driver
def build_objs(case):
    import pypulseq as pp
    S = case['sys']
    r = S['r'] * 1e-6 if S['r'] != 4 else 4e-6
    rq = Fraction(S['r'], 10 ** 6)
    system = pp.Opts(max_grad=float(S['mg']), grad_unit='Hz/m', max_slew=float(S['ms']), slew_unit='Hz/m/s',
                     grad_raster_time=float(rq))
    objs = []
    BIG = 1e15
    for g in case['grads']:
        if g['k'] == 'trap':
            o = pp.make_trapezoid('x', amplitude=float(g['amp']), rise_time=float(g['rise'] * rq),
                                  flat_time=float(g['flat'] * rq), fall_time=float(g['fall'] * rq),
                                  delay=float(g['delay'] * rq), system=system, max_grad=BIG, max_slew=BIG)
        elif g['k'] == 'ext':
            times = np.array([float((g['delay'] + k) * rq) for k in g['tt']])
            o = pp.make_extended_trapezoid('x', amplitudes=np.array([float(v) for v in g['wf']]), times=times,
                                           system=system, max_grad=BIG, max_slew=BIG, skip_check=True)
        else:
            o = pp.make_arbitrary_grad('x', np.array([float(v) for v in g['wf']]), first=float(g['first']),
                                       last=float(g['last']), delay=float(g['delay'] * rq), system=system,
                                       max_grad=BIG, max_slew=BIG)
        objs.append(o)
    return system, objs


def snapshot(objs):
    out = []
    for o in objs:
        d = {}
        for k, v in sorted(vars(o).items()):
            if k == 'trace':
                continue
            d[k] = np.array(v, dtype=float).tolist() if isinstance(v, np.ndarray) else v
        out.append(d)
    return out


def run_impl(case):
    import pypulseq as pp
    system, objs = build_objs(case)
    before = snapshot(objs)
    kw = {}
    if case['ov']['mg'] != 0:
        kw['max_grad'] = case['ov']['mg']
    if case['ov']['ms'] != 0:
        kw['max_slew'] = case['ov']['ms']
    err = None
    res = None
    if case.get('dflt'):
        # LIBRARY DEFAULT SYSTEM: the case's system is installed with set_as_default() (after a decoy with very
        # different limits and raster was the default for a moment) and the `system` argument is OMITTED; the
        # result must be exactly what passing that system explicitly gives.  The previous default is restored.
        old = pp.Opts.default
        try:
            pp.Opts(max_grad=1000.0, grad_unit='Hz/m', max_slew=1e6, slew_unit='Hz/m/s',
                    grad_raster_time=50e-6).set_as_default()
            system.set_as_default()
            try:
                res = pp.add_gradients(objs, **kw)
            except ValueError as e:
                err = str(e)
        finally:
            old.set_as_default()
    else:
        try:
            res = pp.add_gradients(objs, system=system, **kw)
        except ValueError as e:
            err = str(e)
    after = snapshot(objs)
    return system, objs, res, err, before == after


def err_class(msg):
    m = msg.lower()
    if 'slew' in m:
        return 'slew'
    if 'amplitude violation' in m or 'refined amplitude' in m:
        return 'amp'
    if 'no gradients' in m:
        return 'none_given'
    if 'non-zero' in m and 'first amplitude' in m:
        return 'first_nonzero'
    if 'ascending' in m:
        return 'not_ascending'
    if 'last time point' in m:
        return 'last_off_raster'
    if 'all time points' in m:
        return 'off_raster'
    if 'at least one of the given times' in m:
        return 'all_zero'
    return 'other:' + msg[:60]


# ------------------------------------------------------------------------------------------------
# exact rendering of an event (the implementation's own fields) as a piecewise-linear function
def corners(o):
    if o.type == 'trap':
        d, a = F(o.delay), F(o.amplitude)
        t1 = d + F(o.rise_time)
        t2 = t1 + F(o.flat_time)
        t3 = t2 + F(o.fall_time)
        return [(d, Fraction(0)), (t1, a), (t2, a), (t3, Fraction(0))]
    d = F(o.delay)
    tt = [F(x) for x in o.tt]
    wf = [F(x) for x in o.waveform]
    c = [(d + t, w) for t, w in zip(tt, wf)]
    if tt and tt[0] > Fraction(1, 10 ** 9):   # arbitrary: raster centres; extend by first/last at the edges
        c = [(d, F(o.first))] + c + [(d + F(o.shape_dur), F(o.last))]
    return c


TNOISE = Fraction(1, 10 ** 12)   # binary64 noise on times (k*raster sums): an end point is hit within this


def pw_eval(c, t):
    if not c:
        return Fraction(0)
    if t < c[0][0] and c[0][0] - t < TNOISE:
        t = c[0][0]
    if t > c[-1][0] and t - c[-1][0] < TNOISE:
        t = c[-1][0]
    if t < c[0][0] or t > c[-1][0]:
        return Fraction(0)
    for (a, v), (b, w) in zip(c, c[1:]):
        if a <= t <= b:
            if b == a:
                continue
            return v + (w - v) * (t - a) / (b - a)
    # t equals a corner of a degenerate tail
    for a, v in c:
        if a == t:
            return v
    return Fraction(0)


def is_centres(o, rq):
    return o.type == 'grad' and len(o.tt) > 0 and abs(F(o.tt[0]) - rq / 2) < Fraction(1, 10 ** 12)


def event_end(o):
    if o.type == 'trap':
        return F(o.delay) + F(o.rise_time) + F(o.flat_time) + F(o.fall_time)
    return F(o.delay) + F(o.shape_dur)


def expected_path(case):
    gs = case['grads']
    if len(gs) == 1:
        return 'single'
    if all(g['k'] == 'trap' for g in gs) and all(
            (g['rise'], g['flat'], g['fall'], g['delay']) == (gs[0]['rise'], gs[0]['flat'], gs[0]['fall'], gs[0]['delay'])
            for g in gs):
        return 'trap'
    if not any(g['k'] == 'arb' for g in gs):
        return 'ext'
    return 'raster'


GUARD = Fraction(1, 10 ** 6)


def oracle(ctx, case, system, objs, res, err, unchanged):
    """the property's predicate on the implementation's inputs and output; returns (ok, info)"""
    S = case['sys']
    rq = Fraction(S['r'], 10 ** 6)
    path = expected_path(case)
    mg = Fraction(case['ov']['mg']) if case['ov']['mg'] > 0 else Fraction(S['mg'])
    ms = Fraction(case['ov']['ms']) if case['ov']['ms'] > 0 else Fraction(S['ms'])
    info = {'path': path, 'band': False}
    if not unchanged:
        ctx.fail('C16/inputs-modified', case, {})
        return False, info
    cin = [corners(o) for o in objs]
    scale = max([Fraction(1)] + [abs(v) for c in cin for _, v in c])
    tol = scale * Fraction(1, 10 ** 9) + Fraction(1, 10 ** 12) + Fraction(2, 10 ** 9)
    # A piece that starts away from zero after time 0 continues a piece that ends there (the two halves of a
    # split gradient): at the junction time itself the value belongs to the piece that ENDS there, the starting
    # piece counts on (start, end] only.  (The sums generated here are continuous at every junction.)
    EPSQ = Fraction(1, 10 ** 9)
    open_start = [path != 'raster' and len(c) > 0 and abs(c[0][1]) > EPSQ and c[0][0] > EPSQ for c in cin]
    info['junction'] = any(open_start)
    if any(open_start):
        # the code realises the open start by moving that corner by eps = 1e-9 s: values at corner times of OTHER
        # inputs inside the first segment move by at most eps * slope
        msl = max([abs(w - v) / (b - a) for c in cin for (a, v), (b, w) in zip(c, c[1:]) if b > a] + [Fraction(0)])
        tol += 2 * EPSQ * msl

    def ssum(t):
        tot = Fraction(0)
        for c, op in zip(cin, open_start):
            if op and abs(t - c[0][0]) < TNOISE:
                continue
            tot += pw_eval(c, t)
        return tot

    # ---- what the sum is, and whether it is within the limits
    if path == 'raster':
        cd = min(F(o.delay) for o in objs)
        tend = max(event_end(o) for o in objs)
        nexp = int(round((tend - cd) / rq))
        centres = [cd + (k + Fraction(1, 2)) * rq for k in range(nexp)]
        samples = [ssum(t) for t in centres]
        peak = max([abs(v) for v in samples] + [Fraction(0)])
        slew = max([abs(b - a) / rq for a, b in zip(samples, samples[1:])] + [Fraction(0)])
    elif path == 'single':
        peak = slew = Fraction(0)
    else:
        ts = sorted(set(t for c in cin for t, _ in c))
        # merge times that differ only by binary64 noise
        tm = []
        for t in ts:
            if tm and t - tm[-1] < Fraction(1, 10 ** 9):
                continue
            tm.append(t)
        vals = [ssum(t) for t in tm]
        peak = max(abs(v) for v in vals)
        slew = max([abs(b - a) / (t1 - t0) for (t0, a), (t1, b) in zip(zip(tm, vals), zip(tm[1:], vals[1:]))]
                   + [Fraction(0)])
    over = peak > mg * (1 + GUARD) or slew > ms * (1 + GUARD)
    within = peak < mg * (1 - GUARD) and slew < ms * (1 - GUARD)
    info['band'] = not over and not within
    info['over'] = over
    if path == 'single':
        within, over = True, False
        info['band'] = False
    if err is not None:
        cls = err_class(err)
        info['err'] = cls
        if within:
            ctx.fail('C16/raises-within-limits/%s/%s' % (path, cls), case,
                     {'error': err, 'peak': float(peak), 'slew': float(slew), 'max_grad': float(mg), 'max_slew': float(ms)})
            return False, info
        return True, info
    if over:
        ctx.fail('C16/no-raise-over-limit/%s' % path, case,
                 {'peak': float(peak), 'slew': float(slew), 'max_grad': float(mg), 'max_slew': float(ms),
                  'override': case['ov']})
        return False, info
    # ---- the result is the pointwise sum
    cres = corners(res)
    if path == 'single':
        o = objs[0]
        same = snapshot([res]) == snapshot([o])
        if not same:
            ctx.fail('C16/single-not-identity', case, {})
            return False, info
        return True, info
    if path == 'raster':
        if not is_centres(res, rq):
            ctx.fail('C16/raster-result-not-on-centres', case, {'tt0': float(res.tt[0])})
            return False, info
        w = [F(x) for x in res.waveform]
        if len(w) != len(samples):
            ctx.fail('C16/raster-length', case, {'len': len(w), 'expected': len(samples)})
            return False, info
        for k, (a, b) in enumerate(zip(w, samples)):
            if abs(a - b) > tol:
                ctx.fail('C16/raster-sum', case, {'k': k, 'result': float(a), 'sum': float(b)})
                return False, info
        # the result's sample times are the centres
        for k, t in enumerate(centres):
            if abs(F(res.delay) + F(res.tt[k]) - t) > Fraction(1, 10 ** 12):
                ctx.fail('C16/raster-times', case, {'k': k})
                return False, info
    else:
        ts = sorted(set([t for c in cin for t, _ in c] + [t for t, _ in cres]))
        pts = set(ts)
        for t in ts:
            pts.add(t + rq / 8)
            pts.add(t - rq / 8)
        for a, b in zip(ts, ts[1:]):
            pts.add((a + b) / 2)
        for t in sorted(pts):
            a, b = pw_eval(cres, t), ssum(t)
            if abs(a - b) > tol:
                ctx.fail('C16/sum/%s' % path, case, {'t': float(t), 'result': float(a), 'sum': float(b)})
                return False, info
    # ---- duration, first, last
    tend = max(event_end(o) for o in objs)
    if abs(event_end(res) - tend) > Fraction(1, 10 ** 12) + tend * Fraction(1, 10 ** 9):
        ctx.fail('C16/duration', case, {'result': float(event_end(res)), 'max': float(tend)})
        return False, info
    start = min(F(o.delay) for o in objs)
    efirst = sum((F(getattr(o, 'first', 0)) for o in objs if abs(F(o.delay) - start) < Fraction(1, 10 ** 12)), Fraction(0))
    elast = sum((F(getattr(o, 'last', 0)) for o in objs if abs(event_end(o) - tend) < Fraction(1, 10 ** 12)), Fraction(0))
    if abs(F(res.first) - efirst) > tol or abs(F(res.last) - elast) > tol:
        ctx.fail('C16/first-last/%s' % path, case, {'first': float(res.first), 'expected_first': float(efirst),
                                                     'last': float(res.last), 'expected_last': float(elast)})
        return False, info
    if abs(F(res.delay) - start) > Fraction(1, 10 ** 12) and path != 'trap':
        ctx.fail('C16/delay', case, {'delay': float(res.delay), 'expected': float(start)})
        return False, info
    return True, info


# ------------------------------------------------------------------------------------------------
# model
def model_line(case):
    S = case['sys']
    rq = Fraction(S['r'], 10 ** 6)
    toks = ['addgrad.add', qtok(Fraction(S['mg'])), qtok(Fraction(S['ms'])), qtok(rq),
            qtok(Fraction(case['ov']['mg'])), qtok(Fraction(case['ov']['ms'])), str(len(case['grads']))]
    for g in case['grads']:
        if g['k'] == 'trap':
            toks += ['0', qtok(Fraction(g['amp'])), qtok(g['rise'] * rq), qtok(g['flat'] * rq), qtok(g['fall'] * rq),
                     qtok(g['delay'] * rq)]
        elif g['k'] == 'ext':
            toks += ['1', qtok(g['delay'] * rq), qlist(k * rq for k in g['tt']), qlist(Fraction(v) for v in g['wf']),
                     qtok(Fraction(g['wf'][0])), qtok(Fraction(g['wf'][-1])), qtok(g['tt'][-1] * rq)]
        else:
            n = len(g['wf'])
            toks += ['1', qtok(g['delay'] * rq), qlist((k + Fraction(1, 2)) * rq for k in range(n)),
                     qlist(Fraction(v) for v in g['wf']), qtok(Fraction(g['first'])), qtok(Fraction(g['last'])),
                     qtok(n * rq)]
    return ' '.join(toks)


def impl_path(res, rq):
    if res.type == 'trap':
        return 'trap'
    return 'raster' if is_centres(res, rq) else 'ext'


def compare_model(ctx, items):
    outs = ctx.model([model_line(c) for c, _ in items])
    for (c, (res, err, info)), o in zip(items, outs):
        t = Toks(o)
        tag = t.next()
        rq = Fraction(c['sys']['r'], 10 ** 6)
        if info.get('band'):
            ctx.count('corr.guard_band_not_compared')
            continue
        if tag == 'ERR':
            mcls = t.next()
            if err is None:
                ctx.mismatch('add', c, {'model': 'ERR ' + mcls, 'impl': 'returned'})
            elif err_class(err) != mcls:
                ctx.mismatch('add', c, {'model': 'ERR ' + mcls, 'impl': 'ERR ' + err_class(err)})
            continue
        if tag != 'OK':
            ctx.mismatch('add', c, {'model': o[:200]})
            continue
        if err is not None:
            ctx.mismatch('add', c, {'model': o[:80], 'impl': 'ERR ' + err_class(err)})
            continue
        mpath = t.next()
        kind = t.next()
        bad = None
        ipath = 'single' if len(c['grads']) == 1 else impl_path(res, rq)
        if mpath != ipath:
            bad = {'path_model': mpath, 'path_impl': ipath}
        elif kind == 'T':
            m = [t.q() for _ in range(5)]
            if res.type != 'trap':
                bad = {'kind_model': 'trap', 'kind_impl': res.type}
            else:
                im = [F(res.amplitude), F(res.rise_time), F(res.flat_time), F(res.fall_time), F(res.delay)]
                for nm, a, b in zip(['amplitude', 'rise', 'flat', 'fall', 'delay'], m, im):
                    if abs(a - b) > abs(b) * Fraction(1, 10 ** 9) + Fraction(1, 10 ** 12):
                        bad = {'field': nm, 'model': float(a), 'impl': float(b)}
        else:
            md, mf, ml, msd = t.q(), t.q(), t.q(), t.q()
            mtt = t.list(t.q)
            mwf = t.list(t.q)
            if res.type != 'grad':
                bad = {'kind_model': 'grad', 'kind_impl': res.type}
            elif len(mtt) != len(res.tt) or len(mwf) != len(res.waveform):
                bad = {'len_model': len(mtt), 'len_impl': len(res.tt)}
            else:
                scale = max([Fraction(1)] + [abs(v) for v in mwf])
                tolv = scale * Fraction(1, 10 ** 9) + Fraction(1, 10 ** 12)
                for nm, a, b in [('delay', md, res.delay), ('shape_dur', msd, res.shape_dur)]:
                    if abs(a - F(b)) > Fraction(1, 10 ** 12) + abs(a) * Fraction(1, 10 ** 9):
                        bad = {'field': nm, 'model': float(a), 'impl': float(b)}
                for nm, a, b in [('first', mf, res.first), ('last', ml, res.last)]:
                    if abs(a - F(b)) > tolv:
                        bad = {'field': nm, 'model': float(a), 'impl': float(b)}
                for k, (a, b) in enumerate(zip(mtt, res.tt)):
                    if abs(a - F(b)) > Fraction(1, 10 ** 12) + abs(a) * Fraction(1, 10 ** 9):
                        bad = {'field': 'tt', 'k': k, 'model': float(a), 'impl': float(b)}
                        break
                for k, (a, b) in enumerate(zip(mwf, res.waveform)):
                    if abs(a - F(b)) > tolv:
                        bad = {'field': 'waveform', 'k': k, 'model': float(a), 'impl': float(b)}
                        break
        if bad:
            ctx.mismatch('add', c, bad)


def case_key(c):
    return ('c16', repr(c['sys']), repr(c['ov']), repr(c['grads']), bool(c.get('dflt')))


def run(ctx):
    rng = ctx.rng('cases')
    n_cases = {'quick': 1500, 'thorough': 40000}[ctx.tier]
    pending = []
    cases = corpus()
    for i in range(n_cases):
        cases.append(gen_case(rng, ctx.tier, i))
    for i, c in enumerate(cases):
        if ctx.out_of_time():
            ctx.notes.append('time budget reached after %d cases' % i)
            break
        try:
            system, objs, res, err, unchanged = run_impl(c)
        except Exception as e:
            ctx.fail('C16/unexpected-exception', c, {'exception': repr(e)[:300]})
            continue
        ok, info = oracle(ctx, c, system, objs, res, err, unchanged)
        ctx.evaluated(case_key(c), nontrivial=len(c['grads']) > 1)
        ctx.count('stream.' + c['stream'])
        ctx.count('path.' + info['path'])
        ctx.count('n.%d' % len(c['grads']))
        ctx.count('outcome.' + ('raise.' + info.get('err', '?') if err is not None else 'ok'))
        ctx.count('kinds.' + ''.join(sorted(set(g['k'][0] for g in c['grads']))))
        if info.get('band'):
            ctx.count('limit.guard_band')
        if info.get('junction'):
            ctx.count('junction.nonzero_start_after_0')
            ctx.count('junction.sign.' + ('neg' if any(g['k'] == 'ext' and g['delay'] > 0 and g['wf'][0] < 0 for g in c['grads']) else 'pos'))
        if c['ov']['mg'] or c['ov']['ms']:
            ctx.count('override.used')
        ctx.count('system.' + ('library_default_omitted' if c.get('dflt') else 'explicit'))
        if c.get('dflt'):
            ctx.count('system.default.path.' + info['path'])
        if i % 300 == 9:
            ctx.sample({'stream': c['stream'], 'sys': c['sys'], 'ov': c['ov'], 'kinds': [g['k'] for g in c['grads']],
                        'path': info['path'], 'raised': err})
        if ctx.model_available:
            pending.append((c, (res, err, info)))
        if len(pending) >= 300:
            compare_model(ctx, pending)
            pending = []
    if pending and ctx.model_available:
        compare_model(ctx, pending)


def replay(ctx, case):
    system, objs, res, err, unchanged = run_impl(case)
    ok, info = oracle(ctx, case, system, objs, res, err, unchanged)
    out = {'oracle_ok': ok, 'info': {k: (v if not isinstance(v, Fraction) else float(v)) for k, v in info.items()},
           'raised': err}
    if res is not None:
        out['result_type'] = res.type
    if ctx.model_available:
        compare_model(ctx, [(case, (res, err, info))])
    return out
