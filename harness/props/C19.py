"""C19 — labels and triggers are stored, evaluated and reloaded faithfully."""
import copy
import os
import tempfile
from types import SimpleNamespace

import numpy as np

import histories as H
import seqmodel as sm
from common import Toks, ztok, qtok, D

ID = 'C19'
GEN_SECTIONS = ['GenLabels', 'GenFile', 'GenDedup', 'FP_store_events', 'FP_store_ext', 'FP_get_block', 'FP_event_lib', 'FP_labels']
COQ_TARGETS = ['Props/C19.vo']
EXTRACT_TARGETS = ['Extract/Ex_labels.vo']
RUNNER = 'labels'
LEVEL = 'proof'
MANIFEST = {
    'text': 'Theorems (Coq): in every store reachable by any history of add_block/set_block/get_block/register_*/'
            'remove_duplicates/write/read(of a well-formed file) each extension entry points to a strictly smaller '
            'id, so the get_block chain walk never runs out of fuel (invariant by induction over histories); for every '
            'such store, registering an extension list and walking the returned id yields exactly the sorted list '
            '(a permutation of what was added) with its library payloads; equal sorted lists share one id and '
            'different lists never do; evaluate_labels equals, for every program, init dictionary and evolution mode, '
            'a label-by-label interpreter (sequential for several operations per label, order-independent when each '
            'block has at most one operation per label); label/extension/trigger tables are re-read from the source; a new '
            'extension type id never collides with one in use whatever the order of the id list (refuted for the '
            '`[-1]` variant); file model of the extension sections (rows over the generated column tables, headers, '
            'id<->name table): writing and re-reading gives back the extension and label rows exactly, trigger rows '
            'within 0.5 us (exactly on whole us), the same get_block chains and the same evaluate_labels result, for '
            'every reachable store; read() onto a NON-fresh object: exact post-read store (extension library kept when '
            'the file has no [EXTENSIONS] section), invariant preserved, a stale extension-library keymap entry cannot '
            'make add_block resolve to a wrong id, refuted (computed witness) for a reader that keeps the old trigger '
            'library; storing by the id register_* returned equals storing by value, an id from another Sequence is '
            'refuted. '
            'Random label programs (all 21 labels, SET/INC, negative/zero/boolean values, several labels and '
            'triggers/outputs per block, shared/subset/reordered extension sets, mixed with RF/gradient/ADC events) '
            'run on the implementation and on the extracted model: store after every add_block, chains, get_block '
            'label/trigger order, evaluate_labels for four modes and random init; an independent interpreter and the '
            'added multisets are the oracle, also after write + read into a fresh Sequence.',
    'note': 'Trusted: Coq kernel; translator patterns; extraction + OCaml driver; np.argsort tie order is supplied by '
            'the harness and validated by the model; file parsing itself is outside the model (post-read store is '
            'loaded from the implementation, the oracle compares content through the file). evaluate_labels is '
            'compared with the property interpreter only for programs with at most one operation per label and block '
            '(as the property states); programs with several are compared with the model only. Finding C19/int32-*: '
            'the reader stores label values as np.int32, so a written value >= 2**31 makes read() raise and INC sums '
            'wrap after a reload (repair: int64 in read_seq.__read_and_parse_events).',
    'technique': 'Rocq/Coq proof (store invariant over operation histories, list induction, permutation) + '
                 'extraction-based differential testing with an independent interpreter as oracle',
}
BUDGET = {'quick': 75, 'thorough': 900}
MISMATCH_BUDGET = 0.0
ESCALATE_BUDGET = 60
SEARCH_BUDGET = 90
RULE = ('label programs of 1-14 blocks over a per-program subset of the supported labels; each block carries 0-5 '
        'label operations (SET/INC; values small, large, zero, negative, booleans for flag labels), 0-3 '
        'triggers/digital outputs from a recurring pool, a delay and optionally ADC / trapezoid / RF; blocks repeat, '
        'subset or reorder earlier extension sets with probability ~0.45; ~25% of the programs contain blocks with '
        'several operations on one label (storage oracle + model only). Oracle: get_block label and trigger '
        'multisets == what was added; chains have next < id; evaluate_labels (none/adc/label/blocks x init '
        'None/{}/random) == independent per-label interpreter; all again after write+read into a fresh Sequence. '
        'Model: full store after every add_block, decoded chains, label/trigger order, evaluate_labels. '
        'A continue stream writes + reads programs whose first use of INC / SET / trigger comes in every order and only '
        'partly before the reload, then adds blocks with the missing and the present kinds to the RE-READ object, '
        're-checks everything and writes/reads once more; the Coq file model (write_ext/read_ext) is compared with the '
        'store the implementation has after read(). A pure stream compares the Coq evaluate_labels, the Coq interpreter and the Python oracle on label programs '
        'directly. distinct = distinct programs; non-trivial = program has labels in >= 2 blocks and a shared or '
        'multi-entry extension list')
TRUSTED = ['np.argsort tie order among equal reference ids is taken from NumPy (hint validated by the model)',
           'read(): the post-read store is taken from the implementation (Load); the oracle compares content '
           'through the file independently of the model',
           'numeric extraction inside register_rf/grad_event is taken from the implementation (opaque rows)']
ASSUMPTIONS = ['random label values stay within int32; values and running sums beyond int32 are exercised by the dedicated '
               'int32 stream only (signature C19/int32-*); trigger delay/duration are multiples of 1 us (file '
               'resolution) and shorter than the block',
               'evaluate_labels oracle only for at most one operation per label and block (property text)']

MODES = ['none', 'adc', 'label', 'blocks']
FLAGS = ['NAV', 'REV', 'SMS', 'REF', 'IMA', 'NOISE', 'PMC', 'NOROT', 'NOPOS', 'NOSCL', 'ONCE']
OUT_CH = ['osc0', 'osc1', 'ext1']
TRIG_CH = ['physio1', 'physio2']
BLOCK_DUR = 10e-3


def labels():
    return sm.labels()


# ---- case generation (pure data, JSON-able) ---------------------------------------------------------
def gen_value(rng, lab):
    r = rng.random()
    if lab in FLAGS and r < 0.35:
        return rng.choice([True, False])
    if r < 0.45:
        return rng.randint(-4, 4)
    if r < 0.55:
        return 0
    if r < 0.8:
        return rng.randint(-300, 300)
    if r < 0.95:
        return rng.randint(-10 ** 6, 10 ** 6)
    return rng.choice([2 ** 20, -2 ** 20, 65535, -65536, 10 ** 7, -10 ** 7])


def gen_trig(rng):
    if rng.random() < 0.5:
        typ, ch = 'trigger', rng.choice(TRIG_CH)
    else:
        typ, ch = 'output', rng.choice(OUT_CH)
    delay = rng.choice([0, 0, 10, 100, rng.randint(0, 3000), rng.randint(0, 3000)])
    dur = rng.choice([1, 5, 10, 11, 100, 200, rng.randint(1, 4000), rng.randint(1, 4000)])
    r = rng.random()
    if r < 0.12:       # seconds with microsecond steps: everything the integer-microsecond columns carry
        delay = rng.choice([rng.randint(10 ** 6, 9 * 10 ** 6), 2000013, 1000001, rng.randint(10 ** 5, 10 ** 6)])
    elif r < 0.24:
        dur = rng.choice([rng.randint(10 ** 6, 9 * 10 ** 6), 2000013, 3999999, rng.randint(10 ** 5, 10 ** 6)])
    elif r < 0.28:
        delay, dur = rng.randint(10 ** 6, 5 * 10 ** 6), rng.randint(10 ** 6, 5 * 10 ** 6)
    return [typ, ch, delay, dur]


def gen_extra(rng):
    ex = []
    if rng.random() < 0.45:
        ex.append(['adc', rng.choice([16, 32, 64]), rng.choice([1e-5, 2e-5]), rng.choice([0, 1e-4, 2e-5])])
    if rng.random() < 0.3:
        ex.append(['trap', rng.choice('xyz'), rng.choice([1e5, -1e5, 2.5e5, 5e4]), rng.choice([1e-4, 2e-4]),
                   rng.choice([0, 5e-4, 1e-3]), rng.choice([1e-4, 2e-4]), rng.choice([0, 1e-4])])
    if rng.random() < 0.08:
        ex.append(['rf', rng.choice([0.5, 1.0, 1.5]), rng.choice([1e-4, 2e-4, 1e-3]), rng.choice([0, 1e-4])])
    return ex


def gen_program(rng, tier, multi=False):
    nb = rng.randint(1, 14 if tier == 'quick' else 30)
    labs = rng.sample(labels(), rng.randint(1, 7))
    tpool = [gen_trig(rng) for _ in range(rng.randint(1, 4))]
    blocks = []
    for b in range(nb):
        r = rng.random()
        prev = [x for x in blocks if x['ops'] or x['trigs']]
        if prev and r < 0.15:
            src = rng.choice(prev)                      # same extension set, same order
            ops, trigs = copy.deepcopy(src['ops']), copy.deepcopy(src['trigs'])
        elif prev and r < 0.30:
            src = rng.choice(prev)                      # same set, other order of addition
            ops, trigs = copy.deepcopy(src['ops']), copy.deepcopy(src['trigs'])
            rng.shuffle(ops)
            rng.shuffle(trigs)
        elif prev and r < 0.45:
            src = rng.choice(prev)                      # subset
            ops = [o for o in copy.deepcopy(src['ops']) if rng.random() < 0.6]
            trigs = [t for t in copy.deepcopy(src['trigs']) if rng.random() < 0.6]
        else:
            k = rng.choice([0, 1, 1, 2, 2, 3, 4, 5])
            chosen = rng.sample(labs, min(k, len(labs)))
            ops = [[rng.choice(['SET', 'INC']), lab, gen_value(rng, lab)] for lab in chosen]
            if multi and rng.random() < 0.5 and ops:
                for _ in range(rng.randint(1, 3)):
                    lab = rng.choice(ops)[1]
                    ops.append([rng.choice(['SET', 'INC']), lab, gen_value(rng, lab)])
                rng.shuffle(ops)
            nt = rng.choice([0, 0, 0, 1, 1, 2, 3])
            trigs = [copy.deepcopy(rng.choice(tpool)) if rng.random() < 0.8 else gen_trig(rng) for _ in range(nt)]
            # one id may occur once per block only as DIFFERENT events; equal events twice are legal too
        blocks.append({'ops': ops, 'trigs': trigs, 'extra': gen_extra(rng), 'order': rng.random()})
    ninit = rng.choice([0, 1, 2, 3])
    init_labs = rng.sample(labels(), ninit)
    if labs and ninit and rng.random() < 0.7:
        init_labs[0] = rng.choice(labs)
    init = [[l, rng.choice([0, 1, -1, rng.randint(-50, 50), rng.randint(-10 ** 5, 10 ** 5)])] for l in dict.fromkeys(init_labs)]
    return {'stream': 'multi' if multi else 'prog', 'blocks': blocks, 'init': init, 'dedup': rng.random() < 0.25}


def gen_continue(rng, tier):
    """programs whose FIRST use of the three extension kinds (INC, SET, trigger/output) comes in every order and
    only partly before a write + read; blocks added to the re-read object then introduce the missing kinds"""
    kinds = ['INC', 'SET', 'TRG']
    rng.shuffle(kinds)
    n_pre = rng.choice([1, 1, 2, 2, 2, 3])
    labs = rng.sample(labels(), rng.randint(1, 5))
    tpool = [gen_trig(rng) for _ in range(rng.randint(1, 3))]

    def block(allowed, must=None):
        ops, trigs = [], []
        use = [k for k in allowed if rng.random() < 0.6]
        if must is not None and must not in use:
            use.append(must)
        chosen = rng.sample(labs, min(len(labs), rng.randint(1, 3)))
        for lab in chosen:
            ks = [k for k in use if k != 'TRG']
            if ks:
                ops.append([rng.choice(ks), lab, gen_value(rng, lab)])
        if must in ('INC', 'SET') and not any(o[0] == must for o in ops):
            ops = [o for o in ops if o[1] != chosen[0]] + [[must, chosen[0], gen_value(rng, chosen[0])]]
        if 'TRG' in use:
            trigs = [copy.deepcopy(rng.choice(tpool)) for _ in range(rng.choice([1, 1, 2]))]
        return {'ops': ops, 'trigs': trigs, 'extra': gen_extra(rng), 'order': rng.random()}

    pre = []
    for j in range(n_pre):
        pre.append(block(kinds[:j + 1], must=kinds[j]))          # kind j is first used in block j
        for _ in range(rng.choice([0, 0, 1, 2])):
            pre.append(block(kinds[:j + 1]))
    post = []
    for j in range(n_pre, 3):
        post.append(block(kinds[:j + 1] if rng.random() < 0.5 else [kinds[j]], must=kinds[j]))   # a kind new to the file
        for _ in range(rng.choice([0, 1])):
            post.append(block(kinds[:j + 1]))
    for _ in range(rng.choice([1, 1, 2, 3])):
        post.append(block(kinds))
    ninit = rng.choice([0, 1, 2])
    init = [[l, rng.randint(-50, 50)] for l in dict.fromkeys(rng.sample(labs + labels()[:3], ninit))]
    return {'stream': 'continue', 'blocks': pre, 'post': post, 'init': init, 'first_use': kinds, 'kinds_before_reload': n_pre}


def gen_reuse(rng, tier):
    """ONE Sequence object: blocks A, then read() of a DIFFERENT file (other triggers / labels under the same
    library ids, or no extension at all, or only some kinds), optionally a second read(), then blocks equal to the
    pre-read ones and new ones"""
    labs = rng.sample(labels(), rng.randint(2, 5))
    tpool = [gen_trig(rng) for _ in range(rng.randint(2, 4))]

    def block(kinds):
        ops, trigs = [], []
        if 'LAB' in kinds:
            for lab in rng.sample(labs, min(len(labs), rng.randint(1, 3))):
                ops.append([rng.choice(['SET', 'INC']), lab, gen_value(rng, lab)])
        if 'TRG' in kinds:
            trigs = [copy.deepcopy(rng.choice(tpool)) for _ in range(rng.choice([1, 1, 2]))]
        return {'ops': ops, 'trigs': trigs, 'extra': gen_extra(rng), 'order': rng.random()}

    def program(kinds_choices, n):
        return [block(rng.choice(kinds_choices)) for _ in range(n)]

    pre = program([['LAB', 'TRG'], ['TRG'], ['LAB', 'TRG'], ['LAB']], rng.randint(1, 4))
    if not any(b['trigs'] for b in pre):
        pre.append(block(['TRG']))
    files = []
    for _ in range(rng.choice([1, 1, 1, 2])):
        flavour = rng.choice(['other', 'other', 'none', 'labels-only', 'triggers-only'])
        kc = {'other': [['LAB', 'TRG'], ['TRG'], ['LAB']], 'none': [[]], 'labels-only': [['LAB']],
              'triggers-only': [['TRG']]}[flavour]
        prog = program(kc, rng.randint(1, 4))
        if flavour in ('other', 'triggers-only'):
            # other events under the ids the object already uses: a pool the object has not seen, used first
            other = [gen_trig(rng) for _ in range(2)]
            prog.insert(0, {'ops': [], 'trigs': other, 'extra': [], 'order': 0.0})
        files.append({'flavour': flavour, 'blocks': prog})
    post = []
    for b in rng.sample(pre, min(len(pre), rng.randint(1, 3))):
        post.append(copy.deepcopy(b))                       # events equal to the pre-read ones
    post += program([['LAB', 'TRG'], ['TRG'], ['LAB']], rng.randint(1, 3))
    rng.shuffle(post)
    init = [[l, rng.randint(-50, 50)] for l in dict.fromkeys(rng.sample(labs, rng.choice([0, 1, 2])))]
    for f in files:
        f['opts'] = [rng.random() < 0.5, rng.random() < 0.3]      # remove_duplicates, detect_rf_use
    return {'stream': 'reuse', 'blocks': pre, 'files': files, 'post': post, 'init': init, 'cache': rng.random() < 0.7}


def run_reuse(ctx, case, pending):
    """object history: add_block*, read(other file) (+ read again), add_block*, write/read"""
    import pypulseq as pp
    cache = case.get('cache', True)
    s = Single(pp.Opts(), cache=cache)
    expect = []
    for spec in case['blocks']:
        evs = build_block(spec)
        rec = s.add(evs)
        if rec['outcome'][0] != 'ok':
            ctx.fail('C19/add_block-raises', case, {'block': len(expect) + 1, 'error': rec['outcome'][1]})
            return
        expect.append(added_multisets(evs))
    for i in list(s.on.block_events.keys()):
        s.get(i)
    ok = check_sequence(ctx, dict(case, post=[]), s.on, expect, 'stored')      # (this also warms the block cache)
    for f in case['files']:
        rdup, drf = f.get('opts', [True, False])
        sb = Single(pp.Opts())
        expect = []
        for spec in f['blocks']:
            evs = build_block(spec)
            rec = sb.add(evs)
            if rec['outcome'][0] != 'ok':
                ctx.fail('C19/add_block-raises', case, {'file-block': len(expect) + 1, 'error': rec['outcome'][1]})
                return
            expect.append(added_multisets(evs))
        ops_before = list(s.ops)
        with tempfile.TemporaryDirectory(prefix='pvC19') as d:
            fn = os.path.join(d, 'o.seq')
            try:
                sb.on.write(fn, create_signature=False)
                s.on.read(fn, detect_rf_use=drf, remove_duplicates=rdup)
                fresh = pp.Sequence(pp.Opts(), use_block_cache=cache)
                fresh.read(fn, detect_rf_use=drf, remove_duplicates=rdup)
            except Exception as e:  # noqa: BLE001
                ctx.fail('C19/reuse-read-raises', case, {'exception': repr(e)[:300], 'flavour': f['flavour']})
                return
        # the used object must be indistinguishable from a fresh one that read the same file with the same options
        dif = None
        if list(s.on.block_events.keys()) != list(fresh.block_events.keys()):
            dif = 'block ids %s vs fresh %s' % (list(s.on.block_events.keys()), list(fresh.block_events.keys()))
        else:
            for i in fresh.block_events:
                try:
                    a, b = sm.canon_block(s.on.get_block(i)), sm.canon_block(fresh.get_block(i))
                except Exception as e:  # noqa: BLE001
                    dif = 'get_block(%d) raises %r' % (i, e)
                    break
                if not H.deep_equal(a, b):
                    dif = 'get_block(%d): %s' % (i, H.first_diff(a, b))
                    break
            if dif is None:
                for mode in MODES:
                    if canon_result(s.on.evaluate_labels(evolution=mode)) != canon_result(fresh.evaluate_labels(evolution=mode)):
                        dif = 'evaluate_labels(%s) differs' % mode
                        break
        if dif:
            ctx.fail('C19/reuse-read-differs-from-fresh', case, {'what': dif, 'remove_duplicates': rdup, 'detect_rf_use': drf,
                                                                 'use_block_cache': cache})
            ok = False
        rec = s.loaded()
        ctx.count('reuse.read.' + f['flavour'])
        ctx.count('reuse.read.opts.dedup=%s,rf_use=%s,cache=%s' % (rdup, drf, cache))
        if ctx.model_available:
            pending.append((case, (s.header, ops_before, list(sb.ops)), rec['state'], 'readonto'))
        for i in list(s.on.block_events.keys()):
            s.get(i)
        fcase = dict(case, blocks=f['blocks'], post=[])
        if not check_sequence(ctx, fcase, s.on, expect, 'reuse-read'):
            ok = False
    expect2 = list(expect)
    for spec in case['post']:
        evs = build_block(spec)
        rec = s.add(evs)
        if rec['outcome'][0] != 'ok':
            ctx.fail('C19/reuse-add_block-raises', case, {'block': len(expect2) + 1, 'error': rec['outcome'][1]})
            return
        expect2.append(added_multisets(evs))
    for i in list(s.on.block_events.keys()):
        s.get(i)
    ecase = dict(case, blocks=case['files'][-1]['blocks'])
    ok = check_sequence(ctx, ecase, s.on, expect2, 'reuse-extended') and ok
    if ctx.model_available and not s.partial_cache:
        pending.append((case, s, case['init'], 'reuse'))
    s3 = None
    with tempfile.TemporaryDirectory(prefix='pvC19') as d:
        fn = os.path.join(d, 'p.seq')
        try:
            s.on.write(fn, create_signature=False)
            s3 = pp.Sequence(pp.Opts())
            s3.read(fn)
        except Exception as e:  # noqa: BLE001
            ctx.fail('C19/reuse-write-read-raises', case, {'exception': repr(e)[:300]})
            s3 = None
    if s3 is not None:
        r3 = Single(seq=s3)
        r3.loaded()
        for i in list(s3.block_events.keys()):
            r3.get(i)
        check_sequence(ctx, ecase, s3, expect2, 'reuse-extended-reread')
        if ctx.model_available:
            pending.append((case, r3, case['init'], 'reuse-reread'))
    ctx.evaluated(('reuse', repr(case['blocks']), repr(case['files']), repr(case['post'])), nontrivial=True)
    ctx.count('stream.reuse')
    ctx.count('blocks.added_after_reuse_read', len(case['post']))


def gen_twoseq(rng, tier):
    """two Sequence objects in one process.  The first registers some label / trigger events ONCE
    (`ev.id = seq.register_label_event(ev)`) and adds them to many blocks by id; the caller may also change an event it
    owns after using it.  The second is built the plain way from constructor calls with the SAME arguments."""
    labs = rng.sample(labels(), rng.randint(2, 5))
    reg_ops = []
    for lab in rng.sample(labs, rng.randint(1, len(labs))):
        reg_ops.append([rng.choice(['SET', 'INC']), lab, gen_value(rng, lab)])
    reg_trigs = [gen_trig(rng) for _ in range(rng.choice([0, 1, 1, 2]))]
    seq1 = []
    for _ in range(rng.randint(2, 5)):
        own = []
        free = [l for l in labels() if l not in [o[1] for o in reg_ops]]
        for lab in rng.sample(free, rng.choice([0, 1, 2])):
            own.append([rng.choice(['SET', 'INC']), lab, gen_value(rng, lab)])
        seq1.append({'ops': own, 'trigs': [], 'extra': gen_extra(rng), 'order': rng.random(),
                     'reg_ops': sorted(rng.sample(range(len(reg_ops)), rng.randint(0, len(reg_ops)))),
                     'reg_trigs': sorted(rng.sample(range(len(reg_trigs)), rng.randint(0, len(reg_trigs))))})
    if not any(b['reg_ops'] for b in seq1):
        seq1[-1]['reg_ops'] = [0]
    mutate = rng.choice(['none', 'none', 'value', 'label', 'timing'])
    # second sequence: a few unrelated labels / triggers first (so that library ids differ from the first
    # sequence), then blocks built from the same constructor arguments as the registered events
    blocks = []
    others = [l for l in labels() if l not in [o[1] for o in reg_ops]]
    for _ in range(rng.randint(1, 3)):
        ops = [[rng.choice(['SET', 'INC']), lab, gen_value(rng, lab)] for lab in rng.sample(others, rng.randint(1, 3))]
        blocks.append({'ops': ops, 'trigs': [gen_trig(rng) for _ in range(rng.choice([0, 1]))], 'extra': gen_extra(rng),
                       'order': rng.random()})
    for _ in range(rng.randint(2, 4)):
        ops = [copy.deepcopy(reg_ops[i]) for i in rng.sample(range(len(reg_ops)), rng.randint(1, len(reg_ops)))]
        trigs = [copy.deepcopy(t) for t in reg_trigs if rng.random() < 0.7]
        for lab in rng.sample(others, rng.choice([0, 1])):
            ops.append([rng.choice(['SET', 'INC']), lab, gen_value(rng, lab)])
        blocks.append({'ops': ops, 'trigs': trigs, 'extra': gen_extra(rng), 'order': rng.random()})
    init = [[l, rng.randint(-50, 50)] for l in dict.fromkeys(rng.sample(labs, rng.choice([0, 1])))]
    return {'stream': 'twoseq', 'reg_ops': reg_ops, 'reg_trigs': reg_trigs, 'seq1': seq1, 'mutate': mutate,
            'blocks': blocks, 'init': init, 'spec_expect': True}


def constructor_of(kind):
    import pypulseq as pp
    return {'trigger': pp.make_trigger, 'output': pp.make_digital_output_pulse}[kind]


def fresh_event_problem(ev, want, what):
    """a newly constructed event must carry exactly what its arguments say and nothing else (no id of an earlier use)"""
    if hasattr(ev, 'id'):
        return '%s returned an event that already carries id=%r' % (what, ev.id)
    got = {k: (float(v) if isinstance(v, float) else v) for k, v in vars(ev).items()}
    for k, v in want.items():
        g = got.get(k)
        if isinstance(v, float):
            if g is None or not close(float(g), v):
                return '%s: %s = %r, arguments say %r' % (what, k, g, v)
        elif g != v:
            return '%s: %s = %r, arguments say %r' % (what, k, g, v)
    return None


def run_twoseq(ctx, case, pending):
    import importlib
    import pypulseq as pp
    blk = importlib.import_module('pypulseq.Sequence.block')
    seq1 = pp.Sequence(pp.Opts())
    # events the first sequence registers once and re-uses by id
    reg_l, reg_t = [], []
    for o in case['reg_ops']:
        ev = pp.make_label(o[1], o[0], o[2])
        ev.id = seq1.register_label_event(ev)
        reg_l.append(ev)
    for t in case['reg_trigs']:
        ev = constructor_of(t[0])(t[1], delay=t[2] * 1e-6, duration=t[3] * 1e-6)
        ev.id = blk.register_control_event(seq1, ev)
        reg_t.append(ev)
    expect1 = []
    for spec in case['seq1']:
        evs = build_block(dict(spec, trigs=[]))
        evs += [reg_l[i] for i in spec['reg_ops']] + [reg_t[i] for i in spec['reg_trigs']]
        try:
            seq1.add_block(*evs)
        except Exception as e:  # noqa: BLE001
            ctx.fail('C19/twoseq-add_block-raises', case, {'sequence': 1, 'exception': repr(e)[:200]})
            return
        full = dict(spec, ops=spec['ops'] + [case['reg_ops'][i] for i in spec['reg_ops']],
                    trigs=[case['reg_trigs'][i] for i in spec['reg_trigs']])
        expect1.append(spec_multisets(full))
    ops1 = [b['ops'] + [case['reg_ops'][i] for i in b['reg_ops']] for b in case['seq1']]
    c1 = dict(case, _oneop=all(len({o[1] for o in ops}) == len(ops) for ops in ops1))
    check_sequence(ctx, c1, seq1, expect1, 'first')
    # the caller changes events it owns after they have been stored (the store keeps its own copy)
    if case['mutate'] == 'value':
        for ev in reg_l:
            ev.value = int(ev.value) + 7
    elif case['mutate'] == 'label':
        for ev in reg_l:
            ev.label = labels()[(labels().index(ev.label) + 3) % len(labels())]
    elif case['mutate'] == 'timing':
        for ev in reg_t:
            ev.delay, ev.duration = ev.duration + 1e-4, ev.delay + 3e-4
    if case['mutate'] != 'none':
        check_sequence(ctx, c1, seq1, expect1, 'first-after-caller-change')
    # constructors called again with the same arguments: fresh, independent events
    for o in case['reg_ops']:
        a, b = pp.make_label(o[1], o[0], o[2]), pp.make_label(o[1], o[0], o[2])
        pr = fresh_event_problem(b, {'type': 'labelset' if o[0] == 'SET' else 'labelinc', 'label': o[1], 'value': int(o[2])},
                                 'make_label(%r, %r, %r)' % (o[1], o[0], o[2]))
        if pr is None and a is b:
            pr = 'make_label(%r, %r, %r) returned the same object twice' % (o[1], o[0], o[2])
        if pr:
            ctx.fail('C19/constructor-leaks-state', case, {'what': pr})
            break
    for t in case['reg_trigs']:
        f = constructor_of(t[0])
        a, b = f(t[1], delay=t[2] * 1e-6, duration=t[3] * 1e-6), f(t[1], delay=t[2] * 1e-6, duration=t[3] * 1e-6)
        dur = t[3] * 1e-6
        pr = fresh_event_problem(b, {'type': t[0], 'channel': t[1], 'delay': t[2] * 1e-6, 'duration': 1e-5 if dur <= 1e-5 else dur},
                                 '%s(%r, delay=%r us, duration=%r us)' % (f.__name__, t[1], t[2], t[3]))
        if pr is None and a is b:
            pr = '%s returned the same object twice' % f.__name__
        if pr:
            ctx.fail('C19/constructor-leaks-state', case, {'what': pr})
            break
    ctx.count('twoseq.caller_change.' + case['mutate'])
    # the second sequence, the plain way, through the whole pipeline (expectation from the arguments)
    run_program(ctx, case, pending)


def one_op(case):
    if '_oneop' in case:
        return case['_oneop']
    return all(len({o[1] for o in b['ops']}) == len(b['ops']) for b in case['blocks'] + case.get('post', []))


# ---- building real events ----------------------------------------------------------------------------
def build_block(spec):
    import pypulseq as pp
    need = max([0.0] + [(t[2] + t[3]) * 1e-6 for t in spec['trigs']])
    # the block must outlast its triggers and stay on the 10 us block raster
    evs = [pp.make_delay(BLOCK_DUR if need < BLOCK_DUR else (int(need / 1e-2) + 2) * 1e-2)]
    for o in spec['ops']:
        evs.append(pp.make_label(o[1], o[0], o[2]))
    for t in spec['trigs']:
        f = pp.make_trigger if t[0] == 'trigger' else pp.make_digital_output_pulse
        evs.append(f(t[1], delay=t[2] * 1e-6, duration=t[3] * 1e-6))
    for e in spec['extra']:
        if e[0] == 'adc':
            evs.append(pp.make_adc(e[1], dwell=e[2], delay=e[3]))
        elif e[0] == 'trap':
            evs.append(pp.make_trapezoid(e[1], amplitude=e[2], rise_time=e[3], flat_time=e[4], fall_time=e[5], delay=e[6]))
        elif e[0] == 'rf':
            evs.append(pp.make_block_pulse(e[1], duration=e[2], delay=e[3]))
    # deterministic interleaving of the argument order (block_to_events keeps it)
    k = int(spec['order'] * 1000)
    if len(evs) > 1:
        k %= len(evs)
        evs = evs[k:] + evs[:k]
        if int(spec['order'] * 7919) % 2:
            evs.reverse()
    return evs


def added_multisets(evs):
    labs = sorted((e.type, e.label, int(e.value)) for e in evs if getattr(e, 'type', '') in ('labelset', 'labelinc'))
    trigs = sorted((e.type, e.channel, float(e.delay), float(e.duration)) for e in evs
                   if getattr(e, 'type', '') in ('output', 'trigger'))
    has_adc = any(getattr(e, 'type', '') == 'adc' for e in evs)
    return labs, trigs, has_adc


def spec_multisets(spec):
    """what a block specification asks for, computed from the ARGUMENTS handed to the constructors (not from the
    event objects they return): labels (type, name, int(value)), triggers (type, channel, delay, duration raised to
    one gradient raster as make_trigger / make_digital_output_pulse document), ADC presence"""
    raster = 1e-5
    labs = sorted(('labelset' if o[0] == 'SET' else 'labelinc', o[1], int(o[2])) for o in spec['ops'])
    trigs = []
    for t in spec['trigs']:
        dur = t[3] * 1e-6
        trigs.append((t[0], t[1], t[2] * 1e-6, raster if dur <= raster else dur))
    return labs, sorted(trigs), any(e[0] == 'adc' for e in spec['extra'])


# ---- the oracle: label semantics written from the property text ---------------------------------------
def oracle_eval(blocks, init, mode):
    """blocks: [(ops, has_adc)], ops = [(type, label, value)] with at most one entry per label.
    Returns ({label: [values]}, is_array).  Label by label: SET assigns, INC adds, unset labels start at 0 or
    at init; one row per block ('blocks'), per block with an ADC ('adc'), per block with labels ('label')."""
    touched = []
    for ops, _ in blocks:
        for _, lab, _ in ops:
            if lab not in touched:
                touched.append(lab)
    keys = list(dict.fromkeys(list((init or {}).keys()) + touched))
    n_rows = sum(1 for ops, adc in blocks if mode == 'blocks' or (mode == 'adc' and adc) or (mode == 'label' and ops))
    res = {}
    for lab in keys:
        v = (init or {}).get(lab, None)
        rows = []
        for ops, adc in blocks:
            mine = [o for o in ops if o[1] == lab]
            assert len(mine) <= 1
            if mine:
                typ, _, val = mine[0]
                v = val if typ == 'labelset' else (0 if v is None else v) + val
            if mode == 'blocks' or (mode == 'adc' and adc) or (mode == 'label' and ops):
                rows.append(0 if v is None else v)
        assert v is not None
        res[lab] = rows if n_rows else [v]
    return res, n_rows > 0


def canon_result(r):
    """evaluate_labels result -> ({label: [ints]}, is_array, key order)"""
    out = {}
    arr = None
    for k, v in r.items():
        if isinstance(v, np.ndarray):
            out[k] = [int(x) for x in v.tolist()]
            a = True
        else:
            out[k] = [int(v)]
            a = False
        if arr is None:
            arr = a
        elif arr != a:
            arr = 'mixed'
    return out, bool(arr) if arr != 'mixed' else 'mixed', list(r.keys())


def chain_problems(seq):
    lib = seq.extensions_library.data
    for k, v in lib.items():
        nxt = int(v[2])
        if not (0 <= nxt < int(k)):
            return 'extension %d has next %d (not smaller)' % (k, nxt)
        if nxt != 0 and nxt not in lib:
            return 'extension %d points to missing id %d' % (k, nxt)
    return None


def close(a, b):
    return abs(a - b) <= 1e-9 * max(abs(a), abs(b)) + 1e-12


def check_sequence(ctx, case, seq, expect, tag):
    """storage + evaluation oracle on one Sequence object (expect: per block (labels, trigs, adc))"""
    ok = True
    if case.get('stream') == 'int32':
        tag = 'int32-' + tag
    ids = list(seq.block_events.keys())
    if len(ids) != len(expect):
        ctx.fail('C19/%s-block-count' % tag, case, {'blocks': len(ids), 'expected': len(expect)})
        return False
    for i, (labs, trigs, adc) in zip(ids, expect):
        try:
            b = seq.get_block(i)
        except Exception as e:  # noqa: BLE001
            ctx.fail('C19/%s-get_block-raises' % tag, case, {'block': i, 'exception': repr(e)[:200]})
            return False
        got_l = sorted((l.type, l.label, int(l.value)) for l in (getattr(b, 'label', None) or {}).values())
        if got_l != labs:
            ctx.fail('C19/%s-labels' % tag, case, {'block': i, 'got': got_l, 'added': labs})
            ok = False
        got_t = sorted((t.type, t.channel, float(t.delay), float(t.duration)) for t in getattr(b, 'trigger', {}).values())
        if len(got_t) != len(trigs) or any(a[:2] != w[:2] or not close(a[2], w[2]) or not close(a[3], w[3])
                                           for a, w in zip(got_t, trigs)):
            ctx.fail('C19/%s-triggers' % tag, case, {'block': i, 'got': got_t, 'added': trigs})
            ok = False
    cp = chain_problems(seq)
    if cp:
        # an internal invariant (theorem C19_ext_inv_histories), not part of the property text: reported as a
        # disagreement with the model, not as a violation of the property
        ctx.mismatch('chain-invariant', case, {'what': cp, 'where': tag})
    if not ok or not one_op(case):
        return ok
    prog = [(labs, adc) for labs, _, adc in expect]
    inits = [None, {}, dict((l, v) for l, v in case['init'])]
    for mode in MODES:
        for init in inits:
            try:
                r = seq.evaluate_labels(init=copy.deepcopy(init), evolution=mode)
            except Exception as e:  # noqa: BLE001
                ctx.fail('C19/%s-evaluate-raises' % tag, case, {'mode': mode, 'init': init, 'exception': repr(e)[:200]})
                return False
            got, arr, _ = canon_result(r)
            want, warr = oracle_eval(prog, init, mode)
            if not warr and mode != 'none' and got and arr is True and all(v == [] for v in got.values()) \
                    and set(got) == set(want):
                continue     # no block qualified: empty evolutions are as acceptable as the final scalars
            if got != want or (got and arr != warr):
                ctx.fail('C19/%s-evaluate-%s' % (tag, mode), case,
                         {'mode': mode, 'init': init, 'got': got, 'expected': want, 'array': arr, 'expected_array': warr})
                return False
    return ok


# ---- implementation driver with the model line ---------------------------------------------------------
class Single:
    """one Sequence + the token line of its history for the model (same record layout as histories.Twin)"""

    def __init__(self, system=None, seq=None, cache=True):
        import pypulseq as pp
        import translate
        if 'align_check_uses_abs' not in translate.CONSTS:
            try:
                translate.sec_block()
            except Exception:  # noqa: BLE001
                pass
        self.abs_fix = translate.CONSTS.get('align_check_uses_abs', True)
        self.on = seq if seq is not None else pp.Sequence(system or pp.Opts(), use_block_cache=cache)
        self.header = sm.header_tokens(self.on, bool(self.on.use_block_cache), self.abs_fix)
        self.ops, self.records = [], []
        self.partial_cache = False

    def _rec(self, kind, tok, f, extra=None):
        try:
            out = ('ok', f())
        except Exception as e:  # noqa: BLE001
            out = ('err', sm.classify_exc(e))
        rec = {'kind': kind, 'outcome': out, 'state': sm.state_dump(self.on)}
        rec.update(extra or {})
        self.ops.append(tok)
        self.records.append(rec)
        return rec

    def add(self, evs):
        tok = 'add ' + sm.encode_events(self.on, evs)
        run = lambda: self.on.add_block(*[copy.deepcopy(e) for e in evs])
        try:
            out = ('ok', run())
        except Exception as e:  # noqa: BLE001
            out = ('err', sm.classify_exc(e))
        tok += ' ' + H.Twin._hint(self, evs)
        rec = {'kind': 'add', 'outcome': out, 'state': sm.state_dump(self.on)}
        self.ops.append(tok)
        self.records.append(rec)
        return rec

    def get(self, i):
        return self._rec('get', 'get ' + ztok(i), lambda: self.on.get_block(i), {'index': i})

    def loaded(self):
        """record the current store as the result of a read() (model: Load).  read(remove_duplicates=False) leaves
        every block it decoded for its first/last scan in the cache: that is recorded as Load followed by the
        model's TouchAll (get_block of every block); a partly filled cache cannot be expressed and disables the
        model comparison of this history (self.partial_cache)"""
        st = sm.state_dump(self.on)
        ids = [i for i, _ in st['blocks']]
        tok = 'load ' + sm.core_tokens(self.on)
        if st['cache'] and sorted(st['cache']) == sorted(ids):
            self.ops.append(tok)
            self.records.append({'kind': 'read', 'outcome': ('ok', None), 'state': dict(st, cache=[])})
            self.ops.append('touch')
            rec = {'kind': 'write', 'outcome': ('ok', None), 'state': st}
            self.records.append(rec)
            return rec
        if st['cache']:
            self.partial_cache = True
        return self._rec('read', tok, lambda: None)

    def dedup_in_place(self):
        return self._rec('dedupip', 'dedupip', lambda: self.on.remove_duplicates(in_place=True) and None)

    def line(self, init):
        env = ' '.join([str(len(init))] + ['%s %s' % (ztok(labels().index(l) + 1), ztok(int(v))) for l, v in init])
        return 'labels.store ' + self.header + ' ' + ' '.join([str(len(self.ops))] + self.ops) + ' ' + env


def parse_store(out):
    parts = out.split(' @ ')
    if len(parts) != 3:
        raise ValueError('labels.store output has %d parts: %s' % (len(parts), out[:200]))
    t = Toks(parts[1])
    blocks = []

    def walk():
        tag = t.next()
        return ('ok', t.list(t.z)) if tag == 'ok' else (tag, None)

    def one():
        i, eid = t.z(), t.z()
        w = walk()
        lst = t.opt(lambda: t.list(lambda: (t.z(), t.z())))
        dec = t.opt(lambda: (t.list(lambda: (t.bool(), t.z(), t.z())), t.list(lambda: t.list(t.qf))))
        return {'id': i, 'eid': eid, 'walk': w, 'list': lst, 'dec': dec}
    blocks = t.list(one)
    t = Toks(parts[2])
    evals = []
    for _ in range(4):
        evals.append(t.opt(lambda: (t.bool(), t.list(lambda: (t.z(), t.list(t.z))))))
    return parts[0], blocks, evals


def compare_store(ctx, case, single, init, out, stream):
    try:
        runpart, mblocks, mevals = parse_store(out)
    except Exception as e:  # noqa: BLE001
        ctx.mismatch(stream, case, {'what': 'cannot parse model output: %r / %s' % (e, out[:300])})
        return
    diffs = H.compare_with_model(SimpleNamespace(records=single.records, on=single.on), runpart)
    for d in diffs:
        ctx.mismatch(stream, case, d)
        return
    seq = single.on
    lib = seq.extensions_library.data
    ids = list(seq.block_events.keys())
    if [b['id'] for b in mblocks] != ids:
        ctx.mismatch(stream, case, {'what': 'block ids', 'model': [b['id'] for b in mblocks], 'impl': ids})
        return
    for mb in mblocks:
        i = mb['id']
        eid = int(seq.block_events[i][6])
        chain, lst, cur = [], [], eid
        while cur != 0 and len(chain) <= len(lib):
            chain.append(cur)
            lst.append((int(lib[cur][0]), int(lib[cur][1])))
            cur = int(lib[cur][2])
        if mb['eid'] != eid or mb['walk'] != ('ok', chain) or mb['list'] != lst:
            ctx.mismatch(stream, case, {'what': 'extension chain of block %d' % i, 'impl': [eid, chain, lst],
                                        'model': [mb['eid'], mb['walk'], mb['list']]})
            return
        try:
            b = seq.get_block(i)
        except Exception as e:  # noqa: BLE001
            if mb['dec'] is not None:
                ctx.mismatch(stream, case, {'what': 'get_block(%d) raises %r, the model decodes the chain' % (i, e)})
                return
            continue     # both fail (a dangling reference): the oracle has reported it
        il = [(l.type == 'labelset', labels().index(l.label) + 1, int(l.value)) for l in (getattr(b, 'label', None) or {}).values()]
        it = []
        for tr in getattr(b, 'trigger', {}).values():
            typ = ['output', 'trigger'].index(tr.type) + 1
            ch = (OUT_CH if typ == 1 else TRIG_CH).index(tr.channel) + 1
            it.append([float(typ), float(ch), float(tr.delay), float(tr.duration)])
        if mb['dec'] is None or list(mb['dec'][0]) != il or [list(x) for x in mb['dec'][1]] != it:
            ctx.mismatch(stream, case, {'what': 'decoded extensions of block %d (order matters)' % i,
                                        'impl': [il, it], 'model': mb['dec']})
            return
    for mode, me in zip(MODES, mevals):
        try:
            r = seq.evaluate_labels(init=dict((l, v) for l, v in init) if init else None, evolution=mode)
        except Exception as e:  # noqa: BLE001
            if me is not None:
                ctx.mismatch(stream, case, {'what': 'evaluate_labels raises %r, the model evaluates' % (e,), 'mode': mode})
            return
        got, arr, order = canon_result(r)
        if me is None:
            ctx.mismatch(stream, case, {'what': 'model eval_store failed', 'mode': mode})
            return
        marr, mres = me
        mg = [(labels()[k - 1], vs) for k, vs in mres]
        if [k for k, _ in mg] != order or dict(mg) != got or (got and marr != arr):
            ctx.mismatch(stream, case, {'what': 'evaluate_labels', 'mode': mode, 'init': init, 'impl': [order, got, arr],
                                        'model': [mg, marr]})
            return


# ---- one program through everything -------------------------------------------------------------------
def run_program(ctx, case, pending):
    import pypulseq as pp
    s = Single(pp.Opts())
    expect = []
    for spec in case['blocks']:
        evs = build_block(spec)
        rec = s.add(evs)
        if rec['outcome'][0] != 'ok':
            ctx.fail('C19/add_block-raises', case, {'block': len(expect) + 1, 'error': rec['outcome'][1]})
            return
        expect.append(spec_multisets(spec) if case.get('spec_expect') else added_multisets(evs))
    for i in list(s.on.block_events.keys()):
        s.get(i)
    check_sequence(ctx, case, s.on, expect, 'stored')
    if case.get('dedup'):
        # in-place duplicate removal must not change any label / trigger (their libraries are not rounded)
        rec = s.dedup_in_place()
        if rec['outcome'][0] != 'ok':
            ctx.fail('C19/remove_duplicates-raises', case, {'error': rec['outcome'][1]})
            return
        for i in list(s.on.block_events.keys()):
            s.get(i)
        check_sequence(ctx, case, s.on, expect, 'deduped')
        ctx.count('programs.dedup_in_place')
    init = case['init']
    if ctx.model_available:
        pending.append((case, s, init, 'history'))
    # write + read into a fresh object
    s2 = None
    with tempfile.TemporaryDirectory(prefix='pvC19') as d:
        fn = os.path.join(d, 'a.seq')
        try:
            s.on.write(fn, create_signature=False)
            seq2 = pp.Sequence(pp.Opts())
            seq2.read(fn)
            s2 = seq2
        except Exception as e:  # noqa: BLE001
            ctx.fail('C19/int32-write-read-raises' if case['stream'] == 'int32' else 'C19/write-read-raises', case,
                     {'exception': repr(e)[:300]})
    if s2 is not None:
        r = Single(seq=s2)
        r.loaded()
        for i in list(s2.block_events.keys()):
            r.get(i)
        check_sequence(ctx, case, s2, expect, 'reread')
        if case['stream'] != 'int32':
            # theorem C19_eval_labels_reread: the label program is literally the same after the file, so the
            # result is the same for EVERY program (also with several operations per label and block)
            for mode in MODES:
                a = canon_result(s.on.evaluate_labels(evolution=mode))
                b = canon_result(s2.evaluate_labels(evolution=mode))
                if a != b:
                    if one_op(case):
                        ctx.fail('C19/reread-evaluate-differs', case, {'mode': mode, 'before': a, 'after': b})
                    else:
                        ctx.mismatch('reread-evaluate-differs', case, {'mode': mode, 'before': a, 'after': b})
                    break
        if ctx.model_available and case['stream'] != 'int32':
            pending.append((case, s, r.records[0]['state'], 'filemodel'))
        post_ok = True
        if case.get('post'):
            # continue building on the re-read object: kinds of extensions already in the file and new ones
            expect2 = list(expect)
            for spec in case['post']:
                evs = build_block(spec)
                rec = r.add(evs)
                if rec['outcome'][0] != 'ok':
                    ctx.fail('C19/extended-add_block-raises', case, {'block': len(expect2) + 1, 'error': rec['outcome'][1]})
                    post_ok = False
                    break
                expect2.append(spec_multisets(spec) if case.get('spec_expect') else added_multisets(evs))
            if post_ok:
                for i in list(s2.block_events.keys()):
                    r.get(i)
                post_ok = check_sequence(ctx, case, s2, expect2, 'extended')
                ctx.count('blocks.added_after_reload', len(case['post']))
        if ctx.model_available and case['stream'] != 'int32':
            pending.append((case, r, init, 'reread'))
        if case.get('post') and post_ok:
            s3 = None
            with tempfile.TemporaryDirectory(prefix='pvC19') as d:
                fn = os.path.join(d, 'b.seq')
                try:
                    s2.write(fn, create_signature=False)
                    s3 = pp.Sequence(pp.Opts())
                    s3.read(fn)
                except Exception as e:  # noqa: BLE001
                    ctx.fail('C19/extended-write-read-raises', case, {'exception': repr(e)[:300]})
                    s3 = None
            if s3 is not None:
                r3 = Single(seq=s3)
                r3.loaded()
                for i in list(s3.block_events.keys()):
                    r3.get(i)
                check_sequence(ctx, case, s3, expect2, 'extended-reread')
                if ctx.model_available:
                    pending.append((case, r3, init, 'extended-reread'))
    nlab = sum(1 for b in case['blocks'] if b['ops'])
    shared = len({int(v[6]) for v in s.on.block_events.values() if v[6]}) < sum(1 for v in s.on.block_events.values() if v[6])
    multi_entry = any(int(v[2]) != 0 for v in s.on.extensions_library.data.values())
    ctx.evaluated((case['stream'], repr(case['blocks']), repr(case['init'])), nontrivial=nlab >= 2 and (shared or multi_entry))
    ctx.count('stream.' + case['stream'])
    ctx.count('blocks.total', len(case['blocks']))
    ctx.count('blocks.with_labels', nlab)
    ctx.count('blocks.with_triggers', sum(1 for b in case['blocks'] if b['trigs']))
    ctx.count('blocks.sharing_ext_id' if shared else 'programs.no_sharing')
    ctx.count('ops.SET', sum(1 for b in case['blocks'] for o in b['ops'] if o[0] == 'SET'))
    ctx.count('ops.INC', sum(1 for b in case['blocks'] for o in b['ops'] if o[0] == 'INC'))
    ctx.count('values.negative', sum(1 for b in case['blocks'] for o in b['ops'] if int(o[2]) < 0))
    ctx.count('values.zero', sum(1 for b in case['blocks'] for o in b['ops'] if int(o[2]) == 0))
    ctx.count('values.bool', sum(1 for b in case['blocks'] for o in b['ops'] if isinstance(o[2], bool)))
    ctx.count('ext.max_chain_len.%d' % min(6, max([0] + [len(b['ops']) + len(b['trigs']) for b in case['blocks']])))


def compare_filemodel(ctx, case, state2, out, stream='filemodel'):
    """the extension part of the store after write + read into a fresh Sequence: implementation vs the Coq file
    model (Model/ExtFile.v: write_ext, read_ext)"""
    t = Toks(out)
    try:
        mc = t.opt(lambda: sm.p_core(t))
    except Exception as e:  # noqa: BLE001
        ctx.mismatch(stream, case, {'what': 'cannot parse model output: %r / %s' % (e, out[:200])})
        return
    if mc is None:
        ctx.mismatch(stream, case, {'what': 'the file model says read() raises, the implementation read the file'})
        return
    names = sm.LIBS
    for name in ('label_set_library', 'label_inc_library', 'extensions_library'):
        k = names.index(name)
        d = sm.cmp_lib(name, state2['libs'][k], mc['libs'][k])
        if d:
            ctx.mismatch(stream, case, {'what': d})
            return
    k = names.index('trigger_library')
    it, mt = state2['libs'][k], mc['libs'][k]
    bad = None
    if [i for i, _ in it['data']] != [i for i, _ in mt['data']] or it['next'] != mt['next']:
        bad = 'trigger_library ids / next id: impl %s %s model %s %s' % ([i for i, _ in it['data']], it['next'],
                                                                           [i for i, _ in mt['data']], mt['next'])
    else:
        for (i, a), (_, b) in zip(it['data'], mt['data']):
            if len(a) != 4 or len(b) != 4 or a[0] != b[0] or a[1] != b[1] or not close(a[2], b[2]) or not close(a[3], b[3]):
                bad = 'trigger_library[%d]: impl %s model %s' % (i, a, [float(x) for x in b])
                break
        if sorted(v for _, v in it['keymap']) != sorted(v for _, v in mt['keymap']):
            bad = bad or 'trigger_library keymap ids differ'
    if bad:
        ctx.mismatch(stream, case, {'what': bad})
        return
    for key in ('ext_num', 'ext_str'):
        if state2[key] != mc[key]:
            ctx.mismatch(stream, case, {'what': '%s after read: impl %s model %s' % (key, state2[key], mc[key])})
            return


def flush(ctx, pending):
    if not pending:
        return
    lines = []
    for _, s, init, stream in pending:
        if stream == 'filemodel':
            lines.append('labels.reread ' + s.header + ' ' + ' '.join([str(len(s.ops))] + s.ops))
        elif stream == 'readonto':
            hdr, oa, ob = s
            lines.append('labels.readonto ' + hdr + ' ' + ' '.join([str(len(oa))] + oa) + ' ' + ' '.join([str(len(ob))] + ob))
        else:
            lines.append(s.line(init))
    outs = ctx.model(lines)
    for (case, s, init, stream), o in zip(pending, outs):
        if stream in ('filemodel', 'readonto'):
            compare_filemodel(ctx, case, init, o, stream)
        else:
            compare_store(ctx, case, s, init, o, stream)
    del pending[:]


# ---- pure label programs: Coq evaluate_labels vs Coq interpreter vs Python oracle ----------------------
def gen_pure(rng):
    nb = rng.randint(0, 10)
    labs = rng.sample(range(1, 22), rng.randint(1, 5))
    multi = rng.random() < 0.5
    blocks = []
    for _ in range(nb):
        k = rng.choice([0, 0, 1, 1, 2, 3])
        if multi:
            ops = [[rng.random() < 0.5, rng.choice(labs), rng.randint(-9, 9)] for _ in range(k + rng.randint(0, 2))]
        else:
            ops = [[rng.random() < 0.5, l, rng.randint(-9, 9)] for l in rng.sample(labs, min(k, len(labs)))]
        blocks.append([rng.random() < 0.4, ops])
    init = [[l, rng.randint(-5, 5)] for l in rng.sample(range(1, 22), rng.choice([0, 0, 1, 2]))]
    if init and rng.random() < 0.6:
        init[0][0] = rng.choice(labs)
    return {'stream': 'pure', 'blocks': blocks, 'init': init, 'mode': rng.randrange(4)}


def pure_line(c):
    env = ' '.join([str(len(c['init']))] + ['%s %s' % (ztok(l), ztok(v)) for l, v in c['init']])
    bl = ' '.join([str(len(c['blocks']))] + ['%d %d %s' % (1 if adc else 0, len(ops), ' '.join(
        '%d %s %s' % (1 if s else 0, ztok(l), ztok(v)) for s, l, v in ops)) for adc, ops in c['blocks']])
    qs = list(range(1, 22))
    return 'labels.eval %s %d %s %s' % (env, c['mode'], bl, ' '.join([str(len(qs))] + [ztok(q) for q in qs]))


def pure_stream(ctx, rng, n):
    cases = [gen_pure(rng) for _ in range(n)]
    # several entries for one label in init cannot come from a dict: keep the first
    for c in cases:
        c['init'] = [[k, v] for k, v in dict((l, v) for l, v in reversed(c['init'])).items()][::-1]
    outs = ctx.model([pure_line(c) for c in cases]) if ctx.model_available else [None] * n
    for c, o in zip(cases, outs):
        ctx.count('stream.pure')
        ctx.evaluated(('pure', repr(c)), nontrivial=len(c['blocks']) >= 2)
        if o is None:
            continue
        t = Toks(o)
        arr = t.bool()
        res = t.list(lambda: (t.z(), t.list(t.z)))
        one = t.bool()
        iseq = t.list(lambda: t.opt(lambda: t.list(t.z)))
        ione = t.list(lambda: t.opt(lambda: t.list(t.z)))
        d = dict(res)
        for q, a, b in zip(range(1, 22), iseq, ione):
            if d.get(q) != a or (one and a != b):
                ctx.mismatch('pure', c, {'what': 'Coq evaluate_labels vs Coq interpreter', 'label': q,
                                         'evaluate': d.get(q), 'interp_seq': a, 'interp': b})
                break
        if one:
            prog = [([('labelset' if s else 'labelinc', l, v) for s, l, v in ops], adc) for adc, ops in c['blocks']]
            want, warr = oracle_eval(prog, dict((l, v) for l, v in c['init']), MODES[c['mode']])
            if want != d or (d and warr != arr) or list(want.keys()) != [k for k, _ in res]:
                ctx.mismatch('pure', c, {'what': 'Python oracle vs Coq evaluate_labels', 'oracle': [want, warr], 'model': [res, arr]})


# ---- boundary / malformed ---------------------------------------------------------------------------------
def boundary_stream(ctx):
    import pypulseq as pp
    ctx.count('stream.boundary')
    for bad in [('FOO', 'SET', 1), ('LIN', 'ADD', 1), ('LIN', 'SET', 'x'), ('lin', 'INC', 1)]:
        ctx.evaluated(('boundary', repr(bad)))
        try:
            pp.make_label(*bad)
            ctx.fail('C19/invalid-label-accepted', {'stream': 'boundary', 'args': list(bad)}, {'what': 'make_label accepted it'})
        except ValueError:
            pass
        except Exception as e:  # noqa: BLE001
            ctx.fail('C19/invalid-label-error-kind', {'stream': 'boundary', 'args': list(bad)}, {'exception': repr(e)})
    for f, ch in [(pp.make_trigger, 'osc0'), (pp.make_digital_output_pulse, 'physio1'), (pp.make_trigger, 'x')]:
        ctx.evaluated(('boundary', f.__name__, ch))
        try:
            f(ch)
            ctx.fail('C19/invalid-channel-accepted', {'stream': 'boundary', 'fn': f.__name__, 'channel': ch}, {})
        except ValueError:
            pass
    # int32 extremes, float and bool values, duration clamp at the raster, every label once
    specs = [
        {'ops': [['SET', 'LIN', 2 ** 31 - 1], ['INC', 'PAR', -2 ** 31 + 100]], 'trigs': [['trigger', 'physio1', 0, 1]], 'extra': [], 'order': 0.1},
        {'ops': [['SET', 'SLC', 2.9], ['INC', 'REP', -2.9], ['SET', 'NOISE', True], ['SET', 'REF', False]],
         'trigs': [['output', 'osc0', 0, 10], ['output', 'osc0', 0, 11]], 'extra': [['adc', 16, 1e-5, 0]], 'order': 0.5},
        {'ops': [['INC', l, i - 10] for i, l in enumerate(labels())], 'trigs': [['output', 'ext1', 5, 7], ['trigger', 'physio2', 7, 5]],
         'extra': [], 'order': 0.9},
        {'ops': [], 'trigs': [], 'extra': [], 'order': 0.3},
    ]
    case = {'stream': 'boundary', 'blocks': specs, 'init': [['LIN', 0], ['TRID', -7]]}
    # LIN is SET to 2^31-1 and never incremented afterwards, PAR starts at 0: no int32 wrap involved
    pending = []
    run_program(ctx, case, pending)
    flush(ctx, pending)


def int32_stream(ctx, rng):
    """label values / sums outside int32: the writer prints them, the reader must give them back"""
    def blk(ops, adc=True):
        return {'ops': ops, 'trigs': [], 'extra': [['adc', 16, 1e-5, 0]] if adc else [], 'order': 0.0}
    big = rng.choice([2 ** 31, 2 ** 31 + rng.randint(1, 10 ** 6), 2 ** 40 + rng.randint(0, 99), -2 ** 31 - rng.randint(1, 10 ** 6)])
    cases = [
        {'stream': 'int32', 'init': [], 'blocks': [blk([['SET', 'LIN', big]])]},
        {'stream': 'int32', 'init': [], 'blocks': [blk([['INC', 'LIN', 2 ** 30]]), blk([['INC', 'LIN', 2 ** 30]]), blk([['INC', 'LIN', 2 ** 30]])]},
        {'stream': 'int32', 'init': [], 'blocks': [blk([['SET', 'PAR', 2 ** 31 - 1]]), blk([['INC', 'PAR', rng.randint(1, 9)]], adc=False)]},
        {'stream': 'int32', 'init': [['SLC', 2 ** 31 - 1]], 'blocks': [blk([['INC', 'SLC', 1]])]},
    ]
    pending = []
    for c in cases:
        run_program(ctx, c, pending)
    flush(ctx, pending)


def corpus():
    c1 = {'stream': 'corpus', 'init': [['LIN', 10], ['PAR', 2]], 'blocks': [
        {'ops': [['INC', 'LIN', 1], ['SET', 'SLC', 3]], 'trigs': [['trigger', 'physio1', 100, 200]], 'extra': [], 'order': 0.0},
        {'ops': [['SET', 'LIN', 5]], 'trigs': [], 'extra': [['adc', 16, 1e-5, 0]], 'order': 0.2},
        {'ops': [['SET', 'SLC', 3], ['INC', 'LIN', 1]], 'trigs': [['trigger', 'physio1', 100, 200]], 'extra': [['adc', 16, 1e-5, 0]], 'order': 0.7},
        {'ops': [['INC', 'REP', -2]], 'trigs': [['output', 'osc1', 0, 100], ['trigger', 'physio1', 100, 200]], 'extra': [], 'order': 0.4},
        {'ops': [['SET', 'NOISE', True]], 'trigs': [], 'extra': [['adc', 16, 1e-5, 0]], 'order': 0.9},
        {'ops': [], 'trigs': [], 'extra': [], 'order': 0.5}]}
    c2 = {'stream': 'corpus', 'init': [], 'blocks': [
        {'ops': [['SET', 'LIN', 5], ['INC', 'LIN', 1]], 'trigs': [], 'extra': [['adc', 16, 1e-5, 0]], 'order': 0.0},
        {'ops': [['INC', 'LIN', 1], ['SET', 'LIN', 5]], 'trigs': [], 'extra': [['adc', 16, 1e-5, 0]], 'order': 0.0}]}
    c3 = {'stream': 'corpus', 'init': [['ECO', 3]], 'blocks': [{'ops': [], 'trigs': [], 'extra': [], 'order': 0.0}]}
    c4 = {'stream': 'corpus', 'init': [], 'first_use': ['INC', 'SET', 'TRG'], 'kinds_before_reload': 2, 'blocks': [
        {'ops': [['INC', 'LIN', 1]], 'trigs': [], 'extra': [], 'order': 0.0},
        {'ops': [['SET', 'LIN', 0], ['INC', 'PAR', 1]], 'trigs': [], 'extra': [['adc', 16, 1e-5, 0]], 'order': 0.0}],
        'post': [{'ops': [], 'trigs': [['trigger', 'physio1', 0, 2000]], 'extra': [], 'order': 0.0},
                 {'ops': [['SET', 'LIN', 0]], 'trigs': [['output', 'osc0', 0, 100]], 'extra': [], 'order': 0.3}]}
    return [c1, c2, c3, c4]


def run(ctx):
    n_prog = {'quick': 400, 'thorough': 12000}[ctx.tier]
    pending = []
    for c in corpus():
        run_program(ctx, c, pending)
    flush(ctx, pending)
    boundary_stream(ctx)
    int32_stream(ctx, ctx.rng('int32'))
    # the three program streams are interleaved (8 : 3 : 2), so that a time-boxed or escalated run reaches all of them:
    #   main / multi programs; continue building on a re-read sequence; object history (one Sequence object is filled,
    #   read()s other files, and is filled again)
    rngc = ctx.rng('continue')
    rngr = ctx.rng('reuse')
    rngt = ctx.rng('twoseq')
    rng = ctx.rng('programs')
    rngm = ctx.rng('multi')
    n_cont = n_reuse = 0
    for n in range(n_prog):
        if ctx.out_of_time():
            ctx.notes.append('time budget reached after %d rounds' % n)
            break
        multi = n % 4 == 3
        case = gen_program(rngm if multi else rng, ctx.tier, multi=multi)
        run_program(ctx, case, pending)
        if n % 50 == 1:
            ctx.sample({'stream': case['stream'], 'blocks': [[b['ops'], b['trigs']] for b in case['blocks'][:4]], 'init': case['init']})
        if n % 8 in (0, 3, 6):
            case = gen_continue(rngc, ctx.tier)
            ctx.count('continue.first_use.' + '-'.join(case['first_use']) + '/%d' % case['kinds_before_reload'])
            run_program(ctx, case, pending)
            n_cont += 1
            if n_cont == 4:
                ctx.sample({'stream': 'continue', 'first_use': case['first_use'], 'pre': [[b['ops'], b['trigs']] for b in case['blocks'][:3]],
                            'post': [[b['ops'], b['trigs']] for b in case['post'][:3]]})
        if n % 8 in (2, 7):
            run_twoseq(ctx, gen_twoseq(rngt, ctx.tier), pending)
        if n % 8 in (1, 5):
            case = gen_reuse(rngr, ctx.tier)
            run_reuse(ctx, case, pending)
            n_reuse += 1
            if n_reuse == 3:
                ctx.sample({'stream': 'reuse', 'pre': [[b['ops'], b['trigs']] for b in case['blocks'][:2]],
                            'files': [[f['flavour'], [[b['ops'], b['trigs']] for b in f['blocks'][:2]]] for f in case['files']],
                            'post': [[b['ops'], b['trigs']] for b in case['post'][:2]]})
        if len(pending) >= 60:
            flush(ctx, pending)
    flush(ctx, pending)
    # (an escalated or time-boxed thorough run keeps the pure stream at quick size)
    pure_stream(ctx, ctx.rng('pure'), 3000 if (ctx.tier == 'quick' or ctx.out_of_time()) else 40000)


def replay(ctx, case):
    if case.get('stream') == 'pure':
        return {'note': 'pure model-level case; re-run ./check C19', 'case': case}
    if 'blocks' not in case:
        return {'note': 'no program in this case', 'case': case}
    pending = []
    if 'files' in case:
        run_reuse(ctx, case, pending)
    elif 'seq1' in case:
        run_twoseq(ctx, case, pending)
    else:
        run_program(ctx, case, pending)
    flush(ctx, pending)
    return {'failures': [f['signature'] for f in ctx.failures], 'mismatches': len(ctx.mismatches)}
