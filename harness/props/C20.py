"""C20 — PNS prediction equals the SAFE model applied to the sequence gradients."""
import math
import time
from fractions import Fraction
from types import SimpleNamespace

import numpy as np

from common import F, qtok, Toks

ID = 'C20'
GEN_SECTIONS = ['GenPns', 'FP_pns']
COQ_TARGETS = ['Props/C20.vo']
EXTRACT_TARGETS = ['Extract/Ex_pns.vo']
RUNNER = 'pns'
LEVEL = 'proof'
MANIFEST = {
    'text': "Theorems (Coq, all sample lists of all lengths, all weights/time constants/gamma/raster): the truncated "
            "FIR of safe_tau_lowpass equals the recursive first-order low-pass when the tap count covers the signal and "
            "differs from it by at most M(1-alpha)^n otherwise; zero padding and its NaN-mask removal are invisible "
            "(sample k uses (g_k-g_{k-1})/(gamma dt), g_{-1}=0) whenever pad1>=1, with one output per raster interval; "
            "the chain is positively homogeneous of degree 1, each axis depends on its own gradient only, ok holds "
            "exactly when every squared norm is below 1, the two percent factors cancel. alpha, the three branch "
            "expressions, padding arithmetic, raster-centre offset and the strictness of ok are re-read from the source "
            "on every run. End-to-end theorem: every returned component equals the SAFE recursive model on the "
            "centre-sampled gradient within the truncation bound (2*eps*M*sum|a| under the tap-count condition that the "
            "harness evaluates on the implementation's own tap count); sign case and time-shift invariance proved. "
            "mod_grad_axis at model level: scaling one axis' waveform scales that component by |c|, keeps the others and "
            "the sample count. Histories on one Sequence object (fill the block cache by calculate_pns/get_block/"
            "waveforms, then mod_grad_axis/flip_grad_axis/set_block/read/remove_duplicates, then predict again; both "
            "cache settings) must give the SAFE model of the sequence as it is now. "
            "Random sequences (trapezoid/extended/arbitrary gradients, channel subsets, delays, chained "
            "non-zero block edges, rasters 10/20 us, several gamma, random hardware) run through calculate_pns and are "
            "compared with an independent exact-Fraction SAFE evaluation (recursive filter, per-event sampling at raster "
            "centres) and with the extracted Coq model.",
    'note': 'Trusted: Coq kernel; translator patterns + fingerprints of calc_pns.py / safe_pns_prediction.py / '
            'get_gradients / waveforms; extraction + driver; binary64/NumPy/SciPy PPoly arithmetic is outside the model '
            '(sampled); the np.log-based tap count is an input of the model; sqrt is avoided by comparing squares; the '
            'corner list of Sequence.waveforms() is rendered by the harness from the events (checked against '
            'waveforms() on every case).',
    'technique': 'Rocq/Coq proof over a Gallina model (induction over sample lists) + extraction-based correspondence '
                 '+ exact rational oracle',
}
BUDGET = {'quick': 70, 'thorough': 1500}
ESCALATE_BUDGET = 150
SEARCH_BUDGET = 120
MISMATCH_BUDGET = 0.0
RULE = ('sequences of 1-4 blocks with, per channel, none / trapezoid / extended trapezoid (also chained over a block '
        'edge at a non-zero amplitude) / arbitrary raster gradient, optional event delays and block delays, raster 10 or '
        '20 us, gamma from 5 nuclei (one negative), hardware with 9 random time constants, weights summing to 1 '
        '(sometimes off by <= 5e-4), random stim_limit/stim_thresh/g_scale; all numbers short decimals. Oracle: exact '
        'Fractions, recursive filter, gradient evaluated event by event at raster centres; components, norm, count and ok '
        'compared. Fixed extra streams: 8 multi-axis near-threshold cases on non-proton systems (every component < 1, norm in '
        '[0.9, 1.2]), 8 sequences written to a .seq file with a 20/5 us gradient raster and read into a default-raster '
        'Sequence, 20 histories on one object (cache warm-up, API change, second prediction), scaled (|c|) and time-shifted re-runs of ~30% of the cases. distinct = distinct cases; non-trivial = at least one axis with peak stimulation > 1e-3')
TRUSTED = ['binary64 arithmetic of NumPy/SciPy (PPoly evaluation, np.convolve, np.diff) is outside the model: sampled',
           'tap count n = min(round(log(eps)/log(1-alpha)), N) is computed by the harness with the same float formula '
           'and passed to the model; the oracle tolerance contains the exact truncation bound M(1-alpha)^n',
           'Sequence.waveforms() corner lists are an input of the model (rendered by the harness, compared with '
           'waveforms() within 1e-9 of the time/amplitude scale on every case)']
ASSUMPTIONS = ['inputs are short decimals: the implementation receives the nearest doubles, model and oracle the exact '
               'decimals; the comparison tolerance contains a noise floor 1e-9*max|g|/(gamma dt) for the cancellation in '
               'np.diff',
               'pad1 >= 1 (longest time constant >= dt/2) in the theorems about un-padding; the pad1 = 0 case is a '
               'kernel-checked counterexample and an oracle-only corpus case',
               'ok is compared only when the exact peak norm is at least 1e-6 away from 1 (the returned ok must always '
               'equal all(returned pns_norm < 1) exactly)']

AX = 'xyz'
GAMMAS = ['42576000', '42576000', '10708400', '40052000', '17235000', '-27116000', '11262000']


# ------------------------------------------------------------------------------------------------
# case generation (everything is a short decimal string or an integer count of raster units)
def dstr(rng, lo, hi, digits):
    """random decimal string in [lo, hi] with the given number of fractional digits"""
    sc = 10 ** digits
    v = rng.randint(int(round(lo * sc)), int(round(hi * sc)))
    if digits == 0:
        return '%d' % v
    return '%s%d.%0*d' % ('-' if v < 0 else '', abs(v) // sc, digits, abs(v) % sc)


def gen_hw_axis(rng, tau_hi, dyadic=None):
    taus = []
    for _ in range(3):
        if dyadic:
            # alpha = dt/(tau+dt) = 2^-j: keeps the model's exact rationals short (all denominators powers of two)
            dtms, jmax = dyadic
            taus.append(str(dtms * (2 ** rng.randint(1, jmax) - 1)))
            continue
        reg = rng.random()
        hi = tau_hi if reg < 0.6 else min(tau_hi, 0.3)
        taus.append(dstr(rng, 0.02, hi, 2 if rng.random() < 0.7 else 3))
    k1 = rng.randint(5, 60)
    k2 = rng.randint(5, 90 - k1)
    a = [Fraction(k1, 100), Fraction(k2, 100), 1 - Fraction(k1 + k2, 100)]
    rng.shuffle(a)
    if rng.random() < 0.15:
        a[rng.randrange(3)] += Fraction(rng.choice([5, -5, 3]), 10000)      # still accepted by safe_hw_check
    lim = dstr(rng, 5, 40, 1)
    return {'tau': taus, 'a': [str(x) for x in a], 'stim_limit': lim,
            'stim_thresh': str(Fraction(lim) * Fraction(4, 5)), 'g_scale': dstr(rng, 0.2, 0.4, 2)}


AMP_SCALE = [1.0]


def gen_amp(rng):
    mag = rng.choice([1e4, 1e5, 3e5, 1e6, 1.5e6]) * AMP_SCALE[0]
    return dstr(rng, -mag, mag, rng.choice([0, 1, 2]))


def gen_event(rng, small):
    kind = rng.choice(['trap', 'trap', 'ext', 'arb'])
    rmax = {2: 3, 1: 8, 0: 60}[int(small)]
    if kind == 'trap':
        a = gen_amp(rng)
        if Fraction(a) == 0:
            a = '1000'
        return {'k': 'trap', 'amp': a, 'rise': rng.randint(1, rmax),
                'flat': 0 if rng.random() < 0.3 else rng.randint(1, rmax * 2),
                'fall': rng.randint(1, rmax), 'delay': 0 if rng.random() < 0.5 else rng.randint(1, 6)}
    if kind == 'ext':
        n = rng.randint(3, 6)
        t = [0 if rng.random() < 0.6 else rng.randint(1, 5)]
        for _ in range(n - 1):
            t.append(t[-1] + rng.randint(1, rmax))
        a = ['0'] + [gen_amp(rng) for _ in range(n - 2)] + ['0']
        return {'k': 'ext', 't': t, 'a': a}
    n = rng.randint(2, {2: 5, 1: 12, 0: 80}[int(small)])
    mag = rng.choice([1e4, 1e5, 5e5]) * AMP_SCALE[0]
    if rng.random() < 0.5:
        w = [dstr(rng, -mag, mag, 1) for _ in range(n)]
    else:
        ph = rng.uniform(0, 3)
        w = ['%.1f' % (mag * math.sin(ph + 0.4 * i)) for i in range(n)]
    return {'k': 'arb', 'w': w, 'delay': 0 if rng.random() < 0.5 else rng.randint(1, 6)}


def ev_dur(e):
    if e['k'] == 'trap':
        return e['delay'] + e['rise'] + e['flat'] + e['fall']
    if e['k'] == 'ext':
        return e['t'][-1]
    return e['delay'] + len(e['w'])


def gen_case(rng, small, stream='valid', tiny=False):
    size = 2 if tiny else 1 if small else 0
    raster = rng.choice([10, 20])
    AMP_SCALE[0] = rng.choice([1.0, 0.3, 0.1, 0.03, 0.1])          # about half of the cases end with ok = True
    nb = rng.randint(1, 2 if small else 4)
    blocks = []
    chain = {}                                   # channel -> amplitude the next block must start with
    for bi in range(nb):
        ev = {}
        for ch in AX:
            if ch in chain:
                e = gen_event(rng, size)
                while e['k'] != 'ext':
                    e = gen_event(rng, size)
                e['t'] = [x - e['t'][0] for x in e['t']]
                e['a'][0] = chain[ch]
                ev[ch] = e
            elif rng.random() < 0.55:
                ev[ch] = gen_event(rng, size)
        chain = {}
        delay = 0
        if rng.random() < 0.4 or not ev:
            delay = rng.randint(1, {2: 4, 1: 12, 0: 120}[size])
        dur = max([delay] + [ev_dur(e) for e in ev.values()])
        if bi < nb - 1:
            for ch in AX:
                e = ev.get(ch)
                if e and e['k'] == 'ext' and rng.random() < 0.35:
                    v = gen_amp(rng)
                    if Fraction(v) != 0:
                        e['t'][-1] = dur          # ends at the block edge ...
                        e['a'][-1] = v            # ... at a non-zero amplitude
                        chain[ch] = v
        blocks.append({'delay': delay, 'ev': ev})
    if not any(b['ev'] for b in blocks):
        blocks[0]['ev']['x'] = gen_event(rng, size)
    tau_hi = 0.12 if small else rng.choice([0.3, 1.0, 3.0])
    dyadic = None
    if small and (tiny or rng.random() < 0.8):
        dyadic = (Fraction(raster, 1000), 3 if tiny else 4)
    case = {'stream': stream, 'raster_us': raster, 'gamma': rng.choice(GAMMAS),
            'hw': {ax: gen_hw_axis(rng, tau_hi, dyadic) for ax in AX}, 'blocks': blocks}
    return case


def corpus():
    hw0 = {'tau': ['0.20', '0.03', '3.00'], 'a': ['0.40', '0.10', '0.50'], 'stim_limit': '30.0', 'stim_thresh': '24.0',
           'g_scale': '0.35'}
    hw1 = {'tau': ['1.50', '2.50', '0.15'], 'a': ['0.55', '0.15', '0.30'], 'stim_limit': '15.0', 'stim_thresh': '12.0',
           'g_scale': '0.31'}
    hw2 = {'tau': ['2.00', '0.12', '1.00'], 'a': ['0.42', '0.40', '0.18'], 'stim_limit': '25.0', 'stim_thresh': '20.0',
           'g_scale': '0.25'}
    ex = {'x': hw0, 'y': hw1, 'z': hw2}                      # safe_example_hw()
    sm = {ax: dict(h, tau=['0.05', '0.03', '0.09']) for ax, h in ex.items()}
    tr = {'k': 'trap', 'amp': '300000', 'rise': 10, 'flat': 20, 'fall': 5, 'delay': 3}
    cs = [
        {'stream': 'corpus', 'raster_us': 10, 'gamma': '42576000', 'hw': ex,
         'blocks': [{'delay': 0, 'ev': {'x': tr}}, {'delay': 10, 'ev': {}},
                    {'delay': 0, 'ev': {'y': {'k': 'arb', 'w': ['10000', '50000', '30000', '-20000', '0'], 'delay': 0}}}]},
        {'stream': 'corpus', 'raster_us': 10, 'gamma': '42576000', 'hw': sm,
         'blocks': [{'delay': 0, 'ev': {'x': dict(tr, rise=3, flat=4, fall=2),
                                        'z': {'k': 'ext', 't': [0, 2, 5, 12], 'a': ['0', '200000', '-100000.5', '150000']}}},
                    {'delay': 0, 'ev': {'z': {'k': 'ext', 't': [0, 4, 6], 'a': ['150000', '150000', '0']}}}]},
        # very first raster interval already non-zero: arbitrary gradient starting at t = 0
        {'stream': 'corpus', 'raster_us': 20, 'gamma': '10708400', 'hw': sm,
         'blocks': [{'delay': 0, 'ev': {'y': {'k': 'arb', 'w': ['400000', '400000', '400000', '0'], 'delay': 0}}}]},
    ]
    # boundary: longest time constant below dt/2 -> pad1 = round(tau/dt) = 0
    tiny = {ax: dict(h, tau=['0.004', '0.003', '0.002']) for ax, h in ex.items()}
    cs.append({'stream': 'pad1zero', 'raster_us': 10, 'gamma': '42576000', 'hw': tiny,
               'blocks': [{'delay': 0, 'ev': {'y': {'k': 'arb', 'w': ['400000', '400000', '100000', '0'], 'delay': 0}}}]})
    # boundary: no gradient at all / weights not summing to 1
    cs.append({'stream': 'nograd', 'raster_us': 10, 'gamma': '42576000', 'hw': sm, 'blocks': [{'delay': 10, 'ev': {}}]})
    bad = {ax: dict(h) for ax, h in sm.items()}
    bad['y'] = dict(bad['y'], a=['0.55', '0.15', '0.32'])
    cs.append({'stream': 'badweights', 'raster_us': 10, 'gamma': '42576000', 'hw': bad,
               'blocks': [{'delay': 0, 'ev': {'x': tr}}]})
    return cs


# ------------------------------------------------------------------------------------------------
# implementation driver
def fl(s):
    return float(Fraction(s))


def tsec(units, raster_us):
    return units * raster_us / 1e6            # correctly rounded: nearest double of the decimal time


def make_hw(case, scale_tau=None):
    hw = SimpleNamespace(name='gen', checksum='0', dependency='')
    for ax in AX:
        h = case['hw'][ax]
        o = SimpleNamespace(tau1=fl(h['tau'][0]), tau2=fl(h['tau'][1]), tau3=fl(h['tau'][2]),
                            a1=fl(h['a'][0]), a2=fl(h['a'][1]), a3=fl(h['a'][2]),
                            stim_limit=fl(h['stim_limit']), stim_thresh=fl(h['stim_thresh']), g_scale=fl(h['g_scale']))
        setattr(hw, ax, o)
    return hw


def make_system(case):
    import pypulseq as pp
    r = case['raster_us']
    return pp.Opts(max_grad=1e12, grad_unit='Hz/m', max_slew=1e18, slew_unit='Hz/m/s', grad_raster_time=r / 1e6,
                   block_duration_raster=r / 1e6, gamma=fl(case['gamma']))


def block_events(b, r, system, c=Fraction(1)):
    import pypulseq as pp
    evs = []
    for ch in AX:
        e = b['ev'].get(ch)
        if e is None:
            continue
        if e['k'] == 'trap':
            evs.append(pp.make_trapezoid(ch, amplitude=float(c * Fraction(e['amp'])), rise_time=tsec(e['rise'], r),
                                         flat_time=tsec(e['flat'], r), fall_time=tsec(e['fall'], r),
                                         delay=tsec(e['delay'], r), system=system))
        elif e['k'] == 'ext':
            evs.append(pp.make_extended_trapezoid(ch, amplitudes=np.array([float(c * Fraction(a)) for a in e['a']]),
                                                  times=np.array([tsec(t, r) for t in e['t']]), system=system,
                                                  skip_check=True))
        else:
            evs.append(pp.make_arbitrary_grad(ch, np.array([float(c * Fraction(w)) for w in e['w']]), first=0.0,
                                              last=0.0, delay=tsec(e['delay'], r), system=system))
    if b['delay']:
        evs.append(pp.make_delay(tsec(b['delay'], r)))
    return evs


def build_seq(case, gscale=None, cache=True):
    import pypulseq as pp
    r = case['raster_us']
    system = make_system(case)
    c = Fraction(1) if gscale is None else Fraction(gscale)
    seq = pp.Sequence(system, use_block_cache=cache)
    for b in case['blocks']:
        seq.add_block(*block_events(b, r, system, c))
    return seq


def reread(case, seq):
    """write the sequence (its own gradient raster is in the file's [DEFINITIONS]) and read it into a Sequence whose
    system has the DEFAULT rasters (10 us gradient raster) and the case's gamma"""
    import os
    import tempfile
    import pypulseq as pp
    with tempfile.TemporaryDirectory(prefix='pvC20') as d:
        fn = os.path.join(d, 'a.seq')
        seq.write(fn, create_signature=False)
        s2 = pp.Sequence(pp.Opts(gamma=fl(case['gamma'])))
        s2.read(fn)
    return s2


def run_impl(case, gscale=None):
    seq = build_seq(case, gscale)
    if case.get('via_file'):
        seq = reread(case, seq)
    ok, norm, comp, t = seq.calculate_pns(make_hw(case), do_plots=False)
    return seq, bool(ok), np.asarray(norm, dtype=float), np.asarray(comp, dtype=float), np.asarray(t, dtype=float)


# ------------------------------------------------------------------------------------------------
# exact rendering of the design (times in raster units, amplitudes as Fractions)
def block_durs(case):
    return [max([b['delay']] + [ev_dur(e) for e in b['ev'].values()]) for b in case['blocks']]


def ev_value(e, u):
    """gradient of one event at time u (raster units, relative to the block start), exact; 0 outside the event"""
    if e['k'] == 'trap':
        A = Fraction(e['amp'])
        d, r, f, fa = e['delay'], e['rise'], e['flat'], e['fall']
        if u <= d or u >= d + r + f + fa:
            return Fraction(0)
        if u < d + r:
            return A * (u - d) / r
        if u <= d + r + f:
            return A
        return A * (d + r + f + fa - u) / fa
    if e['k'] == 'ext':
        t, a = e['t'], [Fraction(x) for x in e['a']]
        if u < t[0] or u > t[-1]:
            return Fraction(0)
        for i in range(len(t) - 1):
            if t[i] <= u <= t[i + 1]:
                return a[i] + (a[i + 1] - a[i]) * (u - t[i]) / (t[i + 1] - t[i])
    if e['k'] == 'arb':
        j = u - e['delay'] - Fraction(1, 2)
        if j < 0 or j > len(e['w']) - 1:
            return Fraction(0)          # (between the edge and the first/last centre: never sampled)
        if j.denominator != 1:
            raise AssertionError('arbitrary gradient sampled off its own raster centres')
        return Fraction(e['w'][int(j)])
    return Fraction(0)


def last_grad_end(case):
    """end of the last gradient event on any channel, in raster units (None: no gradient)"""
    durs = block_durs(case)
    end, t0 = None, 0
    for b, d in zip(case['blocks'], durs):
        for e in b['ev'].values():
            end = max(end or 0, t0 + ev_dur(e))
        t0 += d
    return end


def sample_design(case, ch, nt):
    """exact gradient (Hz/m) of channel ch at the centres (k + 1/2) of the first nt raster intervals"""
    durs = block_durs(case)
    starts = [sum(durs[:i]) for i in range(len(durs))]
    out = []
    for k in range(nt):
        u = k + Fraction(1, 2)
        v = Fraction(0)
        for b, s, d in zip(case['blocks'], starts, durs):
            if s <= u < s + d and ch in b['ev']:
                v = ev_value(b['ev'][ch], u - s)
        out.append(v)
    return out


def corners(case, ch):
    """corner list of Sequence.waveforms() for the channel, exact (seconds, Hz/m); None if no gradient"""
    r = Fraction(case['raster_us'], 10 ** 6)
    durs = block_durs(case)
    pieces, t0 = [], 0
    for b, d in zip(case['blocks'], durs):
        e = b['ev'].get(ch)
        if e is not None:
            if e['k'] == 'trap':
                A = Fraction(e['amp'])
                ts = [e['delay'], e['delay'] + e['rise']]
                vs = [Fraction(0), A]
                if e['flat'] > 0:
                    ts.append(ts[-1] + e['flat'])
                    vs.append(A)
                ts.append(ts[-1] + e['fall'])
                vs.append(Fraction(0))
            elif e['k'] == 'ext':
                ts, vs = list(e['t']), [Fraction(a) for a in e['a']]
            else:
                n = len(e['w'])
                ts = [e['delay']] + [e['delay'] + j + Fraction(1, 2) for j in range(n)] + [e['delay'] + n]
                vs = [Fraction(0)] + [Fraction(w) for w in e['w']] + [Fraction(0)]
            pieces.append([((t0 + t) * r, v) for t, v in zip(ts, vs)])
        t0 += d
    if not pieces:
        return None
    out = list(pieces[0])
    for p in pieces[1:]:
        out += p if out[-1][0] < p[0][0] else p[1:]
    return out


# ------------------------------------------------------------------------------------------------
# oracle: the SAFE model written from the property text, exact Fractions, recursive filter
def iir(alpha, x):
    y, out = Fraction(0), []
    for v in x:
        y = alpha * v + (1 - alpha) * y
        out.append(y)
    return out


def safe_exact(case, gs):
    """gs: {axis: [g_k]} in Hz/m.  Returns {axis: [stimulation_k]} normalised to 1."""
    dt = Fraction(case['raster_us'], 10 ** 6)
    gamma = Fraction(case['gamma'])
    res = {}
    for ax in AX:
        h = case['hw'][ax]
        g = gs[ax]
        slew = [((g[k] - (g[k - 1] if k else 0)) / gamma) / dt for k in range(len(g))]       # T/m/s
        if not any(slew):
            res[ax] = [Fraction(0)] * len(g)
            continue
        dtms = dt * 1000
        al = [dtms / (Fraction(t) + dtms) for t in h['tau']]
        a = [Fraction(x) for x in h['a']]
        f1 = iir(al[0], slew)
        f2 = iir(al[1], [abs(s) for s in slew])
        f3 = iir(al[2], slew)
        res[ax] = [(a[0] * abs(p) + a[1] * q + a[2] * abs(s)) / Fraction(h['stim_limit']) * Fraction(h['g_scale'])
                   for p, q, s in zip(f1, f2, f3)]
    return res


def impl_taps(case, nt):
    """pad1, pad2 and the tap counts the implementation uses (same binary64 formula)"""
    dt = case['raster_us'] / 1e6
    taus = [fl(t) for ax in AX for t in case['hw'][ax]['tau']]
    zpt = max(taus) * 4 / 1000
    import translate
    pmin = translate.CONSTS.get('pns', {}).get('pad_min', [0, 0])
    p1, p2 = max(round(zpt / 4 / dt), pmin[0]), max(round(zpt / 1 / dt), pmin[1])
    N = p1 + nt + p2 - 1
    taps = {}
    for ax in AX:
        taps[ax] = []
        for t in case['hw'][ax]['tau']:
            alpha = (dt * 1000) / (fl(t) + dt * 1000)
            taps[ax].append(int(min(round(np.log(1e-16) / np.log(1 - alpha)), N)))
    return p1, p2, N, taps


_TAPS = {}


def probe_tap_count(tau, raster_us, N):
    """the tap count the implementation really uses, observed from outside: impulse response of safe_tau_lowpass
    (alpha (1-alpha)^k for k < n, exactly 0 afterwards)"""
    key = (tau, raster_us, N)
    if key not in _TAPS:
        from pypulseq.utils.safe_pns_prediction import safe_tau_lowpass
        x = np.zeros(N)
        x[0] = 1.0
        y = np.asarray(safe_tau_lowpass(x, fl(tau), (raster_us / 1e6) * 1000))
        nz = np.nonzero(y)[0]
        _TAPS[key] = int(nz[-1]) + 1 if len(nz) else 0
    return _TAPS[key]


def tap_side_condition(ctx, case, nt, info):
    """tap_count_ok of the theorems (C20_axis_error_under_tap_count), exact, on the implementation's own n"""
    import translate
    eps = translate.CONSTS.get('pns', {}).get('eps', Fraction(1, 10 ** 16))
    p1, p2 = info['pads']
    N = p1 + nt + p2 - 1
    dtms = Fraction(case['raster_us'], 1000)
    lines = []
    for ax in AX:
        for j, tau in enumerate(case['hw'][ax]['tau']):
            n = probe_tap_count(tau, case['raster_us'], N)
            if n != info['taps'][ax][j]:
                ctx.count('taps.formula_differs_from_probe')
                info['taps'][ax][j] = n
            alpha = dtms / (Fraction(tau) + dtms)
            r = 1 - alpha
            ok = 1 <= n <= N and (n == N or r ** (n + 1) <= eps)
            tight = n >= 1 and eps <= r ** (n - 1)
            ctx.count('taps.%s' % ('full' if n == N else 'truncated'))
            if not tight:
                ctx.count('taps.more_than_needed')
            if not ok:
                ctx.fail('C20/tap-count', case, {'axis': ax, 'filter': j + 1, 'n': n, 'N': N, 'alpha': str(alpha),
                                                 'eps': float(eps)})
                return False
            if n <= 200 and ctx.model_available and case['stream'] in ('tiny', 'small', 'corpus'):
                lines.append(('pns.tapok %d %d %s' % (n, N, qtok(alpha)), ok, tight))
    if lines:
        outs = ctx.model([ln[0] for ln in lines])
        for (ln, ok, tight), o in zip(lines, outs):
            if o.split() != ['1' if ok else '0', '1' if tight else '0']:
                ctx.mismatch('tapok', case, {'line': ln, 'model': o, 'harness': [ok, tight]})
    return True


def tolerances(case, gs, nt, taps, rel):
    """per-axis absolute tolerance: rel*peak + noise floor of the binary64 slew rate + exact FIR truncation bound"""
    dt = Fraction(case['raster_us'], 10 ** 6)
    gamma = abs(Fraction(case['gamma']))
    tol = {}
    for ax in AX:
        h = case['hw'][ax]
        g = gs[ax]
        gmax = max([abs(v) for v in g] + [Fraction(0)])
        M = max([abs(g[k] - (g[k - 1] if k else 0)) for k in range(len(g))] + [Fraction(0)]) / gamma / dt
        wsum = sum(abs(Fraction(x)) for x in h['a'])
        gain = wsum * Fraction(h['g_scale']) / Fraction(h['stim_limit'])
        dtms = dt * 1000
        trunc = Fraction(0)
        for t, n in zip(h['tau'], taps[ax]):
            r = 1 - dtms / (Fraction(t) + dtms)
            trunc = max(trunc, Fraction(float(r) ** n) * 2)            # >= (1-alpha)^n, float pow error << factor 2
        tol[ax] = (Fraction(1, 10 ** 9) * (gmax / gamma / dt + M) + M * trunc) * gain
        if case.get('via_file'):
            # the file stores amplitudes with 6 significant digits (relative 5e-6 per event) and shapes on a 1e-7
            # grid: |dg| <= 1e-5 |g| per event, events meet at a common value -> slew error <= 1e-5 (M + 3 Gmax/dt)
            tol[ax] += Fraction(1, 10 ** 5) * (M + 3 * gmax / gamma / dt) * gain
    return tol


def oracle(ctx, case, ok, norm, comp, t, expect=None):
    """the property's predicate on the implementation's outputs.  Returns (passed, info)"""
    end = last_grad_end(case)
    nt = end                                           # one value per raster interval [0, end of last gradient)
    if len(norm) != nt or comp.shape != (nt, 3) or len(t) != nt:
        sig = 'C20/count' + ('/pad1=0' if case['stream'] == 'pad1zero' else '')
        ctx.fail(sig, case, {'expected_samples': nt, 'pns_norm': len(norm), 'pns_components': list(comp.shape),
                             't': len(t)})
        return False, None
    r = case['raster_us'] / 1e6
    for k in (0, nt - 1):
        if abs(t[k] - (k + 0.5) * r) > 1e-12:
            ctx.fail('C20/time-axis', case, {'k': k, 't': float(t[k]), 'expected': (k + 0.5) * r})
            return False, None
    gs = {ax: sample_design(case, ax, nt) for ax in AX}
    ex = safe_exact(case, gs) if expect is None else expect
    p1, p2, N, taps = impl_taps(case, nt)
    tolabs = tolerances(case, gs, nt, taps, None)
    peak = {}
    for ci, ax in enumerate(AX):
        peak[ax] = max(ex[ax]) if ex[ax] else Fraction(0)
        tol = Fraction(1, 10 ** 6) * peak[ax] + tolabs[ax]
        for k in range(nt):
            if abs(F(comp[k, ci]) - ex[ax][k]) > tol:
                ctx.fail('C20/component', case, {'axis': ax, 'k': k, 'impl': float(comp[k, ci]),
                                                 'exact': float(ex[ax][k]), 'tol': float(tol), 'peak': float(peak[ax])})
                return False, None
    nsq = [sum(ex[ax][k] ** 2 for ax in AX) for k in range(nt)]
    pk = max(nsq)
    # |norm_impl - norm| <= sqrt(sum tol_ax^2) <= sum tol_ax ; compare squares: |a^2 - b^2| <= d (2 b + d)
    d = sum(Fraction(1, 10 ** 6) * peak[ax] + tolabs[ax] for ax in AX) + Fraction(1, 10 ** 12)
    sq_pk = Fraction(math.sqrt(float(pk))) * Fraction(1000001, 1000000)
    for k in range(nt):
        a2 = F(norm[k]) ** 2
        if abs(a2 - nsq[k]) > d * (2 * sq_pk + d) + Fraction(1, 10 ** 9) * pk:
            ctx.fail('C20/norm', case, {'k': k, 'impl': float(norm[k]), 'exact_sq': float(nsq[k])})
            return False, None
    # ok must be exactly the decision on the returned norm ...
    if ok != bool(np.all(norm < 1)):
        ctx.fail('C20/ok-vs-returned-norm', case, {'ok': ok, 'max_norm': float(norm.max())})
        return False, None
    # ... and the exact decision unless the exact peak is within the guard band of 1
    if abs(pk - 1) > Fraction(3, 10 ** 6) + 3 * d:
        if ok != (pk < 1):
            ctx.fail('C20/ok', case, {'ok': ok, 'exact_peak_sq': float(pk)})
            return False, None
    else:
        ctx.count('ok.guard_band_skipped.' + str(case['stream']).split('*')[0].split('>>')[0])
    return True, {'gs': gs, 'exact': ex, 'peak': peak, 'taps': taps, 'pads': (p1, p2), 'tolabs': tolabs, 'nsq': nsq}


# ------------------------------------------------------------------------------------------------
# model
def hw_toks(h):
    return ' '.join(qtok(Fraction(x)) for x in h['tau'] + h['a'] + [h['stim_limit'], h['stim_thresh'], h['g_scale']])


def wave_toks(w):
    if w is None:
        return '0'
    return '1 %d %s' % (len(w), ' '.join(qtok(t) + ' ' + qtok(v) for t, v in w))


def model_line(case, taps, mode):
    dt = Fraction(case['raster_us'], 10 ** 6)
    parts = ['pns.calc', str(mode), qtok(Fraction(case['gamma'])), qtok(dt)]
    parts += [hw_toks(case['hw'][ax]) for ax in AX]
    parts += [wave_toks(corners(case, ax)) for ax in AX]
    parts += ['3 %d %d %d' % tuple(taps[ax]) for ax in AX]
    return ' '.join(parts)


def parse_model(o):
    t = Toks(o)
    tag = t.next()
    if tag != 'OK':
        return {'err': t.next() if t.more() else tag}
    ok = t.bool()
    p1, p2 = t.int(), t.int()
    nsq = t.list(t.q)
    return {'ok': ok, 'pads': (p1, p2), 'nsq': nsq, 'x': t.list(t.q), 'y': t.list(t.q), 'z': t.list(t.q)}


def compare_model(ctx, case, mo, ok, norm, comp, info, stream):
    if 'err' in mo:
        ctx.mismatch(stream, case, {'model': mo['err'], 'impl': 'returned %d samples' % len(norm)})
        return
    nt = len(norm)
    if mo['pads'] != tuple(info['pads']):
        ctx.mismatch(stream, case, {'pads_model': mo['pads'], 'pads_impl_formula': info['pads']})
        return
    for ci, ax in enumerate(AX):
        mv = mo[ax]
        if len(mv) != nt:
            ctx.mismatch(stream, case, {'axis': ax, 'len_model': len(mv), 'len_impl': nt})
            return
        scale = max([abs(v) for v in mv] + [Fraction(0)])
        tol = Fraction(1, 10 ** 9) * scale + info['tolabs'][ax] + Fraction(1, 10 ** 12)
        for k in range(nt):
            if abs(mv[k] - F(comp[k, ci])) > tol:
                ctx.mismatch(stream, case, {'axis': ax, 'k': k, 'model': float(mv[k]), 'impl': float(comp[k, ci]),
                                            'tol': float(tol)})
                return
    pk = max(mo['nsq']) if mo['nsq'] else Fraction(0)
    for k in range(nt):
        if abs(mo['nsq'][k] - F(norm[k]) ** 2) > Fraction(1, 10 ** 8) * pk + Fraction(1, 10 ** 12):
            ctx.mismatch(stream, case, {'k': k, 'normsq_model': float(mo['nsq'][k]), 'norm_impl': float(norm[k])})
            return
    if mo['ok'] != ok:
        if abs(pk - 1) < Fraction(1, 10 ** 5):
            ctx.benign_divergence(stream, case, {'ok_model': mo['ok'], 'ok_impl': ok, 'peak_sq': float(pk)})
        else:
            ctx.mismatch(stream, case, {'ok_model': mo['ok'], 'ok_impl': ok, 'peak_sq': float(pk)})


def check_waveforms(ctx, case, seq):
    """the corner lists handed to the model are those of Sequence.waveforms()"""
    wd = seq.waveforms()
    for ci, ax in enumerate(AX):
        c = corners(case, ax)
        w = wd[ci]
        if c is None:
            if w.shape[1] != 0:
                ctx.mismatch('waveforms', case, {'axis': ax, 'harness': None, 'impl_points': int(w.shape[1])})
                return False
            continue
        if w.shape[1] != len(c):
            ctx.mismatch('waveforms', case, {'axis': ax, 'harness_points': len(c), 'impl_points': int(w.shape[1])})
            return False
        vmax = max(abs(v) for _, v in c) or 1
        for j, (t, v) in enumerate(c):
            if abs(F(w[0, j]) - t) > Fraction(1, 10 ** 12) or abs(F(w[1, j]) - v) > Fraction(1, 10 ** 9) * vmax:
                ctx.mismatch('waveforms', case, {'axis': ax, 'point': j, 'harness': [float(t), float(v)],
                                                 'impl': [float(w[0, j]), float(w[1, j])]})
                return False
    return True


def boundary_case(ctx, case):
    """corpus cases outside the valid stream: exceptions / pad1 = 0"""
    try:
        seq, ok, norm, comp, t = run_impl(case)
        impl = ('OK', ok, norm, comp, t)
    except ValueError as e:
        impl = ('ValueError', str(e))
    except Exception as e:  # noqa: BLE001
        impl = ('Other', repr(e))
    ctx.evaluated(('b', case['stream']), nontrivial=True)
    ctx.count('stream.' + case['stream'])
    nt = last_grad_end(case) or 0
    _, _, _, taps = impl_taps(case, nt)
    mo = parse_model(ctx.model([model_line(case, taps, 0)])[0]) if ctx.model_available else None
    if case['stream'] == 'nograd':
        if impl[0] != 'ValueError':
            ctx.fail('C20/nograd-no-exception', case, {'impl': impl[0]})
        if mo is not None and mo.get('err') != 'NOGRAD':
            ctx.mismatch('boundary', case, {'model': mo, 'impl': impl[0]})
    elif case['stream'] == 'badweights':
        if impl[0] != 'ValueError':
            ctx.fail('C20/badweights-accepted', case, {'impl': impl[0]})
        if mo is not None and mo.get('err') != 'WEIGHTS':
            ctx.mismatch('boundary', case, {'model': mo, 'impl': impl[0]})
    elif case['stream'] == 'pad1zero':
        if impl[0] != 'OK':
            ctx.fail('C20/raises', case, {'impl': impl})
            return
        _, ok, norm, comp, t = impl
        # the faithful model reproduces the code (one sample short, shifted) ...
        if mo is not None:
            if 'err' in mo or len(mo['y']) != len(norm):
                ctx.mismatch('boundary', case, {'model_len': None if 'err' in mo else len(mo['y']), 'impl_len': len(norm)})
            else:
                for k in range(len(norm)):
                    if abs(mo['y'][k] - F(comp[k, 1])) > Fraction(1, 10 ** 9) * max(mo['y']) + Fraction(1, 10 ** 12):
                        ctx.mismatch('boundary', case, {'k': k, 'model': float(mo['y'][k]), 'impl': float(comp[k, 1])})
                        break
        # ... and the property's predicate (one value per raster interval from time zero) decides
        oracle(ctx, case, ok, norm, comp, t)


def one_case(ctx, case, with_model, mode, sample_it=False):
    try:
        seq, ok, norm, comp, t = run_impl(case)
    except Exception as e:  # noqa: BLE001
        ctx.fail('C20/raises', case, {'exception': repr(e)})
        ctx.evaluated(None, nontrivial=False)
        return
    passed, info = oracle(ctx, case, ok, norm, comp, t)
    nt = len(norm)
    ctx.count('stream.' + case['stream'])
    ctx.count('raster.%d' % case['raster_us'])
    ctx.count('samples.%s' % ('<=50' if nt <= 50 else '<=200' if nt <= 200 else '<=800' if nt <= 800 else '>800'))
    for b in case['blocks']:
        for e in b['ev'].values():
            ctx.count('event.' + e['k'])
    ctx.count('channels.%d' % len({ch for b in case['blocks'] for ch in b['ev']}))
    ctx.count('ok.%s' % ok)
    nontriv = bool(passed and max(info['peak'].values()) > Fraction(1, 1000))
    ctx.evaluated(('c', repr(sorted(case.items()))), nontrivial=nontriv)
    if not passed:
        return
    if any(n < info['pads'][0] + nt + info['pads'][1] - 1 for ax in AX for n in info['taps'][ax]):
        ctx.count('fir.truncated')
    else:
        ctx.count('fir.full')
    if not tap_side_condition(ctx, case, nt, info):
        return
    if sample_it:
        ctx.sample({'raster_us': case['raster_us'], 'gamma': case['gamma'], 'blocks': case['blocks'], 'samples': nt,
                    'ok': ok, 'peak_norm': float(norm.max()), 'taps': info['taps'], 'pads': info['pads']})
    # positive homogeneity on the implementation itself: all gradients scaled by c -> prediction scaled by |c|
    if ctx.rng_h.random() < 0.3:
        c = ctx.rng_h.choice(['-1', '2', '-0.5', '3'])
        try:
            _, ok2, norm2, comp2, t2 = run_impl(case, gscale=c)
        except Exception as e:  # noqa: BLE001
            ctx.fail('C20/raises-scaled', case, {'exception': repr(e), 'c': c})
            return
        ac = abs(Fraction(c))
        ex2 = {ax: [ac * v for v in info['exact'][ax]] for ax in AX}
        ctx.count('homogeneity.checked')
        # full oracle on the scaled run against |c| * (exact prediction of the unscaled design)
        scaled = dict(case)
        scaled['blocks'] = scale_blocks(case['blocks'], Fraction(c))
        scaled['stream'] = case['stream'] + '*' + c
        oracle(ctx, scaled, ok2, norm2, comp2, t2, expect=ex2)
    # time-shift invariance: delaying every gradient by m raster steps delays the prediction by m samples
    if ctx.rng_h.random() < 0.3 and not case.get('via_file'):
        m = ctx.rng_h.randint(1, 7)
        shifted = dict(case)
        shifted['blocks'] = [{'delay': m, 'ev': {}}] + case['blocks']
        shifted['stream'] = case['stream'] + '>>%d' % m
        try:
            _, ok3, norm3, comp3, t3 = run_impl(shifted)
        except Exception as e:  # noqa: BLE001
            ctx.fail('C20/raises-shifted', case, {'exception': repr(e), 'm': m})
            return
        ex3 = {ax: [Fraction(0)] * m + list(info['exact'][ax]) for ax in AX}
        ctx.count('timeshift.checked')
        oracle(ctx, shifted, ok3, norm3, comp3, t3, expect=ex3)
    if with_model and ctx.model_available and not case.get('via_file'):
        if not check_waveforms(ctx, case, seq):
            return
        lines = [model_line(case, info['taps'], mode)]
        if mode == 0:
            lines.append(model_line(case, info['taps'], 1))
        outs = ctx.model(lines)
        mo = parse_model(outs[0])
        compare_model(ctx, case, mo, ok, norm, comp, info, 'calc.%s' % ('conv' if mode == 0 else 'fast'))
        if mode == 0 and outs[0] != outs[1]:
            ctx.mismatch('calc.conv-vs-fast', case, {'note': 'the two proved-equal forms of the model differ'})
        ctx.count('model.%s' % ('conv+fast' if mode == 0 else 'fast'))
        # the Coq SAFE reference [safe_axis] of the end-to-end theorem is the oracle's formula: exact equality
        dt = Fraction(case['raster_us'], 10 ** 6)
        sl = ['pns.safe %s %s %s %d %s' % (qtok(Fraction(case['gamma'])), qtok(dt), hw_toks(case['hw'][ax]), nt,
                                           ' '.join(qtok(v) for v in info['gs'][ax])) for ax in AX]
        for ax, o in zip(AX, ctx.model(sl)):
            tk = Toks(o)
            ref = tk.list(tk.q)
            if ref != list(info['exact'][ax]):
                ctx.mismatch('safe-reference', case, {'axis': ax, 'note': 'Coq safe_axis differs from the oracle formula'})
                break


def scale_blocks(blocks, c):
    out = []
    for b in blocks:
        ev = {}
        for ch, e in b['ev'].items():
            e = dict(e)
            if e['k'] == 'trap':
                e['amp'] = str(c * Fraction(e['amp']))
            elif e['k'] == 'ext':
                e['a'] = [str(c * Fraction(a)) for a in e['a']]
            else:
                e['w'] = [str(c * Fraction(w)) for w in e['w']]
            ev[ch] = e
        out.append({'delay': b['delay'], 'ev': ev})
    return out


def filter_stream(ctx, rng, count):
    """safe_tau_lowpass itself against the three filter forms of the model (fir, fast, iir) on random lists"""
    from pypulseq.utils.safe_pns_prediction import safe_tau_lowpass
    lines, keep = [], []
    for _ in range(count):
        n = rng.randint(1, 40)
        x = [Fraction(rng.randint(-1000, 1000), rng.choice([1, 2, 10])) for _ in range(n)]
        tau = Fraction(rng.randint(1, 30), 100)
        dtms = Fraction(rng.choice([1, 2]), 100)
        eps = rng.choice([1e-16, 1e-3, 0.05, 0.3])             # large eps: really truncated filters
        xf = np.array([float(v) for v in x])
        y = safe_tau_lowpass(xf, float(tau), float(dtms), eps=eps)
        alpha = dtms / (tau + dtms)
        af = float(dtms) / (float(tau) + float(dtms))
        taps = int(min(round(np.log(eps) / np.log(1 - af)), n))
        if taps < 1:
            continue
        lines.append('pns.lowpass %s %d %d %s' % (qtok(alpha), taps, n, ' '.join(qtok(v) for v in x)))
        keep.append((x, alpha, taps, y))
    if not lines or not ctx.model_available:
        return
    outs = ctx.model(lines)
    for (x, alpha, taps, y), o in zip(keep, outs):
        t = Toks(o)
        fir, fast, ii = t.list(t.q), t.list(t.q), t.list(t.q)
        case = {'stream': 'filter', 'x': [str(v) for v in x], 'alpha': str(alpha), 'taps': taps}
        ctx.evaluated(('f', repr(case)), nontrivial=True)
        ctx.count('stream.filter')
        ctx.count('filter.%s' % ('truncated' if taps < len(x) else 'full'))
        M = max(abs(v) for v in x)
        bad = None
        if fir != fast:
            bad = {'note': 'fir and fast forms differ'}
        elif len(fir) != len(y):
            bad = {'len_model': len(fir), 'len_impl': len(y)}
        else:
            for k in range(len(y)):
                if abs(fir[k] - F(y[k])) > Fraction(1, 10 ** 9) * M + Fraction(1, 10 ** 12):
                    bad = {'k': k, 'model': float(fir[k]), 'impl': float(y[k])}
                    break
                # theorem fir_truncation_bound, evaluated on the model's own outputs
                if abs(fir[k] - ii[k]) > M * (1 - alpha) ** taps:
                    bad = {'k': k, 'note': 'truncation bound violated by the model', 'fir': float(fir[k]), 'iir': float(ii[k])}
                    break
        if bad:
            ctx.mismatch('filter', case, bad)


def threshold_case(ctx, rng):
    """a peak norm of exactly 1.0 (binary64): ok must be False (strict <); oracle on the returned values only"""
    case = corpus()[2]
    case = dict(case, stream='threshold')
    hw = make_hw(case)
    seq = build_seq(case)
    ok, norm, comp, t = seq.calculate_pns(hw, do_plots=False)
    pk = float(norm.max())
    for ax in AX:
        getattr(hw, ax).stim_limit *= pk
    hit = False
    for it in range(200):
        ok, norm, comp, t = seq.calculate_pns(hw, do_plots=False)
        pk = float(norm.max())
        if pk == 1.0:
            hit = True
            break
        for ax in AX:
            o = getattr(hw, ax)
            o.stim_limit = float(np.nextafter(o.stim_limit, np.inf if pk > 1 else -np.inf))
    ctx.count('threshold.%s' % ('hit_exact_1' if hit else 'not_hit'))
    if hit:
        ctx.evaluated(('t', 'exact1'), nontrivial=True)
        if ok:
            ctx.fail('C20/ok-at-exactly-1', case, {'ok': bool(ok), 'peak_norm': pk,
                                                   'stim_limit': float(hw.y.stim_limit)})


def rescale(case, fac):
    """multiply the amplitudes of channel ch by fac[ch] (Fractions), rounded to 2 decimals"""
    def q(v, c):
        return '%.2f' % float(Fraction(round(c * Fraction(v) * 100), 100))
    out = dict(case)
    out['blocks'] = []
    for b in case['blocks']:
        ev = {}
        for ch, e in b['ev'].items():
            e = dict(e)
            c = fac[ch]
            if e['k'] == 'trap':
                e['amp'] = q(e['amp'], c)
                if Fraction(e['amp']) == 0:
                    e['amp'] = '0.01'
            elif e['k'] == 'ext':
                e['a'] = [q(a, c) for a in e['a']]
            else:
                e['w'] = [q(w, c) for w in e['w']]
            ev[ch] = e
        out['blocks'].append({'delay': b['delay'], 'ev': ev})
    return out


NONPROTON = ['10708400', '40052000', '17235000', '11262000', '-27116000', '6536000']


def exact_peaks(case):
    nt = last_grad_end(case)
    ex = safe_exact(case, {ax: sample_design(case, ax, nt) for ax in AX})
    comp = {ax: max(ex[ax]) for ax in AX}
    norm = max(sum(ex[ax][k] ** 2 for ax in AX) for k in range(nt))
    return comp, Fraction(math.sqrt(float(norm)))


def gen_near(rng, i):
    """two or three axes active in the same block, every component peak below 1, peak norm in [0.9, 1.2] and at least
    1% away from 1; non-proton gamma"""
    for attempt in range(40):
        case = gen_case(rng, True, 'near')
        case['gamma'] = NONPROTON[(i + attempt) % len(NONPROTON)]
        # same-block activity on >= 2 axes: copy the first block's first event onto further axes when missing
        b0 = case['blocks'][0]
        if not b0['ev']:
            continue
        first = next(iter(b0['ev'].values()))
        naxes = rng.choice([2, 3, 3])
        for ch in AX[:naxes]:
            if ch not in b0['ev']:
                e = dict(first)
                b0['ev'][ch] = e
        if any(e['k'] == 'ext' and Fraction(e['a'][-1]) != 0 for e in b0['ev'].values()) and len(case['blocks']) > 1:
            # a copied chained event needs its continuation: keep it simple, end it at zero
            for e in b0['ev'].values():
                if e['k'] == 'ext':
                    e['a'] = list(e['a'][:-1]) + ['0']
            for ch, e in list(case['blocks'][1]['ev'].items()):
                if e['k'] == 'ext':
                    e['a'] = ['0'] + list(e['a'][1:])
        comp, _ = exact_peaks(case)
        act = [ax for ax in AX if comp[ax] > 0]
        if len(act) < 2:
            continue
        # balance the axes, then put the norm on target
        case = rescale(case, {ax: (Fraction(rng.randint(40, 75), 100) / comp[ax] if comp[ax] > 0 else Fraction(1))
                              for ax in AX})
        comp, nrm = exact_peaks(case)
        if nrm == 0:
            continue
        target = Fraction(rng.choice([rng.randint(90, 98), rng.randint(102, 120), rng.randint(102, 120)]), 100)
        c = target / nrm
        case = rescale(case, {ax: c for ax in AX})
        comp, nrm = exact_peaks(case)
        if max(comp.values()) < Fraction(99, 100) and Fraction(9, 10) <= nrm <= Fraction(6, 5) \
                and abs(nrm - 1) > Fraction(1, 100) and len([ax for ax in AX if comp[ax] > Fraction(3, 10)]) >= 2:
            return case
    return None


# ------------------------------------------------------------------------------------------------
# histories on ONE Sequence object: fill the cache, change the sequence through the public API, predict again.
# The prediction must be the SAFE model of the sequence AS IT IS NOW, for both block-cache settings.
class _Tagged:
    """ctx proxy that tags oracle failure signatures of the history stream"""

    def __init__(self, ctx, tag):
        self._ctx, self._tag = ctx, tag

    def __getattr__(self, k):
        return getattr(self._ctx, k)

    def fail(self, sig, case, detail):
        self._ctx.fail(sig + self._tag, case, detail)


def no_chain(case):
    for b in case['blocks']:
        for e in b['ev'].values():
            if e['k'] == 'ext' and (Fraction(e['a'][0]) != 0 or Fraction(e['a'][-1]) != 0):
                return False
    return True


def scale_channel(case, ch, c):
    """exact design after mod_grad_axis(ch, c)"""
    out = dict(case)
    out['blocks'] = []
    for b in case['blocks']:
        ev = dict(b['ev'])
        if ch in ev:
            ev[ch] = scale_blocks([{'delay': 0, 'ev': {ch: ev[ch]}}], c)[0]['ev'][ch]
        out['blocks'].append({'delay': b['delay'], 'ev': ev})
    return out


def gen_plain(rng, tag, with_file_arbs=False):
    for _ in range(50):
        c = gen_case(rng, True, tag)
        if no_chain(c):
            break
    if with_file_arbs:
        for b in c['blocks']:
            for e in b['ev'].values():
                if e['k'] == 'arb':
                    e['w'] = list(e['w']) + ['0', '0']
    return c


def gen_block_with_gradient(rng):
    while True:
        for b in gen_plain(rng, 'hist')['blocks']:
            if b['ev']:
                return b


HIST_OPS = ['mod_all', 'mod_one', 'flip', 'set_block', 'read', 'dedup', 'mod_one', 'mod_all', 'flip+set', 'mod_z']
HIST_WARM = ['pns', 'get_block', 'waveforms', 'pns', 'none']


def gen_history(rng, i):
    base = gen_plain(rng, 'hist')
    if i % 3 == 0:
        # a block whose only gradient sits on z (e.g. a spoiler), besides blocks using several axes
        base['blocks'].append({'delay': 0, 'ev': {'z': gen_event(rng, 1)}})
        while base['blocks'][-1]['ev']['z']['k'] == 'ext':
            base['blocks'][-1]['ev']['z'] = gen_event(rng, 1)
    kind = HIST_OPS[i % len(HIST_OPS)]
    ops = []
    fac = rng.choice(['-1', '2', '0.5', '-0.25', '3', '-2', '0'])
    for k in kind.split('+'):
        if k == 'mod_all':
            ops += [['mod', ax, fac] for ax in AX]
        elif k == 'mod_one':
            chs = sorted({ch for b in base['blocks'] for ch in b['ev']})
            ops.append(['mod', rng.choice(chs), fac])
        elif k == 'mod_z':
            ops.append(['mod', 'z', fac])
        elif k == 'flip':
            chs = sorted({ch for b in base['blocks'] for ch in b['ev']})
            ops.append(['flip', rng.choice(chs)])
        elif k == 'set_block':
            nb = gen_block_with_gradient(rng)
            ops.append(['set', rng.randint(1, len(base['blocks'])), nb])
        elif k == 'set':
            nb = gen_block_with_gradient(rng)
            ops.append(['set', rng.randint(1, len(base['blocks'])), nb])
        elif k == 'read':
            other = gen_plain(rng, 'hist', with_file_arbs=True)
            other['raster_us'] = rng.choice([10, 20, 5])
            ops.append(['read', other])
        elif k == 'dedup':
            ops.append(['dedup'])
    warm = 'none' if i % 7 == 6 else rng.choice(HIST_WARM[:4])
    return {'base': base, 'ops': ops, 'warm': warm, 'cache': rng.random() < 0.8}


def run_history(ctx, h):
    import os
    import tempfile
    base, ops, warm, cache = h['base'], h['ops'], h['warm'], h['cache']
    tctx = _Tagged(ctx, '@history')
    seq = build_seq(base, cache=cache)
    hw = make_hw(base)
    design = dict(base)
    exact_before = None
    ctx.count('hist.warm.' + warm)
    ctx.count('hist.cache.%s' % cache)
    try:
        if warm == 'pns':
            ok, norm, comp, t = seq.calculate_pns(hw, do_plots=False)
            d0 = dict(design, stream='hist', history=h, stage='before')
            passed, info = oracle(tctx, d0, bool(ok), np.asarray(norm, float), np.asarray(comp, float), np.asarray(t, float))
            if not passed:
                return
            exact_before = info['exact']
        elif warm == 'get_block':
            for k in list(seq.block_events):
                seq.get_block(k)
        elif warm == 'waveforms':
            seq.waveforms()
        uniform = None          # all three axes scaled by the same factor: |c| * (prediction before) is expected
        loose = False
        mods = {}
        for op in ops:
            ctx.count('hist.op.' + op[0])
            if op[0] in ('mod', 'flip'):
                c = Fraction(op[2]) if op[0] == 'mod' else Fraction(-1)
                try:
                    if op[0] == 'mod':
                        seq.mod_grad_axis(op[1], float(c))
                    else:
                        seq.flip_grad_axis(op[1])
                except RuntimeError as e:
                    if 'multiple axes' in str(e):
                        ctx.count('hist.mod_refused_shared_event')     # documented refusal: sequence unchanged
                        continue
                    raise
                design = scale_channel(design, op[1], c)
                mods[op[1]] = mods.get(op[1], Fraction(1)) * c
            elif op[0] == 'set':
                design = dict(design)
                design['blocks'] = list(design['blocks'])
                design['blocks'][op[1] - 1] = op[2]
                seq.set_block(op[1], *block_events(op[2], design['raster_us'], seq.system))
                mods = None
            elif op[0] == 'read':
                other = dict(op[1], gamma=design['gamma'], hw=design['hw'])
                with tempfile.TemporaryDirectory(prefix='pvC20h') as d:
                    fn = os.path.join(d, 'b.seq')
                    build_seq(other).write(fn, create_signature=False)
                    seq.read(fn)
                design = other
                loose, mods = True, None
            elif op[0] == 'dedup':
                seq.remove_duplicates(in_place=True)
                loose = True
        ok, norm, comp, t = seq.calculate_pns(hw, do_plots=False)
    except Exception as e:  # noqa: BLE001
        ctx.fail('C20/raises@history', dict(design, stream='hist', history=h), {'exception': repr(e)})
        ctx.evaluated(None, nontrivial=False)
        return
    now = dict(design, stream='hist', history=h, stage='after')
    if loose:
        now['via_file'] = True
    expect = None
    if mods and exact_before is not None and len(set(mods.get(ax, Fraction(1)) for ax in AX)) == 1:
        # homogeneity theorem (C20_pns_homogeneous): the exact expectation is |c| times the prediction before
        ac = abs(mods.get('x', Fraction(1)))
        expect = {ax: [ac * v for v in exact_before[ax]] for ax in AX}
        ctx.count('hist.homogeneity_expectation')
    passed, info = oracle(tctx, now, bool(ok), np.asarray(norm, float), np.asarray(comp, float), np.asarray(t, float),
                          expect=expect)
    ctx.evaluated(('h', repr(h)), nontrivial=bool(passed and max(info['peak'].values()) > Fraction(1, 1000)))
    ctx.count('stream.hist')


# ------------------------------------------------------------------------------------------------
# zero-amplitude gradient events (trapezoid with amplitude exactly 0, all-zero raster shape, all-zero extended
# trapezoid): they are gradient events like any other, so the prediction still has one value per raster interval up to
# the end of the last of them (sample-count theorem), and they contribute exactly 0
def zero_event(e):
    e = dict(e)
    if e['k'] == 'trap':
        e['amp'] = '0'
    elif e['k'] == 'ext':
        e['a'] = ['0'] * len(e['a'])
    else:
        e['w'] = ['0'] * len(e['w'])
    return e


def zero_case(rng, i):
    c = gen_plain(rng, 'zero')
    durs = block_durs(c)
    spans = []                                   # (start, end, block index, channel)
    t0 = 0
    for bi, (b, d) in enumerate(zip(c['blocks'], durs)):
        for ch, e in b['ev'].items():
            st = t0 + (e['delay'] if e['k'] != 'ext' else e['t'][0])
            spans.append((st, t0 + ev_dur(e), bi, ch))
        t0 += d
    mode = ['last', 'first', 'axis', 'append', 'all', 'last', 'append'][i % 7]
    if mode == 'last':
        end = max(s[1] for s in spans)
        pick = [s for s in spans if s[1] == end]
    elif mode == 'first':
        st = min(s[0] for s in spans)
        pick = [s for s in spans if s[0] == st]
    elif mode == 'axis':
        ax = rng.choice(sorted({s[3] for s in spans}))
        pick = [s for s in spans if s[3] == ax]
    elif mode == 'all':
        pick = spans
    else:
        pick = []
        e = gen_event(rng, 1)
        while e['k'] == 'ext' and rng.random() < 0.5:
            e = gen_event(rng, 1)
        c['blocks'].append({'delay': rng.choice([0, 0, 3]), 'ev': {rng.choice(AX): zero_event(e)}})
    for _, _, bi, ch in pick:
        c['blocks'][bi]['ev'][ch] = zero_event(c['blocks'][bi]['ev'][ch])
    c['zero_mode'] = mode
    return c


# ------------------------------------------------------------------------------------------------
# long sequences: seconds of silence before same-axis gradient events that follow each other one to a few raster
# intervals apart.  Expectation by the time-shift theorem (C20_pns_time_shift): m leading silent raster intervals give m
# leading zeros followed by the prediction of the short sequence (which the exact oracle evaluates).
def long_case(rng, i):
    ax = rng.choice(AX)
    gap = [1, 2, 1, 3][i % 4]
    blocks = []
    for bi in range(rng.randint(2, 3)):
        e = gen_event(rng, 1)
        while e['k'] == 'ext':
            e = gen_event(rng, 1)
        e['delay'] = gap if bi else rng.choice([0, 2])
        ev = {ax: e}
        for ch in AX:
            if ch != ax and rng.random() < 0.4:
                o = gen_event(rng, 2)
                if o['k'] != 'ext' and ev_dur(o) <= ev_dur(e):
                    ev[ch] = o
        blocks.append({'delay': 0, 'ev': ev})           # the block ends with the event of the axis under test
    lead = gap * 120000 + rng.randint(0, 60000)          # 1.2 - 4.2 s at 10 us: gap <= 1e-5 * (absolute time)
    case = {'stream': 'long', 'raster_us': 10, 'gamma': rng.choice(GAMMAS),
            'hw': {a: gen_hw_axis(rng, 0.12) for a in AX}, 'blocks': blocks}
    return case, lead, gap


def run_long(ctx, case, lead):
    tctx = _Tagged(ctx, '@long')
    full = dict(case, blocks=[{'delay': lead, 'ev': {}}] + case['blocks'], lead=lead)
    rec = dict(case, lead=lead)
    try:
        _, ok, norm, comp, t = run_impl(full)
    except Exception as e:  # noqa: BLE001
        ctx.fail('C20/raises@long', rec, {'exception': repr(e)})
        return
    ctx.evaluated(('l', repr(rec)), nontrivial=True)
    ctx.count('stream.long')
    nt = last_grad_end(case)
    r = case['raster_us'] / 1e6
    if len(norm) != lead + nt or comp.shape != (lead + nt, 3) or len(t) != lead + nt:
        ctx.fail('C20/count@long', rec, {'expected_samples': lead + nt, 'pns_norm': len(norm), 't': len(t)})
        return
    if np.any(comp[:lead] != 0) or np.any(norm[:lead] != 0):
        ctx.fail('C20/silence-not-zero@long', rec, {'max_abs': float(np.abs(comp[:lead]).max())})
        return
    if abs(t[0] - 0.5 * r) > 1e-12 or abs(t[-1] - (lead + nt - 0.5) * r) > 1e-10:
        ctx.fail('C20/time-axis@long', rec, {'t0': float(t[0]), 't_last': float(t[-1])})
        return
    tail_t = (np.arange(nt) + 0.5) * r                 # the tail's own time axis (absolute one checked above)
    oracle(tctx, rec, ok, norm[lead:], comp[lead:], tail_t)


def file_case(rng, i):
    c = gen_case(rng, True, 'file')
    c['raster_us'] = [20, 5][i % 2]
    c['via_file'] = True
    # the 1.4 file format does not store first/last of a raster gradient: read() re-derives `last` by linear
    # extrapolation of the final two samples.  Two trailing zero samples make that extrapolation the designed 0, so the
    # waveform on the file's raster is unambiguous (what read() reconstructs otherwise belongs to C01/C08)
    for b in c['blocks']:
        for e in b['ev'].values():
            if e['k'] == 'arb':
                e['w'] = list(e['w']) + ['0', '0']
        # the block may have become longer: a gradient that ends away from zero must still end at the block edge
        # (otherwise the sequence is not a continuous waveform and the prediction is not defined by the property)
        dur = max([b['delay']] + [ev_dur(e) for e in b['ev'].values()])
        for e in b['ev'].values():
            if e['k'] == 'ext' and Fraction(e['a'][-1]) != 0:
                e['t'][-1] = dur
    return c


def run(ctx):
    ctx.rng_h = ctx.rng('homogeneity')
    for c in corpus():
        if c['stream'] == 'corpus':
            one_case(ctx, c, c['hw']['x']['tau'][2] == '0.09', 0)
        else:
            boundary_case(ctx, c)
    threshold_case(ctx, ctx.rng('threshold'))
    filter_stream(ctx, ctx.rng('filter'), {'quick': 40, 'thorough': 1500}[ctx.tier])
    # multi-axis near-threshold cases on non-proton systems (always present, fixed count)
    rng_n = ctx.rng('near')
    for i in range({'quick': 8, 'thorough': 200}[ctx.tier]):
        c = gen_near(rng_n, i)
        if c is None:
            ctx.count('near.not_constructed')
            continue
        ctx.count('near.%s' % ('above1' if exact_peaks(c)[1] > 1 else 'below1'))
        one_case(ctx, c, False, 1)
    # sequences that went through a .seq file with a gradient raster different from the loading system's
    rng_f = ctx.rng('file')
    for i in range({'quick': 8, 'thorough': 200}[ctx.tier]):
        c = file_case(rng_f, i)
        one_case(ctx, c, False, 1)
    # long sequences (seconds of silence, then same-axis events a few raster intervals apart)
    rng_l = ctx.rng('long')
    for i in range({'quick': 3, 'thorough': 40}[ctx.tier]):
        c, lead, gap = long_case(rng_l, i)
        ctx.count('long.gap%d' % gap)
        run_long(ctx, c, lead)
    # zero-amplitude gradient events at the end / start / alone on an axis / everywhere
    rng_z = ctx.rng('zero')
    for i in range({'quick': 14, 'thorough': 300}[ctx.tier]):
        c = zero_case(rng_z, i)
        ctx.count('zero.' + c['zero_mode'])
        one_case(ctx, c, i % 7 in (0, 3), 1)
    # histories on one Sequence object (cache filled, sequence changed through the API, predicted again)
    rng_hist = ctx.rng('history')
    for i in range({'quick': 20, 'thorough': 400}[ctx.tier]):
        run_history(ctx, gen_history(rng_hist, i))
    rng_s, rng_b = ctx.rng('small'), ctx.rng('big')
    n_small = {'quick': 15, 'thorough': 500}[ctx.tier]
    n_big = {'quick': 60, 'thorough': 2500}[ctx.tier]
    t_big = time.time() + (ctx.budget_s or 1e9) * 0.45          # oracle-only stream first, at most ~45% of the budget
    for i in range(n_big):
        if ctx.out_of_time() or (ctx.tier == 'quick' and time.time() > t_big):
            ctx.notes.append('big stream stopped after %d cases (time share)' % i)
            break
        one_case(ctx, gen_case(rng_b, False, 'big'), False, 1, sample_it=(i < 2))
    for i in range(n_small):
        if ctx.out_of_time():
            ctx.notes.append('time budget reached after %d small cases' % i)
            break
        tiny = i % 3 == 0
        one_case(ctx, gen_case(rng_s, True, 'tiny' if tiny else 'small', tiny=tiny), True, 0 if tiny else 1,
                 sample_it=(i < 2))


def replay(ctx, case):
    ctx.rng_h = ctx.rng('homogeneity')
    if case.get('stream') in ('nograd', 'badweights', 'pad1zero'):
        boundary_case(ctx, case)
        return {'stream': case['stream']}
    if case.get('stream') in ('filter', 'threshold'):
        return {'note': 'stream case; re-run ./check C20'}
    if case.get('stream') == 'long':
        run_long(ctx, {k: v for k, v in case.items() if k != 'lead'}, case['lead'])
        return {'stream': 'long', 'lead': case['lead']}
    if case.get('stream') == 'hist':
        run_history(ctx, case['history'])
        return {'stream': 'hist', 'ops': [o[0] for o in case['history']['ops']], 'warm': case['history']['warm'],
                'cache': case['history']['cache']}
    base = dict(case)
    if '*' in str(case.get('stream', '')):
        return {'note': 'scaled-run case; replay the unscaled case'}
    seq, ok, norm, comp, t = run_impl(base)
    passed, info = oracle(ctx, base, ok, norm, comp, t)
    res = {'samples': len(norm), 'ok': ok, 'peak_norm': float(norm.max()) if len(norm) else None, 'oracle_ok': passed}
    if passed and ctx.model_available and len(norm) <= 150:
        mo = parse_model(ctx.model([model_line(base, info['taps'], 1)])[0])
        compare_model(ctx, base, mo, ok, norm, comp, info, 'replay')
    return res
